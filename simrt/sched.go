package simrt

import (
	"fmt"
	"runtime"
	"strconv"
	"sync"
	"time"
)

// Token-passing scheduler for code running inside a testing/synctest bubble.
//
// Every goroutine started through Go() (by the harness, or by instrumented lava code whose `go`
// statements were rewritten) is a task with a deterministic id. A task runs only while it holds
// the token; at every instrumented synchronisation point it parks and the scheduler — the bubble's
// root goroutine, which regains control through synctest.Wait() once everything is durably
// blocked — picks the next task from the sorted runnable list using the tape. Mutexes are taken
// with TryLock+park, so no task ever blocks on a real mutex (which synctest cannot see through).
// Operations that really block (channel receive, select, WaitGroup.Wait, time.Sleep ...) are
// bracketed by Yield()/Resume(): the woken goroutine re-parks immediately and waits for the token.

type taskState int

const (
	tsNew taskState = iota
	tsRunning
	tsParked   // runnable, waiting for the token
	tsLockWait // runnable only after some Unlock happened
	tsBlocked  // inside a real blocking operation
	tsDone
)

type Task struct {
	ID        int
	Name      string
	state     taskState
	wake      chan struct{}
	lockEpoch int
	site      string
	harness   bool
	goid      int64
}

type Sched struct {
	R           *Run
	mu          sync.Mutex
	byGoid      map[int64]*Task
	tasks       []*Task
	cur         *Task
	unlockEpoch int
	kick        chan struct{}
	waitFn      func() // synctest.Wait
	stopped     bool
	policy      int
	stickyP     int
	last        *Task
	Quiescent   bool // set when Run ended because every harness task finished
	HorizonHit  bool
	StepsHit    bool
	adopted     int
}

var active *Sched
var activeMu sync.RWMutex

func getActive() *Sched {
	activeMu.RLock()
	s := active
	activeMu.RUnlock()
	return s
}

// NewSched installs a scheduler for the current run. wait must be synctest.Wait. Call from the
// bubble's root goroutine; call Close() before leaving the bubble.
func NewSched(r *Run, wait func()) *Sched {
	s := &Sched{R: r, byGoid: map[int64]*Task{}, kick: make(chan struct{}, 1), waitFn: wait}
	// swarm: scheduling policy per run
	s.policy = r.Draw("schedcfg", 3)
	s.stickyP = 2 + r.Draw("schedcfg", 12)
	activeMu.Lock()
	active = s
	activeMu.Unlock()
	return s
}

// Close ends the run: every task that is parked (or reaches its next scheduling point later) exits
// through runtime.Goexit, running its deferred unlocks. The scheduler stays installed (stopped)
// so that late wake-ups of this bubble's goroutines never run lava code unmanaged.
func (s *Sched) Close() {
	s.mu.Lock()
	s.stopped = true
	var wakeUp []*Task
	for _, t := range s.tasks {
		if t.state == tsParked || t.state == tsLockWait || t.state == tsNew {
			wakeUp = append(wakeUp, t)
		}
	}
	s.mu.Unlock()
	for _, t := range wakeUp {
		select {
		case t.wake <- struct{}{}:
		case <-time.After(time.Second): // fake time: the task was not at its wake channel
		}
	}
}

func (s *Sched) isStopped() bool {
	s.mu.Lock()
	defer s.mu.Unlock()
	return s.stopped
}

func goid() int64 {
	var buf [64]byte
	n := runtime.Stack(buf[:], false)
	// "goroutine 123 ["
	b := buf[:n]
	i := 10
	j := i
	for j < len(b) && b[j] >= '0' && b[j] <= '9' {
		j++
	}
	id, _ := strconv.ParseInt(string(b[i:j]), 10, 64)
	return id
}

func (s *Sched) curTask() *Task {
	g := goid()
	s.mu.Lock()
	t := s.byGoid[g]
	s.mu.Unlock()
	return t
}

// Go starts a task. Used by harnesses (s.Go) and by instrumented `go` statements (package Go).
func (s *Sched) Go(name string, harness bool, fn func()) *Task {
	s.mu.Lock()
	t := &Task{ID: len(s.tasks), Name: name, state: tsNew, wake: make(chan struct{}), harness: harness}
	s.tasks = append(s.tasks, t)
	s.mu.Unlock()
	go func() {
		g := goid()
		s.mu.Lock()
		t.goid = g
		s.byGoid[g] = t
		t.state = tsParked
		s.mu.Unlock()
		<-t.wake
		if s.isStopped() {
			s.mu.Lock()
			t.state = tsDone
			delete(s.byGoid, g)
			s.mu.Unlock()
			return
		}
		defer func() {
			p := recover()
			s.mu.Lock()
			t.state = tsDone
			delete(s.byGoid, g)
			s.mu.Unlock()
			if p != nil {
				switch x := p.(type) {
				case violationPanic:
					s.R.SetViolation(x.v.Class, x.v.Sig, x.v.Detail)
				case abortPanic:
				default:
					st := StackOf()
					s.R.SetViolation("panic", panicSig(fmt.Sprint(p), st), fmt.Sprintf("task %s: %v\n%s", t.Name, p, trimStack(st)))
				}
			}
			s.kickRoot()
		}()
		fn()
	}()
	return t
}

func (s *Sched) kickRoot() {
	select {
	case s.kick <- struct{}{}:
	default:
	}
}

// park gives up the token and waits for it.
func (s *Sched) park(t *Task, st taskState, site string) {
	s.mu.Lock()
	if s.stopped {
		s.mu.Unlock()
		runtime.Goexit()
	}
	wasBlocked := t.state == tsBlocked
	t.state = st
	t.site = site
	t.lockEpoch = s.unlockEpoch
	s.mu.Unlock()
	if wasBlocked {
		// woken from a real blocking operation that had no Resume() after it: the scheduler
		// may be idle-waiting for a kick
		s.kickRoot()
	}
	<-t.wake
	if s.isStopped() {
		runtime.Goexit()
	}
}

// Go is what instrumented `go` statements call.
func Go(site string, fn func()) {
	s := getActive()
	if s == nil {
		go fn()
		return
	}
	s.Go(site, false, fn)
}

// Yield is a scheduling point before a synchronisation operation.
func Yield(site string) {
	s := getActive()
	if s == nil {
		return
	}
	t := s.curTask()
	if t == nil {
		return
	}
	s.park(t, tsParked, site)
}

// Resume is placed right after an operation that may really block: the goroutine that was woken
// by the runtime re-parks and waits for the token.
func Resume(site string) {
	s := getActive()
	if s == nil {
		return
	}
	t := s.curTask()
	if t == nil {
		return
	}
	s.mu.Lock()
	wasBlocked := t.state == tsBlocked
	stoppedNow := s.stopped
	s.mu.Unlock()
	if stoppedNow {
		runtime.Goexit()
	}
	if !wasBlocked {
		// the operation did not block: we still hold the token
		return
	}
	s.mu.Lock()
	t.state = tsParked
	t.site = site
	stopped := s.stopped
	s.mu.Unlock()
	if stopped {
		runtime.Goexit()
	}
	s.kickRoot()
	<-t.wake
	if s.isStopped() {
		runtime.Goexit()
	}
}

// Lock acquires a mutex through TryLock + park (never blocks on the real mutex).
func Lock(lock func(), try func() bool, site string) {
	s := getActive()
	if s == nil {
		lock()
		return
	}
	t := s.curTask()
	if t == nil {
		lock()
		return
	}
	s.park(t, tsParked, site)
	for {
		if try() {
			return
		}
		s.R.Probe("lock_contended")
		s.park(t, tsLockWait, site)
	}
}

// Unlock releases a mutex, lets lock waiters retry, and is itself a scheduling point: code that
// follows an unlock (use-after-unlock windows without any other synchronisation inside) must be
// interleavable with the task that grabs the lock next.
func Unlock(unlock func()) {
	unlock()
	s := getActive()
	if s == nil {
		return
	}
	s.mu.Lock()
	s.unlockEpoch++
	stopped := s.stopped
	s.mu.Unlock()
	if stopped {
		return // never Goexit from a (possibly deferred) unlock of a finished run
	}
	if t := s.curTask(); t != nil {
		s.park(t, tsParked, "unlock")
	}
}

// Run drives the tasks until every harness task is done, the fake-time horizon passes or maxSteps
// scheduling decisions were made. Must be called from the bubble's root goroutine.
func (s *Sched) Run(horizon time.Duration, maxSteps int) {
	s.run(horizon, maxSteps, true)
}

// Drain keeps scheduling the remaining (non-harness) tasks for d of fake time, e.g. to let
// background workers finish what they were doing after the load stopped.
func (s *Sched) Drain(d time.Duration, maxSteps int) {
	s.HorizonHit, s.StepsHit = false, false
	s.run(d, maxSteps, false)
}

func (s *Sched) run(horizon time.Duration, maxSteps int, stopWhenHarnessDone bool) {
	deadline := time.Now().Add(horizon) // fake clock inside the bubble
	steps := 0
	for {
		s.waitFn() // everything else is durably blocked now
		if s.R.Violated() != nil {
			return
		}
		s.mu.Lock()
		// the task that held the token and is still "running" is blocked inside a real operation
		if s.cur != nil && s.cur.state == tsRunning {
			s.cur.state = tsBlocked
		}
		var runnable []*Task
		harnessLeft := 0
		for _, t := range s.tasks {
			switch t.state {
			case tsParked:
				runnable = append(runnable, t)
			case tsLockWait:
				if s.unlockEpoch > t.lockEpoch {
					runnable = append(runnable, t)
				}
			}
			if t.harness && t.state != tsDone {
				harnessLeft++
			}
		}
		s.mu.Unlock()
		if harnessLeft == 0 && stopWhenHarnessDone {
			s.Quiescent = true
			return
		}
		if steps >= maxSteps {
			s.StepsHit = true
			return
		}
		if len(runnable) == 0 {
			// nothing can run: let fake time advance to the next timer; a task that wakes up
			// kicks us from Resume(). With no timers left the horizon timer ends the run.
			remain := time.Until(deadline)
			if remain <= 0 {
				s.HorizonHit = true
				return
			}
			tm := time.NewTimer(remain)
			select {
			case <-s.kick:
				tm.Stop()
			case <-tm.C:
				s.HorizonHit = true
				return
			}
			continue
		}
		// drain a stale kick
		select {
		case <-s.kick:
		default:
		}
		t := s.pick(runnable)
		steps++
		s.mu.Lock()
		s.cur = t
		s.last = t
		t.state = tsRunning
		s.mu.Unlock()
		s.R.Switch(t.ID)
		t.wake <- struct{}{}
	}
}

func (s *Sched) pick(runnable []*Task) *Task {
	r := s.R
	if len(runnable) == 1 {
		return runnable[0]
	}
	switch s.policy {
	case 1: // sticky: keep running the same task, preempt with probability 1/stickyP
		for _, t := range runnable {
			if t == s.last {
				if r.Draw("sched", s.stickyP) != 0 {
					return t
				}
				break
			}
		}
	case 2: // favour the highest id (most recently created) with probability 1/2
		if r.Draw("sched", 2) == 1 {
			return runnable[len(runnable)-1]
		}
	}
	return runnable[r.Draw("sched", len(runnable))]
}

// Tasks returns a snapshot description of tasks that are not done (leak report).
func (s *Sched) Leftover() []string {
	s.mu.Lock()
	defer s.mu.Unlock()
	var out []string
	for _, t := range s.tasks {
		if t.state != tsDone {
			out = append(out, fmt.Sprintf("%d:%s:%d@%s", t.ID, t.Name, t.state, t.site))
		}
	}
	return out
}
