// Package simrt is the runtime shared by all simulators of /verif: the choice tape (one integer
// decides everything), the run record, the shrinker and the worker protocol spoken with
// tools/vdriver. It depends on the standard library only so that it can be injected (through a
// build overlay) anywhere inside the lava module.
package simrt

import (
	"sort"
)

// SplitMix64: tiny, fast, and good enough. No math/rand, no global state.
type prng struct{ s uint64 }

func (p *prng) next() uint64 {
	p.s += 0x9E3779B97F4A7C15
	z := p.s
	z = (z ^ (z >> 30)) * 0xBF58476D1CE4E5B9
	z = (z ^ (z >> 27)) * 0x94D049BB133111EB
	return z ^ (z >> 31)
}

// Mix derives a sub-seed from a seed and a label/index, deterministically.
func Mix(seed uint64, parts ...uint64) uint64 {
	p := prng{s: seed}
	v := p.next()
	for _, x := range parts {
		p.s = v ^ (x * 0xD6E8FEB86659FD93)
		v = p.next()
	}
	return v
}

// HashString is FNV-1a 64.
func HashString(s string) uint64 {
	h := uint64(14695981039346656037)
	for i := 0; i < len(s); i++ {
		h ^= uint64(s[i])
		h *= 1099511628211
	}
	return h
}

// A stream is one independent recorded sequence of choices. Separate streams (operations,
// scheduler, faults, ...) keep shrinking local: deleting a scheduler choice does not shift the
// operation generator.
type stream struct {
	rng    prng
	rec    []uint64
	frames []int // start offsets of step frames inside rec
	pos    int
}

// Tape is the single source of nondeterminism of a run.
type Tape struct {
	Seed    uint64
	replay  bool
	streams map[string]*stream
}

func NewTape(seed uint64) *Tape {
	return &Tape{Seed: seed, streams: map[string]*stream{}}
}

// TapeData is the serialisable content of a tape.
type TapeData struct {
	Seed    uint64              `json:"seed"`
	Streams map[string][]uint64 `json:"streams"`
	Frames  map[string][]int    `json:"frames,omitempty"`
}

func NewReplayTape(d TapeData) *Tape {
	t := &Tape{Seed: d.Seed, replay: true, streams: map[string]*stream{}}
	for name, rec := range d.Streams {
		s := &stream{rec: append([]uint64(nil), rec...)}
		t.streams[name] = s
	}
	return t
}

func (t *Tape) Replaying() bool { return t.replay }

func (t *Tape) get(name string) *stream {
	s := t.streams[name]
	if s == nil {
		s = &stream{rng: prng{s: Mix(t.Seed, HashString(name))}}
		t.streams[name] = s
	}
	return s
}

// Draw returns a value in [0,n). n<=1 returns 0 without consuming the tape.
func (t *Tape) Draw(name string, n uint64) uint64 {
	if n <= 1 {
		return 0
	}
	s := t.get(name)
	if t.replay {
		var v uint64
		if s.pos < len(s.rec) {
			v = s.rec[s.pos]
		}
		s.pos++
		if v >= n {
			v %= n
		}
		// keep what was actually used so that Data() of a replayed tape is canonical
		for len(s.rec) < s.pos {
			s.rec = append(s.rec, 0)
		}
		s.rec[s.pos-1] = v
		return v
	}
	v := s.rng.next() % n
	s.rec = append(s.rec, v)
	s.pos++
	return v
}

// Draw64 returns a full 64-bit value.
func (t *Tape) Draw64(name string) uint64 {
	s := t.get(name)
	if t.replay {
		var v uint64
		if s.pos < len(s.rec) {
			v = s.rec[s.pos]
		}
		s.pos++
		for len(s.rec) < s.pos {
			s.rec = append(s.rec, 0)
		}
		return v
	}
	v := s.rng.next()
	s.rec = append(s.rec, v)
	s.pos++
	return v
}

// Mark starts a new step frame in the stream (shrinking deletes whole frames first).
func (t *Tape) Mark(name string) {
	s := t.get(name)
	s.frames = append(s.frames, s.pos)
}

// Data returns the recorded content (only the consumed prefix of each stream).
func (t *Tape) Data() TapeData {
	d := TapeData{Seed: t.Seed, Streams: map[string][]uint64{}, Frames: map[string][]int{}}
	for name, s := range t.streams {
		n := s.pos
		if n > len(s.rec) {
			n = len(s.rec)
		}
		d.Streams[name] = append([]uint64(nil), s.rec[:n]...)
		if len(s.frames) > 0 {
			d.Frames[name] = append([]int(nil), s.frames...)
		}
	}
	return d
}

func (d TapeData) Len() int {
	n := 0
	for _, s := range d.Streams {
		n += len(s)
	}
	return n
}

func (d TapeData) clone() TapeData {
	c := TapeData{Seed: d.Seed, Streams: map[string][]uint64{}, Frames: map[string][]int{}}
	for k, v := range d.Streams {
		c.Streams[k] = append([]uint64(nil), v...)
	}
	for k, v := range d.Frames {
		c.Frames[k] = append([]int(nil), v...)
	}
	return c
}

func (d TapeData) streamNames() []string {
	names := make([]string, 0, len(d.Streams))
	for k := range d.Streams {
		names = append(names, k)
	}
	sort.Strings(names)
	return names
}
