package simrt

import (
	"fmt"
	"runtime/debug"
	"sort"
	"strings"
)

// Violation is what an oracle reports. Class = oracle name (stable), Sig = specific signature of
// what failed (stable across seeds for the same defect; used for known findings), Detail = free
// text with numbers.
type Violation struct {
	Property string `json:"property"`
	Class    string `json:"class"`
	Sig      string `json:"sig"`
	Detail   string `json:"detail"`
	Step     int    `json:"step"`
}

type violationPanic struct{ v *Violation }

// abortPanic ends a run quietly (e.g. after a known finding made the model unusable).
type abortPanic struct{}

// KnownFinding mutes exactly one (property, class, signature) triple.
type KnownFinding struct {
	Property    string `json:"property"`
	Class       string `json:"class"`
	Sig         string `json:"sig"`
	Status      string `json:"status"` // "open" mutes; "fixed" mutes nothing
	Description string `json:"description"`
	Commit      string `json:"commit,omitempty"`
}

// Run is one simulated execution.
type Run struct {
	Property string
	Profile  string
	Index    int
	Seed     uint64
	Tier     string
	T        *Tape

	Ops         map[string]int // "kind:outcome" -> count
	Faults      map[string]int // fault kind -> times it actually fired
	Probes      map[string]int // rare-branch probes
	OracleEvals int
	SimSpan     int64 // simulated nanoseconds (or block-time ns) covered
	Steps       int
	Switches    int // context switches (protosim)

	fp        uint64
	traceFP   uint64
	schedFP   uint64
	log       []string
	logDrop   int
	viol      *Violation
	known     []KnownFinding
	KnownHits map[string]int
	// OnlyClasses, when set, restricts the violation classes this run reports (see foreign)
	OnlyClasses map[string]bool
	Extra       map[string]int64
}

const maxLog = 600

func newRun(prop, profile, tier string, idx int, seed uint64, t *Tape, known []KnownFinding) *Run {
	return &Run{
		Property: prop, Profile: profile, Tier: tier, Index: idx, Seed: seed, T: t,
		Ops: map[string]int{}, Faults: map[string]int{}, Probes: map[string]int{},
		KnownHits: map[string]int{}, Extra: map[string]int64{}, known: known,
		fp: 14695981039346656037, schedFP: 14695981039346656037,
	}
}

func (r *Run) mixFP(s string) {
	for i := 0; i < len(s); i++ {
		r.fp ^= uint64(s[i])
		r.fp *= 1099511628211
	}
	r.fp ^= 0xff
	r.fp *= 1099511628211
}

// Draw on the named stream.
func (r *Run) Draw(stream string, n int) int {
	if n <= 1 {
		return 0
	}
	return int(r.T.Draw(stream, uint64(n)))
}

// Chance returns true with probability num/den.
func (r *Run) Chance(stream string, num, den int) bool {
	if num <= 0 {
		return false
	}
	return r.Draw(stream, den) < num
}

func (r *Run) Draw64(stream string) uint64 { return r.T.Draw64(stream) }

// Range draws from [lo,hi] inclusive.
func (r *Run) Range(stream string, lo, hi int) int {
	if hi <= lo {
		return lo
	}
	return lo + r.Draw(stream, hi-lo+1)
}

// Step begins a new step frame on the ops stream.
func (r *Run) Step() {
	r.Steps++
	r.T.Mark("ops")
}

// Op records one executed operation with its outcome class; feeds the run fingerprint.
func (r *Run) Op(kind, outcome string) {
	k := kind + ":" + outcome
	r.Ops[k]++
	r.mixFP(k)
}

// Fault records that a fault of this kind actually fired.
func (r *Run) Fault(kind string) {
	r.Faults[kind]++
	r.mixFP("F/" + kind)
}

func (r *Run) Probe(name string) { r.Probes[name]++ }

// Switch records a scheduler decision (protosim) for the interleaving fingerprint.
func (r *Run) Switch(task int) {
	r.Switches++
	r.schedFP ^= uint64(task) + 1
	r.schedFP *= 1099511628211
}

// Logf appends to the decoded schedule. Never draws, never reads a clock.
func (r *Run) Logf(format string, a ...interface{}) {
	line := fmt.Sprintf(format, a...)
	for i := 0; i < len(line); i++ {
		r.traceFP ^= uint64(line[i])
		r.traceFP *= 1099511628211
	}
	r.traceFP ^= 0xfe
	r.traceFP *= 1099511628211
	if len(r.log) >= maxLog {
		// keep head and tail: drop from the middle
		copy(r.log[maxLog/2:], r.log[maxLog/2+1:])
		r.log = r.log[:len(r.log)-1]
		r.logDrop++
	}
	r.log = append(r.log, line)
}

// TraceHash covers every logged line of the run (also the dropped ones): the determinism
// self-test compares it across processes.
func (r *Run) TraceHash() uint64 { return r.traceFP ^ r.fp ^ (r.schedFP << 1) }

func (r *Run) LogLines() []string {
	out := append([]string(nil), r.log...)
	if r.logDrop > 0 {
		out = append(out, fmt.Sprintf("(... %d middle lines dropped ...)", r.logDrop))
	}
	return out
}

// foreign reports whether a violation class is outside the classes this run decides (OnlyClasses
// set): a property that borrows another property's history generator ignores that generator's
// own oracles (they are decided by their own check) and only counts them.
func (r *Run) foreign(class string) bool {
	if r.OnlyClasses == nil || r.OnlyClasses[class] {
		return false
	}
	r.Probes["foreign_oracle:"+class]++
	return true
}

func (r *Run) isKnown(class, sig string) bool {
	for _, k := range r.known {
		if k.Status == "open" && k.Property == r.Property && k.Class == class && k.Sig == sig {
			return true
		}
	}
	return false
}

// Fail reports a violation. If it matches an open known finding the hit is counted and Fail
// returns true (the caller decides whether the run can go on); otherwise the run stops here.
func (r *Run) Fail(class, sig, format string, a ...interface{}) bool {
	if r.foreign(class) {
		return true
	}
	detail := fmt.Sprintf(format, a...)
	if r.isKnown(class, sig) {
		r.KnownHits[class+"|"+sig]++
		return true
	}
	v := &Violation{Property: r.Property, Class: class, Sig: sig, Detail: detail, Step: r.Steps}
	if r.viol == nil {
		r.viol = v
	}
	r.Logf("!! VIOLATION %s [%s]: %s", class, sig, detail)
	panic(violationPanic{v})
}

// SetViolation records a violation without panicking (used from goroutines that must not unwind).
func (r *Run) SetViolation(class, sig, detail string) bool {
	if r.foreign(class) {
		return true
	}
	if r.isKnown(class, sig) {
		r.KnownHits[class+"|"+sig]++
		return true
	}
	if r.viol == nil {
		r.viol = &Violation{Property: r.Property, Class: class, Sig: sig, Detail: detail, Step: r.Steps}
		r.Logf("!! VIOLATION %s [%s]: %s", class, sig, detail)
	}
	return false
}

func (r *Run) Violated() *Violation { return r.viol }

// Abort ends the run quietly.
func (r *Run) Abort() { panic(abortPanic{}) }

// Check is the oracle helper: counts an evaluation.
func (r *Run) Check(ok bool, class, sig, format string, a ...interface{}) {
	r.OracleEvals++
	if !ok {
		r.Fail(class, sig, format, a...)
	}
}

// PropFn executes one run of a property.
type PropFn func(r *Run)

// Recover converts panics of a run into its verdict. An unexpected panic of the harness or of the
// code under test outside an oracle is reported as class "panic" (properties for which a panic is
// a violation keep it; the worker treats "panic" like any other class — a harness bug shows up as
// a violation on the unchanged tree and must be fixed in the harness).
func (r *Run) Recover(p interface{}) {
	if p == nil {
		return
	}
	switch x := p.(type) {
	case violationPanic:
		if r.viol == nil {
			r.viol = x.v
		}
	case abortPanic:
	default:
		st := string(debug.Stack())
		sig := panicSig(fmt.Sprint(p), st)
		if r.foreign("panic") {
			return
		}
		if r.isKnown("panic", sig) {
			r.KnownHits["panic|"+sig]++
			return
		}
		if r.viol == nil {
			r.viol = &Violation{Property: r.Property, Class: "panic", Sig: sig, Detail: fmt.Sprintf("%v\n%s", p, trimStack(st)), Step: r.Steps}
		}
	}
}

func execRun(fn PropFn, r *Run) {
	defer func() { r.Recover(recover()) }()
	fn(r)
}

// panicSig: first frame inside the lava module that is not the harness.
func panicSig(msg, stack string) string {
	lines := strings.Split(stack, "\n")
	for _, l := range lines {
		l = strings.TrimSpace(l)
		if strings.HasPrefix(l, "github.com/lavanet/lava/") && !strings.Contains(l, "zz_verif") && !strings.Contains(l, "simrt.") && !strings.Contains(l, "/utils.LavaFormat") {
			// cut the argument list: the first "(" that does not open a "(*T)" receiver
			for i := 0; i < len(l); i++ {
				if l[i] == '(' && !(i+1 < len(l) && l[i+1] == '*') {
					l = l[:i]
					break
				}
			}
			return strings.TrimPrefix(l, "github.com/lavanet/lava/v5/")
		}
	}
	// no lava frame on the stack (e.g. a dependency panics on an error a lava hook returned): the
	// function that panicked = first frame after panic() that is neither runtime nor harness
	seenPanic := false
	for _, l := range lines {
		if strings.HasPrefix(l, "\t") || strings.HasPrefix(l, " ") {
			continue
		}
		l = strings.TrimSpace(l)
		if strings.HasPrefix(l, "panic(") {
			seenPanic = true
			continue
		}
		if !seenPanic || l == "" || strings.HasPrefix(l, "runtime.") || strings.HasPrefix(l, "runtime/") || strings.Contains(l, "zz_verif") || strings.Contains(l, "simrt.") || strings.HasPrefix(l, "goroutine ") {
			continue
		}
		for i := 0; i < len(l); i++ {
			if l[i] == '(' && !(i+1 < len(l) && l[i+1] == '*') {
				l = l[:i]
				break
			}
		}
		return strings.TrimPrefix(l, "github.com/")
	}
	if len(msg) > 80 {
		msg = msg[:80]
	}
	return msg
}

func trimStack(st string) string {
	lines := strings.Split(st, "\n")
	if len(lines) > 60 {
		lines = lines[:60]
	}
	return strings.Join(lines, "\n")
}

// Fingerprint of the run (op/outcome/fault sequence, plus schedule).
func (r *Run) Fingerprint() uint64 { return r.fp ^ (r.schedFP * 0x9E3779B97F4A7C15) }

func (r *Run) SchedFingerprint() uint64 { return r.schedFP }

// OKOps counts operations whose outcome is "ok".
func (r *Run) OKOps() int {
	n := 0
	for k, c := range r.Ops {
		if strings.HasSuffix(k, ":ok") {
			n += c
		}
	}
	return n
}

func (r *Run) FaultsFired() int {
	n := 0
	for _, c := range r.Faults {
		n += c
	}
	return n
}

func sortedKeys(m map[string]int) []string {
	ks := make([]string, 0, len(m))
	for k := range m {
		ks = append(ks, k)
	}
	sort.Strings(ks)
	return ks
}

// Replica returns a fresh Run that replays the choices recorded so far on r's tape (differential
// executions of the same history). Its counters are separate; violations must be raised on r.
func (r *Run) Replica() *Run {
	c := newRun(r.Property, r.Profile, r.Tier, r.Index, r.Seed, NewReplayTape(r.T.Data()), r.known)
	return c
}

// StackOf returns the current goroutine's stack.
func StackOf() string { return string(debug.Stack()) }

// PanicSig exposes the signature used for class "panic".
func PanicSig(msg, stack string) string { return panicSig(msg, stack) }

func TrimStack(st string) string { return trimStack(st) }

// IsSimPanic tells harness-level recover() blocks to re-panic the runtime's own control-flow panics.
func IsSimPanic(p interface{}) bool {
	switch p.(type) {
	case violationPanic, abortPanic:
		return true
	}
	return false
}
