package simrt

import (
	"fmt"
	"sort"
)

// Map-order seam. Instrumented chain code (tools/maporder) iterates maps through MapKeys; the
// simulator decides the order per replica: native (the runtime's), sorted, reversed, or a
// shuffle driven by a seeded generator (a fresh permutation for every loop instance).

const (
	MapOrderNative = iota
	MapOrderSorted
	MapOrderReversed
	MapOrderShuffled
)

var mapOrder struct {
	policy int
	rng    prng
	// sites that ever iterated a map with more than one key (only these can matter)
	multi map[string]int
	calls int
}

// SetMapOrder installs the order policy for subsequent map ranges in instrumented code.
func SetMapOrder(policy int, seed uint64) {
	mapOrder.policy = policy
	mapOrder.rng = prng{s: seed}
	if mapOrder.multi == nil {
		mapOrder.multi = map[string]int{}
	}
}

// MapOrderPolicy returns the installed policy.
func MapOrderPolicy() int { return mapOrder.policy }

// MapOrderSites returns how often each instrumented loop site iterated a map with >1 keys since
// the last reset, and resets the counters.
func MapOrderSites() map[string]int {
	m := mapOrder.multi
	mapOrder.multi = map[string]int{}
	return m
}

func MapKeys[M ~map[K]V, K comparable, V any](m M, site string) []K {
	keys := make([]K, 0, len(m))
	for k := range m {
		keys = append(keys, k)
	}
	if mapOrder.policy == MapOrderNative || len(keys) < 2 {
		return keys
	}
	mapOrder.calls++
	if mapOrder.multi != nil {
		mapOrder.multi[site]++
	}
	sortKeys(keys)
	switch mapOrder.policy {
	case MapOrderReversed:
		for i, j := 0, len(keys)-1; i < j; i, j = i+1, j-1 {
			keys[i], keys[j] = keys[j], keys[i]
		}
	case MapOrderShuffled:
		for i := len(keys) - 1; i > 0; i-- {
			j := int(mapOrder.rng.next() % uint64(i+1))
			keys[i], keys[j] = keys[j], keys[i]
		}
	}
	return keys
}

// sortKeys puts the keys in a canonical order that does not depend on the runtime.
func sortKeys[K comparable](keys []K) {
	switch ks := any(keys).(type) {
	case []string:
		sort.Strings(ks)
	case []int:
		sort.Ints(ks)
	case []uint64:
		sort.Slice(ks, func(i, j int) bool { return ks[i] < ks[j] })
	case []int64:
		sort.Slice(ks, func(i, j int) bool { return ks[i] < ks[j] })
	case []uint32:
		sort.Slice(ks, func(i, j int) bool { return ks[i] < ks[j] })
	case []int32:
		sort.Slice(ks, func(i, j int) bool { return ks[i] < ks[j] })
	default:
		strs := make([]string, len(keys))
		for i, k := range keys {
			strs[i] = fmt.Sprintf("%#v", k)
		}
		idx := make([]int, len(keys))
		for i := range idx {
			idx[i] = i
		}
		sort.Slice(idx, func(a, b int) bool { return strs[idx[a]] < strs[idx[b]] })
		out := make([]K, len(keys))
		for i, j := range idx {
			out[i] = keys[j]
		}
		copy(keys, out)
	}
}
