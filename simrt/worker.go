package simrt

import (
	"encoding/json"
	"fmt"
	"os"
	"runtime"
	"strconv"
	"sync/atomic"
	"time"
)

// PropSpec registers how a property is simulated.
type PropSpec struct {
	Fn       PropFn
	Profiles []string // swarm profiles, rotated by run index
	// NonTrivial decides whether a finished run counts towards distinct_nontrivial.
	NonTrivial func(r *Run) bool
	Rule       string // human description of generation + non-triviality + distinctness
	Real       []string
	Stubbed    []string
	Assume     []string
	// RunWallS is the per-run wall watchdog (default 120 s).
	RunWallS int
}

var registry = map[string]*PropSpec{}

func Register(id string, s *PropSpec) { registry[id] = s }

// ReplayFile is the on-disk replay artefact.
type ReplayFile struct {
	Property  string     `json:"property"`
	Engine    string     `json:"engine,omitempty"`
	Profile   string     `json:"profile"`
	Tier      string     `json:"tier"`
	RunIndex  int        `json:"run_index"`
	Seed      uint64     `json:"seed"`
	Violation *Violation `json:"violation"`
	Tape      TapeData   `json:"tape"`
	OrigTape  *TapeData  `json:"orig_tape,omitempty"`
	Log       []string   `json:"decoded_schedule"`
	ShrinkRun int        `json:"shrink_replays"`
	RepoHead  string     `json:"repo_head,omitempty"`
	RepoDirty string     `json:"repo_dirty_hash,omitempty"`
}

type Sample struct {
	Seed    uint64   `json:"seed"`
	Profile string   `json:"profile"`
	Index   int      `json:"run_index"`
	Steps   int      `json:"steps"`
	Log     []string `json:"decoded_schedule_head"`
}

// WorkerResult is what one worker process reports to the driver.
type WorkerResult struct {
	Worker       int               `json:"worker"`
	Property     string            `json:"property"`
	Runs         int               `json:"runs"`
	NonTrivial   []uint64          `json:"nontrivial_fingerprints"`
	AllFPCount   int               `json:"distinct_fingerprints_all"`
	SchedFPCount int               `json:"distinct_schedules"`
	SchedFPs     []uint64          `json:"sched_fps,omitempty"`
	Ops          map[string]int    `json:"ops"`
	Faults       map[string]int    `json:"faults_fired"`
	Probes       map[string]int    `json:"probes"`
	Extra        map[string]int64  `json:"extra"`
	KnownHits    map[string]int    `json:"known_hits"`
	OracleEvals  int64             `json:"oracle_evals"`
	SimSpanNs    float64           `json:"sim_span_ns"`
	Steps        int64             `json:"steps"`
	Switches     int64             `json:"switches"`
	Samples      []Sample          `json:"samples"`
	Violation    *ReplayFile       `json:"violation,omitempty"`
	WallS        float64           `json:"wall_s"`
	Rule         string            `json:"rule"`
	Real         []string          `json:"real"`
	Stubbed      []string          `json:"stubbed"`
	Assume       []string          `json:"assume"`
	Error        string            `json:"error,omitempty"`
	Traces       map[string]string `json:"traces,omitempty"` // run index -> trace hash (VERIF_TRACE=1)
}

func envInt(name string, def int) int {
	if v := os.Getenv(name); v != "" {
		if n, err := strconv.Atoi(v); err == nil {
			return n
		}
	}
	return def
}

func envU64(name string, def uint64) uint64 {
	if v := os.Getenv(name); v != "" {
		if n, err := strconv.ParseUint(v, 10, 64); err == nil {
			return n
		}
		if n, err := strconv.ParseInt(v, 10, 64); err == nil {
			return uint64(n)
		}
	}
	return def
}

func loadKnown(path string) []KnownFinding {
	if path == "" {
		return nil
	}
	b, err := os.ReadFile(path)
	if err != nil {
		return nil
	}
	var f struct {
		Findings []KnownFinding `json:"findings"`
	}
	if err := json.Unmarshal(b, &f); err != nil {
		// a present but unreadable list must not silently un-mute everything: harness trouble
		fmt.Fprintf(os.Stderr, "simrt: cannot parse known findings %s: %v\n", path, err)
		os.Exit(3)
	}
	return f.Findings
}

var runGen atomic.Int64

// watchdog kills the process when one run takes too long in wall time (harness trouble: exit 3,
// which the driver reports as exit 2, never as a violation).
func startWatchdog(limit time.Duration, what string) func() {
	my := runGen.Add(1)
	go func() {
		time.Sleep(limit)
		if runGen.Load() == my {
			buf := make([]byte, 1<<20)
			n := runtime.Stack(buf, true)
			fmt.Fprintf(os.Stderr, "WATCHDOG: %s exceeded %v wall\n%s\n", what, limit, buf[:n])
			os.Exit(3)
		}
	}()
	return func() { runGen.Add(1) }
}

// RunSeed is the sub-seed of run i.
func RunSeed(seed uint64, prop string, i int) uint64 {
	return Mix(seed, HashString(prop), uint64(i))
}

func pickProfile(spec *PropSpec, i int) string {
	if p := os.Getenv("VERIF_PROFILE"); p != "" {
		return p
	}
	if len(spec.Profiles) == 0 {
		return "default"
	}
	return spec.Profiles[i%len(spec.Profiles)]
}

// WorkerMain is called from the engine's TestSim. It never uses testing.T for verdicts.
func WorkerMain() {
	prop := os.Getenv("VERIF_PROP")
	out := os.Getenv("VERIF_OUT")
	res := &WorkerResult{Worker: envInt("VERIF_W", 0), Property: prop,
		Ops: map[string]int{}, Faults: map[string]int{}, Probes: map[string]int{}, KnownHits: map[string]int{}, Extra: map[string]int64{}}
	write := func() {
		b, _ := json.Marshal(res)
		if out != "" {
			if err := os.WriteFile(out, b, 0o644); err != nil {
				fmt.Fprintln(os.Stderr, "cannot write result:", err)
				os.Exit(4)
			}
		} else {
			os.Stdout.Write(b)
			os.Stdout.Write([]byte("\n"))
		}
	}
	spec := registry[prop]
	if spec == nil {
		res.Error = "unknown property " + prop
		write()
		os.Exit(4)
	}
	res.Rule, res.Real, res.Stubbed, res.Assume = spec.Rule, spec.Real, spec.Stubbed, spec.Assume
	known := loadKnown(os.Getenv("VERIF_KNOWN"))
	tier := os.Getenv("VERIF_TIER")
	if tier == "" {
		tier = "quick"
	}
	wallLimit := time.Duration(spec.RunWallS) * time.Second
	if wallLimit == 0 {
		wallLimit = 120 * time.Second
	}
	start := time.Now()

	if os.Getenv("VERIF_MODE") == "replay" {
		b, err := os.ReadFile(os.Getenv("VERIF_REPLAY"))
		if err != nil {
			res.Error = err.Error()
			write()
			os.Exit(4)
		}
		var rf ReplayFile
		if err := json.Unmarshal(b, &rf); err != nil {
			res.Error = err.Error()
			write()
			os.Exit(4)
		}
		stop := startWatchdog(wallLimit, "replay")
		r := newRun(prop, rf.Profile, rf.Tier, rf.RunIndex, rf.Seed, NewReplayTape(rf.Tape), known)
		execRun(spec.Fn, r)
		stop()
		res.Runs = 1
		if v := r.Violated(); v != nil {
			res.Violation = &ReplayFile{Property: prop, Profile: rf.Profile, Tier: rf.Tier, RunIndex: rf.RunIndex, Seed: rf.Seed, Violation: v, Tape: r.T.Data(), Log: r.LogLines()}
		}
		for k, c := range r.KnownHits {
			res.KnownHits[k] += c
		}
		res.WallS = time.Since(start).Seconds()
		write()
		return
	}

	seed := envU64("VERIF_SEED", 1)
	w, nw := envInt("VERIF_W", 0), envInt("VERIF_NW", 1)
	maxRuns := envInt("VERIF_RUNS", 1000000000)
	minRuns := envInt("VERIF_MIN_RUNS", 1)
	budget := time.Duration(envInt("VERIF_BUDGET_S", 30)) * time.Second
	shrinkBudget := envInt("VERIF_SHRINK_BUDGET", 300)
	ntSet := map[uint64]bool{}
	allSet := map[uint64]bool{}
	schedSet := map[uint64]bool{}
	nonTrivial := spec.NonTrivial
	if nonTrivial == nil {
		nonTrivial = func(r *Run) bool { return r.OKOps() >= 3 }
	}
	done := 0
	for i := w; i < maxRuns; i += nw {
		if done >= minRuns && time.Since(start) > budget {
			break
		}
		rseed := RunSeed(seed, prop, i)
		profile := pickProfile(spec, i)
		stop := startWatchdog(wallLimit, fmt.Sprintf("run %d seed %d", i, rseed))
		r := newRun(prop, profile, tier, i, rseed, NewTape(rseed), known)
		execRun(spec.Fn, r)
		stop()
		done++
		res.Runs++
		for k, c := range r.Ops {
			res.Ops[k] += c
		}
		for k, c := range r.Faults {
			res.Faults[k] += c
		}
		for k, c := range r.Probes {
			res.Probes[k] += c
		}
		for k, c := range r.KnownHits {
			res.KnownHits[k] += c
		}
		for k, c := range r.Extra {
			res.Extra[k] += c
		}
		res.OracleEvals += int64(r.OracleEvals)
		res.SimSpanNs += float64(r.SimSpan)
		res.Steps += int64(r.Steps)
		res.Switches += int64(r.Switches)
		if os.Getenv("VERIF_TRACE") == "1" {
			if res.Traces == nil {
				res.Traces = map[string]string{}
			}
			vs := ""
			if v := r.Violated(); v != nil {
				vs = v.Class + "|" + v.Sig
			}
			res.Traces[strconv.Itoa(i)] = fmt.Sprintf("%016x/%d/%s", r.TraceHash(), r.Steps, vs)
		}
		fp := r.Fingerprint()
		allSet[fp] = true
		if r.Switches > 0 {
			schedSet[r.SchedFingerprint()] = true
		}
		if r.Violated() == nil && nonTrivial(r) {
			ntSet[fp] = true
		}
		if len(res.Samples) < 2 {
			lg := r.LogLines()
			if len(lg) > 40 {
				lg = append(lg[:40:40], fmt.Sprintf("(... %d more lines)", len(lg)-40))
			}
			res.Samples = append(res.Samples, Sample{Seed: rseed, Profile: profile, Index: i, Steps: r.Steps, Log: lg})
		}
		if v := r.Violated(); v != nil {
			orig := r.T.Data()
			rf := &ReplayFile{Property: prop, Profile: profile, Tier: tier, RunIndex: i, Seed: rseed, Violation: v, Tape: orig, Log: r.LogLines()}
			// shrink in-process
			sh := &shrinker{best: orig, budget: shrinkBudget}
			var lastLog []string
			var lastV *Violation
			sh.try = func(c TapeData) (TapeData, bool) {
				stop := startWatchdog(wallLimit, "shrink replay")
				defer stop()
				rr := newRun(prop, profile, tier, i, rseed, NewReplayTape(c), known)
				execRun(spec.Fn, rr)
				vv := rr.Violated()
				if vv != nil && vv.Class == v.Class && vv.Sig == v.Sig {
					lastLog, lastV = rr.LogLines(), vv
					return rr.T.Data(), true
				}
				return c, false
			}
			// first make sure the recorded tape reproduces in-process at all
			if _, ok := sh.try(orig); ok {
				min := sh.run()
				rf.OrigTape = &orig
				rf.ShrinkRun = sh.used
				// the decoded schedule and detail reported are those of the minimised tape itself
				if canon, ok := sh.try(min); ok {
					rf.Tape = canon
					rf.Violation, rf.Log = lastV, lastLog
				}
			} else {
				rf.ShrinkRun = -1 // did not reproduce in-process: driver will flag nondeterminism
			}
			res.Violation = rf
			break
		}
	}
	for fp := range ntSet {
		res.NonTrivial = append(res.NonTrivial, fp)
	}
	for fp := range schedSet {
		res.SchedFPs = append(res.SchedFPs, fp)
	}
	res.AllFPCount = len(allSet)
	res.SchedFPCount = len(schedSet)
	res.WallS = time.Since(start).Seconds()
	write()
}
