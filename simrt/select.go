package simrt

import (
	"reflect"
)

// Deterministic select. The Go runtime resolves a select with several ready cases by a random
// poll order, which would make a simulated schedule irreproducible. Instrumented code therefore
// runs
//
//	select { case x := <-c1: B1; case c2 <- v: B2; default: D }
//
// as
//
//	{ zzs_0 := c1; zzs_1 := c2; zzs_1v := v
//	  zzi, zzr := zzsimrt.Select(site, true, zzsimrt.RecvCase(zzs_0), zzsimrt.SendCase(zzs_1, zzs_1v)); _ = zzr
//	  switch zzi { case 0: x := <-zzsimrt.Relay(zzs_0, zzr); B1; case 1: B2; case -1: D } }
//
// Select polls the cases without blocking, starting at a tape-chosen case, and the first one that
// can proceed wins. A received value is handed to the typed receive in the clause through a
// one-element relay channel of the same type (closed if the original channel was closed). If
// nothing can proceed and there is no default the goroutine blocks in reflect.Select (the case is
// then decided by whichever peer acts first) and re-parks afterwards.

type SelCase struct {
	send bool
	ch   reflect.Value
	val  reflect.Value
}

func RecvCase(ch interface{}) SelCase {
	return SelCase{ch: reflect.ValueOf(ch)}
}

func SendCase(ch interface{}, v interface{}) SelCase {
	c := SelCase{send: true, ch: reflect.ValueOf(ch)}
	if c.ch.IsValid() && c.ch.Kind() == reflect.Chan {
		et := c.ch.Type().Elem()
		if v == nil {
			c.val = reflect.Zero(et)
		} else {
			rv := reflect.ValueOf(v)
			if rv.Type() != et {
				if rv.Type().AssignableTo(et) {
					nv := reflect.New(et).Elem()
					nv.Set(rv)
					rv = nv
				} else if rv.Type().ConvertibleTo(et) {
					rv = rv.Convert(et)
				}
			}
			c.val = rv
		}
	}
	return c
}

type relayBox struct {
	v  reflect.Value
	ok bool
}

// Relay returns a channel of orig's type holding the value that Select received on orig (or a
// closed channel when orig was closed), so that the clause's own typed receive expression works.
func Relay[C any](orig C, r interface{}) C {
	box, _ := r.(relayBox)
	ct := reflect.TypeOf(orig)
	if ct == nil || ct.Kind() != reflect.Chan {
		var zero C
		return zero
	}
	bt := reflect.ChanOf(reflect.BothDir, ct.Elem())
	ch := reflect.MakeChan(bt, 1)
	if box.ok {
		ch.Send(box.v)
	} else {
		ch.Close()
	}
	return ch.Convert(ct).Interface().(C)
}

func validChan(c SelCase) bool {
	return c.ch.IsValid() && c.ch.Kind() == reflect.Chan && !c.ch.IsNil()
}

func tryCase(c SelCase) (done bool, box relayBox) {
	if !validChan(c) {
		return false, box // nil channel: never ready
	}
	if c.send {
		return c.ch.TrySend(c.val), box
	}
	v, ok := c.ch.TryRecv()
	if !v.IsValid() {
		return false, box // would block
	}
	return true, relayBox{v, ok}
}

func nativeSelect(hasDefault bool, cases []SelCase) (int, interface{}) {
	rc := make([]reflect.SelectCase, 0, len(cases)+1)
	for _, c := range cases {
		sc := reflect.SelectCase{Dir: reflect.SelectRecv, Chan: c.ch}
		if c.send {
			sc = reflect.SelectCase{Dir: reflect.SelectSend, Chan: c.ch, Send: c.val}
		}
		if !c.ch.IsValid() || c.ch.Kind() != reflect.Chan {
			sc = reflect.SelectCase{Dir: reflect.SelectRecv} // nil channel: never ready
		}
		rc = append(rc, sc)
	}
	if hasDefault {
		rc = append(rc, reflect.SelectCase{Dir: reflect.SelectDefault})
	}
	i, v, ok := reflect.Select(rc)
	if hasDefault && i == len(cases) {
		return -1, relayBox{}
	}
	return i, relayBox{v, ok}
}

// Select returns the index of the case that proceeded (-1 = default) and the relay box for Relay.
func Select(site string, hasDefault bool, cases ...SelCase) (int, interface{}) {
	s := getActive()
	var t *Task
	if s != nil {
		t = s.curTask()
	}
	if s == nil || t == nil {
		return nativeSelect(hasDefault, cases)
	}
	s.park(t, tsParked, site)
	n := len(cases)
	if n > 0 {
		start := 0
		if n > 1 {
			start = s.R.Draw("sched", n)
		}
		for k := 0; k < n; k++ {
			i := (start + k) % n
			if done, box := tryCase(cases[i]); done {
				return i, box
			}
		}
	}
	if hasDefault {
		return -1, relayBox{}
	}
	// nothing can proceed: really block (the scheduler sees a durably blocked task), then re-park
	i, box := nativeSelect(false, cases)
	Resume(site)
	return i, box
}
