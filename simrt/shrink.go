package simrt

// Shrinker minimises a failing tape under "the same violation class (and signature) persists".
type shrinker struct {
	best   TapeData
	try    func(TapeData) (TapeData, bool) // runs the candidate; returns canonical tape and whether it still fails the same way
	budget int
	used   int
}

func (s *shrinker) attempt(c TapeData) bool {
	if s.used >= s.budget {
		return false
	}
	s.used++
	canon, ok := s.try(c)
	if ok {
		// progress must be monotone: shorter tape, or same length with a smaller sum
		if canon.Len() < s.best.Len() || (canon.Len() == s.best.Len() && tapeSum(canon) < tapeSum(s.best)) {
			s.best = canon
			return true
		}
	}
	return false
}

func tapeSum(d TapeData) uint64 {
	var t uint64
	for _, s := range d.Streams {
		for _, v := range s {
			t += v
		}
	}
	return t
}

func frameBounds(d TapeData, name string) [][2]int {
	fr := d.Frames[name]
	n := len(d.Streams[name])
	var out [][2]int
	for i, st := range fr {
		if st > n {
			break
		}
		en := n
		if i+1 < len(fr) && fr[i+1] <= n {
			en = fr[i+1]
		}
		if en > st {
			out = append(out, [2]int{st, en})
		}
	}
	return out
}

func deleteRange(d TapeData, name string, from, to int) TapeData {
	c := d.clone()
	s := c.Streams[name]
	ns := append(append([]uint64(nil), s[:from]...), s[to:]...)
	c.Streams[name] = ns
	// frames are recomputed by the replay; drop them here
	delete(c.Frames, name)
	return c
}

func (s *shrinker) run() TapeData {
	improved := true
	for pass := 0; improved && pass < 6 && s.used < s.budget; pass++ {
		improved = false
		// 1. delete step frames (ddmin style) per stream
		for _, name := range s.best.streamNames() {
			chunk := len(frameBounds(s.best, name))
			for chunk >= 1 && s.used < s.budget {
				fb := frameBounds(s.best, name)
				i := len(fb) - chunk
				any := false
				for i >= 0 && s.used < s.budget {
					fb = frameBounds(s.best, name)
					if i+chunk > len(fb) {
						i = len(fb) - chunk
						if i < 0 {
							break
						}
					}
					c := deleteRange(s.best, name, fb[i][0], fb[i+chunk-1][1])
					if s.attempt(c) {
						any = true
						improved = true
					}
					i -= chunk
				}
				if !any || chunk == 1 {
					chunk /= 2
				}
				if any && chunk == 1 {
					break
				}
			}
		}
		// 2. truncate the tail of each stream
		for _, name := range s.best.streamNames() {
			lo, hi := 0, len(s.best.Streams[name])
			for lo < hi && s.used < s.budget {
				mid := (lo + hi) / 2
				c := s.best.clone()
				c.Streams[name] = c.Streams[name][:mid]
				delete(c.Frames, name)
				if s.attempt(c) {
					hi = len(s.best.Streams[name])
					if hi > mid {
						hi = mid
					}
					improved = true
				} else {
					lo = mid + 1
				}
			}
		}
		// 3. raw chunk deletion for streams without frames (scheduler streams)
		for _, name := range s.best.streamNames() {
			if len(frameBounds(s.best, name)) > 0 {
				continue
			}
			for _, chunk := range []int{16, 4, 1} {
				for i := len(s.best.Streams[name]) - chunk; i >= 0 && s.used < s.budget; i -= chunk {
					if i+chunk > len(s.best.Streams[name]) {
						continue
					}
					if s.attempt(deleteRange(s.best, name, i, i+chunk)) {
						improved = true
					}
				}
			}
		}
		// 4. zero values (chunks, then singles), then halve
		for _, name := range s.best.streamNames() {
			for _, chunk := range []int{8, 1} {
				for i := 0; i < len(s.best.Streams[name]) && s.used < s.budget; i += chunk {
					c := s.best.clone()
					changed := false
					for j := i; j < i+chunk && j < len(c.Streams[name]); j++ {
						if c.Streams[name][j] != 0 {
							c.Streams[name][j] = 0
							changed = true
						}
					}
					if changed && s.attempt(c) {
						improved = true
					}
				}
			}
			for i := 0; i < len(s.best.Streams[name]) && s.used < s.budget; i++ {
				for i < len(s.best.Streams[name]) && s.best.Streams[name][i] > 1 && s.used < s.budget {
					c := s.best.clone()
					c.Streams[name][i] /= 2
					if !s.attempt(c) {
						c2 := s.best.clone()
						c2.Streams[name][i]--
						if !s.attempt(c2) {
							break
						}
					}
					improved = true
				}
			}
		}
	}
	return s.best
}
