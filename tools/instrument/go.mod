module instrument

go 1.23
