// instrument: writes instrumented copies of selected lava source files for a build overlay.
// Nothing in the repository is touched. Two rewrites, both syntax-driven (no type information
// needed; a form that is not understood is left alone and counted):
//
//   -yields <file or dir>...   scheduler yield points for protosim:
//        x.Lock()/RLock()       -> zzsimrt.Lock(x.Lock, x.TryLock, site)
//        x.Unlock()/RUnlock()   -> zzsimrt.Unlock(x.Unlock)          (also in defer)
//        go f(a, b)             -> { zzF := f; zzA0, zzA1 := a, b; zzsimrt.Go(site, func(){ zzF(zzA0, zzA1) }) }
//        statements containing sync/atomic calls, atomic-typed method calls, TryLock, channel
//        send/receive/close, select, WaitGroup/Cond Wait, semaphore Acquire/Release, time.Sleep:
//                               zzsimrt.Yield(site) before; zzsimrt.Resume(site) after blocking ones
//
// Output: JSON map {original path: instrumented copy} on stdout; statistics on stderr.
package main

import (
	"encoding/json"
	"flag"
	"fmt"
	"go/ast"
	"go/parser"
	"go/token"
	"os"
	"path/filepath"
	"sort"
	"strings"
)

type edit struct {
	off, del int
	text     string
	prio     int // order among edits at the same offset (lower first)
}

type fileInst struct {
	fset  *token.FileSet
	src   []byte
	edits []edit
	rel   string
	stats map[string]int
	seq   int
	// set while instrumenting the statement directly under a label
	labelPos  token.Pos
	beforePos token.Pos
}

func (f *fileInst) off(p token.Pos) int { return f.fset.Position(p).Offset }
func (f *fileInst) text(n ast.Node) string {
	return string(f.src[f.off(n.Pos()):f.off(n.End())])
}
func (f *fileInst) site(p token.Pos) string {
	pos := f.fset.Position(p)
	return fmt.Sprintf("%s:%d", f.rel, pos.Line)
}
func (f *fileInst) insert(p token.Pos, text string, prio int) {
	f.edits = append(f.edits, edit{f.off(p), 0, text, prio})
}
func (f *fileInst) replace(from, to token.Pos, text string) {
	f.edits = append(f.edits, edit{f.off(from), f.off(to) - f.off(from), text, 5})
}

var atomicMethods = map[string]int{"Load": 0, "Store": 1, "Add": 1, "Swap": 1, "CompareAndSwap": 2, "And": 1, "Or": 1}

// opsIn classifies the synchronisation operations syntactically contained in n, not descending
// into function literals nor into nested statement bodies.
type opInfo struct {
	yield, blocking bool
}

func (f *fileInst) scanExpr(n ast.Node, info *opInfo) {
	if n == nil {
		return
	}
	ast.Inspect(n, func(x ast.Node) bool {
		switch e := x.(type) {
		case *ast.FuncLit:
			return false
		case *ast.BlockStmt:
			return false
		case *ast.UnaryExpr:
			if e.Op == token.ARROW {
				info.yield, info.blocking = true, true
				f.stats["chan_recv"]++
			}
		case *ast.CallExpr:
			switch fn := e.Fun.(type) {
			case *ast.Ident:
				if fn.Name == "close" && len(e.Args) == 1 {
					info.yield = true
					f.stats["chan_close"]++
				}
			case *ast.SelectorExpr:
				name := fn.Sel.Name
				if id, ok := fn.X.(*ast.Ident); ok && id.Name == "atomic" {
					info.yield = true
					f.stats["atomic_func"]++
				} else if id, ok := fn.X.(*ast.Ident); ok && id.Name == "time" && name == "Sleep" {
					info.yield, info.blocking = true, true
					f.stats["sleep"]++
				} else if na, ok := atomicMethods[name]; ok && na == len(e.Args) {
					info.yield = true
					f.stats["atomic_method"]++
				} else if (name == "TryLock" || name == "TryRLock" || name == "TryAcquire") && len(e.Args) <= 1 {
					info.yield = true
					f.stats["try"]++
				} else if name == "Wait" && len(e.Args) == 0 {
					info.yield, info.blocking = true, true
					f.stats["wait"]++
				} else if name == "Acquire" && len(e.Args) == 2 {
					info.yield, info.blocking = true, true
					f.stats["sem_acquire"]++
				} else if name == "Release" && len(e.Args) == 1 {
					info.yield = true
					f.stats["sem_release"]++
				}
			}
		}
		return true
	})
}

func isLockCall(s ast.Stmt) (call *ast.CallExpr, sel *ast.SelectorExpr, kind string) {
	es, ok := s.(*ast.ExprStmt)
	if !ok {
		return nil, nil, ""
	}
	return lockCallExpr(es.X)
}

func lockCallExpr(x ast.Expr) (*ast.CallExpr, *ast.SelectorExpr, string) {
	c, ok := x.(*ast.CallExpr)
	if !ok || len(c.Args) != 0 {
		return nil, nil, ""
	}
	se, ok := c.Fun.(*ast.SelectorExpr)
	if !ok {
		return nil, nil, ""
	}
	switch se.Sel.Name {
	case "Lock", "RLock", "Unlock", "RUnlock":
		return c, se, se.Sel.Name
	}
	return nil, nil, ""
}

func (f *fileInst) stmtList(list []ast.Stmt) {
	for _, s := range list {
		f.stmt(s)
	}
}

func (f *fileInst) funcLitsIn(n ast.Node) {
	if n == nil {
		return
	}
	ast.Inspect(n, func(x ast.Node) bool {
		if fl, ok := x.(*ast.FuncLit); ok {
			f.stmtList(fl.Body.List)
			return false
		}
		if _, ok := x.(*ast.BlockStmt); ok {
			return false
		}
		return true
	})
}

// stmt instruments one statement that is an element of a statement list.
func (f *fileInst) stmt(s ast.Stmt) {
	if s == nil {
		return
	}
	if ls, ok := s.(*ast.LabeledStmt); ok {
		// a yield must go before the label, otherwise break/continue <label> would lose their target
		f.labelPos = ls.Pos()
		f.stmt(ls.Stmt)
		f.labelPos = token.NoPos
		return
	}
	labelPos := f.labelPos
	f.labelPos = token.NoPos
	f.beforePos = s.Pos()
	if labelPos.IsValid() {
		f.beforePos = labelPos
	}
	// lock / unlock statements
	if call, sel, kind := isLockCall(s); call != nil {
		recv := f.text(sel.X)
		switch kind {
		case "Lock":
			f.replace(call.Pos(), call.End(), fmt.Sprintf("zzsimrt.Lock(%s.Lock, %s.TryLock, %q)", recv, recv, f.site(call.Pos())))
		case "RLock":
			f.replace(call.Pos(), call.End(), fmt.Sprintf("zzsimrt.Lock(%s.RLock, %s.TryRLock, %q)", recv, recv, f.site(call.Pos())))
		case "Unlock", "RUnlock":
			f.replace(call.Pos(), call.End(), fmt.Sprintf("zzsimrt.Unlock(%s.%s)", recv, kind))
		}
		f.stats["lock_"+kind]++
		return
	}
	switch st := s.(type) {
	case *ast.DeferStmt:
		if call, sel, kind := lockCallExpr(st.Call); call != nil && (kind == "Unlock" || kind == "RUnlock") {
			f.replace(call.Pos(), call.End(), fmt.Sprintf("zzsimrt.Unlock(%s.%s)", f.text(sel.X), kind))
			f.stats["defer_unlock"]++
			return
		}
		f.funcLitsIn(st.Call)
		return
	case *ast.GoStmt:
		f.goStmt(st)
		return
	case *ast.BlockStmt:
		f.stmtList(st.List)
		return
	case *ast.IfStmt:
		var info opInfo
		f.scanExpr(st.Init, &info)
		f.scanExpr(st.Cond, &info)
		f.wrap(s, info, false)
		if info.blocking {
			// the header may really block (e.g. `if err := sem.Acquire(ctx, 1); err != nil`): the
			// woken goroutine must re-park wherever control continues
			site := f.site(st.Pos())
			f.insert(st.Body.Lbrace+1, fmt.Sprintf(" zzsimrt.Resume(%q); ", site), 1)
			if eb, ok := st.Else.(*ast.BlockStmt); ok {
				f.insert(eb.Lbrace+1, fmt.Sprintf(" zzsimrt.Resume(%q); ", site), 1)
			}
			f.insert(st.End(), fmt.Sprintf("; zzsimrt.Resume(%q)", site), 9)
			f.stats["resume_if"]++
		}
		f.funcLitsIn(st.Init)
		f.funcLitsIn(st.Cond)
		f.stmtList(st.Body.List)
		f.elseChain(st.Else)
		return
	case *ast.ForStmt:
		var info opInfo
		f.scanExpr(st.Init, &info)
		f.scanExpr(st.Cond, &info)
		f.scanExpr(st.Post, &info)
		f.wrap(s, info, false)
		if info.yield && len(st.Body.List) > 0 {
			f.insert(st.Body.Lbrace+1, fmt.Sprintf(" zzsimrt.Yield(%q); ", f.site(st.Pos())), 1)
		}
		f.stmtList(st.Body.List)
		return
	case *ast.RangeStmt:
		var info opInfo
		f.scanExpr(st.X, &info)
		f.wrap(s, info, false)
		f.funcLitsIn(st.X)
		if st.Value == nil && st.Key != nil {
			// possibly a range over a channel: the woken goroutine must re-park
			f.insert(st.Body.Lbrace+1, fmt.Sprintf(" zzsimrt.Resume(%q); ", f.site(st.Pos())), 1)
			f.stats["range_resume"]++
		}
		f.stmtList(st.Body.List)
		return
	case *ast.SwitchStmt:
		var info opInfo
		f.scanExpr(st.Init, &info)
		f.scanExpr(st.Tag, &info)
		f.wrap(s, info, false)
		for _, c := range st.Body.List {
			cc := c.(*ast.CaseClause)
			f.stmtList(cc.Body)
		}
		return
	case *ast.TypeSwitchStmt:
		for _, c := range st.Body.List {
			cc := c.(*ast.CaseClause)
			f.stmtList(cc.Body)
		}
		return
	case *ast.SelectStmt:
		f.selectStmt(st)
		return
	case *ast.SendStmt:
		f.stats["chan_send"]++
		f.wrap(s, opInfo{true, true}, true)
		f.funcLitsIn(st.Value)
		return
	}
	// simple statements: expr, assign, return, decl, incdec
	var info opInfo
	f.scanExpr(s, &info)
	_, isReturn := s.(*ast.ReturnStmt)
	f.wrap(s, info, !isReturn)
	f.funcLitsIn(s)
}

// selectStmt turns a select into a tape-driven choice (see simrt/select.go):
//
//	select { case x := <-c1: B1; case c2 <- v: B2; default: D }
//	=> { zzsN_0 := c1; zzsN_1 := c2; zzsN_1v := v; zziN, zzrN := zzsimrt.Select(site, true, RecvCase(zzsN_0), SendCase(zzsN_1, zzsN_1v)); _ = zzrN
//	     switch zziN { case 0: x := <-zzsimrt.Relay(zzsN_0, zzrN); B1; case 1: B2; case -1: D } }
//
// `break` inside a clause leaves the switch exactly as it left the select; a label stays on the
// switch.
func (f *fileInst) selectStmt(st *ast.SelectStmt) {
	f.stats["select"]++
	f.seq++
	n := f.seq
	site := f.site(st.Pos())
	before := f.beforePos
	var pro strings.Builder
	var caseArgs []string
	hasDefault := false
	idx := 0
	type clauseEdit struct {
		cc   *ast.CommClause
		head string
	}
	var clauses []clauseEdit
	for _, c := range st.Body.List {
		cc := c.(*ast.CommClause)
		if cc.Comm == nil {
			hasDefault = true
			clauses = append(clauses, clauseEdit{cc, "default:"})
			continue
		}
		chVar := fmt.Sprintf("zzs%d_%d", n, idx)
		head := fmt.Sprintf("case %d:", idx)
		switch comm := cc.Comm.(type) {
		case *ast.SendStmt:
			fmt.Fprintf(&pro, "%s := %s; ", chVar, f.text(comm.Chan))
			if id, ok := comm.Value.(*ast.Ident); ok && id.Name == "nil" {
				caseArgs = append(caseArgs, fmt.Sprintf("zzsimrt.SendCase(%s, nil)", chVar))
			} else {
				fmt.Fprintf(&pro, "%sv := %s; ", chVar, f.text(comm.Value))
				caseArgs = append(caseArgs, fmt.Sprintf("zzsimrt.SendCase(%s, %sv)", chVar, chVar))
			}
		case *ast.ExprStmt:
			// case <-ch:
			ue, ok := comm.X.(*ast.UnaryExpr)
			if !ok {
				f.stats["select_unknown_form"]++
				return
			}
			fmt.Fprintf(&pro, "%s := %s; ", chVar, f.text(ue.X))
			caseArgs = append(caseArgs, fmt.Sprintf("zzsimrt.RecvCase(%s)", chVar))
		case *ast.AssignStmt:
			// case x := <-ch:   case x, ok = <-ch:
			if len(comm.Rhs) != 1 {
				f.stats["select_unknown_form"]++
				return
			}
			ue, ok := comm.Rhs[0].(*ast.UnaryExpr)
			if !ok {
				f.stats["select_unknown_form"]++
				return
			}
			fmt.Fprintf(&pro, "%s := %s; ", chVar, f.text(ue.X))
			caseArgs = append(caseArgs, fmt.Sprintf("zzsimrt.RecvCase(%s)", chVar))
			var lhs []string
			for _, l := range comm.Lhs {
				lhs = append(lhs, f.text(l))
			}
			head += fmt.Sprintf(" %s %s <-zzsimrt.Relay(%s, zzr%d);", strings.Join(lhs, ", "), comm.Tok.String(), chVar, n)
			// variables declared by the comm clause may be unused in the body only if they were
			// unused before too (then the original would not compile): nothing to do
		default:
			f.stats["select_unknown_form"]++
			return
		}
		clauses = append(clauses, clauseEdit{cc, head})
		idx++
	}
	open := fmt.Sprintf("{ %szzi%d, zzr%d := zzsimrt.Select(%q, %v", pro.String(), n, n, site, hasDefault)
	for _, a := range caseArgs {
		open += ", " + a
	}
	open += fmt.Sprintf("); _ = zzr%d; ", n)
	f.insert(before, open, 1)
	// `select {`  ->  `switch zziN {`
	f.replace(st.Pos(), st.Body.Lbrace+1, fmt.Sprintf("switch zzi%d {", n))
	for _, ce := range clauses {
		f.replace(ce.cc.Pos(), ce.cc.Colon+1, ce.head)
		f.stmtList(ce.cc.Body)
	}
	if !hasDefault {
		// keeps the switch a terminating statement when every clause terminates (as the select was)
		f.insert(st.Body.Rbrace, " default: panic(\"zzsimrt: select returned an unknown case\"); ", 9)
	}
	f.insert(st.End(), " }", 9)
}

func (f *fileInst) elseChain(e ast.Stmt) {
	switch x := e.(type) {
	case nil:
	case *ast.BlockStmt:
		f.stmtList(x.List)
	case *ast.IfStmt:
		// header of an else-if cannot take a statement before it: left coarse (counted)
		var info opInfo
		f.scanExpr(x.Init, &info)
		f.scanExpr(x.Cond, &info)
		if info.yield {
			f.stats["uninstrumented_elseif_header"]++
		}
		f.stmtList(x.Body.List)
		f.elseChain(x.Else)
	}
}

// wrap inserts Yield before s and, for blocking operations, Resume after it.
func (f *fileInst) wrap(s ast.Stmt, info opInfo, after bool) {
	if !info.yield {
		return
	}
	site := f.site(s.Pos())
	f.insert(f.beforePos, fmt.Sprintf("zzsimrt.Yield(%q); ", site), 1)
	f.stats["yield"]++
	if info.blocking && after {
		f.insert(s.End(), fmt.Sprintf("; zzsimrt.Resume(%q)", site), 9)
		f.stats["resume"]++
	}
}

func (f *fileInst) goStmt(g *ast.GoStmt) {
	f.stats["go"]++
	site := f.site(g.Pos())
	call := g.Call
	f.seq++
	// instrument function literals inside the call (fun and args)
	f.funcLitsIn(call.Fun) // (ast.Inspect visits the root too: a FuncLit callee is walked here)
	for _, a := range call.Args {
		f.funcLitsIn(a)
	}
	if fl, ok := call.Fun.(*ast.FuncLit); ok && len(call.Args) == 0 && len(fl.Type.Params.List) == 0 {
		// go func(){...}()  ->  zzsimrt.Go(site, func(){...})
		f.replace(g.Pos(), call.Fun.Pos(), fmt.Sprintf("zzsimrt.Go(%q, ", site))
		f.replace(call.Lparen, call.Rparen+1, ")")
		return
	}
	// general form
	fv := fmt.Sprintf("zzF%d", f.seq)
	f.replace(g.Pos(), call.Fun.Pos(), fmt.Sprintf("{ %s := ", fv))
	if len(call.Args) == 0 {
		f.replace(call.Lparen, call.Rparen+1, fmt.Sprintf("; zzsimrt.Go(%q, func() { %s() }) }", site, fv))
		return
	}
	// constants (nil, literals, true/false) have no evaluation-time semantics and no type of their
	// own: they are passed through unchanged; every other argument is evaluated now into a temp.
	isConst := func(e ast.Expr) bool {
		switch x := e.(type) {
		case *ast.BasicLit:
			return true
		case *ast.Ident:
			return x.Name == "nil" || x.Name == "true" || x.Name == "false"
		}
		return false
	}
	anyConst := false
	for _, a := range call.Args {
		if isConst(a) {
			anyConst = true
		}
	}
	if !anyConst {
		// argument texts stay in place (nested function literals keep their instrumentation)
		var lhs, use []string
		for i := range call.Args {
			v := fmt.Sprintf("zzA%d_%d", f.seq, i)
			lhs = append(lhs, v)
			if i == len(call.Args)-1 && call.Ellipsis.IsValid() {
				use = append(use, v+"...")
			} else {
				use = append(use, v)
			}
		}
		f.replace(call.Lparen, call.Lparen+1, fmt.Sprintf("; %s := ", strings.Join(lhs, ", ")))
		if call.Ellipsis.IsValid() {
			// drop the "..." from the assignment
			f.replace(call.Ellipsis, call.Ellipsis+3, "")
		}
		f.replace(call.Rparen, call.Rparen+1, fmt.Sprintf("; zzsimrt.Go(%q, func() { %s(%s) }) }", site, fv, strings.Join(use, ", ")))
		return
	}
	// mixed form: the argument list is regenerated from the argument texts
	var pro strings.Builder
	var use []string
	for i, a := range call.Args {
		u := f.text(a)
		if !isConst(a) {
			v := fmt.Sprintf("zzA%d_%d", f.seq, i)
			fmt.Fprintf(&pro, "; %s := %s", v, u)
			u = v
		}
		if i == len(call.Args)-1 && call.Ellipsis.IsValid() {
			u += "..."
		}
		use = append(use, u)
	}
	f.replace(call.Lparen, call.Rparen+1, fmt.Sprintf("%s; zzsimrt.Go(%q, func() { %s(%s) }) }", pro.String(), site, fv, strings.Join(use, ", ")))
}

func (f *fileInst) apply() []byte {
	sort.SliceStable(f.edits, func(i, j int) bool {
		if f.edits[i].off != f.edits[j].off {
			return f.edits[i].off < f.edits[j].off
		}
		return f.edits[i].prio < f.edits[j].prio
	})
	var out []byte
	pos := 0
	for _, e := range f.edits {
		if e.off < pos {
			// overlapping edit (should not happen): skip and count
			f.stats["overlap_skipped"]++
			continue
		}
		out = append(out, f.src[pos:e.off]...)
		out = append(out, e.text...)
		pos = e.off + e.del
	}
	out = append(out, f.src[pos:]...)
	return out
}

const simrtImport = "zzsimrt \"github.com/lavanet/lava/v5/zz_verif/simrt\""

// srcMap: original path -> already rewritten copy (output of tools/maporder) to use as the source
var srcMap = map[string]string{}

func instrumentFile(path, rel, outDir string, total map[string]int) (string, error) {
	readFrom := path
	if alt, ok := srcMap[path]; ok {
		readFrom = alt
	}
	src, err := os.ReadFile(readFrom)
	if err != nil {
		return "", err
	}
	fset := token.NewFileSet()
	af, err := parser.ParseFile(fset, path, src, parser.ParseComments)
	if err != nil {
		return "", err
	}
	fi := &fileInst{fset: fset, src: src, rel: rel, stats: map[string]int{}}
	for _, d := range af.Decls {
		switch x := d.(type) {
		case *ast.FuncDecl:
			if x.Body != nil {
				fi.stmtList(x.Body.List)
			}
		case *ast.GenDecl:
			fi.funcLitsIn(x)
		}
	}
	if len(fi.edits) == 0 {
		return "", nil
	}
	// add the import right after the package clause (unless a previous pass already did)
	if !strings.Contains(string(src), simrtImport) {
		fi.insert(af.Name.End(), "\n\nimport "+simrtImport+"\n", 0)
	}
	out := fi.apply()
	dst := filepath.Join(outDir, strings.ReplaceAll(rel, "/", "__"))
	if err := os.WriteFile(dst, out, 0o644); err != nil {
		return "", err
	}
	for k, v := range fi.stats {
		total[k] += v
	}
	return dst, nil
}

func main() {
	outDir := flag.String("out", "", "output directory")
	repo := flag.String("repo", "/repo", "repository root")
	srcMapFile := flag.String("srcmap", "", "JSON map original path -> pre-rewritten copy to read instead")
	flag.Parse()
	if *srcMapFile != "" {
		b, err := os.ReadFile(*srcMapFile)
		if err == nil {
			json.Unmarshal(b, &srcMap)
		}
	}
	if *outDir == "" {
		fmt.Fprintln(os.Stderr, "need -out")
		os.Exit(2)
	}
	mode := ""
	result := map[string]string{}
	total := map[string]int{}
	skip := map[string]bool{}
	var targets []string
	for _, a := range flag.Args() {
		switch {
		case a == "yields":
			mode = "yields"
		case strings.HasPrefix(a, "skip="):
			skip[strings.TrimPrefix(a, "skip=")] = true
		default:
			if mode == "" {
				fmt.Fprintln(os.Stderr, "no mode given before", a)
				os.Exit(2)
			}
			targets = append(targets, a)
		}
	}
	for _, tgt := range targets {
		p := filepath.Join(*repo, tgt)
		st, err := os.Stat(p)
		if err != nil {
			fmt.Fprintln(os.Stderr, "instrument:", err)
			os.Exit(2)
		}
		var files []string
		if st.IsDir() {
			ms, _ := filepath.Glob(filepath.Join(p, "*.go"))
			files = ms
		} else {
			files = []string{p}
		}
		for _, file := range files {
			if strings.HasSuffix(file, "_test.go") || strings.HasSuffix(file, ".pb.go") || strings.HasSuffix(file, ".pb.gw.go") {
				continue
			}
			rel, _ := filepath.Rel(*repo, file)
			if skip[rel] {
				continue
			}
			dst, err := instrumentFile(file, rel, *outDir, total)
			if err != nil {
				fmt.Fprintln(os.Stderr, "instrument:", file, err)
				os.Exit(2)
			}
			if dst != "" {
				result[file] = dst
			}
		}
	}
	sb, _ := json.Marshal(total)
	fmt.Fprintf(os.Stderr, "instrument: %d files, sites: %s\n", len(result), sb)
	os.WriteFile(filepath.Join(*outDir, "stats.json"), sb, 0o644)
	json.NewEncoder(os.Stdout).Encode(result)
}
