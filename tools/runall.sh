#!/bin/bash
# tools/runall.sh [tier] [extra check args]: runs every registered check once, prints one line each.
tier=${1:-quick}; shift
cd /verif
ids=${IDS:-$(python3 -c "import json;print(' '.join(sorted(json.load(open('/verif/checks.json'))['checks'].keys())))")}
for id in $ids; do
  t0=$(date +%s)
  out=$(./check $id --tier $tier "$@" 2>&1); code=$?
  t1=$(date +%s)
  line=$(echo "$out" | grep -E "^(VIOLATION|OK property|vdriver: (vacuity|determinism|worker|build|violation))" | head -2 | tr '\n' ' ' | cut -c1-260)
  known=$(echo "$out" | grep -c "^KNOWN-FINDING")
  runs=$(echo "$out" | grep -oE "^runs=[0-9]+ distinct_nontrivial=[0-9]+" | head -1)
  echo "$id exit=$code $((t1-t0))s known=$known $runs :: $line"
  if [ $code -ne 0 ]; then echo "$out" | tail -15 | cut -c1-300 | sed 's/^/    | /'; fi
done
