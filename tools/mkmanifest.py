#!/usr/bin/env python3
"""Regenerates /verif/MANIFEST.json from checks.json + manifest_meta.json (kept in sync by hand).
Usage: python3 tools/mkmanifest.py"""
import json, os, sys

V = "/verif"
checks = json.load(open(f"{V}/checks.json"))
meta = json.load(open(f"{V}/manifest_meta.json"))
props = [json.loads(l) for l in open(f"{V}/properties.jsonl")]
ids = [p["id"] for p in props]

man = {
    "version": 1,
    "setup_cmd": "./setup.sh",
    "hooks": {
        "guard": "verif-overlay",
        "enable": "no source hook exists in /repo: every check regenerates a Go build overlay (go test -c -overlay) from /repo's current working tree that adds the harness packages (zz_verif/...), in-package harness _test files and instrumented copies of selected sources; with no overlay the tree is byte-identical to upstream",
        "baseline_off_cmd": meta["baseline_off_cmd"],
        "source_commits": [],
        "add_only": True,
    },
    "engines": [],
    "checks": [],
    "notes": meta.get("notes", ""),
    "not_applicable": [],
}
eng_props = {}
for cid, c in checks["checks"].items():
    eng_props.setdefault(c["engine"], []).append(cid)
for name, e in checks["engines"].items():
    man["engines"].append({
        "name": name,
        "path": meta["engines"].get(name, {}).get("path", "harness/" + name),
        "serves_properties": sorted(eng_props.get(name, [])),
        "kind_free_text": meta["engines"].get(name, {}).get("kind", "deterministic simulation engine"),
    })
for pid in ids:
    if pid in checks["checks"]:
        c = checks["checks"][pid]
        m = meta["checks"].get(pid)
        if m is None:
            sys.exit(f"manifest_meta.json lacks an entry for claimed check {pid}")
        man["checks"].append({
            "property_id": pid,
            "quick_cmd": f"./check {pid} --tier quick",
            "thorough_cmd": f"./check {pid} --tier thorough",
            "evidence_file": f"evidence/{pid}.json",
            "replay_cmd_template": f"./check {pid} --replay {{path}}",
            "engine": c["engine"],
            "level_claimed": {"category": c.get("level", "exploration"), "text": m["text"], "design_ref": m.get("design_ref", "")},
            "level_note": m["note"],
            "technique": m.get("technique", "deterministic simulation with fault injection: seeded search over schedules/histories with step oracles"),
        })
    else:
        reason = meta["not_applicable"].get(pid)
        if reason is None:
            sys.exit(f"manifest_meta.json lacks a not_applicable reason for unclaimed {pid}")
        man["not_applicable"].append({"property_id": pid, "reason": reason})
json.dump(man, open(f"{V}/MANIFEST.json", "w"), indent=1)
print(f"MANIFEST.json: {len(man['checks'])} checks, {len(man['not_applicable'])} not applicable")
