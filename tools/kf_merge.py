#!/usr/bin/env python3
"""Merge known-finding entries from a JSON file (list, or {"findings": [...]}) into
/verif/known_findings.json. Never used by a check at run time: maintenance only.
Usage: tools/kf_merge.py <file.json> [--only C16,C17]"""
import json, sys

def atomic_dump(obj, path):
    import os, json as _j
    tmp = path + ".tmp%d" % os.getpid()
    with open(tmp, "w") as fh:
        _j.dump(obj, fh, indent=1)
    os.replace(tmp, path)

src = json.load(open(sys.argv[1]))
src = src["findings"] if isinstance(src, dict) else src
only = None
if "--only" in sys.argv:
    only = set(sys.argv[sys.argv.index("--only") + 1].split(","))
path = "/verif/known_findings.json"
d = json.load(open(path))
have = {(f["property"], f["class"], f["sig"]) for f in d["findings"]}
n = 0
for f in src:
    if only and f["property"] not in only:
        continue
    k = (f["property"], f["class"], f["sig"])
    if k in have:
        continue
    d["findings"].append(f)
    have.add(k)
    n += 1
atomic_dump(d, path)
print("added", n, "total", len(d["findings"]))
