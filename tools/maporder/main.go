// maporder: type-driven rewrite of `for k, v := range m` over Go maps into iteration over
// zzsimrt.MapKeys(m, site), so that the simulator (not the runtime's per-loop random seed) decides
// the iteration order of every map range in the chain code — and can replay it.
//
//	for k, v := range m { body }
//	  =>  { zzmN := m; for _, k := range zzsimrt.MapKeys(zzmN, "site") { v, zzokN := zzmN[k]; if !zzokN { continue }; body } }
//
// Go semantics are preserved: an entry deleted during the loop is skipped, entries inserted during
// the loop may be skipped. With no simulator order installed MapKeys returns the keys in the
// runtime's native order. Writes instrumented copies + a JSON overlay map (stdout); never touches
// the repository.
package main

import (
	"encoding/json"
	"flag"
	"fmt"
	"go/ast"
	"go/token"
	"go/types"
	"os"
	"path/filepath"
	"sort"
	"strings"

	"golang.org/x/tools/go/packages"
)

type edit struct {
	off, del int
	text     string
}

const simrtImport = "zzsimrt \"github.com/lavanet/lava/v5/zz_verif/simrt\""

func main() {
	outDir := flag.String("out", "", "output directory")
	repo := flag.String("repo", "/repo", "repository root")
	flag.Parse()
	patterns := flag.Args()
	if *outDir == "" || len(patterns) == 0 {
		fmt.Fprintln(os.Stderr, "usage: maporder -out dir [-repo /repo] ./x/... ./utils/...")
		os.Exit(2)
	}
	cfg := &packages.Config{
		Mode: packages.NeedName | packages.NeedFiles | packages.NeedCompiledGoFiles | packages.NeedImports | packages.NeedDeps |
			packages.NeedTypes | packages.NeedSyntax | packages.NeedTypesInfo | packages.NeedTypesSizes,
		Dir:   *repo,
		Tests: false,
		Env:   append(os.Environ(), "GOFLAGS=-mod=mod", "GOPROXY=off", "GOSUMDB=off", "GOTOOLCHAIN=local"),
	}
	pkgs, err := packages.Load(cfg, patterns...)
	if err != nil {
		fmt.Fprintln(os.Stderr, "maporder: load:", err)
		os.Exit(2)
	}
	result := map[string]string{}
	stats := map[string]int{}
	for _, pkg := range pkgs {
		if len(pkg.Errors) > 0 {
			// a package that does not type-check is left alone (the normal build will report it)
			stats["pkgs_with_errors"]++
			continue
		}
		for i, file := range pkg.Syntax {
			path := pkg.CompiledGoFiles[i]
			if !strings.HasPrefix(path, *repo+"/") || strings.HasSuffix(path, ".pb.go") || strings.HasSuffix(path, ".pb.gw.go") || strings.HasSuffix(path, "_test.go") {
				continue
			}
			src, err := os.ReadFile(path)
			if err != nil {
				continue
			}
			rel, _ := filepath.Rel(*repo, path)
			edits := rewriteFile(pkg, file, src, rel, stats)
			if len(edits) == 0 {
				continue
			}
			// import
			edits = append(edits, edit{pkg.Fset.Position(file.Name.End()).Offset, 0, "\n\nimport " + simrtImport + "\n"})
			out := apply(src, edits)
			dst := filepath.Join(*outDir, strings.ReplaceAll(rel, "/", "__"))
			if err := os.WriteFile(dst, out, 0o644); err != nil {
				fmt.Fprintln(os.Stderr, "maporder:", err)
				os.Exit(2)
			}
			result[path] = dst
		}
	}
	sb, _ := json.Marshal(stats)
	fmt.Fprintf(os.Stderr, "maporder: %d packages, %d files rewritten, %s\n", len(pkgs), len(result), sb)
	os.WriteFile(filepath.Join(*outDir, "stats.json"), sb, 0o644)
	json.NewEncoder(os.Stdout).Encode(result)
}

func apply(src []byte, edits []edit) []byte {
	sort.SliceStable(edits, func(i, j int) bool { return edits[i].off < edits[j].off })
	var out []byte
	pos := 0
	for _, e := range edits {
		if e.off < pos {
			continue
		}
		out = append(out, src[pos:e.off]...)
		out = append(out, e.text...)
		pos = e.off + e.del
	}
	return append(out, src[pos:]...)
}

func rewriteFile(pkg *packages.Package, file *ast.File, src []byte, rel string, stats map[string]int) []edit {
	var edits []edit
	fset := pkg.Fset
	off := func(p token.Pos) int { return fset.Position(p).Offset }
	text := func(n ast.Node) string { return string(src[off(n.Pos()):off(n.End())]) }
	seq := 0
	// labels: a labelled range statement must keep its label directly on the `for`
	labelOf := map[*ast.RangeStmt]*ast.LabeledStmt{}
	ast.Inspect(file, func(n ast.Node) bool {
		if ls, ok := n.(*ast.LabeledStmt); ok {
			if rs, ok := ls.Stmt.(*ast.RangeStmt); ok {
				labelOf[rs] = ls
			}
		}
		return true
	})
	ast.Inspect(file, func(n ast.Node) bool {
		rs, ok := n.(*ast.RangeStmt)
		if !ok {
			return true
		}
		tv, ok := pkg.TypesInfo.Types[rs.X]
		if !ok || tv.Type == nil {
			return true
		}
		if _, isMap := tv.Type.Underlying().(*types.Map); !isMap {
			return true
		}
		stats["map_ranges"]++
		isBlank := func(e ast.Expr) bool {
			id, ok := e.(*ast.Ident)
			return e == nil || (ok && id.Name == "_")
		}
		if isBlank(rs.Key) && isBlank(rs.Value) {
			stats["map_ranges_no_vars"]++
			return true // `for range m`: order is irrelevant
		}
		seq++
		site := fmt.Sprintf("%s:%d", rel, fset.Position(rs.Pos()).Line)
		mv := fmt.Sprintf("zzm%d", seq)
		okv := fmt.Sprintf("zzok%d", seq)
		kv := fmt.Sprintf("zzk%d", seq)
		vv := fmt.Sprintf("zzv%d", seq)
		start := rs.Pos()
		if ls, ok := labelOf[rs]; ok {
			start = ls.Pos()
		}
		// open block + map temp before the (label+) for
		edits = append(edits, edit{off(start), 0, fmt.Sprintf("{ %s := %s; ", mv, text(rs.X))})
		// header: from `for` up to and including the body's `{`
		var header, prologue string
		define := rs.Tok == token.DEFINE
		keyName := kv
		if define && !isBlank(rs.Key) {
			keyName = text(rs.Key)
		}
		header = fmt.Sprintf("for _, %s := range zzsimrt.MapKeys(%s, %q) {", keyName, mv, site)
		if !define && !isBlank(rs.Key) {
			prologue += fmt.Sprintf(" %s = %s;", text(rs.Key), kv)
		}
		if isBlank(rs.Value) {
			prologue += fmt.Sprintf(" if _, %s := %s[%s]; !%s { continue };", okv, mv, keyName, okv)
		} else if define {
			prologue += fmt.Sprintf(" %s, %s := %s[%s]; if !%s { continue };", text(rs.Value), okv, mv, keyName, okv)
		} else {
			prologue += fmt.Sprintf(" %s, %s := %s[%s]; if !%s { continue }; %s = %s;", vv, okv, mv, keyName, okv, text(rs.Value), vv)
		}
		edits = append(edits, edit{off(rs.For), off(rs.Body.Lbrace) + 1 - off(rs.For), header + prologue})
		edits = append(edits, edit{off(rs.End()), 0, " }"})
		return true
	})
	return edits
}
