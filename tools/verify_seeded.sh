#!/bin/bash
# tools/verify_seeded.sh <seeded-dir-name>
# Confirms a seeded change independently in the scratch worktree /tmp/wt-seeded:
#   1. clean HEAD + demo           -> demo must PASS
#   2. patch applied + demo        -> demo must FAIL
#   3. patch applied, demo removed -> the existing tests of the touched packages must PASS
# Writes /verif/seeded/<name>/verified.txt. Exit 0 only if all three hold.
set -u
name="$1"
dir=/verif/seeded/$name
WT=${SEEDED_WT:-/tmp/wt-seeded}
export GOFLAGS=-mod=mod GOPROXY=off GOSUMDB=off
exec 9>"$WT.lock"; flock 9
head=$(git -C /repo rev-parse HEAD)
if [ ! -e "$WT/.git" ]; then git -C /repo worktree add --detach "$WT" "$head" >/dev/null 2>&1 || { echo "cannot create worktree"; exit 2; }; fi
git -C "$WT" checkout -q -- . && git -C "$WT" clean -fdq && git -C "$WT" checkout -q --detach "$head" || exit 2
demo_path=$(cat "$dir/demo_path.txt" | head -1 | tr -d '\r\n ')
demo_cmd=$(cat "$dir/demo_cmd.txt" | head -1)
demo_src=$(ls "$dir"/demo_test.go 2>/dev/null || ls "$dir"/*_test.go | head -1)
mkdir -p "$(dirname "$WT/$demo_path")"
cp "$demo_src" "$WT/$demo_path"
out="$dir/verified.txt"; : > "$out"
run_demo() { (cd "$WT" && timeout 1500 bash -c "$demo_cmd") > $WT.demo.log 2>&1; }
echo "repo HEAD $head" >> "$out"
run_demo; c1=$?
echo "1. demo on clean HEAD: exit $c1 (expect 0)" | tee -a "$out"
git -C "$WT" apply "$dir/patch.diff" || { echo "patch does not apply" | tee -a "$out"; exit 2; }
run_demo; c2=$?
echo "2. demo with patch: exit $c2 (expect non-zero)" | tee -a "$out"
tail -5 $WT.demo.log | cut -c1-200 >> "$out"
rm -f "$WT/$demo_path"
pkgs=$(git -C "$WT" diff --name-only | xargs -n1 dirname | sort -u | sed 's|^|./|' | tr '\n' ' ')
(cd "$WT" && timeout 3000 go test -vet=off -count=1 $pkgs) > $WT.tests.log 2>&1; c3=$?
echo "3. existing tests of $pkgs with patch: exit $c3 (expect 0)" | tee -a "$out"
tail -4 $WT.tests.log | cut -c1-200 >> "$out"
git -C "$WT" checkout -q -- . ; git -C "$WT" clean -fdq
if [ $c1 -eq 0 ] && [ $c2 -ne 0 ] && [ $c3 -eq 0 ]; then echo "VERIFIED $name" | tee -a "$out"; exit 0; fi
echo "NOT VERIFIED $name" | tee -a "$out"; exit 1
