#!/usr/bin/env python3
"""Prints the prompt given to an independent 'seeded change' sub-agent for property IDs.
Usage: tools/mutprompt.py <tag> C27 [C41 ...]   (tag = scratch name, e.g. m1)
The agent gets only the property text and its own scratch worktree — nothing from /verif."""
import json, sys
tag = sys.argv[1]
ids = sys.argv[2:]
props = {json.loads(l)["id"]: json.loads(l) for l in open("/verif/properties.jsonl")}
out = []
out.append(f"""You are a careful Go engineer doing *mutation seeding* for a verification study of the repository lavanet/lava (a Cosmos-SDK chain plus consumer/provider relay daemons, Go). You work ONLY in your own scratch git worktree of it and in your own output directory:

  git -C /repo worktree add --detach /tmp/mut-{tag} HEAD        # create it first (if it exists already, reuse it: `git -C /tmp/mut-{tag} checkout -- . && git -C /tmp/mut-{tag} clean -fd`)
  mkdir -p /tmp/mut-{tag}-out

NEVER modify /repo itself, and do not read anything under /verif (it contains the checks under study; your work must be independent of them). Every shell call needs: export GOFLAGS=-mod=mod GOPROXY=off GOSUMDB=off   (no network; use the default `go`, version 1.23). The machine is shared and busy: run only the tests of the packages you touch (e.g. `cd /tmp/mut-{tag} && go test -vet=off -count=1 ./x/timerstore/...`), never the whole suite, and prefer `-run` filters while iterating. First builds of a package can take minutes.

For EACH property below produce NMUT_PLACEHOLDER change(s) ("mutants") to lava's non-test source code that BREAK the property, each of which:
  * compiles, and the EXISTING tests of every package you touched still pass (run them; a mutant that fails an existing test is useless — note that some packages have slow or flaky tests: say which you ran);
  * is realistic — the kind of slip a developer could make in a refactor or "optimisation" (off-by-one, wrong comparison, dropped or reordered statement, missing unlock/rollback, wrong key, stale cache, lost update, skipped edge case) — small (1-15 changed lines), and NOT something ordinary use would expose at once: it must need something specific to manifest — a particular interleaving, a crash/fault/timeout at a particular point, a multi-step sequence of operations, an unusual input or parameter value, or two cooperating sites that each look fine alone. State precisely what it needs;
  * comes with a DEMONSTRATION: a new Go test file (or small program) placed in the worktree that FAILS with the change and PASSES without it, deterministic (no sleeps-as-synchronisation races; if it needs an interleaving, force it with channels/hooks inside the test, or loop with clear bounds), running in < 60 s. Verify both directions yourself (save the change with `git diff > /tmp/mut-TAG-out/cur.patch`, undo it with `git apply -R`, run, re-apply with `git apply`; do NOT use `git stash`: the stash is shared by all worktrees of /repo and other people use them).
If you produce two mutants for one property they must be in different functions and break different clauses of the property if it has several.

Deliver, per mutant k (name it <ID>-{tag}-<k>, e.g. C27-{tag}-1), a directory /tmp/mut-{tag}-out/<name>/ containing:
  patch.diff   — `git diff` of the non-test source change ONLY (must apply with `git apply` on a clean checkout of HEAD);
  demo_test.go (or demo/ …) — the demonstration, plus `demo_path.txt` = the path inside the repo where the demo file must be placed (e.g. x/timerstore/types/zz_demo_test.go) and `demo_cmd.txt` = the exact command to run it from the repo root;
  meta.json    — {{"property": "<ID>", "name": "...", "summary": "one sentence what was changed", "clause_broken": "...", "needs_to_manifest": "...", "files": [...], "existing_tests_run": "command + result", "demo_fails_with_change": true, "demo_passes_without_change": true}}.
Reset the worktree to clean between mutants (each patch.diff is independent, against HEAD). At the very end remove the worktree: `git -C /repo worktree remove --force /tmp/mut-{tag}` (keep /tmp/mut-{tag}-out).

Final answer: a short table of the mutants (name, property, one-line summary, what it needs to manifest, which existing tests you ran).

THE PROPERTIES
""")
for i in ids:
    p = props[i]
    out.append(f"""--- {i}: {p['title']} ---
Statement: {p['statement']}
Quantified over: {p['quantifier']['text']}
Why the existing tests cannot settle it: {p['why_tests_cant']}
Where the mechanism lives (files): {', '.join(p['anchors']['files'])}
Mechanisms: {'; '.join(m.get('name','')+' ('+m.get('where','')+')' for m in p['anchors'].get('mechanism',[]))}
""")
print("\n".join(out))
