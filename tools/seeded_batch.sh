#!/bin/bash
# tools/seeded_batch.sh [names...]: runs tools/seeded.sh for each seeded change against the check of its
# property (name prefix) and appends one line per change to build/lead/seeded_results.txt
cd /verif
names="$@"; [ -z "$names" ] && names=$(ls seeded | grep -v "\.diff$")
for n in $names; do
  [ -f seeded/$n/patch.diff ] || continue
  id=$(echo $n | sed -E 's/^own-//; s/-.*$//')
  out=$(tools/seeded.sh $n $id --workers ${SEEDED_WORKERS:-6} ${SEEDED_ARGS:-} 2>&1)
  res=$(echo "$out" | grep "^SEEDED" | tail -1)
  viol=$(echo "$out" | grep "^violation:" | head -1 | cut -c1-160)
  echo "$(date +%H:%M) $res :: $viol${SEEDED_ARGS:+ [args: $SEEDED_ARGS]}" | tee -a build/lead/seeded_results.txt
done
