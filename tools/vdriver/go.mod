module vdriver

go 1.23
