// vdriver: builds an engine's test binary from /repo's current working tree through a build
// overlay (no file of /repo is touched), fans out worker processes, merges their results, confirms
// a violation by replaying the minimised tape in a fresh process, writes the replay file and the
// evidence file. Exit 0 = held; 1 = VIOLATION line printed; 2 = build / watchdog / vacuity /
// nondeterminism trouble (never a verdict).
package main

import (
	"bytes"
	"crypto/sha256"
	"encoding/hex"
	"encoding/json"
	"flag"
	"fmt"
	"os"
	"os/exec"
	"path/filepath"
	"sort"
	"strconv"
	"strings"
	"sync"
	"syscall"
	"time"
)

const verifDir = "/verif"

// repoDir is /repo for every registered check; VERIF_REPO_DIR points development experiments
// (mutation tests in a scratch worktree) somewhere else without touching /repo.
var repoDir = func() string {
	if d := os.Getenv("VERIF_REPO_DIR"); d != "" {
		return d
	}
	return "/repo"
}()

type TierCfg struct {
	BudgetS      int `json:"budget_s"`
	Workers      int `json:"workers"`
	MinRuns      int `json:"min_runs"`       // per worker
	MaxRuns      int `json:"max_runs"`       // total
	ShrinkBudget int `json:"shrink_budget"`  // replays
	MinNT        int `json:"min_nontrivial"` // vacuity guard
}

type CheckCfg struct {
	Engine   string             `json:"engine"`
	Level    string             `json:"level"`
	Quick    TierCfg            `json:"quick"`
	Thorough TierCfg            `json:"thorough"`
	Require  []string           `json:"require"` // e.g. "faults.crash", "probes.x", "ops.buy:ok" must be > 0
	RequireT []string           `json:"require_thorough"`
	Env      map[string]string  `json:"env"`
	Extra    map[string]string  `json:"extra"`
}

type EngineCfg struct {
	Pkg        string            `json:"pkg"`        // package path relative to /repo (may be virtual)
	Files      map[string]string `json:"files"`      // glob under /verif -> destination dir (relative to /repo) ; file names kept
	Rename     map[string]string `json:"rename"`     // exact file under /verif -> exact destination path relative to /repo
	Instrument []string          `json:"instrument"` // args for tools/instrument (optional)
	HideTests  []string          `json:"hide_tests"` // package dirs (relative to /repo) whose own *_test.go files are hidden
	MapOrder   []string          `json:"maporder"`   // package patterns for tools/maporder (map-range order seam)
	Go         string            `json:"go"`
	Tags       string            `json:"tags"`
}

type Config struct {
	Engines map[string]EngineCfg `json:"engines"`
	Checks  map[string]CheckCfg  `json:"checks"`
}

// scratchDir is this invocation's private output directory (removed on exit)
var scratchDir string

func cleanupScratch() {
	if scratchDir != "" {
		os.RemoveAll(scratchDir)
	}
}

func die2(format string, a ...interface{}) {
	cleanupScratch()
	fmt.Fprintf(os.Stderr, "vdriver: "+format+"\n", a...)
	os.Exit(2)
}

func loadConfig() Config {
	path := filepath.Join(verifDir, "checks.json")
	if alt := os.Getenv("VERIF_CHECKS"); alt != "" {
		path = alt // private configuration (used while developing a harness in parallel)
	}
	b, err := os.ReadFile(path)
	if err != nil {
		die2("read checks.json: %v", err)
	}
	var c Config
	if err := json.Unmarshal(b, &c); err != nil {
		die2("parse checks.json: %v", err)
	}
	return c
}

func goEnv() []string {
	env := os.Environ()
	env = append(env, "GOFLAGS=-mod=mod", "GOPROXY=off", "GOSUMDB=off", "GOTOOLCHAIN=local", "CGO_ENABLED=1")
	return env
}

// buildEngine writes the overlay and builds the test binary. Returns the binary path.
func buildEngine(name string, e EngineCfg, mutantDir string) string {
	// a tree other than /repo (development experiments, seeded changes in scratch worktrees) gets
	// its own build directory and binary, so that concurrent invocations never run each other's code
	if repoDir != "/repo" {
		h := sha256.Sum256([]byte(repoDir))
		name = name + "@" + hex.EncodeToString(h[:4])
	}
	bdir := filepath.Join(verifDir, "build", name)
	os.MkdirAll(bdir, 0o755)
	os.MkdirAll(filepath.Join(verifDir, "build", "bin"), 0o755)
	// one builder at a time per engine: the generated sources under bdir are shared
	if lf, err := os.OpenFile(filepath.Join(bdir, ".lock"), os.O_CREATE|os.O_RDWR, 0o644); err == nil {
		syscall.Flock(int(lf.Fd()), syscall.LOCK_EX)
		defer func() { syscall.Flock(int(lf.Fd()), syscall.LOCK_UN); lf.Close() }()
	}
	replace := map[string]string{}
	add := func(src, dstRel string) {
		replace[filepath.Join(repoDir, dstRel)] = src
	}
	// simrt everywhere
	simrtFiles, _ := filepath.Glob(filepath.Join(verifDir, "simrt", "*.go"))
	for _, f := range simrtFiles {
		add(f, filepath.Join("zz_verif/simrt", filepath.Base(f)))
	}
	globs := make([]string, 0, len(e.Files))
	for g := range e.Files {
		globs = append(globs, g)
	}
	sort.Strings(globs)
	for _, g := range globs {
		ms, _ := filepath.Glob(filepath.Join(verifDir, g))
		if len(ms) == 0 {
			die2("engine %s: glob %s matches nothing", name, g)
		}
		for _, f := range ms {
			add(f, filepath.Join(e.Files[g], filepath.Base(f)))
		}
	}
	for src, dst := range e.Rename {
		add(filepath.Join(verifDir, src), dst)
	}
	// hide the package's own test files (their TestMain opens sockets etc.): an empty overlay
	// target means "file does not exist"
	for _, dir := range e.HideTests {
		ms, _ := filepath.Glob(filepath.Join(repoDir, dir, "*_test.go"))
		for _, f := range ms {
			if _, mine := replace[f]; !mine {
				replace[f] = ""
			}
		}
	}
	goBin := e.Go
	if goBin == "" {
		goBin = "go1.26.8"
	}
	srcMapPath := ""
	if len(e.MapOrder) > 0 {
		// type-driven rewrite of map ranges (tools/maporder, built with the default toolchain and
		// x/tools v0.29.0). Slow (type-checks from source), so cached on a stamp of the sources.
		moBin := filepath.Join(verifDir, "build", "bin", "maporder")
		if _, err := os.Stat(moBin); err != nil || os.Getenv("VERIF_REBUILD_TOOLS") == "1" {
			cmd := exec.Command("go", "build", "-o", moBin, ".")
			cmd.Dir = filepath.Join(verifDir, "tools", "maporder")
			cmd.Env = goEnv()
			if out, err := cmd.CombinedOutput(); err != nil {
				die2("build maporder: %v\n%s", err, out)
			}
		}
		outDir := filepath.Join(bdir, "maporder")
		stamp := sourceStamp(e.MapOrder, moBin)
		stampFile := filepath.Join(bdir, "maporder.stamp")
		mapFile := filepath.Join(bdir, "maporder.json")
		old, _ := os.ReadFile(stampFile)
		if string(old) != stamp || !fileExists(mapFile) {
			os.RemoveAll(outDir)
			os.MkdirAll(outDir, 0o755)
			args := append([]string{"-out", outDir, "-repo", repoDir}, e.MapOrder...)
			cmd := exec.Command(moBin, args...)
			cmd.Dir = repoDir
			cmd.Env = goEnv()
			var stdout, stderr bytes.Buffer
			cmd.Stdout, cmd.Stderr = &stdout, &stderr
			t0 := time.Now()
			if err := cmd.Run(); err != nil {
				die2("maporder failed: %v\n%s", err, stderr.String())
			}
			os.WriteFile(mapFile, stdout.Bytes(), 0o644)
			os.WriteFile(stampFile, []byte(stamp), 0o644)
			fmt.Fprintf(os.Stderr, "vdriver: maporder %.1fs %s", time.Since(t0).Seconds(), stderr.String())
		}
		mb, _ := os.ReadFile(mapFile)
		var m map[string]string
		if err := json.Unmarshal(mb, &m); err != nil {
			die2("maporder output: %v", err)
		}
		for k, v := range m {
			replace[k] = v
		}
		srcMapPath = mapFile
	}
	if len(e.Instrument) > 0 {
		instBin := filepath.Join(verifDir, "build", "bin", "instrument")
		if _, err := os.Stat(instBin); err != nil || os.Getenv("VERIF_REBUILD_TOOLS") == "1" {
			cmd := exec.Command(goBin, "build", "-o", instBin, ".")
			cmd.Dir = filepath.Join(verifDir, "tools", "instrument")
			cmd.Env = goEnv()
			if out, err := cmd.CombinedOutput(); err != nil {
				die2("build instrumenter: %v\n%s", err, out)
			}
		}
		outDir := filepath.Join(bdir, "inst")
		os.RemoveAll(outDir)
		os.MkdirAll(outDir, 0o755)
		args := []string{"-out", outDir, "-repo", repoDir}
		if srcMapPath != "" {
			args = append(args, "-srcmap", srcMapPath)
		}
		args = append(args, e.Instrument...)
		cmd := exec.Command(instBin, args...)
		cmd.Dir = repoDir
		cmd.Env = goEnv()
		var stdout, stderr bytes.Buffer
		cmd.Stdout, cmd.Stderr = &stdout, &stderr
		if err := cmd.Run(); err != nil {
			die2("instrumenter failed: %v\n%s", err, stderr.String())
		}
		var m map[string]string
		if err := json.Unmarshal(stdout.Bytes(), &m); err != nil {
			die2("instrumenter output: %v\n%s", err, stdout.String())
		}
		for k, v := range m {
			replace[k] = v
		}
	}
	ov := map[string]interface{}{"Replace": replace}
	ovb, _ := json.MarshalIndent(ov, "", " ")
	ovPath := filepath.Join(bdir, "overlay.json")
	os.WriteFile(ovPath, ovb, 0o644)
	bin := filepath.Join(verifDir, "build", "bin", name+".test")
	// link to a private path and rename: processes still executing the previous binary keep their
	// inode, a new exec always sees a complete file
	tmpBin := fmt.Sprintf("%s.tmp%d", bin, os.Getpid())
	defer os.Remove(tmpBin)
	args := []string{"test", "-c", "-vet=off", "-overlay", ovPath, "-o", tmpBin}
	if e.Tags != "" {
		args = append(args, "-tags", e.Tags)
	}
	args = append(args, e.Pkg)
	cmd := exec.Command(goBin, args...)
	cmd.Dir = repoDir
	cmd.Env = goEnv()
	t0 := time.Now()
	out, err := cmd.CombinedOutput()
	if err != nil {
		die2("build of engine %s failed (the tree or the harness does not compile):\n%s", name, out)
	}
	if err := os.Rename(tmpBin, bin); err != nil {
		die2("install engine binary: %v", err)
	}
	fmt.Fprintf(os.Stderr, "vdriver: built %s in %.1fs\n", name, time.Since(t0).Seconds())
	return bin
}

type WorkerResult struct {
	Worker       int               `json:"worker"`
	Runs         int               `json:"runs"`
	NonTrivial   []uint64          `json:"nontrivial_fingerprints"`
	AllFPCount   int               `json:"distinct_fingerprints_all"`
	SchedFPs     []uint64          `json:"sched_fps"`
	Ops          map[string]int    `json:"ops"`
	Faults       map[string]int    `json:"faults_fired"`
	Probes       map[string]int    `json:"probes"`
	Extra        map[string]int64  `json:"extra"`
	KnownHits    map[string]int    `json:"known_hits"`
	OracleEvals  int64             `json:"oracle_evals"`
	SimSpanNs    float64           `json:"sim_span_ns"`
	Steps        int64             `json:"steps"`
	Switches     int64             `json:"switches"`
	Samples      []json.RawMessage `json:"samples"`
	Violation    *ReplayFile       `json:"violation"`
	WallS        float64           `json:"wall_s"`
	Rule         string            `json:"rule"`
	Real         []string          `json:"real"`
	Stubbed      []string          `json:"stubbed"`
	Assume       []string          `json:"assume"`
	Error        string            `json:"error"`
	Traces       map[string]string `json:"traces"`
}

type Violation struct {
	Property string `json:"property"`
	Class    string `json:"class"`
	Sig      string `json:"sig"`
	Detail   string `json:"detail"`
	Step     int    `json:"step"`
}

type ReplayFile struct {
	Property  string          `json:"property"`
	Engine    string          `json:"engine,omitempty"`
	Profile   string          `json:"profile"`
	Tier      string          `json:"tier"`
	RunIndex  int             `json:"run_index"`
	Seed      uint64          `json:"seed"`
	Violation *Violation      `json:"violation"`
	Tape      json.RawMessage `json:"tape"`
	OrigTape  json.RawMessage `json:"orig_tape,omitempty"`
	Log       []string        `json:"decoded_schedule"`
	ShrinkRun int             `json:"shrink_replays"`
	RepoHead  string          `json:"repo_head,omitempty"`
	RepoDirty string          `json:"repo_dirty_hash,omitempty"`
}

func runWorker(bin string, env []string, outPath string, gomaxprocs int) (*WorkerResult, int, string) {
	os.Remove(outPath)
	cmd := exec.Command(bin, "-test.run", "^TestSim$", "-test.timeout", "12h", "-test.cpu", strconv.Itoa(gomaxprocs))
	cmd.Dir = verifDir
	cmd.Env = append(os.Environ(), env...)
	cmd.Env = append(cmd.Env, "VERIF_OUT="+outPath)
	var stderr bytes.Buffer
	cmd.Stdout = &stderr
	cmd.Stderr = &stderr
	err := cmd.Run()
	code := 0
	if err != nil {
		if ee, ok := err.(*exec.ExitError); ok {
			code = ee.ExitCode()
		} else {
			code = -1
		}
	}
	b, rerr := os.ReadFile(outPath)
	if rerr != nil {
		tail := stderr.String()
		if len(tail) > 6000 {
			tail = tail[len(tail)-6000:]
		}
		return nil, code, tail
	}
	var r WorkerResult
	if jerr := json.Unmarshal(b, &r); jerr != nil {
		return nil, code, "bad worker json: " + jerr.Error()
	}
	return &r, code, stderr.String()
}

func repoState() (string, string) {
	head, _ := exec.Command("git", "-C", repoDir, "rev-parse", "HEAD").Output()
	diff, _ := exec.Command("git", "-C", repoDir, "diff", "HEAD").Output()
	dirty := ""
	if len(bytes.TrimSpace(diff)) > 0 {
		dirty = fmt.Sprintf("%x", sha256.Sum256(diff))[:16]
	}
	return strings.TrimSpace(string(head)), dirty
}

func main() {
	if len(os.Args) < 2 {
		die2("usage: vdriver check <ID> [--tier quick|thorough] [--replay file] | selftest <ID> | build <engine>")
	}
	sub := os.Args[1]
	fs := flag.NewFlagSet(sub, flag.ExitOnError)
	tier := fs.String("tier", os.Getenv("VERIF_TIER"), "quick|thorough")
	replay := fs.String("replay", "", "replay file")
	budget := fs.Int("budget", 0, "override wall budget seconds")
	workers := fs.Int("workers", 0, "override worker count")
	seeds := fs.Int("seeds", 32, "selftest: seeds")
	noEvidence := fs.Bool("no-evidence", false, "do not write the evidence file")
	if len(os.Args) < 3 {
		die2("missing argument")
	}
	id := os.Args[2]
	fs.Parse(os.Args[3:])
	if *tier == "" {
		*tier = "quick"
	}
	cfg := loadConfig()
	switch sub {
	case "build":
		e, ok := cfg.Engines[id]
		if !ok {
			die2("unknown engine %s", id)
		}
		buildEngine(id, e, "")
		return
	case "check", "selftest":
	default:
		die2("unknown subcommand %s", sub)
	}
	cc, ok := cfg.Checks[id]
	if !ok {
		die2("unknown check %s", id)
	}
	eng, ok := cfg.Engines[cc.Engine]
	if !ok {
		die2("unknown engine %s", cc.Engine)
	}
	t0 := time.Now()
	bin := buildEngine(cc.Engine, eng, "")
	tc := cc.Quick
	if *tier == "thorough" {
		tc = cc.Thorough
		if tc.BudgetS == 0 {
			tc = cc.Quick
			tc.BudgetS *= 10
		}
	}
	if *budget > 0 {
		tc.BudgetS = *budget
	}
	if tc.BudgetS == 0 {
		tc.BudgetS = 30
	}
	if *workers > 0 {
		tc.Workers = *workers
	}
	if tc.Workers == 0 {
		tc.Workers = 16
	}
	if tc.ShrinkBudget == 0 {
		tc.ShrinkBudget = 300
		if *tier == "thorough" {
			tc.ShrinkBudget = 2000
		}
	}
	if tc.MinRuns == 0 {
		tc.MinRuns = 1
	}
	seed := uint64(1)
	if s := os.Getenv("VERIF_SEED"); s != "" {
		if v, err := strconv.ParseUint(s, 10, 64); err == nil {
			seed = v
		} else if v, err := strconv.ParseInt(s, 10, 64); err == nil {
			seed = uint64(v)
		}
	}
	fmt.Printf("VERIF_SEED=%d property=%s tier=%s engine=%s\n", seed, id, *tier, cc.Engine)
	knownPath := filepath.Join(verifDir, "known_findings.json")
	baseEnv := []string{"VERIF_PROP=" + id, "VERIF_TIER=" + *tier, "VERIF_KNOWN=" + knownPath, "VERIF_REPO=" + repoDir}
	for k, v := range cc.Env {
		baseEnv = append(baseEnv, k+"="+v)
	}
	// private per invocation: the same check may be running elsewhere (another tier, another tree)
	tmpDir := filepath.Join(verifDir, "build", "out", fmt.Sprintf("%s-%d", id, os.Getpid()))
	os.RemoveAll(tmpDir)
	os.MkdirAll(tmpDir, 0o755)
	scratchDir = tmpDir
	defer cleanupScratch()
	if kp := os.Getenv("VERIF_KNOWN_FILE"); kp != "" {
		// maintenance only (tools/regen_known.sh): a different known-findings list
		knownPath = kp
		baseEnv[2] = "VERIF_KNOWN=" + knownPath
	}

	if *replay != "" {
		rp, _ := filepath.Abs(*replay)
		env := append(baseEnv, "VERIF_MODE=replay", "VERIF_REPLAY="+rp)
		r, code, errout := runWorker(bin, env, filepath.Join(tmpDir, "replay.json"), 4)
		if r == nil {
			die2("replay worker failed (exit %d):\n%s", code, errout)
		}
		if r.Violation != nil {
			fmt.Printf("replayed: class=%s sig=%s step=%d\n%s\n", r.Violation.Violation.Class, r.Violation.Violation.Sig, r.Violation.Violation.Step, r.Violation.Violation.Detail)
			for _, l := range r.Violation.Log {
				fmt.Println("  " + l)
			}
			fmt.Printf("VIOLATION property=%s replay=%s\n", id, rp)
			cleanupScratch()
			os.Exit(1)
		}
		fmt.Println("replay: no violation")
		cleanupScratch()
		os.Exit(0)
	}

	if sub == "selftest" {
		selftest(bin, baseEnv, tmpDir, id, seed, *seeds)
		return
	}

	results := make([]*WorkerResult, tc.Workers)
	codes := make([]int, tc.Workers)
	errs := make([]string, tc.Workers)
	var wg sync.WaitGroup
	for w := 0; w < tc.Workers; w++ {
		wg.Add(1)
		go func(w int) {
			defer wg.Done()
			env := append([]string{}, baseEnv...)
			env = append(env, "VERIF_MODE=run", fmt.Sprintf("VERIF_SEED=%d", seed), fmt.Sprintf("VERIF_W=%d", w), fmt.Sprintf("VERIF_NW=%d", tc.Workers),
				fmt.Sprintf("VERIF_BUDGET_S=%d", tc.BudgetS), fmt.Sprintf("VERIF_MIN_RUNS=%d", tc.MinRuns), fmt.Sprintf("VERIF_SHRINK_BUDGET=%d", tc.ShrinkBudget))
			if tc.MaxRuns > 0 {
				env = append(env, fmt.Sprintf("VERIF_RUNS=%d", tc.MaxRuns))
			}
			results[w], codes[w], errs[w] = runWorker(bin, env, filepath.Join(tmpDir, fmt.Sprintf("w%d.json", w)), 1)
		}(w)
	}
	wg.Wait()
	for w := 0; w < tc.Workers; w++ {
		if results[w] == nil || results[w].Error != "" {
			msg := errs[w]
			if results[w] != nil {
				msg = results[w].Error
			}
			die2("worker %d failed (exit %d) — harness/watchdog trouble, not a verdict:\n%s", w, codes[w], msg)
		}
	}
	// merge
	nt := map[uint64]bool{}
	sched := map[uint64]bool{}
	ops, faults, probes, known := map[string]int{}, map[string]int{}, map[string]int{}, map[string]int{}
	extra := map[string]int64{}
	var runs int
	var evals, steps, switches int64
	var span float64
	var samples []json.RawMessage
	var viol *ReplayFile
	for _, r := range results {
		runs += r.Runs
		for _, f := range r.NonTrivial {
			nt[f] = true
		}
		for _, f := range r.SchedFPs {
			sched[f] = true
		}
		for k, v := range r.Ops {
			ops[k] += v
		}
		for k, v := range r.Faults {
			faults[k] += v
		}
		for k, v := range r.Probes {
			probes[k] += v
		}
		for k, v := range r.KnownHits {
			known[k] += v
		}
		for k, v := range r.Extra {
			extra[k] += v
		}
		evals += r.OracleEvals
		span += r.SimSpanNs
		steps += r.Steps
		switches += r.Switches
		if len(samples) < 3 && len(r.Samples) > 0 {
			samples = append(samples, r.Samples[0])
		}
		if r.Violation != nil && (viol == nil || r.Violation.RunIndex < viol.RunIndex) {
			viol = r.Violation
		}
	}
	wall := time.Since(t0).Seconds()
	r0 := results[0]
	exit := 0
	violations := 0
	var replayPath string
	if viol != nil {
		violations = 1
		if viol.ShrinkRun < 0 {
			die2("violation %s/%s at run %d seed %d did not reproduce in-process: nondeterminism in the harness (not reported as a violation)\n%s",
				viol.Violation.Class, viol.Violation.Sig, viol.RunIndex, viol.Seed, viol.Violation.Detail)
		}
		head, dirty := repoState()
		viol.RepoHead, viol.RepoDirty, viol.Engine = head, dirty, cc.Engine
		rdir := filepath.Join(verifDir, "replays", id)
		os.MkdirAll(rdir, 0o755)
		replayPath = filepath.Join(rdir, fmt.Sprintf("%s-%d.json", sanitize(viol.Violation.Class), viol.Seed))
		b, _ := json.MarshalIndent(viol, "", " ")
		os.WriteFile(replayPath, b, 0o644)
		// confirm in a fresh process
		env := append(append([]string{}, baseEnv...), "VERIF_MODE=replay", "VERIF_REPLAY="+replayPath)
		rr, code, errout := runWorker(bin, env, filepath.Join(tmpDir, "confirm.json"), 4)
		if rr == nil {
			die2("confirmation replay failed to run (exit %d):\n%s", code, errout)
		}
		if rr.Violation == nil || rr.Violation.Violation.Class != viol.Violation.Class || rr.Violation.Violation.Sig != viol.Violation.Sig {
			die2("violation %s/%s (run %d seed %d) did not reproduce from its replay file %s in a fresh process: nondeterminism in the harness (not reported as a violation)",
				viol.Violation.Class, viol.Violation.Sig, viol.RunIndex, viol.Seed, replayPath)
		}
		fmt.Printf("violation: class=%s sig=%s run=%d seed=%d step=%d shrink_replays=%d\n%s\n", viol.Violation.Class, viol.Violation.Sig, viol.RunIndex, viol.Seed, viol.Violation.Step, viol.ShrinkRun, viol.Violation.Detail)
		for _, l := range viol.Log {
			fmt.Println("  " + l)
		}
		exit = 1
	}
	// known findings
	kf := loadKnown(knownPath)
	for _, k := range kf {
		if k.Property == id && k.Status == "open" {
			hits := known[k.Class+"|"+k.Sig]
			fmt.Printf("KNOWN-FINDING: property=%s %s [%s/%s] (reproduced %d times in this run)\n", id, k.Description, k.Class, k.Sig, hits)
		}
	}
	// vacuity guards
	vacuous := ""
	reqs := append([]string{}, cc.Require...)
	if *tier == "thorough" {
		reqs = append(reqs, cc.RequireT...)
	}
	for _, req := range reqs {
		parts := strings.SplitN(req, ".", 2)
		if len(parts) != 2 {
			continue
		}
		var v int
		switch parts[0] {
		case "faults":
			v = faults[parts[1]]
		case "probes":
			v = probes[parts[1]]
		case "ops":
			v = ops[parts[1]]
		}
		if v == 0 {
			vacuous += " " + req
		}
	}
	minNT := tc.MinNT
	if minNT < 2 {
		minNT = 2
	}
	if exit == 0 && len(nt) < minNT {
		vacuous += fmt.Sprintf(" distinct_nontrivial=%d<%d", len(nt), minNT)
	}
	if !*noEvidence {
		level := cc.Level
		if level == "" {
			level = "exploration"
		}
		cov := map[string]interface{}{
			"evaluations":            runs,
			"distinct_nontrivial":    len(nt),
			"rule":                   r0.Rule,
			"samples":                samples,
			"ops":                    ops,
			"faults_fired":           faults,
			"probes":                 probes,
			"oracle_evaluations":     evals,
			"steps":                  steps,
			"simulated_time_s":       float64(span) / 1e9,
			"context_switches":       switches,
			"distinct_interleavings": len(sched),
			"runs_per_hour":          float64(runs) / wall * 3600,
			"seeds_per_hour":         float64(runs) / wall * 3600,
			"workers":                tc.Workers,
			"real_components":        r0.Real,
			"stubbed_components":     r0.Stubbed,
			"known_finding_hits":     known,
			"extra":                  extra,
			"engine":                 cc.Engine,
		}
		if vacuous != "" {
			cov["vacuity_guard_failed"] = strings.TrimSpace(vacuous)
		}
		if replayPath != "" {
			cov["replay"] = replayPath
		}
		ev := map[string]interface{}{
			"property_id": id, "tier": *tier, "seed": int64(seed & 0x7fffffffffffffff), "level": level,
			"coverage": cov, "assumptions": r0.Assume, "wall_s": wall, "violations": violations,
		}
		b, _ := json.MarshalIndent(ev, "", " ")
		os.MkdirAll(filepath.Join(verifDir, "evidence"), 0o755)
		if err := os.WriteFile(filepath.Join(verifDir, "evidence", id+".json"), b, 0o644); err != nil {
			die2("write evidence: %v", err)
		}
	}
	fmt.Printf("runs=%d distinct_nontrivial=%d steps=%d oracle_evals=%d faults=%v probes=%v sim_time_s=%.0f switches=%d interleavings=%d wall=%.1fs\n",
		runs, len(nt), steps, evals, faults, probes, float64(span)/1e9, switches, len(sched), wall)
	if exit == 1 {
		fmt.Printf("VIOLATION property=%s replay=%s\n", id, replayPath)
		os.Exit(1)
	}
	if vacuous != "" {
		die2("vacuity guard: the batch did not reach%s — not claiming a pass", vacuous)
	}
	if *tier == "thorough" {
		// the thorough tier also proves the harness deterministic (exit 2 on any mismatch)
		selftest(bin, baseEnv, tmpDir, id, seed, 16)
	}
	fmt.Printf("OK property=%s held on everything explored\n", id)
}

func fileExists(p string) bool {
	_, err := os.Stat(p)
	return err == nil
}

// sourceStamp fingerprints (path, size, mtime) of every non-test .go file under the directories
// named by the package patterns ("./x/..." -> x, recursively; "./protocol/lavasession" -> that dir)
// plus go.mod and the tool binary.
func sourceStamp(patterns []string, tool string) string {
	h := sha256.New()
	add := func(p string) {
		if st, err := os.Stat(p); err == nil {
			fmt.Fprintf(h, "%s|%d|%d\n", p, st.Size(), st.ModTime().UnixNano())
		}
	}
	add(tool)
	add(filepath.Join(repoDir, "go.mod"))
	for _, pat := range patterns {
		dir := strings.TrimPrefix(pat, "./")
		recursive := strings.HasSuffix(dir, "/...")
		dir = strings.TrimSuffix(dir, "/...")
		root := filepath.Join(repoDir, dir)
		filepath.Walk(root, func(p string, info os.FileInfo, err error) error {
			if err != nil {
				return nil
			}
			if info.IsDir() {
				if p != root && !recursive {
					return filepath.SkipDir
				}
				return nil
			}
			if strings.HasSuffix(p, ".go") && !strings.HasSuffix(p, "_test.go") {
				fmt.Fprintf(h, "%s|%d|%d\n", p, info.Size(), info.ModTime().UnixNano())
			}
			return nil
		})
	}
	return fmt.Sprintf("%x", h.Sum(nil))
}

func sanitize(s string) string {
	var b strings.Builder
	for _, c := range s {
		if (c >= 'a' && c <= 'z') || (c >= 'A' && c <= 'Z') || (c >= '0' && c <= '9') || c == '-' || c == '_' {
			b.WriteRune(c)
		} else {
			b.WriteRune('_')
		}
	}
	return b.String()
}

type KnownFinding struct {
	Property    string `json:"property"`
	Class       string `json:"class"`
	Sig         string `json:"sig"`
	Status      string `json:"status"`
	Description string `json:"description"`
}

func loadKnown(path string) []KnownFinding {
	b, err := os.ReadFile(path)
	if err != nil {
		return nil
	}
	var f struct {
		Findings []KnownFinding `json:"findings"`
	}
	json.Unmarshal(b, &f)
	return f.Findings
}

// selftest: determinism of the harness. Runs the first N run indices in several fresh processes
// at GOMAXPROCS 1, 4 and 16 and compares the per-run trace hashes.
func selftest(bin string, baseEnv []string, tmpDir, id string, seed uint64, n int) {
	procs := []int{1, 4, 16, 1, 16}
	all := make([]map[string]string, len(procs))
	var wg sync.WaitGroup
	for pi, gmp := range procs {
		wg.Add(1)
		go func(pi, gmp int) {
			defer wg.Done()
			env := append([]string{}, baseEnv...)
			env = append(env, "VERIF_MODE=run", "VERIF_TRACE=1", fmt.Sprintf("VERIF_SEED=%d", seed), "VERIF_W=0", "VERIF_NW=1",
				fmt.Sprintf("VERIF_RUNS=%d", n), "VERIF_BUDGET_S=100000", "VERIF_SHRINK_BUDGET=0")
			r, code, errout := runWorker(bin, env, filepath.Join(tmpDir, fmt.Sprintf("st%d.json", pi)), gmp)
			if r == nil {
				die2("selftest worker failed (exit %d):\n%s", code, errout)
			}
			all[pi] = r.Traces
		}(pi, gmp)
	}
	wg.Wait()
	bad := 0
	for k, v := range all[0] {
		for pi := 1; pi < len(all); pi++ {
			if all[pi][k] != v {
				fmt.Printf("NONDETERMINISM run %s: proc0(GOMAXPROCS=%d)=%s proc%d(GOMAXPROCS=%d)=%s\n", k, procs[0], v, pi, procs[pi], all[pi][k])
				bad++
			}
		}
	}
	if bad > 0 {
		die2("determinism self-test failed for %s: %d mismatches over %d runs x %d processes", id, bad, len(all[0]), len(procs))
	}
	fmt.Printf("selftest %s: %d runs x %d processes (GOMAXPROCS %v) identical traces\n", id, len(all[0]), len(procs), procs)
}
