#!/bin/bash
# tools/seeded.sh <seeded-dir-name> <CHECK-ID> [extra ./check args]   |   tools/seeded.sh --cleanup
# Applies /verif/seeded/<name>/patch.diff in a scratch worktree of /repo (never in /repo itself),
# runs the check against that tree and reports whether the planted defect was detected.
# The worktree (/tmp/wt-seeded) is reused between calls so the Go build cache stays warm; remove it
# with --cleanup when a batch is finished.
# Exit 0 = detected (check exited 1 with a VIOLATION line), 1 = missed, 2 = trouble.
set -u
WT=${SEEDED_WT:-/tmp/wt-seeded}
if [ "${1:-}" = "--cleanup" ]; then git -C /repo worktree remove --force "$WT" >/dev/null 2>&1; rm -rf "$WT"; git -C /repo worktree prune; exit 0; fi
name="$1"; id="$2"; shift 2
export GOFLAGS=-mod=mod GOPROXY=off GOSUMDB=off GOTOOLCHAIN=local
exec 9>"$WT.lock"; flock 9
head=$(git -C /repo rev-parse HEAD)
if [ ! -d "$WT/.git" ] && [ ! -f "$WT/.git" ]; then
  git -C /repo worktree add --detach "$WT" "$head" >/dev/null 2>&1 || { echo "cannot create worktree"; exit 2; }
fi
git -C "$WT" checkout -q -- . && git -C "$WT" clean -fdq && git -C "$WT" checkout -q --detach "$head" || { echo "cannot reset worktree"; exit 2; }
if ! git -C "$WT" apply "/verif/seeded/$name/patch.diff"; then echo "SEEDED $name: patch does not apply"; exit 2; fi
out=$(cd /verif && VERIF_REPO_DIR="$WT" ./check "$id" --no-evidence "$@" 2>&1)
code=$?
git -C "$WT" checkout -q -- . ; git -C "$WT" clean -fdq
echo "$out" | grep -E "^(violation:|VIOLATION|OK property|runs=)" | cut -c1-260
if [ $code -eq 1 ] && echo "$out" | grep -q "^VIOLATION property=$id"; then echo "SEEDED $name: DETECTED by $id"; exit 0; fi
if [ $code -eq 0 ]; then echo "SEEDED $name: MISSED by $id"; exit 1; fi
echo "SEEDED $name: check trouble (exit $code)"; echo "$out" | tail -20; exit 2
