#!/usr/bin/env python3
"""tools/regen_known.py <ID> [--workers N] [--seeds 1,2,3]
Maintenance only: regenerates one minimised replay file per OPEN known finding of property <ID> on the
current tree and harness into /verif/replays/known/<ID>-<n>-<class>.json, and records the file name in
the entry's "replay" field of known_findings.json. It un-mutes the property's open entries one at a
time (a temporary known-findings list, VERIF_KNOWN_FILE) so the check reports them as violations with
a replay. Any violation that is NOT a listed entry is printed as UNLISTED and stops the tool."""
import json, os, re, subprocess, sys, shutil, tempfile

def atomic_dump(obj, path):
    import os, json as _j
    tmp = path + ".tmp%d" % os.getpid()
    with open(tmp, "w") as fh:
        _j.dump(obj, fh, indent=1)
    os.replace(tmp, path)


V = "/verif"
pid = sys.argv[1]
workers = "6"
seeds = ["1", "2", "3"]
if "--workers" in sys.argv:
    workers = sys.argv[sys.argv.index("--workers") + 1]
if "--seeds" in sys.argv:
    seeds = sys.argv[sys.argv.index("--seeds") + 1].split(",")
kf = json.load(open(f"{V}/known_findings.json"))
mine = [f for f in kf["findings"] if f["property"] == pid and f["status"] == "open"]
others = [f for f in kf["findings"] if not (f["property"] == pid and f["status"] == "open")]
done = []  # entries already regenerated (muted again)
os.makedirs(f"{V}/replays/known", exist_ok=True)
tmp = tempfile.NamedTemporaryFile("w", suffix=".json", delete=False, dir=f"{V}/build")
tmp.close()
remaining = list(mine)
slug = lambda s: re.sub(r"[^A-Za-z0-9]+", "-", s).strip("-")[:50]
status = 0
for seed in seeds:
    while remaining:
        json.dump({"findings": others + done}, open(tmp.name, "w"))
        env = dict(os.environ, VERIF_KNOWN_FILE=tmp.name, VERIF_SEED=seed)
        p = subprocess.run([f"{V}/check", pid, "--no-evidence", "--workers", workers], env=env, capture_output=True, text=True)
        out = p.stdout + p.stderr
        if p.returncode == 0:
            break  # nothing more found with this seed
        if p.returncode != 1:
            print(f"{pid}: check trouble (exit {p.returncode})\n" + "\n".join(out.splitlines()[-8:]))
            status = 2
            remaining = []
            break
        m = re.search(r"^violation: class=(\S+) sig=(.*?) run=\d+ seed=", out, re.M)
        rp = re.search(r"^VIOLATION property=\S+ replay=(\S+)", out, re.M)
        if not m or not rp:
            print(f"{pid}: cannot parse violation"); status = 2; remaining = []; break
        cls, sig = m.group(1), m.group(2)
        hit = [f for f in remaining if f["class"] == cls and f["sig"] == sig]
        if not hit:
            print(f"{pid}: UNLISTED violation class={cls} sig={sig} replay={rp.group(1)}")
            status = 1
            remaining = []
            break
        f = hit[0]
        name = f"{pid}-{len(done)+1}-{slug(cls)}.json"
        shutil.copy(rp.group(1), f"{V}/replays/known/{name}")
        f["replay"] = f"replays/known/{name}"
        done.append(f)
        remaining.remove(f)
        print(f"{pid}: regenerated {cls} | {sig[:60]} -> replays/known/{name}")
    if not remaining:
        break
os.unlink(tmp.name)
for f in remaining:
    print(f"{pid}: NOT REPRODUCED in this budget: {f['class']} | {f['sig'][:70]}")
# write back replay fields
kf2 = json.load(open(f"{V}/known_findings.json"))
for g in kf2["findings"]:
    for f in done:
        if g["property"] == f["property"] and g["class"] == f["class"] and g["sig"] == f["sig"] and g["status"] == "open":
            g["replay"] = f["replay"]
atomic_dump(kf2, f"{V}/known_findings.json")
sys.exit(status)
