#!/usr/bin/env python3
"""tools/verify_known_replays.py: replays every OPEN known finding's replay file with only that entry un-muted
and checks that it reproduces exactly the listed class and signature on the current tree."""
import json, os, re, subprocess, sys, tempfile
V="/verif"
kf=json.load(open(f"{V}/known_findings.json"))
tmp=tempfile.NamedTemporaryFile("w",suffix=".json",delete=False,dir=f"{V}/build"); tmp.close()
only=set(sys.argv[1:])
bad=0
for f in kf["findings"]:
    if f["status"]!="open": continue
    rp=f.get("replay")
    if not rp or not os.path.exists(f"{V}/{rp}"):
        print("NO-REPLAY", f["property"], f["class"], f["sig"][:60]); bad+=1; continue
    if only and f["property"] not in only: continue
    # every other open entry stays muted (a history may pass through another listed finding first)
    json.dump({"findings":[g for g in kf["findings"] if g is not f]}, open(tmp.name,"w"))
    p=subprocess.run([f"{V}/check", f["property"], "--replay", f"{V}/{rp}"], env=dict(os.environ, VERIF_KNOWN_FILE=tmp.name), capture_output=True, text=True)
    m=re.search(r"^replayed: class=(\S+) sig=(.*?) step=\d+$", p.stdout, re.M)
    ok = bool(m) and m.group(1)==f["class"] and m.group(2)==f["sig"]
    print("OK " if ok else "MISMATCH", f["property"], rp, "" if ok else (m.groups() if m else p.stdout[-200:]))
    bad += 0 if ok else 1
os.unlink(tmp.name)
sys.exit(1 if bad else 0)
