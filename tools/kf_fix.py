#!/usr/bin/env python3
"""tools/kf_fix.py <commit> <property> [class [sig]] : marks matching open entries of known_findings.json as fixed
(maintenance only; a fixed entry mutes nothing)."""
import json, sys

def atomic_dump(obj, path):
    import os, json as _j
    tmp = path + ".tmp%d" % os.getpid()
    with open(tmp, "w") as fh:
        _j.dump(obj, fh, indent=1)
    os.replace(tmp, path)

commit, prop = sys.argv[1], sys.argv[2]
cls = sys.argv[3] if len(sys.argv) > 3 else None
sig = sys.argv[4] if len(sys.argv) > 4 else None
p = "/verif/known_findings.json"
d = json.load(open(p))
n = 0
for f in d["findings"]:
    if f["property"] == prop and f["status"] == "open" and (cls is None or f["class"] == cls) and (sig is None or f["sig"] == sig):
        f["status"] = "fixed"; f["commit"] = commit
        f["fixed"] = "fixed: property=%s %s %s" % (prop, commit, f["class"] + "|" + f["sig"])
        n += 1
atomic_dump(d, p)
print("marked", n)
