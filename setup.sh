#!/bin/bash
# Builds the driver and warms the build cache of every engine, offline, from files on disk only.
set -u
export GOFLAGS=-mod=mod GOPROXY=off GOSUMDB=off GOTOOLCHAIN=local
cd /verif
mkdir -p build/bin evidence replays
(cd tools/vdriver && go1.26.8 build -o /verif/build/bin/vdriver .) || exit 2
for e in $(python3 -c "import json;print(' '.join(json.load(open('/verif/checks.json'))['engines'].keys()))"); do
  VERIF_REBUILD_TOOLS=1 /verif/build/bin/vdriver build "$e" || exit 2
done
echo "setup ok"
