// Package wiresim: two-party simulations (consumer <-> provider) over a corrupting transport. The
// messages are built and signed by the real lavaprotocol / sigs / pairing-types code, marshalled
// to bytes, possibly corrupted in flight by a tape-chosen fault, unmarshalled on the other side
// and verified by the real verification code.
package wiresim

import (
	"testing"

	"github.com/lavanet/lava/v5/zz_verif/simrt"
)

func TestSim(t *testing.T) {
	simrt.WorkerMain()
}
