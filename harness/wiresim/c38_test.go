package wiresim

import (
	"bytes"
	"context"
	"fmt"
	"io"
	"os"
	"sort"
	"strings"
	"sync"
	"time"

	"github.com/lavanet/lava/v5/protocol/chainlib"
	"github.com/lavanet/lava/v5/protocol/chainlib/extensionslib"
	"github.com/lavanet/lava/v5/protocol/common"
	"github.com/lavanet/lava/v5/protocol/lavaprotocol"
	"github.com/lavanet/lava/v5/utils"
	specutils "github.com/lavanet/lava/v5/utils/keeper"
	pairingtypes "github.com/lavanet/lava/v5/x/pairing/types"
	spectypes "github.com/lavanet/lava/v5/x/spec/types"
	"github.com/lavanet/lava/v5/zz_verif/simrt"
	"github.com/rs/zerolog"
	zerologlog "github.com/rs/zerolog/log"
)

// C38: parsing any byte string as a client request, for any supported API interface and spec,
// never panics or hangs; it either fails cleanly or yields a supported API with at least one
// compute unit. When the consumer and the provider parse the same request under the same spec, with
// the provider honouring the extensions the consumer chose, they agree on the API, compute units,
// add-on and requested block.
//
// Two parties: the consumer-side parser (rpcconsumer's ParseRelay sequence: ParseAndValidateMessage
// with the consumer's extension info, NewRelayData with the add-on/extensions the parse chose) and
// the provider-side parser (rpcprovider's initRelay: ParseAndValidateMessage on the delivered
// private data with ExtensionOverride = the consumer's extensions, LatestBlock 0). Between the
// client and the consumer, and between the consumer and the provider, a corrupting transport.
// The two parties are two parser instances; the iteration order of Go maps inside chainlib is
// controlled by the simulator (maporder seam) and differs between the two, as it does between two
// real processes.

type c38Api struct {
	name    string
	conn    string
	ipath   string
	addon   string
	cu      uint64
	bp      spectypes.BlockParser
	subscr  bool
	generic int
}

type c38Target struct {
	spec   string
	iface  string
	cons   chainlib.ChainParser
	prov   chainlib.ChainParser
	apis   []c38Api
	names  map[string]bool // "conn|name" of every enabled api of an enabled collection
	ipaths []string
	exts   []string
	addons []string
}

var (
	c38Once    sync.Once
	c38Targets []*c38Target
	c38Err     error
	c38Hangs   int
	// inputs that already hung in this process (their parser goroutine is still spinning): shrink
	// replays that deliver the same bytes report the hang without starting another goroutine
	c38HungInputs = map[string]bool{}
)

var c38Specs = []struct {
	index  string
	ifaces []string
}{
	{"ETH1", []string{spectypes.APIInterfaceJsonRPC}},
	{"LAVA", []string{spectypes.APIInterfaceRest, spectypes.APIInterfaceTendermintRPC, spectypes.APIInterfaceGrpc}},
	{"COSMOSHUB", []string{spectypes.APIInterfaceRest, spectypes.APIInterfaceTendermintRPC, spectypes.APIInterfaceGrpc}},
	{"NEAR", []string{spectypes.APIInterfaceJsonRPC}},
	{"STRK", []string{spectypes.APIInterfaceJsonRPC}},
	{"SOLANA", []string{spectypes.APIInterfaceJsonRPC}},
	{"APT1", []string{spectypes.APIInterfaceRest}},
	{"BTC", []string{spectypes.APIInterfaceJsonRPC}},
	{"CARDANO", []string{spectypes.APIInterfaceRest}},
}

func c38NewParser(spec spectypes.Spec, iface string, services map[string]struct{}) (chainlib.ChainParser, error) {
	p, err := chainlib.NewChainParser(iface)
	if err != nil {
		return nil, err
	}
	p.SetSpec(spec)
	if sp, ok := p.(interface {
		SetPolicyFromAddonAndExtensionMap(map[string]struct{})
	}); ok {
		sp.SetPolicyFromAddonAndExtensionMap(services)
	}
	return p, nil
}

func c38Setup() {
	c38Once.Do(func() {
		utils.SetGlobalLoggingLevel("fatal")
		zerologlog.Logger = zerolog.New(io.Discard).Level(zerolog.Disabled)
		root := os.Getenv("VERIF_REPO")
		if root == "" {
			root = "/repo"
		}
		root = strings.TrimRight(root, "/") + "/"
		simrt.SetMapOrder(simrt.MapOrderSorted, 1)
		for _, sp := range c38Specs {
			spec, err := specutils.GetASpec(sp.index, root, nil, nil)
			if err != nil {
				c38Err = fmt.Errorf("spec %s: %w", sp.index, err)
				return
			}
			for _, iface := range sp.ifaces {
				t := &c38Target{spec: sp.index, iface: iface, names: map[string]bool{}}
				services := map[string]struct{}{"": {}}
				ip := map[string]bool{}
				for _, col := range spec.ApiCollections {
					if !col.Enabled || col.CollectionData.ApiInterface != iface {
						continue
					}
					services[col.CollectionData.AddOn] = struct{}{}
					ip[col.CollectionData.InternalPath] = true
					for _, e := range col.Extensions {
						if e.Name != "" {
							services[e.Name] = struct{}{}
						}
					}
					for _, a := range col.Apis {
						if !a.Enabled {
							continue
						}
						t.apis = append(t.apis, c38Api{name: a.Name, conn: col.CollectionData.Type, ipath: col.CollectionData.InternalPath, addon: col.CollectionData.AddOn,
							cu: a.ComputeUnits, bp: a.BlockParsing, subscr: a.Category.Subscription, generic: len(a.Parsers)})
						t.names[col.CollectionData.Type+"|"+a.Name] = true
					}
				}
				if len(t.apis) == 0 {
					continue
				}
				sort.Slice(t.apis, func(i, j int) bool {
					a, b := t.apis[i], t.apis[j]
					if a.conn != b.conn {
						return a.conn < b.conn
					}
					if a.ipath != b.ipath {
						return a.ipath < b.ipath
					}
					if a.addon != b.addon {
						return a.addon < b.addon
					}
					return a.name < b.name
				})
				for k := range ip {
					t.ipaths = append(t.ipaths, k)
				}
				sort.Strings(t.ipaths)
				for k := range services {
					if k != "" {
						t.exts = append(t.exts, k)
					}
				}
				sort.Strings(t.exts)
				var err error
				if t.cons, err = c38NewParser(spec, iface, services); err != nil {
					c38Err = err
					return
				}
				if t.prov, err = c38NewParser(spec, iface, services); err != nil {
					c38Err = err
					return
				}
				c38Targets = append(c38Targets, t)
			}
		}
	})
}

// ---------------------------------------------------------------------------------------------
// generation of valid requests from the spec's own API list (ordinary input generation)

type c38Payload struct {
	url  string
	data []byte
	conn string
	desc string
}

var c38BlockJSON = []string{`"latest"`, `"0x10"`, `"earliest"`, `"pending"`, `"safe"`, `"finalized"`, `16`, `"16"`, `"0x0"`, `0`, `-1`, `"-1"`, `1.5`, `1e3`,
	`9223372036854775807`, `9223372036854775808`, `18446744073709551616`, `"0xffffffffffffffffffff"`, `"0x88df016429689c079f3b2f6ad39fa052532c56795b733da78a91ebe6a713944b"`,
	`""`, `null`, `true`, `{}`, `[]`, `{"blockNumber":"0x5"}`, `{"blockHash":"0x88df016429689c079f3b2f6ad39fa052532c56795b733da78a91ebe6a713944b"}`, `"LATEST"`, `"latest "`, `"0X10"`, `"010"`, `"1_0"`, `"0b101"`, `"0o17"`,
	`"0x3e0"`, `"0x1312d00"`, `992`, `19999990`, `"validated"`, `"0x-1"`, `"+5"`, `[["latest"]]`, `{"block_id":5}`, `{"finality":"final"}`, `"\u0000"`}

var c38BlockURI = []string{"latest", "16", "0x10", "earliest", "0", "-1", "1.5", "1e3", "9223372036854775807", "9223372036854775808", "", "%22latest%22", "LATEST", "1_0", "5&height=6", "%00", "abc", "0x88df016429689c079f3b2f6ad39fa052532c56795b733da78a91ebe6a713944b", "992", "19999990", "%zz"}

var c38IDs = []string{`1`, `"abc"`, `null`, ``, `1.5`, `{}`, `[]`, `true`, `18446744073709551616`, `-1`, `"` + strings.Repeat("i", 300) + `"`, `1e400`, `"\ud800"`}

type c38Gen struct {
	r      *simrt.Run
	t      *c38Target
	latest uint64 // the consumer's view of the node's latest block
}

// block numbers around the consumer's latest block and the archive rules of the specs
func (g *c38Gen) nearLatest() (uint64, bool) {
	if g.latest == 0 {
		return 0, false
	}
	d := []uint64{0, 1, 5, 125, 126, 127, 128, 5679, 5680, 5681, 14199, 14200, 14201, 63900, 427500}[g.r.Draw("ops", 15)]
	if d > g.latest {
		return g.latest + 1, true
	}
	return g.latest - d, true
}

func (g *c38Gen) pick(list []string) string { return list[g.r.Draw("ops", len(list))] }

func (g *c38Gen) filler() string {
	return g.pick([]string{`"0x407d73d8a49eeb85d32cf465507dd71d507100c1"`, `{"to":"0xd46e8dd67c5d32be8058bb8eb970870f07244567","data":"0x"}`, `"x"`, `1`, `false`, `null`, `[]`, `{}`})
}

func (g *c38Gen) block() string {
	switch g.r.Draw("ops", 4) {
	case 0, 1:
		return c38BlockJSON[g.r.Draw("ops", 4)]
	case 2:
		if b, ok := g.nearLatest(); ok {
			return []string{fmt.Sprintf(`"0x%x"`, b), fmt.Sprintf(`%d`, b), fmt.Sprintf(`"%d"`, b)}[g.r.Draw("ops", 3)]
		}
	}
	return g.pick(c38BlockJSON)
}

func (g *c38Gen) blockURI() string {
	switch g.r.Draw("ops", 4) {
	case 0, 1:
		return c38BlockURI[g.r.Draw("ops", 3)]
	case 2:
		if b, ok := g.nearLatest(); ok {
			return fmt.Sprintf("%d", b)
		}
	}
	return g.pick(c38BlockURI)
}

// params for a json-rpc style api, shaped by the api's own block parser
func (g *c38Gen) params(a c38Api) string {
	r := g.r
	args := a.bp.ParserArg
	atoi := func(s string) int {
		n := 0
		for _, c := range s {
			if c < '0' || c > '9' {
				return 0
			}
			n = n*10 + int(c-'0')
		}
		return n
	}
	switch a.bp.ParserFunc {
	case spectypes.PARSER_FUNC_PARSE_BY_ARG:
		idx := 0
		if len(args) > 0 {
			idx = atoi(args[0])
		}
		var ps []string
		for i := 0; i < idx; i++ {
			ps = append(ps, g.filler())
		}
		if !r.Chance("ops", 1, 8) {
			ps = append(ps, g.block())
		}
		if r.Chance("ops", 1, 4) {
			ps = append(ps, g.filler())
		}
		return "[" + strings.Join(ps, ",") + "]"
	case spectypes.PARSER_FUNC_PARSE_CANONICAL:
		idx := 0
		if len(args) > 0 {
			idx = atoi(args[0])
		}
		obj := g.block()
		for i := len(args) - 1; i >= 1; i-- {
			obj = fmt.Sprintf(`{"%s":%s%s}`, args[i], obj, []string{"", `,"fromBlock":"0x1"`, `,"x":1`}[r.Draw("ops", 3)])
		}
		var ps []string
		for i := 0; i < idx; i++ {
			ps = append(ps, g.filler())
		}
		ps = append(ps, obj)
		return "[" + strings.Join(ps, ",") + "]"
	case spectypes.PARSER_FUNC_PARSE_DICTIONARY, spectypes.PARSER_FUNC_PARSE_DICTIONARY_OR_ORDERED:
		key := "height"
		if len(args) > 0 {
			key = args[0]
		}
		if a.bp.ParserFunc == spectypes.PARSER_FUNC_PARSE_DICTIONARY_OR_ORDERED && r.Chance("ops", 1, 3) {
			idx := 0
			if len(args) > 2 {
				idx = atoi(args[2])
			}
			var ps []string
			for i := 0; i < idx; i++ {
				ps = append(ps, g.filler())
			}
			ps = append(ps, g.block())
			return "[" + strings.Join(ps, ",") + "]"
		}
		return fmt.Sprintf(`{"%s":%s%s}`, key, g.block(), []string{"", `,"prove":false`, `,"` + key + `":"7"`}[r.Draw("ops", 3)])
	}
	return g.pick([]string{`[]`, `[` + g.filler() + `]`, `{}`, `null`, ``, `"str"`, `5`, `[` + g.block() + `]`, `{"height":` + g.block() + `}`})
}

func (g *c38Gen) jsonMsg(a c38Api) string {
	r := g.r
	method := `"` + a.name + `"`
	if r.Chance("ops", 1, 12) {
		method = g.pick([]string{`123`, `null`, `""`, `["` + a.name + `"]`, `{"m":1}`, `"` + a.name + ` "`, `"` + strings.ToUpper(a.name) + `"`, `"no_such_method"`, ``})
	}
	var fields []string
	if !r.Chance("ops", 1, 10) {
		fields = append(fields, `"jsonrpc":"2.0"`)
	}
	if id := g.idForm(); id != "" {
		fields = append(fields, `"id":`+id)
	}
	if method != "" {
		fields = append(fields, `"method":`+method)
	}
	if p := g.params(a); p != "" {
		fields = append(fields, `"params":`+p)
	}
	if r.Chance("ops", 1, 10) && len(fields) > 1 {
		i := r.Draw("ops", len(fields))
		fields[0], fields[i] = fields[i], fields[0]
	}
	return "{" + strings.Join(fields, ",") + "}"
}

func (g *c38Gen) idForm() string {
	if g.r.Chance("ops", 2, 3) {
		return c38IDs[g.r.Draw("ops", 2)]
	}
	return g.pick(c38IDs)
}

func (g *c38Gen) api() c38Api { return g.t.apis[g.r.Draw("ops", len(g.t.apis))] }

func (g *c38Gen) jsonBody() (string, string) {
	r := g.r
	a := g.api()
	if r.Chance("ops", 1, 5) {
		n := r.Draw("ops", 5)
		var ms []string
		names := []string{}
		for i := 0; i < n; i++ {
			b := g.api()
			if r.Chance("ops", 1, 2) {
				b = a
			}
			ms = append(ms, g.jsonMsg(b))
			names = append(names, b.name)
		}
		return "[" + strings.Join(ms, ",") + "]", "batch(" + strings.Join(names, ",") + ")"
	}
	return g.jsonMsg(a), a.name
}

func (g *c38Gen) restPath(a c38Api) string {
	r := g.r
	segs := []string{"cosmos1abcdefghijklmnopqrstuvwxyz0123456789", "5", "latest", "LAV1", "ulava", "0x1", "a%2Fb", "..", "%00", "abc def", strings.Repeat("z", 200), "", "by_denom", "params", "16", "-1"}
	var sb strings.Builder
	name := a.name
	for {
		i := strings.Index(name, "{")
		if i < 0 {
			sb.WriteString(name)
			break
		}
		j := strings.Index(name[i:], "}")
		if j < 0 {
			sb.WriteString(name)
			break
		}
		sb.WriteString(name[:i])
		if b, ok := g.nearLatest(); ok && r.Chance("ops", 1, 4) {
			sb.WriteString(fmt.Sprintf("%d", b))
		} else if r.Chance("ops", 2, 3) {
			sb.WriteString(segs[r.Draw("ops", 5)])
		} else {
			sb.WriteString(g.pick(segs))
		}
		name = name[i+j+1:]
	}
	return sb.String()
}

func (g *c38Gen) query(key string) string {
	r := g.r
	switch r.Draw("ops", 5) {
	case 0:
		return ""
	case 1, 2:
		return "?" + key + "=" + g.blockURI()
	case 3:
		return "?pagination.limit=5&" + key + "=" + g.blockURI() + "&x=%ff"
	}
	return "?" + g.pick([]string{"", "=", "&&", key, key + "=1&" + key + "=2", "a=b;c=d", strings.Repeat("k=v&", 50)})
}

func (g *c38Gen) gen() c38Payload {
	r := g.r
	t := g.t
	switch t.iface {
	case spectypes.APIInterfaceJsonRPC:
		body, desc := g.jsonBody()
		url := "/"
		if len(t.ipaths) > 1 && r.Chance("ops", 1, 2) {
			url = t.ipaths[r.Draw("ops", len(t.ipaths))]
		} else if r.Chance("ops", 1, 8) {
			url = g.pick([]string{"", "/x", "//", "/rpc/v0_8", "WS-ONLY", "/ws"})
		}
		return c38Payload{url: url, data: []byte(body), conn: "POST", desc: desc}
	case spectypes.APIInterfaceTendermintRPC:
		if r.Chance("ops", 1, 2) {
			body, desc := g.jsonBody()
			return c38Payload{url: "", data: []byte(body), conn: "", desc: desc}
		}
		a := g.api()
		key := "height"
		if len(a.bp.ParserArg) > 0 && a.bp.ParserFunc != spectypes.PARSER_FUNC_DEFAULT && a.bp.ParserArg[0] != "" {
			key = a.bp.ParserArg[0]
		}
		return c38Payload{url: a.name + g.query(key), data: nil, conn: "", desc: "uri:" + a.name}
	case spectypes.APIInterfaceRest:
		a := g.api()
		p := g.restPath(a) + g.query("height")
		var data []byte
		if a.conn == "POST" {
			data = []byte(g.pick([]string{`{"tx_bytes":"AA==","mode":"BROADCAST_MODE_SYNC"}`, `{}`, ``, `[1,2]`, `{"height":"5"}`, `not json`}))
		}
		conn := a.conn
		if r.Chance("ops", 1, 12) {
			conn = g.pick([]string{"GET", "POST", "PUT", "", "get", "DELETE"})
		}
		return c38Payload{url: p, data: data, conn: conn, desc: a.conn + " " + a.name}
	default: // grpc: JSON-encoded bodies only (binary protobuf needs descriptors fetched from a node)
		a := g.api()
		body := g.pick([]string{`{}`, `{"height":"5"}`, `{"address":"cosmos1abc","pagination":{"limit":"5"}}`, `{"height":` + g.block() + `}`, `[` + g.block() + `]`, `{"id":` + g.block() + `}`})
		name := a.name
		if r.Chance("ops", 1, 12) {
			name = g.pick([]string{"", "/", a.name + "/", "/" + a.name, strings.ReplaceAll(a.name, "/", "."), "no.such.Service/Method"})
		}
		return c38Payload{url: name, data: []byte(body), conn: "", desc: a.name}
	}
}

// ---------------------------------------------------------------------------------------------
// the corrupting transport

func c38Corrupt(r *simrt.Run, b []byte) ([]byte, string) {
	kinds := []string{"bitflip", "truncate", "duplicate_fragment", "nest_deeper", "number_swap", "block_tag", "non_utf8", "empty", "very_long", "delete_fragment", "type_swap", "insert_byte"}
	k := kinds[r.Draw("fault", len(kinds))]
	out := append([]byte(nil), b...)
	pos := func(n int) int {
		if n <= 0 {
			return 0
		}
		return r.Draw("fault", n)
	}
	switch k {
	case "bitflip":
		if len(out) == 0 {
			return []byte{0x01}, k
		}
		for i, n := 0, 1+r.Draw("fault", 3); i < n; i++ {
			out[pos(len(out))] ^= 1 << uint(r.Draw("fault", 8))
		}
	case "truncate":
		out = out[:pos(len(out)+1)]
	case "duplicate_fragment":
		if len(out) > 0 {
			i := pos(len(out))
			j := i + 1 + pos(len(out)-i)
			at := pos(len(out) + 1)
			frag := append([]byte(nil), out[i:j]...)
			out = append(out[:at:at], append(frag, out[at:]...)...)
		}
	case "delete_fragment":
		if len(out) > 1 {
			i := pos(len(out))
			j := i + 1 + pos(min(len(out)-i, 12))
			out = append(out[:i:i], out[j:]...)
		}
	case "nest_deeper":
		depth := []int{3, 50, 1000, 10001, 30000}[r.Draw("fault", 5)]
		open, cl := "[", "]"
		if r.Chance("fault", 1, 3) {
			open, cl = `{"a":`, "}"
			if depth > 8000 {
				depth = 8000
			}
		}
		at := bytes.IndexAny(out, "[{")
		if at < 0 || r.Chance("fault", 1, 3) {
			out = []byte(strings.Repeat(open, depth) + string(out) + strings.Repeat(cl, depth))
		} else {
			// wrap the value that starts at the first bracket ... crude: insert openers there and closers at the end
			out = []byte(string(out[:at]) + strings.Repeat(open, depth) + string(out[at:]) + strings.Repeat(cl, depth))
		}
	case "number_swap", "block_tag", "type_swap":
		// replace one JSON scalar / token by an odd one
		repl := map[string][]string{
			"number_swap": {"99999999999999999999999999", "-5", "1.5", "1e308", "1e-9", "0x1F", `"7"`, "-0", "00012", "1e99999", "NaN", "Infinity", "9223372036854775808", "-9223372036854775809"},
			"block_tag":   {`"latest"`, `"pending"`, `"earliest"`, `"finalized"`, `"safe"`, `"Latest"`, `"latest\u0000"`, `"newest"`, `"0x"`, `"0xg"`, `"-0x1"`, `"0x00000000000000000000000000000000000000000000000000000000000000010"`, `"validated"`, `"optimistic"`, `"final"`},
			"type_swap":   {`null`, `true`, `[]`, `{}`, `""`, `0`, `[[]]`, `{"":{}}`, `"\u0000"`},
		}[k]
		toks := c38Tokens(out)
		if len(toks) == 0 {
			out = []byte(repl[pos(len(repl))])
		} else {
			t := toks[pos(len(toks))]
			out = []byte(string(out[:t[0]]) + repl[pos(len(repl))] + string(out[t[1]:]))
		}
	case "non_utf8":
		at := pos(len(out) + 1)
		junk := [][]byte{{0xff}, {0xc3, 0x28}, {0xed, 0xa0, 0x80}, {0xf8, 0x88, 0x80, 0x80, 0x80}, {0x00}, {0xef, 0xbb, 0xbf}}[r.Draw("fault", 6)]
		out = append(out[:at:at], append(append([]byte(nil), junk...), out[at:]...)...)
	case "insert_byte":
		at := pos(len(out) + 1)
		c := []byte(`{}[]":,\ -0e.`)[r.Draw("fault", 13)]
		out = append(out[:at:at], append([]byte{c}, out[at:]...)...)
	case "empty":
		out = nil
	case "very_long":
		n := []int{1 << 10, 1 << 14, 60000}[r.Draw("fault", 3)]
		switch r.Draw("fault", 3) {
		case 0:
			out = append(out, bytes.Repeat([]byte(" "), n)...)
		case 1:
			at := bytes.IndexByte(out, '"')
			if at < 0 {
				at = -1
			}
			out = append(out[:at+1:at+1], append(bytes.Repeat([]byte("a"), n), out[at+1:]...)...)
		default:
			out = []byte(`[` + strings.Repeat(string(out)+",", min(n/(len(out)+1), 400)) + string(out) + `]`)
		}
	}
	if len(out) > 70000 {
		out = out[:70000]
	}
	return out, k
}

// c38Tokens finds scalar tokens (numbers, strings, literals) of a JSON-like text: [start,end) offsets
func c38Tokens(b []byte) [][2]int {
	var out [][2]int
	for i := 0; i < len(b); {
		c := b[i]
		switch {
		case c == '"':
			j := i + 1
			for j < len(b) && b[j] != '"' {
				if b[j] == '\\' {
					j++
				}
				j++
			}
			if j < len(b) {
				j++
			}
			if j > len(b) {
				j = len(b)
			}
			out = append(out, [2]int{i, j})
			i = j
		case c == '-' || (c >= '0' && c <= '9'):
			j := i + 1
			for j < len(b) && strings.IndexByte("0123456789.eE+-xabcdefABCDEF", b[j]) >= 0 {
				j++
			}
			out = append(out, [2]int{i, j})
			i = j
		case c == 't' || c == 'f' || c == 'n':
			j := i + 1
			for j < len(b) && b[j] >= 'a' && b[j] <= 'z' {
				j++
			}
			out = append(out, [2]int{i, j})
			i = j
		default:
			i++
		}
	}
	return out
}

// ---------------------------------------------------------------------------------------------
// parsing under a recover and a hang watchdog

type c38Parsed struct {
	ok       bool
	err      string
	api      string
	cu       uint64
	addon    string
	enabled  bool
	colOK    bool
	latest   int64
	earliest int64
	exts     []string
	batch    bool
	msg      chainlib.ChainMessage
}

func c38Short(b []byte) string {
	if len(b) > 160 {
		return fmt.Sprintf("%q...(%d bytes)", b[:160], len(b))
	}
	return fmt.Sprintf("%q", b)
}

// The machine may be heavily loaded: a parse counts as hung only after 40 s of wall time (5 s once
// a hang was seen in this process, so that shrinking a real hang stays affordable; the driver's
// confirmation replay runs in a fresh process with the long limit again).
func c38ParseTimeout() time.Duration {
	if c38Hangs > 0 {
		return 5 * time.Second
	}
	return 40 * time.Second
}

// parse runs one parse with the given party's configuration. The wall-clock watchdog is only a
// hang detector: it reports class "parse-hang" and influences nothing else.
func c38Parse(r *simrt.Run, t *c38Target, side string, p chainlib.ChainParser, url string, data []byte, conn string, md []pairingtypes.Metadata, ext extensionslib.ExtensionInfo, order int, seed uint64) c38Parsed {
	simrt.SetMapOrder(order, seed)
	hangKey := fmt.Sprintf("%s/%s/%s|%q|%q|%q|%v", t.spec, t.iface, side, url, data, conn, ext)
	if c38HungInputs[hangKey] {
		r.Fail("parse-hang", t.iface+":"+side, "%s-side parse of a %s/%s request did not return (same bytes as an earlier hang in this process): url=%s data=%s conn=%q ext=%+v", side, t.spec, t.iface, c38Short([]byte(url)), c38Short(data), conn, ext)
	}
	type res struct {
		out   c38Parsed
		panic interface{}
		stack string
	}
	ch := make(chan res, 1)
	go func() {
		var rs res
		defer func() {
			if x := recover(); x != nil {
				rs.panic = x
				rs.stack = simrt.StackOf()
			}
			ch <- rs
		}()
		msg, err := chainlib.ParseAndValidateMessage(p, url, data, conn, md, ext)
		if err != nil {
			rs.out.err = "error"
			return
		}
		o := &rs.out
		o.ok = true
		o.msg = msg
		if api := msg.GetApi(); api != nil {
			o.api, o.cu, o.enabled = api.Name, api.ComputeUnits, api.Enabled
		}
		if col := msg.GetApiCollection(); col != nil {
			o.colOK = col.Enabled
			o.addon = col.CollectionData.AddOn
		}
		o.latest, o.earliest = msg.RequestedBlock()
		o.exts = common.GetExtensionNames(msg.GetExtensions())
		o.batch = msg.IsBatch()
	}()
	var rs res
	t0 := time.Now()
	select {
	case rs = <-ch:
		if d := time.Since(t0); d > 300*time.Millisecond {
			r.Extra["parses_slower_than_300ms_wall"]++ // informational only (wall clock, loaded machine)
			if os.Getenv("VERIF_C38_DEBUG") != "" {
				fmt.Fprintf(os.Stderr, "slow parse %v %s/%s %s url=%s data=%s\n", d, t.spec, t.iface, side, c38Short([]byte(url)), c38Short(data))
			}
		}
	case <-time.After(c38ParseTimeout()):
		c38Hangs++
		c38HungInputs[hangKey] = true
		r.Fail("parse-hang", t.iface+":"+side, "%s-side parse of a %s/%s request did not return within %v: url=%s data=%s conn=%q ext=%+v", side, t.spec, t.iface, c38ParseTimeout(), c38Short([]byte(url)), c38Short(data), conn, ext)
	}
	r.OracleEvals += 2
	if rs.panic != nil {
		sig := simrt.PanicSig(fmt.Sprint(rs.panic), rs.stack)
		r.Fail("panic", sig, "%s-side parse of a %s/%s request panicked: %v\n url=%s data=%s conn=%q ext=%+v\n%s", side, t.spec, t.iface, rs.panic, c38Short([]byte(url)), c38Short(data), conn, ext, simrt.TrimStack(rs.stack))
	}
	return rs.out
}

// success => a supported API with at least one compute unit
func c38CheckSupported(r *simrt.Run, t *c38Target, side string, conn string, o c38Parsed, in string) {
	if !o.ok {
		return
	}
	r.OracleEvals += 3
	r.Check(o.msg.GetApi() != nil && o.msg.GetApiCollection() != nil, "parsed-without-api", t.iface+":"+side, "%s-side parse of %s succeeded without an API / API collection", side, in)
	r.Check(o.cu >= 1, "parsed-api-without-compute-units", t.iface+":"+side, "%s-side parse of %s yields API %q with %d compute units", side, in, o.api, o.cu)
	r.Check(o.enabled && o.colOK, "parsed-api-disabled", t.iface+":"+side, "%s-side parse of %s yields API %q enabled=%v collection-enabled=%v", side, in, o.api, o.enabled, o.colOK)
	if strings.Contains(o.api, chainlib.DefaultApiName) {
		// the fallback API for methods the spec does not list (its name embeds the client's method
		// name, which may itself contain the batch separator)
		r.Probe("default_api_fallback")
		return
	}
	parts := []string{o.api}
	if o.batch {
		parts = strings.Split(o.api, chainlib.SEP)
	}
	for _, n := range parts {
		known := false
		for _, c := range []string{conn, "POST", "GET", ""} {
			if t.names[c+"|"+n] {
				known = true
				break
			}
		}
		r.OracleEvals++
		r.Check(known, "parsed-api-not-in-spec", t.iface+":"+side, "%s-side parse of %s yields API %q (full name %q) which is not an enabled API of spec %s/%s", side, in, n, o.api, t.spec, t.iface)
	}
}

func c38SameStrings(a, b []string) bool {
	if len(a) != len(b) {
		return false
	}
	x, y := append([]string(nil), a...), append([]string(nil), b...)
	sort.Strings(x)
	sort.Strings(y)
	for i := range x {
		if x[i] != y[i] {
			return false
		}
	}
	return true
}

func runC38(r *simrt.Run) {
	c38Setup()
	if c38Err != nil {
		r.Fail("harness", "spec", "cannot set up the parsers: %v", c38Err)
	}
	n := 6 + r.Draw("cfg", 14)
	if r.Tier == "thorough" {
		n = 10 + r.Draw("cfg", 50)
	}
	// the two parties iterate Go maps in different orders, like two processes do
	consOrder, provOrder := simrt.MapOrderSorted, simrt.MapOrderReversed
	switch r.Draw("cfg", 3) {
	case 1:
		consOrder, provOrder = simrt.MapOrderShuffled, simrt.MapOrderShuffled
	case 2:
		provOrder = simrt.MapOrderSorted
	}
	seedA, seedB := r.Draw64("cfg")|1, r.Draw64("cfg")|1
	defer simrt.SetMapOrder(simrt.MapOrderSorted, 1)
	for i := 0; i < n; i++ {
		r.Step()
		t := c38Targets[r.Draw("ops", len(c38Targets))]
		// the consumer's extension info (its view of the latest block, extension header overrides)
		cext := extensionslib.ExtensionInfo{LatestBlock: []uint64{1000, 0, 20000000}[r.Draw("ops", 3)]}
		g := &c38Gen{r: r, t: t, latest: cext.LatestBlock}
		pl := g.gen()
		// ---- client -> consumer: corrupting transport ----
		fault := "none"
		if r.Draw("fault", 5) >= 2 {
			if len(pl.data) == 0 || r.Chance("fault", 1, 4) {
				var b []byte
				b, fault = c38Corrupt(r, []byte(pl.url))
				pl.url = string(b)
				fault = "url:" + fault
			} else {
				pl.data, fault = c38Corrupt(r, pl.data)
			}
			r.Fault(fault)
		}
		if t.iface == spectypes.APIInterfaceGrpc && (len(pl.data) == 0 || (pl.data[0] != '{' && pl.data[0] != '[')) {
			r.Probe("grpc_non_json_body_skipped") // needs protobuf descriptors fetched from a node: not available offline
			r.Op("parse", "skipped")
			continue
		}
		in := fmt.Sprintf("%s/%s [%s] url=%s data=%s conn=%q", t.spec, t.iface, pl.desc, c38Short([]byte(pl.url)), c38Short(pl.data), pl.conn)
		extDesc := ""
		if len(t.exts) > 0 {
			switch r.Draw("ops", 6) {
			case 0:
				cext.AdditionalExtensions = []string{t.exts[r.Draw("ops", len(t.exts))]}
				extDesc = " +ext-header"
			case 1:
				cext.ExtensionOverride = []string{}
				extDesc = " ext-none"
			}
		}
		cons := c38Parse(r, t, "consumer", t.cons, pl.url, pl.data, pl.conn, nil, cext, consOrder, seedA+uint64(i))
		c38CheckSupported(r, t, "consumer", pl.conn, cons, in)
		if !cons.ok {
			// totality on the provider's configuration for the same bytes too
			prov := c38Parse(r, t, "provider", t.prov, pl.url, pl.data, pl.conn, nil, extensionslib.ExtensionInfo{ExtensionOverride: []string{}}, provOrder, seedB+uint64(i))
			c38CheckSupported(r, t, "provider", pl.conn, prov, in)
			r.Op("parse", "consumer_rejects")
			r.Logf("%d %s fault=%s latest=%d%s: consumer fails cleanly; provider ok=%v", i, in, fault, cext.LatestBlock, extDesc, prov.ok)
			continue
		}
		// ---- consumer -> provider: the relay private data exactly as rpcconsumer builds them ----
		ctx := utils.WithUniqueIdentifier(context.Background(), uint64(i)+1)
		pd := lavaprotocol.NewRelayData(ctx, pl.conn, pl.url, pl.data, 0, cons.latest, t.iface, cons.msg.GetRPCMessage().GetHeaders(), chainlib.GetAddon(cons.msg), common.GetExtensionNames(cons.msg.GetExtensions()))
		wire, err := pd.Marshal()
		if err != nil {
			panic(err)
		}
		wfault := "none"
		if r.Draw("fault", 8) == 7 {
			wire, wfault = c38Corrupt(r, wire)
			wfault = "relay:" + wfault
			r.Fault(wfault)
		}
		recv := &pairingtypes.RelayPrivateData{}
		if err := recv.Unmarshal(wire); err != nil {
			r.Op("parse", "relay_undecodable")
			r.Logf("%d %s fault=%s relay-fault=%s: undecodable relay data", i, in, fault, wfault)
			continue
		}
		pext := extensionslib.ExtensionInfo{LatestBlock: 0, ExtensionOverride: recv.Extensions}
		if pext.ExtensionOverride == nil {
			pext.ExtensionOverride = []string{}
		}
		if t.iface == spectypes.APIInterfaceGrpc && (len(recv.Data) == 0 || (recv.Data[0] != '{' && recv.Data[0] != '[')) {
			r.Probe("grpc_non_json_body_skipped")
			r.Op("parse", "skipped")
			continue
		}
		prov := c38Parse(r, t, "provider", t.prov, recv.ApiUrl, recv.Data, recv.ConnectionType, recv.GetMetadata(), pext, provOrder, seedB+uint64(i))
		c38CheckSupported(r, t, "provider", recv.ConnectionType, prov, in)
		r.Logf("%d %s fault=%s relay-fault=%s latest=%d%s: consumer api=%s cu=%d addon=%q block=%d/%d ext=%v | provider ok=%v api=%s cu=%d addon=%q block=%d/%d ext=%v",
			i, in, fault, wfault, cext.LatestBlock, extDesc, cons.api, cons.cu, cons.addon, cons.latest, cons.earliest, cons.exts, prov.ok, prov.api, prov.cu, prov.addon, prov.latest, prov.earliest, prov.exts)
		if wfault != "none" {
			r.Op("parse", "relay_corrupted")
			continue // not the same request any more: totality only
		}
		// ---- agreement ----
		r.OracleEvals++
		var diff []string
		if !prov.ok {
			diff = append(diff, "provider-parse-fails")
		} else {
			if prov.api != cons.api {
				diff = append(diff, "api")
			}
			if prov.cu != cons.cu {
				diff = append(diff, "compute-units")
			}
			if prov.addon != cons.addon {
				diff = append(diff, "add-on")
			}
			if prov.latest != cons.latest {
				diff = append(diff, "requested-block")
			}
		}
		if len(diff) == 0 {
			r.Op("parse", "ok")
			if prov.earliest != cons.earliest {
				r.Probe("earliest_block_differs")
			}
			if len(cons.exts) > 0 {
				r.Probe("agreed_with_extensions")
			}
			if cons.batch {
				r.Probe("agreed_on_batch")
			}
			if cons.latest >= 0 {
				r.Probe("agreed_on_numeric_block")
			}
			continue
		}
		sig := t.iface + ":" + strings.Join(diff, "+")
		cause := ""
		if prov.ok && !c38SameStrings(prov.exts, cons.exts) {
			cause = ":provider-extensions-differ-from-consumer-choice"
			if len(prov.exts) > len(cons.exts) {
				cause = ":provider-added-extensions"
			}
			for _, n := range strings.Split(cons.api, chainlib.SEP) {
				if n == "eth_call" {
					cause += ":eth_call" // ParseMsg has a special case for this method
					break
				}
			}
		} else if provOrder != consOrder || consOrder == simrt.MapOrderShuffled {
			// would the provider agree if its maps were iterated in the consumer's order?
			again := c38Parse(r, t, "provider", t.prov, recv.ApiUrl, recv.Data, recv.ConnectionType, recv.GetMetadata(), pext, consOrder, seedA+uint64(i))
			if again.ok && again.api == cons.api && again.cu == cons.cu && again.addon == cons.addon && again.latest == cons.latest {
				cause = ":map-iteration-order"
			}
		}
		if cause != "" {
			sig = t.iface + cause // one signature per cause, whatever fields it makes differ
		}
		known := r.Fail("consumer-provider-disagree", sig, "the consumer and the provider parse the same %s request differently (%s%s):\n request: %s\n consumer (latest block %d%s): api=%s cu=%d add-on=%q requested-block=%d extensions=%v\n provider (ExtensionOverride=%v): ok=%v api=%s cu=%d add-on=%q requested-block=%d extensions=%v",
			t.iface, strings.Join(diff, ", "), cause, in, cext.LatestBlock, extDesc, cons.api, cons.cu, cons.addon, cons.latest, cons.exts, pext.ExtensionOverride, prov.ok, prov.api, prov.cu, prov.addon, prov.latest, prov.exts)
		if known {
			r.Op("parse", "known_disagreement")
		}
	}
}

func init() {
	simrt.Register("C38", &simrt.PropSpec{Fn: runC38, RunWallS: 300,
		NonTrivial: func(r *simrt.Run) bool {
			return r.Ops["parse:ok"] >= 3 && r.Ops["parse:consumer_rejects"] >= 1 && r.FaultsFired() >= 2
		},
		Rule:    "ordinary input generation plus a thin two-party simulation: requests are generated from the checked-in specs' own API lists (ETH1, NEAR, STRK, SOLANA, BTC json-rpc incl. batches and internal paths; LAVA and COSMOSHUB rest / tendermint-rpc (URI and JSON forms) / grpc with JSON bodies; APT1 and CARDANO rest), parameters shaped by each API's block parser with 44 block-parameter forms (tags, hex, decimal, negative, float, huge, hashes, objects, wrong types), odd ids/methods/params; the simulator contributes (a) a corrupting transport between client and consumer and between consumer and provider (bit flips, truncation, duplicated/deleted fragment, nesting up to 30000 levels, number/block-tag/type swaps, non-UTF8, empty, inputs up to ~64 KB), (b) the two-party comparison: the consumer-side parse (rpcconsumer's sequence, its latest-block view 0/1000/2e7, extension header overrides) builds the relay private data, the provider-side parse (rpcprovider's initRelay sequence, ExtensionOverride = the consumer's extensions) re-parses the delivered bytes with a different map iteration order, (c) a per-parse wall-clock watchdog used only as hang detector. Non-trivial = >=3 agreed parses, >=1 clean consumer-side failure, >=2 faults; distinct = (op,outcome,fault) sequence hash",
		Real:    []string{"protocol/chainlib chain parsers (jsonRPC.go, rest.go, tendermintRPC.go, grpc.go, base_chain_parser.go, chain_message.go, extensionslib) built from the checked-in specs, ParseAndValidateMessage", "protocol/parser ParseBlockFromParams and friends", "protocol/chainlib/chainproxy/rpcInterfaceMessages", "protocol/lavaprotocol NewRelayData, gogoproto marshal/unmarshal of RelayPrivateData as the wire", "spec expansion (utils/keeper GetASpec, x/spec keeper ExpandSpec)"},
		Stubbed: []string{"client, consumer and provider processes (only their parsing sequences are reproduced)", "transport (in-memory, corrupting)", "Go map iteration order inside chainlib (maporder seam: sorted / reversed / seeded shuffle per party)", "gRPC protobuf descriptors (not available offline: gRPC requests with JSON bodies only)"},
		Assume:  []string{"the consumer parses with ExtensionInfo{LatestBlock, optional AdditionalExtensions/ExtensionOverride from headers} and the provider with ExtensionInfo{LatestBlock: 0, ExtensionOverride: request.RelayData.Extensions}, as rpcconsumer_server.go and rpcprovider_server.go do", "both parties are configured with every add-on and extension of the spec (the provider honours whatever the consumer chose)", "the Default-<name> fallback API for unknown methods counts as a supported API (it is what the code intends); every other API name must be an enabled API of the spec", "a one-sided failure (consumer parses, provider does not) counts as a disagreement"},
	})
}
