package wiresim

import (
	"bytes"
	"context"
	"encoding/binary"
	"fmt"
	"strings"

	sdk "github.com/cosmos/cosmos-sdk/types"
	"github.com/lavanet/lava/v5/protocol/lavaprotocol"
	"github.com/lavanet/lava/v5/utils"
	"github.com/lavanet/lava/v5/utils/sigs"
	pairingtypes "github.com/lavanet/lava/v5/x/pairing/types"
	"github.com/lavanet/lava/v5/zz_verif/simrt"
)

// ---------------------------------------------------------------------------------------------
// generators

type wireWorld struct {
	r        *simrt.Run
	consumer sigs.Account
	provider sigs.Account
	other    sigs.Account
}

func newWireWorld(r *simrt.Run) *wireWorld {
	rd := sigs.NewZeroReader(int64(r.Seed>>2) + 7)
	w := &wireWorld{r: r}
	w.consumer = sigs.GenerateDeterministicFloatingKey(rd)
	rd.Inc()
	w.provider = sigs.GenerateDeterministicFloatingKey(rd)
	rd.Inc()
	w.other = sigs.GenerateDeterministicFloatingKey(rd)
	return w
}

var wireAlphabet = []byte("ab/:{}\"0 \x00\xff")

func (w *wireWorld) str(stream string, maxLen int) string {
	n := w.r.Draw(stream, maxLen+1)
	b := make([]byte, n)
	for i := range b {
		b[i] = wireAlphabet[w.r.Draw(stream, len(wireAlphabet))]
	}
	return string(b)
}

func (w *wireWorld) genPrivateData() *pairingtypes.RelayPrivateData {
	r := w.r
	var md []pairingtypes.Metadata
	for i, n := 0, r.Draw("ops", 3); i < n; i++ {
		md = append(md, pairingtypes.Metadata{Name: w.str("ops", 3), Value: w.str("ops", 3)})
	}
	var ext []string
	for i, n := 0, r.Draw("ops", 3); i < n; i++ {
		ext = append(ext, w.str("ops", 3))
	}
	blocks := []int64{-2, -1, 0, 1, 1000, 1 << 40}
	ctx := utils.WithUniqueIdentifier(context.Background(), r.Draw64("ops")|1)
	pd := lavaprotocol.NewRelayData(ctx, []string{"", "GET", "POST"}[r.Draw("ops", 3)], w.str("ops", 6), []byte(w.str("ops", 8)),
		blocks[r.Draw("ops", len(blocks))], blocks[r.Draw("ops", len(blocks))], []string{"", "rest", "jsonrpc"}[r.Draw("ops", 3)], md, w.str("ops", 3), ext)
	if r.Chance("ops", 1, 6) {
		pd.Salt = nil
	}
	return pd
}

func (w *wireWorld) genQos(stream string) *pairingtypes.QualityOfServiceReport {
	r := w.r
	if r.Chance(stream, 1, 3) {
		return nil
	}
	d := func() sdk.Dec { return sdk.NewDecWithPrec(int64(r.Draw(stream, 1000)), 3) }
	return &pairingtypes.QualityOfServiceReport{Latency: d(), Availability: d(), Sync: d()}
}

func (w *wireWorld) genSession(pd *pairingtypes.RelayPrivateData) *pairingtypes.RelaySession {
	r := w.r
	s := &pairingtypes.RelaySession{
		SpecId:              []string{"LAV1", "ETH1", ""}[r.Draw("ops", 3)],
		ContentHash:         sigs.HashMsg(pd.GetContentHashData()),
		SessionId:           uint64(r.Draw("ops", 5)) + r.Draw64("ops")%3*1000,
		CuSum:               uint64(r.Draw("ops", 1000)),
		Provider:            w.provider.Addr.String(),
		RelayNum:            uint64(r.Draw("ops", 50)),
		QosReport:           w.genQos("ops"),
		Epoch:               int64(r.Draw("ops", 5000)),
		LavaChainId:         []string{"lava", "lava-testnet-2"}[r.Draw("ops", 2)],
		QosExcellenceReport: w.genQos("ops"),
	}
	for i, n := 0, r.Draw("ops", 3); i < n; i++ {
		s.UnresponsiveProviders = append(s.UnresponsiveProviders, &pairingtypes.ReportedProvider{
			Address: w.other.Addr.String(), Disconnections: uint64(r.Draw("ops", 3)), Errors: uint64(r.Draw("ops", 3)), TimestampS: int64(r.Draw("ops", 1000)),
		})
	}
	sig, err := sigs.Sign(w.consumer.SK, *s)
	if err != nil {
		panic(err)
	}
	s.Sig = sig
	return s
}

// ---------------------------------------------------------------------------------------------
// canonical views written from the property statement (length-prefixed, unambiguous)

func lp(sb *strings.Builder, name string, b []byte) {
	fmt.Fprintf(sb, "%s[%d]=%x;", name, len(b), b)
}

func canonQos(q *pairingtypes.QualityOfServiceReport) string {
	if q == nil {
		return "nil"
	}
	// a Dec decoded from corrupted bytes can carry a nil big.Int: it is the zero value, prints like
	// zero in the signed text and is not a different field value
	ds := func(d sdk.Dec) string {
		if d.IsNil() {
			return sdk.ZeroDec().String()
		}
		return d.String()
	}
	return ds(q.Latency) + "|" + ds(q.Availability) + "|" + ds(q.Sync)
}

// the signed fields of a relay session per the statement: CU sum, session id, relay number, epoch,
// provider, spec, lava chain id, content hash, QoS reports, reported providers
func canonSession(s *pairingtypes.RelaySession) string {
	var sb strings.Builder
	fmt.Fprintf(&sb, "cu=%d;sid=%d;num=%d;epoch=%d;", s.CuSum, s.SessionId, s.RelayNum, s.Epoch)
	lp(&sb, "provider", []byte(s.Provider))
	lp(&sb, "spec", []byte(s.SpecId))
	lp(&sb, "lavachain", []byte(s.LavaChainId))
	lp(&sb, "hash", s.ContentHash)
	sb.WriteString("qos=" + canonQos(s.QosReport) + ";qosx=" + canonQos(s.QosExcellenceReport) + ";")
	for _, u := range s.UnresponsiveProviders {
		if u == nil {
			sb.WriteString("unresp=nil;")
			continue
		}
		fmt.Fprintf(&sb, "unresp=%x/%d/%d/%d;", u.Address, u.Disconnections, u.Errors, u.TimestampS)
	}
	return sb.String()
}

// the hashed fields of the private data per the C26 statement
func canonPD(p *pairingtypes.RelayPrivateData, withSalt bool) string {
	var sb strings.Builder
	lp(&sb, "data", p.Data)
	lp(&sb, "url", []byte(p.ApiUrl))
	lp(&sb, "conn", []byte(p.ConnectionType))
	lp(&sb, "iface", []byte(p.ApiInterface))
	lp(&sb, "addon", []byte(p.Addon))
	for _, e := range p.Extensions {
		lp(&sb, "ext", []byte(e))
	}
	for _, m := range p.Metadata {
		lp(&sb, "mdname", []byte(m.Name))
		lp(&sb, "mdvalue", []byte(m.Value))
	}
	fmt.Fprintf(&sb, "reqblock=%d;seen=%d;", p.RequestBlock, p.SeenBlock)
	if withSalt {
		lp(&sb, "salt", p.Salt)
	}
	return sb.String()
}

func canonReply(r *pairingtypes.RelayReply) string {
	var sb strings.Builder
	lp(&sb, "data", r.Data)
	for _, m := range r.Metadata {
		lp(&sb, "mdname", []byte(m.Name))
		lp(&sb, "mdvalue", []byte(m.Value))
	}
	return sb.String()
}

// ---------------------------------------------------------------------------------------------
// transport

func cloneRequest(req *pairingtypes.RelayRequest) *pairingtypes.RelayRequest {
	b, err := req.Marshal()
	if err != nil {
		panic(err)
	}
	out := &pairingtypes.RelayRequest{}
	if err := out.Unmarshal(b); err != nil {
		panic(err)
	}
	return out
}

func flipBit(r *simrt.Run, b []byte) []byte {
	if len(b) == 0 {
		return []byte{1}
	}
	out := append([]byte(nil), b...)
	i := r.Draw("fault", len(out))
	out[i] ^= 1 << uint(r.Draw("fault", 8))
	return out
}

func mutStr(r *simrt.Run, s string) string {
	switch r.Draw("fault", 3) {
	case 0:
		return s + "x"
	case 1:
		if len(s) > 0 {
			return s[:len(s)-1]
		}
		return "y"
	}
	return string(flipBit(r, []byte(s)))
}

// mutateSession changes exactly one thing of the session; returns the kind.
func (w *wireWorld) mutateSession(s *pairingtypes.RelaySession) string {
	r := w.r
	kinds := []string{"cu_sum", "session_id", "relay_num", "epoch", "provider", "spec_id", "lava_chain_id", "content_hash", "qos", "qos_excellence", "unresponsive", "sig", "badge_unsigned"}
	k := kinds[r.Draw("fault", len(kinds))]
	switch k {
	case "cu_sum":
		s.CuSum += uint64(1 + r.Draw("fault", 5))
	case "session_id":
		s.SessionId ^= 1 << uint(r.Draw("fault", 40))
	case "relay_num":
		s.RelayNum++
	case "epoch":
		s.Epoch += int64(1 + r.Draw("fault", 30))
	case "provider":
		s.Provider = []string{w.other.Addr.String(), mutStr(r, s.Provider)}[r.Draw("fault", 2)]
	case "spec_id":
		s.SpecId = mutStr(r, s.SpecId)
	case "lava_chain_id":
		s.LavaChainId = mutStr(r, s.LavaChainId)
	case "content_hash":
		s.ContentHash = flipBit(r, s.ContentHash)
	case "qos", "qos_excellence":
		q := &s.QosReport
		if k == "qos_excellence" {
			q = &s.QosExcellenceReport
		}
		if *q == nil {
			*q = &pairingtypes.QualityOfServiceReport{Latency: sdk.OneDec(), Availability: sdk.OneDec(), Sync: sdk.OneDec()}
		} else if r.Chance("fault", 1, 4) {
			*q = nil
		} else {
			c := **q
			c.Latency = c.Latency.Add(sdk.NewDecWithPrec(1, 3))
			*q = &c
		}
	case "unresponsive":
		if len(s.UnresponsiveProviders) > 0 && r.Chance("fault", 1, 2) {
			if r.Chance("fault", 1, 2) {
				s.UnresponsiveProviders = s.UnresponsiveProviders[1:]
			} else {
				c := *s.UnresponsiveProviders[0]
				c.Errors++
				s.UnresponsiveProviders = append([]*pairingtypes.ReportedProvider{&c}, s.UnresponsiveProviders[1:]...)
			}
		} else {
			s.UnresponsiveProviders = append(s.UnresponsiveProviders, &pairingtypes.ReportedProvider{Address: w.provider.Addr.String(), Errors: 1})
		}
	case "sig":
		s.Sig = flipBit(r, s.Sig)
	case "badge_unsigned":
		s.Badge = &pairingtypes.Badge{CuAllocation: 5, Epoch: 7, Address: w.other.Addr.String(), LavaChainId: "lava"}
	}
	return k
}

// ---------------------------------------------------------------------------------------------
// C25

func runC25(r *simrt.Run) {
	w := newWireWorld(r)
	ctx := context.Background()
	n := 6 + r.Draw("cfg", 10)
	// Order of verifications (one knob per run, own stream so that older tapes keep their meaning;
	// 0 = as before). In a "genuine first" run every signed object is verified in its genuine form
	// by its receiver before whatever the transport delivers is verified: a copy with a changed
	// signed field that still carries the genuine signature (a replayed session claiming other CU,
	// a stored reply re-served with other data) then arrives at a verifier that has already
	// accepted the genuine one. In the other runs the receiver sees only what the transport
	// delivers (a tampered copy is the first and only thing verified under that signature).
	// The knob is per run and the genuine verification is unconditional in such a run, so that the
	// first verification under every signature is the genuine one in every execution of the run:
	// the verdict then cannot depend on what earlier executions in the same OS process (other runs,
	// shrink re-executions) left behind in process-wide state of the code under test. Violations
	// found in such a run carry their own signature suffix for the same reason.
	genuineFirst := r.Draw("order", 2) == 1
	sfx := ""
	if genuineFirst {
		sfx = ":after-genuine-verified"
	}
	r.Logf("cfg: steps=%d genuine-verified-first=%v", n, genuineFirst)
	for i := 0; i < n; i++ {
		r.Step()
		pd := w.genPrivateData()
		sess := w.genSession(pd)
		sent := &pairingtypes.RelayRequest{RelaySession: sess, RelayData: pd}
		// ---- consumer -> provider over the wire ----
		wireBytes, err := sent.Marshal()
		if err != nil {
			panic(err)
		}
		if genuineFirst {
			g := &pairingtypes.RelayRequest{}
			if err := g.Unmarshal(wireBytes); err != nil {
				panic(err)
			}
			gb, _ := g.Marshal()
			addr, xerr := sigs.ExtractSignerAddress(*g.RelaySession)
			ga, _ := g.Marshal()
			r.Check(bytes.Equal(gb, ga), "verification-mutated-message", "ExtractSignerAddress", "ExtractSignerAddress changed the relay request it checked (marshalled bytes differ)")
			ok := xerr == nil && addr.Equals(w.consumer.Addr)
			r.Logf("request %d genuine copy verified first: recovered-consumer=%v", i, ok)
			r.Check(ok, "signer-not-recovered-for-unchanged-session", "genuine-first", "the genuine relay session (first verification under its signature in this run) does not recover to the consumer's address: %v", xerr)
			r.Op("request", "genuine_first_ok")
		}
		fault := "none"
		switch r.Draw("fault", 5) {
		case 1, 2:
			fault = "field"
		case 3:
			fault = "bitflip"
			wireBytes = flipBit(r, wireBytes)
			r.Fault("wire_bit_flip")
		case 4:
			fault = "duplicate"
			r.Fault("wire_duplicate")
		}
		recv := &pairingtypes.RelayRequest{}
		if err := recv.Unmarshal(wireBytes); err != nil || recv.RelaySession == nil {
			r.Op("request", "undecodable")
			r.Logf("request %d fault=%s: undecodable after corruption", i, fault)
			continue
		}
		kind := ""
		if fault == "field" {
			kind = w.mutateSession(recv.RelaySession)
			r.Fault("session_field_mutated:" + kind)
		}
		deliveries := 1
		if fault == "duplicate" {
			deliveries = 2
		}
		for d := 0; d < deliveries; d++ {
			before, _ := recv.Marshal()
			addr, xerr := sigs.ExtractSignerAddress(*recv.RelaySession)
			after, _ := recv.Marshal()
			r.Check(bytes.Equal(before, after), "verification-mutated-message", "ExtractSignerAddress", "ExtractSignerAddress changed the relay request it checked (marshalled bytes differ)")
			recovered := xerr == nil && addr.Equals(w.consumer.Addr)
			changed := canonSession(sess) != canonSession(recv.RelaySession)
			sigChanged := !bytes.Equal(sess.Sig, recv.RelaySession.Sig)
			r.Logf("request %d fault=%s %s: signed-fields-changed=%v sig-changed=%v recovered-consumer=%v", i, fault, kind, changed, sigChanged, recovered)
			if changed {
				if genuineFirst && !sigChanged {
					r.Probe("tampered_session_with_genuine_sig_after_genuine_verified")
				}
				r.Check(!recovered, "signer-recovered-despite-changed-field", kind+sfx, "a relay session whose signed field (%s, fault %s) changed in flight still recovers to the consumer's address (genuine copy verified before: %v)\n sent: %s\n recv: %s", kind, fault, genuineFirst, canonSession(sess), canonSession(recv.RelaySession))
				r.Op("request", "changed_rejected")
			} else if !sigChanged {
				r.Check(recovered, "signer-not-recovered-for-unchanged-session", kind+sfx, "a relay session whose signed fields and signature are unchanged (fault %s %s) does not recover to the consumer's address: %v", fault, kind, xerr)
				r.Op("request", "ok")
			}
		}
		if r.Violated() != nil {
			return
		}
		// ---- provider -> consumer: signed reply ----
		provReq := cloneRequest(sent) // the provider's own unmarshalled copy
		reply := &pairingtypes.RelayReply{Data: []byte(w.str("ops", 10)), LatestBlock: int64(r.Draw("ops", 2000))}
		for j, m := 0, r.Draw("ops", 3); j < m; j++ {
			reply.Metadata = append(reply.Metadata, pairingtypes.Metadata{Name: w.str("ops", 3), Value: w.str("ops", 3)})
		}
		signed, err := lavaprotocol.SignRelayResponse(w.consumer.Addr, *provReq, w.provider.SK, reply)
		if err != nil {
			r.Op("reply", "sign_failed")
			continue
		}
		rb, _ := signed.Marshal()
		if genuineFirst {
			// the consumer verifies the reply as the provider signed it, against its own request
			g := &pairingtypes.RelayReply{}
			if err := g.Unmarshal(rb); err != nil {
				panic(err)
			}
			gReq := cloneRequest(sent)
			lavaprotocol.UpdateRequestedBlock(gReq.RelayData, g)
			gerr := lavaprotocol.VerifyRelayReply(ctx, g, gReq, w.provider.Addr.String())
			r.Logf("reply %d genuine copy verified first: verify=%v", i, gerr == nil)
			r.Check(gerr == nil, "reply-not-verified-for-unchanged-content", "genuine-first", "the genuine reply (first verification under its signature in this run) does not verify against the genuine request: %v", gerr)
			r.Op("reply", "genuine_first_ok")
		}
		rfault := "none"
		consumerReq := cloneRequest(sent)
		switch r.Draw("fault", 8) {
		case 1:
			rfault = "bitflip"
			rb = flipBit(r, rb)
			r.Fault("wire_bit_flip")
		case 2:
			rfault = "reply_data"
		case 3:
			rfault = "reply_metadata"
		case 4:
			rfault = "request_field"
		case 5:
			rfault = "request_salt_only"
		case 6:
			rfault = "reply_unsigned_latest_block"
		}
		got := &pairingtypes.RelayReply{}
		if err := got.Unmarshal(rb); err != nil {
			r.Op("reply", "undecodable")
			continue
		}
		switch rfault {
		case "reply_data":
			got.Data = flipBit(r, got.Data)
			r.Fault("reply_data_mutated")
		case "reply_metadata":
			if len(got.Metadata) > 0 && r.Chance("fault", 1, 2) {
				got.Metadata[0].Value = mutStr(r, got.Metadata[0].Value)
			} else {
				got.Metadata = append(got.Metadata, pairingtypes.Metadata{Name: "x", Value: "y"})
			}
			r.Fault("reply_metadata_mutated")
		case "request_field":
			// the consumer checks the reply against a request that differs in one hashed field
			switch r.Draw("fault", 6) {
			case 0:
				consumerReq.RelayData.ApiUrl = mutStr(r, consumerReq.RelayData.ApiUrl)
			case 1:
				consumerReq.RelayData.Data = flipBit(r, consumerReq.RelayData.Data)
			case 2:
				consumerReq.RelayData.ApiInterface = mutStr(r, consumerReq.RelayData.ApiInterface)
			case 3:
				consumerReq.RelayData.SeenBlock += 1
			case 4:
				consumerReq.RelayData.Addon = mutStr(r, consumerReq.RelayData.Addon)
			default:
				consumerReq.RelayData.ConnectionType = mutStr(r, consumerReq.RelayData.ConnectionType)
			}
			r.Fault("request_data_differs")
		case "request_salt_only":
			consumerReq.RelayData.Salt = flipBit(r, consumerReq.RelayData.Salt)
			r.Fault("request_salt_differs")
		case "reply_unsigned_latest_block":
			// not covered by this signature (the statement names data, metadata and request data)
		}
		// as rpcconsumer_server does before verifying
		lavaprotocol.UpdateRequestedBlock(consumerReq.RelayData, got)
		provView := cloneRequest(sent)
		lavaprotocol.UpdateRequestedBlock(provView.RelayData, reply)
		reqBefore, _ := consumerReq.Marshal()
		repBefore, _ := got.Marshal()
		verr := lavaprotocol.VerifyRelayReply(ctx, got, consumerReq, w.provider.Addr.String())
		reqAfter, _ := consumerReq.Marshal()
		repAfter, _ := got.Marshal()
		r.Check(bytes.Equal(reqBefore, reqAfter), "verification-mutated-message", "VerifyRelayReply:request", "VerifyRelayReply changed the request it checked: before %x after %x", reqBefore, reqAfter)
		r.Check(bytes.Equal(repBefore, repAfter), "verification-mutated-message", "VerifyRelayReply:reply", "VerifyRelayReply changed the reply it checked")
		same := canonReply(signed) == canonReply(got) && canonPD(provView.RelayData, false) == canonPD(consumerReq.RelayData, false)
		rsig := bytes.Equal(signed.Sig, got.Sig)
		r.Logf("reply %d fault=%s: signed-content-same=%v sig-same=%v verify=%v", i, rfault, same, rsig, verr == nil)
		if !same {
			dk := c25ReplyDiffKind(signed, got, provView.RelayData, consumerReq.RelayData)
			if dk != "reply-metadata-entries-regrouped" { // (listed known finding of the signed layout: one signature in every kind of run)
				dk += sfx
			}
			if genuineFirst && rsig {
				r.Probe("tampered_reply_with_genuine_sig_after_genuine_verified")
			}
			r.Check(verr != nil, "reply-verified-despite-changed-content", dk, "a reply whose data/metadata/request data differ from what the provider signed (fault %s) still verifies\n  signed reply: %s\n  got reply:    %s\n  signed request data: %s\n  checked against:     %s", rfault, canonReply(signed), canonReply(got), canonPD(provView.RelayData, false), canonPD(consumerReq.RelayData, false))
			r.Op("reply", "changed_rejected")
		} else if rsig {
			r.Check(verr == nil, "reply-not-verified-for-unchanged-content", rfault+sfx, "a reply with unchanged data, metadata, request data (fault %s) and signature does not verify: %v", rfault, verr)
			r.Op("reply", "ok")
		}
	}
}

// c25ReplyDiffKind names which signed part differs (stable signature of the violation).
func c25ReplyDiffKind(signed, got *pairingtypes.RelayReply, signedPD, gotPD *pairingtypes.RelayPrivateData) string {
	switch {
	case !bytes.Equal(signed.Data, got.Data):
		return "reply-data"
	case canonReply(signed) != canonReply(got):
		// same data, different metadata list: is the concatenation of the entries' encodings equal?
		enc := func(r *pairingtypes.RelayReply) []byte {
			var b []byte
			for _, m := range r.Metadata {
				x, _ := m.Marshal()
				b = append(b, x...)
			}
			return b
		}
		if bytes.Equal(enc(signed), enc(got)) {
			return "reply-metadata-entries-regrouped"
		}
		return "reply-metadata"
	case canonPD(signedPD, false) != canonPD(gotPD, false):
		return "request-data"
	}
	return "other"
}

// ---------------------------------------------------------------------------------------------
// C26

func encU64(v int64) []byte {
	b := make([]byte, 8)
	binary.LittleEndian.PutUint64(b, uint64(v))
	return b
}

func decU64(b []byte) int64 { return int64(binary.LittleEndian.Uint64(b)) }

func clonePD(p *pairingtypes.RelayPrivateData) *pairingtypes.RelayPrivateData {
	b, _ := p.Marshal()
	out := &pairingtypes.RelayPrivateData{}
	out.Unmarshal(b)
	return out
}

// shiftBoundary moves n bytes across one boundary between two adjacent hashed fields.
func (w *wireWorld) shiftBoundary(p *pairingtypes.RelayPrivateData) (*pairingtypes.RelayPrivateData, string) {
	r := w.r
	v := clonePD(p)
	n := 1 + r.Draw("fault", 2)
	take := func(s string) (string, string, bool) { // head n bytes, rest
		if len(s) < n {
			return "", s, false
		}
		return s[:n], s[n:], true
	}
	kinds := []string{"md_name|md_value", "md_value|next_md_name", "metadata|extensions", "ext|ext", "extensions|addon", "addon|api_interface", "api_interface|connection_type", "connection_type|api_url", "api_url|data", "data|request_block|seen_block|salt", "ext_split", "md_split"}
	k := kinds[r.Draw("fault", len(kinds))]
	ok := false
	switch k {
	case "md_name|md_value":
		if len(v.Metadata) > 0 {
			var h string
			h, v.Metadata[0].Value, ok = take(v.Metadata[0].Value)
			v.Metadata[0].Name += h
		}
	case "md_value|next_md_name":
		if len(v.Metadata) > 1 {
			var h string
			h, v.Metadata[1].Name, ok = take(v.Metadata[1].Name)
			v.Metadata[0].Value += h
		}
	case "metadata|extensions":
		if len(v.Metadata) > 0 && len(v.Extensions) > 0 {
			var h string
			h, v.Extensions[0], ok = take(v.Extensions[0])
			v.Metadata[len(v.Metadata)-1].Value += h
		}
	case "ext|ext":
		if len(v.Extensions) > 1 {
			var h string
			h, v.Extensions[1], ok = take(v.Extensions[1])
			v.Extensions[0] += h
		}
	case "extensions|addon":
		if len(v.Extensions) > 0 {
			var h string
			h, v.Addon, ok = take(v.Addon)
			v.Extensions[len(v.Extensions)-1] += h
		}
	case "addon|api_interface":
		var h string
		h, v.ApiInterface, ok = take(v.ApiInterface)
		v.Addon += h
	case "api_interface|connection_type":
		var h string
		h, v.ConnectionType, ok = take(v.ConnectionType)
		v.ApiInterface += h
	case "connection_type|api_url":
		var h string
		h, v.ApiUrl, ok = take(v.ApiUrl)
		v.ConnectionType += h
	case "api_url|data":
		if len(v.Data) >= n {
			v.ApiUrl += string(v.Data[:n])
			v.Data = v.Data[n:]
			ok = true
		}
	case "data|request_block|seen_block|salt":
		if len(v.Salt) >= 1 {
			rb, sbk := encU64(v.RequestBlock), encU64(v.SeenBlock)
			v.Data = append(append([]byte(nil), v.Data...), rb[0])
			v.RequestBlock = decU64(append(append([]byte(nil), rb[1:]...), sbk[0]))
			v.SeenBlock = decU64(append(append([]byte(nil), sbk[1:]...), v.Salt[0]))
			v.Salt = v.Salt[1:]
			ok = true
		}
	case "ext_split":
		if len(v.Extensions) > 0 && len(v.Extensions[0]) >= 2 {
			e := v.Extensions[0]
			v.Extensions = append([]string{e[:1], e[1:]}, v.Extensions[1:]...)
			ok = true
		}
	case "md_split":
		if len(v.Metadata) > 0 && len(v.Metadata[0].Value) >= 2 {
			m := v.Metadata[0]
			v.Metadata = append([]pairingtypes.Metadata{{Name: m.Name, Value: m.Value[:1]}, {Name: m.Value[1:], Value: ""}}, v.Metadata[1:]...)
			ok = true
		}
	}
	if !ok {
		return nil, k
	}
	return v, k
}

func (w *wireWorld) mutatePDField(p *pairingtypes.RelayPrivateData) (*pairingtypes.RelayPrivateData, string) {
	r := w.r
	v := clonePD(p)
	kinds := []string{"data", "api_url", "connection_type", "api_interface", "addon", "extensions", "metadata", "request_block", "seen_block", "salt"}
	k := kinds[r.Draw("fault", len(kinds))]
	switch k {
	case "data":
		v.Data = flipBit(r, v.Data)
	case "api_url":
		v.ApiUrl = mutStr(r, v.ApiUrl)
	case "connection_type":
		v.ConnectionType = mutStr(r, v.ConnectionType)
	case "api_interface":
		v.ApiInterface = mutStr(r, v.ApiInterface)
	case "addon":
		v.Addon = mutStr(r, v.Addon)
	case "extensions":
		if len(v.Extensions) > 0 && r.Chance("fault", 1, 2) {
			v.Extensions[0] = mutStr(r, v.Extensions[0])
		} else {
			v.Extensions = append(v.Extensions, "x")
		}
	case "metadata":
		if len(v.Metadata) > 0 && r.Chance("fault", 1, 2) {
			v.Metadata[0].Name = mutStr(r, v.Metadata[0].Name)
		} else {
			v.Metadata = append(v.Metadata, pairingtypes.Metadata{Name: "n", Value: "v"})
		}
	case "request_block":
		v.RequestBlock += int64(1 + r.Draw("fault", 3))
	case "seen_block":
		v.SeenBlock -= int64(1 + r.Draw("fault", 3))
	case "salt":
		v.Salt = flipBit(r, v.Salt)
	}
	return v, k
}

func runC26(r *simrt.Run) {
	w := newWireWorld(r)
	n := 10 + r.Draw("cfg", 20)
	for i := 0; i < n; i++ {
		r.Step()
		pd := w.genPrivateData()
		sess := w.genSession(pd) // the consumer signs the hash of pd
		var variant *pairingtypes.RelayPrivateData
		var kind, how string
		if r.Chance("fault", 1, 2) {
			variant, kind = w.shiftBoundary(pd)
			how = "boundary-shift"
			if variant != nil {
				r.Fault("boundary_shift:" + kind)
			}
		} else {
			variant, kind = w.mutatePDField(pd)
			how = "field"
			r.Fault("field_changed:" + kind)
		}
		if variant == nil {
			r.Op("pair", "shift_not_applicable")
			continue
		}
		// the request travels with the variant private data and the original signed session
		req := &pairingtypes.RelayRequest{RelaySession: sess, RelayData: variant}
		recv := cloneRequest(req)
		differ := canonPD(pd, true) != canonPD(recv.RelayData, true)
		h1 := sigs.HashMsg(pd.GetContentHashData())
		h2 := sigs.HashMsg(recv.RelayData.GetContentHashData())
		accepted := bytes.Equal(recv.RelaySession.ContentHash, h2) // the provider's check (verifyRelayRequestMetaData)
		r.Logf("pair %d %s %s: fields-differ=%v same-hash=%v accepted-with-signed-session=%v", i, how, kind, differ, bytes.Equal(h1, h2), accepted)
		if !differ {
			r.Op("pair", "identical")
			continue
		}
		r.OracleEvals++
		if bytes.Equal(h1, h2) || accepted {
			sig := "field:" + kind
			if how == "boundary-shift" {
				sig = "adjacent-fields-concatenated-without-delimiter"
			}
			if !r.Fail("content-hash-collision", sig, "two relay requests that differ in hashed fields (%s %s) have the same content hash, so the consumer-signed session authorises both:\n  A: %s\n  B: %s", how, kind, canonPD(pd, true), canonPD(recv.RelayData, true)) {
				return
			}
			r.Op("pair", "known_collision")
			continue
		}
		r.Op("pair", "ok")
	}
}

func init() {
	real := []string{"utils/sigs (Sign, RecoverPubKey, ExtractSignerAddress, HashMsg)", "x/pairing/types RelaySession/RelayExchange.DataToSign, RelayPrivateData.GetContentHashData", "protocol/lavaprotocol NewRelayData, SignRelayResponse, VerifyRelayReply, UpdateRequestedBlock", "gogoproto marshal/unmarshal as the wire"}
	stub := []string{"transport (in-memory, corrupting)", "consumer session / QoS managers (session fields drawn from the tape)", "provider's other request checks (only the content-hash comparison of verifyRelayRequestMetaData is reproduced)"}
	simrt.Register("C25", &simrt.PropSpec{Fn: runC25,
		NonTrivial: func(r *simrt.Run) bool {
			return r.Ops["request:ok"] >= 1 && r.Ops["reply:ok"] >= 1 && r.FaultsFired() >= 2
		},
		Rule: "a consumer builds and signs relay sessions (real builders, fields from the tape), a provider signs replies; every message crosses a corrupting transport (marshal -> fault -> unmarshal): single-field mutation of each signed and unsigned field, bit flips in the wire bytes, duplication, replies checked against requests differing in one field or only in the salt. Verification order is a per-run knob: in half of the runs the receiver first verifies the genuine object (request at the provider, reply at the consumer) and only then what the transport delivers, so that a tampered copy carrying the genuine signature meets a verifier that has already accepted the genuine one; in the other half the delivered (possibly tampered) object is the only thing verified under its signature. The simulation dimension is thin (two parties + corrupting transport); field values are ordinary generated inputs. Non-trivial = at least one clean request and reply verified and >=2 faults fired; distinct = (op,outcome,fault) sequence hash",
		Real: real, Stubbed: stub,
		Assume: []string{"'signed fields' are the ones the statement lists; the canonical comparison is length-prefixed per field", "the consumer applies UpdateRequestedBlock before verifying, as rpcconsumer_server.go does", "worker processes execute many runs (and shrink re-executions of one run): state the code under test keeps per process is shared between them; in genuine-first runs the first verification under every signature is the genuine one in every execution, which makes their verdicts independent of that history (their violation signatures carry the suffix :after-genuine-verified)"}})
	simrt.Register("C26", &simrt.PropSpec{Fn: runC26,
		NonTrivial: func(r *simrt.Run) bool { return r.Ops["pair:ok"]+r.Ops["pair:known_collision"] >= 5 },
		Rule:       "pairs of relay private data that differ in one hashed field, or by moving 1-2 bytes across the boundary of two adjacent hashed fields (metadata name/value, metadata/extensions, extension/extension, extensions/addon, addon/api interface, api interface/connection type, connection type/url, url/data, data..salt through the fixed-width block fields, splitting one extension or metadata entry in two); the variant travels with the session signed for the original and the provider's content-hash check decides. Thin simulation dimension (replay of a signed session with different private data over the transport); the pairs are ordinary generated inputs. Non-trivial = >=5 differing pairs compared; distinct = (op,outcome,fault) sequence hash",
		Real:       real, Stubbed: stub,
		Assume: []string{"hashed fields are those the statement lists"}})
}
