package chainsim

// C18 "badge usage never exceeds the badge allocation; a badge is honoured only for its own user
// address, epoch and lava chain, and only while its usage record has not expired".
// Built on the relay toolkit of props_c03.go.

import (
	"fmt"

	sdk "github.com/cosmos/cosmos-sdk/types"
	"github.com/lavanet/lava/v5/utils/sigs"
	pairingtypes "github.com/lavanet/lava/v5/x/pairing/types"
	"github.com/lavanet/lava/v5/zz_verif/simrt"
)

// c18Badge is a badge as a developer issued it (B), plus the harness ledger for it.
type c18Badge struct {
	B     *pairingtypes.Badge
	Dev   *Account // developer key that signed it
	User  *Account // badge user it was made out to
	Cons  *ConsumerActor
	Spec  string
	Alloc uint64 // allocation the developer signed
	// per provider address
	credited map[string]uint64 // CU credited through the badge (harness ledger, acknowledged txs)
	signed   map[string]uint64 // signed CU accepted through the badge
	seenRec  map[string]bool   // a BadgeUsedCu record was observed for (badge, provider)
	Forged   string            // "" = genuine
}

type c18Pre struct {
	found  bool
	used   uint64
	expiry uint64
	gone   bool // the record was seen earlier and no longer exists
}

type c18State struct {
	k     *c03Kit
	bySig map[string]*c18Badge
	pre   map[*c03RelInfo]*c18Pre
	users map[string]bool // addresses of badge users (never developers)
	// oracles=false: only the ledgers are kept (C03 mixes badge relays into its workload without
	// evaluating C18's oracles)
	oracles bool
}

func (st *c18State) preHook(tx *c03TxInfo, q sdk.Context) {
	s := st.k.s
	for _, ri := range tx.Rels {
		b := ri.ViaBadge
		if b == nil {
			continue
		}
		p := &c18Pre{}
		rec, found := s.K.Pairing.GetBadgeUsedCu(q, pairingtypes.BadgeUsedCuKey(append([]byte(nil), b.ProjectSig...), ri.P.Rel.Provider))
		p.found, p.used = found, rec.UsedCu
		p.expiry = st.expiryOf(q, b)
		if cb := st.bySig[string(b.ProjectSig)]; cb != nil && cb.seenRec[ri.P.Rel.Provider] && !found {
			p.gone = true
		}
		st.pre[ri] = p
		if !found && p.expiry <= tx.Height {
			s.R.Fault("c18_use_after_record_expiry")
		}
		if cb := st.bySig[string(b.ProjectSig)]; cb != nil && cb.signed[ri.P.Rel.Provider]+ri.P.Rel.CuSum > cb.Alloc {
			s.R.Fault("c18_overuse_attempt")
		}
	}
}

// expiryOf reads Pairing.BadgeUsedCuExpiry. For a badge epoch whose fixated params are only
// partly available the keeper panics (epochstorage BlocksToSave dereferences a nil error); inside
// a transaction that panic rejects the tx, so here it counts as "already expired".
func (st *c18State) expiryOf(q sdk.Context, b *pairingtypes.Badge) (expiry uint64) {
	defer func() {
		if p := recover(); p != nil {
			if simrt.IsSimPanic(p) {
				panic(p)
			}
			st.k.s.R.Probe("c18_expiry_query_panicked")
			expiry = 0
		}
	}()
	return st.k.s.K.Pairing.BadgeUsedCuExpiry(q, *b)
}

func (st *c18State) postHook(tx *c03TxInfo) {
	k := st.k
	s, r := k.s, k.s.R
	defer func() {
		for _, ri := range tx.Rels {
			delete(st.pre, ri)
		}
	}()
	chainID := s.Ctx.BlockHeader().ChainID
	chk := func(ok bool, class, sig, format string, a ...interface{}) {
		if st.oracles {
			r.Check(ok, class, sig, format, a...)
		}
	}
	if !tx.OK {
		for _, ri := range tx.Rels {
			if ri.P.MustReject != "" && ri.P.Badge != nil {
				r.Probe("c18_rejected_kind:" + c03KindClass(ri.P.Kind))
			}
			if p := st.pre[ri]; p != nil && !p.found && p.expiry <= tx.Height {
				r.Probe("c18_rejected_after_expiry")
			}
		}
		return
	}
	// credit per relay: growth of tracked CU when the relay is the only one feeding its counter,
	// otherwise the pre-QoS credit from the payment event (an upper bound of the credit)
	feeds := map[string][]*c03RelInfo{}
	for _, ri := range tx.Rels {
		if ri.SubFound && ri.EpochOK && ri.ProjOK {
			name := fmt.Sprintf("TrackedCu|%s|%s|%s|%d", s.NameOf(ri.Consumer), s.NameOf(ri.P.Rel.Provider), ri.P.Rel.SpecId, ri.SubBlock)
			feeds[name] = append(feeds[name], ri)
		}
	}
	credit := map[*c03RelInfo]uint64{}
	for _, ri := range tx.Rels {
		credit[ri] = ri.Rewarded
	}
	for _, c := range tx.Counters {
		if fs := feeds[c.name]; len(fs) == 1 && c.post >= c.pre {
			credit[fs[0]] = c.post - c.pre
		}
	}
	for _, ri := range tx.Rels {
		if st.oracles && credit[ri] > ri.P.Rel.CuSum {
			// credit above the signed CU is C04's subject (known finding there); the badge ledger of
			// this run would only repeat it
			r.Probe("c18_credit_above_signed_cu_is_C04")
			r.Abort()
		}
	}
	for _, ri := range tx.Rels {
		rel := ri.P.Rel
		// forged variants built by the harness must never be honoured
		chk(ri.P.MustReject == "" || ri.P.Badge == nil, "c18-forged-badge-honoured", c03KindClass(ri.P.Kind),
			"relay #%d (session=%d epoch=%d signer=%s) was paid at height %d although: %s", ri.Idx, rel.SessionId, rel.Epoch, s.NameOf(ri.SignerAddr), tx.Height, ri.P.MustReject)
		if st.users[ri.SignerAddr] {
			// signed by a badge user: can only have been paid through a badge of this tx that is made
			// out to this very address, for this very epoch and for this lava chain
			b := ri.ViaBadge
			chk(b != nil, "c18-foreign-badge-honoured", "address_or_epoch",
				"relay #%d signed by badge user %s for epoch %d was paid although the tx carries no badge for that address and epoch", ri.Idx, s.NameOf(ri.SignerAddr), rel.Epoch)
			if b == nil {
				continue
			}
			chk(b.LavaChainId == chainID && rel.LavaChainId == chainID, "c18-foreign-badge-honoured", "lava_chain",
				"relay #%d paid through a badge for lava chain %q (relay %q) on chain %q", ri.Idx, b.LavaChainId, rel.LavaChainId, chainID)
		}
		b := ri.ViaBadge
		if b == nil {
			continue
		}
		r.Probe("c18_badge_relay_paid")
		p := st.pre[ri]
		if p != nil {
			// honoured only while its usage record has not expired
			chk(!p.gone, "c18-expired-badge-honoured", "record_removed",
				"badge (alloc=%d epoch=%d user=%s) was honoured for provider %s at height %d after its BadgeUsedCu record had existed and was removed (expiry per BadgeUsedCuExpiry=%d)", b.CuAllocation, b.Epoch, s.NameOf(b.Address), s.NameOf(rel.Provider), tx.Height, p.expiry)
			chk(p.found || p.expiry > tx.Height, "c18-expired-badge-honoured", "expiry_block_passed",
				"badge (alloc=%d epoch=%d) was honoured for provider %s at height %d with no usage record although BadgeUsedCuExpiry=%d", b.CuAllocation, b.Epoch, s.NameOf(rel.Provider), tx.Height, p.expiry)
		}
		cb := st.bySig[string(b.ProjectSig)]
		alloc := b.CuAllocation
		if cb == nil {
			// a badge the harness did not register (cannot happen); account under its own terms
			cb = &c18Badge{B: b, Alloc: alloc, credited: map[string]uint64{}, signed: map[string]uint64{}, seenRec: map[string]bool{}}
			st.bySig[string(b.ProjectSig)] = cb
		}
		alloc = cb.Alloc
		cb.credited[rel.Provider] += credit[ri]
		cb.signed[rel.Provider] += rel.CuSum
		cb.seenRec[rel.Provider] = true
		chk(cb.credited[rel.Provider] <= alloc, "c18-badge-overuse", "credited_gt_allocation",
			"badge of %s for user %s epoch %d allocation %d: %d CU credited to provider %s through it so far (this relay: %d of signed %d)", s.NameOf(ri.Client), s.NameOf(b.Address), b.Epoch, alloc, cb.credited[rel.Provider], s.NameOf(rel.Provider), credit[ri], rel.CuSum)
		if cb.signed[rel.Provider] == alloc {
			r.Probe("c18_allocation_used_exactly")
		}
		if len(cb.credited) > 1 {
			r.Probe("c18_badge_used_with_several_providers")
		}
		if rel.Epoch < int64(s.EpochStart()) {
			r.Probe("c18_badge_relay_paid_in_later_epoch")
		}
	}
}

// ---------- building badges ----------

func (st *c18State) issue(dev *Account, user *Account, c *ConsumerActor, spec string, epoch uint64, alloc uint64, lavaChain string) *c18Badge {
	b := &pairingtypes.Badge{CuAllocation: alloc, Epoch: epoch, Address: user.Addr, LavaChainId: lavaChain}
	sig, err := sigs.Sign(dev.SK, *b)
	if err != nil {
		panic(err)
	}
	b.ProjectSig = sig
	cb := &c18Badge{B: b, Dev: dev, User: user, Cons: c, Spec: spec, Alloc: alloc, credited: map[string]uint64{}, signed: map[string]uint64{}, seenRec: map[string]bool{}}
	if old := st.bySig[string(sig)]; old != nil {
		return old
	}
	st.bySig[string(sig)] = cb
	return cb
}

// badgeRelay builds a relay signed by the badge user with the badge attached (or not).
func (st *c18State) badgeRelay(cb *c18Badge, signer *Account, attach *pairingtypes.Badge, p *ProviderActor, epoch int64, cu uint64, kind string) *c03Proof {
	k := st.k
	rel := &pairingtypes.RelaySession{Provider: p.Acc.Addr, ContentHash: []byte("apiname"), SessionId: k.nextSession(), SpecId: cb.Spec, CuSum: cu, Epoch: epoch, RelayNum: 1, LavaChainId: LavaChainID}
	sig, err := sigs.Sign(signer.SK, *rel)
	if err != nil {
		panic(err)
	}
	rel.Sig = sig
	rel.Badge = attach
	return &c03Proof{Rel: rel, Prov: p, Signer: signer, Cons: cb.Cons, Honest: true, Built: k.s.Height(), Kind: kind, Badge: cb}
}

func (st *c18State) drawCuFor(cb *c18Badge, prov string) uint64 {
	r := st.k.s.R
	left := uint64(0)
	if cb.Alloc > cb.signed[prov] {
		left = cb.Alloc - cb.signed[prov]
	}
	switch r.Draw("ops", 7) {
	case 0:
		return left + 1
	case 1:
		if left > 0 {
			return left
		}
		return 1
	case 2:
		return left/2 + 1
	case 3:
		return cb.Alloc + 1
	case 4:
		return left + uint64(1+r.Draw("ops", 50))
	default:
		return 1 + uint64(r.Draw("ops", int(cb.Alloc/3+1)))
	}
}

var c18States = map[*c03Kit]*c18State{}

// opC18Badge: developers issue badges; badge users' relays are claimed by providers.
func (s *Sim) opC18Badge() {
	k := c03KitOf(s)
	st := c18States[k]
	r := s.R
	mode := r.Draw("ops", 12)
	if len(k.badges) == 0 && mode >= 3 && mode <= 8 {
		mode = 0
	}
	switch {
	case mode <= 2: // a new badge and its first relay
		c, dev, spec, p, ok := k.payable()
		if !ok {
			r.Probe("c18_no_pairing_now")
		}
		user := k.badgeUsers[r.Draw("ops", len(k.badgeUsers))]
		alloc := uint64(1 + r.Draw("ops", 3000))
		if r.Chance("ops", 1, 4) {
			alloc = uint64(1 + r.Draw("ops", 30))
		}
		cb := st.issue(dev, user, c, spec, s.EpochStart(), alloc, LavaChainID)
		k.badges = append(k.badges, cb)
		if len(k.badges) > 24 {
			k.badges = k.badges[1:]
		}
		pr := st.badgeRelay(cb, user, cb.B, p, int64(cb.B.Epoch), st.drawCuFor(cb, p.Acc.Addr), "badge_first")
		k.remember(pr)
		k.send("relay_badge", p, []*c03Proof{pr})
	case mode <= 5: // more sessions through an existing badge, same provider as before if any
		cb := k.badges[r.Draw("ops", len(k.badges))]
		p := st.providerOf(cb, true)
		pr := st.badgeRelay(cb, cb.User, cb.B, p, int64(cb.B.Epoch), st.drawCuFor(cb, p.Acc.Addr), "badge_again")
		k.remember(pr)
		k.send("relay_badge", p, []*c03Proof{pr})
	case mode == 6: // the same badge with another provider
		cb := k.badges[r.Draw("ops", len(k.badges))]
		p := st.providerOf(cb, false)
		pr := st.badgeRelay(cb, cb.User, cb.B, p, int64(cb.B.Epoch), st.drawCuFor(cb, p.Acc.Addr), "badge_other_provider")
		k.remember(pr)
		k.send("relay_badge", p, []*c03Proof{pr})
	case mode <= 8: // several badge relays (badge attached once or to each) and plain relays in one tx
		cb := k.badges[r.Draw("ops", len(k.badges))]
		p := st.providerOf(cb, true)
		n := 2 + r.Draw("ops", 2)
		each := r.Chance("ops", 1, 2)
		var batch []*c03Proof
		for i := 0; i < n; i++ {
			var att *pairingtypes.Badge
			if each || i == 0 {
				att = cb.B
			}
			cu := st.drawCuFor(cb, p.Acc.Addr)
			if i > 0 {
				cu = 1 + cu/uint64(n)
			}
			batch = append(batch, st.badgeRelay(cb, cb.User, att, p, int64(cb.B.Epoch), cu, "badge_batch"))
		}
		if r.Chance("ops", 1, 2) {
			c := s.pickCons()
			plain := k.build(c, s.signerFor(c), p, s.pickSpec().Index, int64(s.EpochStart()), k.nextSession(), k.drawCu(), "plain_next_to_badge")
			if r.Chance("ops", 1, 2) {
				batch = append([]*c03Proof{plain}, batch...)
			} else {
				batch = append(batch, plain)
			}
			r.Probe("c18_mixed_with_plain")
		}
		for _, pr := range batch {
			k.remember(pr)
		}
		k.send("relay_badge_batch", p, batch)
	default: // forged variants
		c, dev, spec, p, ok := k.payable()
		if !ok {
			r.Probe("c18_no_pairing_now")
		}
		u1 := k.badgeUsers[r.Draw("ops", len(k.badgeUsers))]
		u2 := k.badgeUsers[(r.Draw("ops", len(k.badgeUsers)-1)+1+c18IndexOfAcc(k.badgeUsers, u1))%len(k.badgeUsers)]
		alloc := uint64(50 + r.Draw("ops", 3000))
		epoch := s.EpochStart()
		cu := uint64(1 + r.Draw("ops", 40))
		var pr *c03Proof
		switch r.Draw("ops", 7) {
		case 0: // badge made out to another address
			cb := st.issue(dev, u1, c, spec, epoch, alloc, LavaChainID)
			pr = st.badgeRelay(cb, u2, cb.B, p, int64(epoch), cu, "forged:other_user")
			pr.MustReject = "the relay is signed by an address the badge was not issued to"
		case 1: // badge of another epoch
			if len(k.epochs) < 2 {
				return
			}
			other := k.epochs[len(k.epochs)-2]
			cb := st.issue(dev, u1, c, spec, other, alloc, LavaChainID)
			pr = st.badgeRelay(cb, u1, cb.B, p, int64(epoch), cu, "forged:other_epoch")
			pr.MustReject = "the badge was issued for another epoch than the relay's"
		case 2: // badge for another lava chain
			cb := st.issue(dev, u1, c, spec, epoch, alloc, "lava-other")
			pr = st.badgeRelay(cb, u1, cb.B, p, int64(epoch), cu, "forged:other_lava_chain")
			pr.MustReject = "the badge was issued for another lava chain"
		case 3: // badge signed by a key that is not a developer
			cb := st.issue(k.strangers[0], u1, c, spec, epoch, alloc, LavaChainID)
			pr = st.badgeRelay(cb, u1, cb.B, p, int64(epoch), cu, "forged:signed_by_non_developer")
			pr.MustReject = "the badge is not signed by a developer key"
		case 4: // allocation raised after the developer signed
			cb := st.issue(dev, u1, c, spec, epoch, uint64(1+r.Draw("ops", 20)), LavaChainID)
			fb := *cb.B
			fb.CuAllocation = cb.Alloc + 100000
			pr = st.badgeRelay(cb, u1, &fb, p, int64(epoch), cb.Alloc+1+uint64(r.Draw("ops", 50)), "forged:allocation_raised")
			pr.MustReject = "the badge allocation was changed after signing"
		case 5: // address replaced after the developer signed
			cb := st.issue(dev, u1, c, spec, epoch, alloc, LavaChainID)
			fb := *cb.B
			fb.Address = u2.Addr
			pr = st.badgeRelay(cb, u2, &fb, p, int64(epoch), cu, "forged:address_replaced")
			pr.MustReject = "the badge address was changed after signing"
		default: // epoch replaced after the developer signed (a stale badge moved to the current epoch)
			if len(k.epochs) < 2 {
				return
			}
			cb := st.issue(dev, u1, c, spec, k.epochs[len(k.epochs)-2], alloc, LavaChainID)
			fb := *cb.B
			fb.Epoch = epoch
			pr = st.badgeRelay(cb, u1, &fb, p, int64(epoch), cu, "forged:epoch_replaced")
			pr.MustReject = "the badge epoch was changed after signing"
		}
		r.Fault("c18_" + c03KindClass(pr.Kind))
		k.send("relay_badge_forged", p, []*c03Proof{pr})
	}
}

func c18IndexOfAcc(l []*Account, a *Account) int {
	for i, x := range l {
		if x == a {
			return i
		}
	}
	return 0
}

// providerOf picks a provider for the badge: one already used with it (same=true) or another one
// from the developer's pairing (valid only when the badge epoch is the current one; otherwise any).
func (st *c18State) providerOf(cb *c18Badge, same bool) *ProviderActor {
	s := st.k.s
	var used []*ProviderActor
	for _, p := range s.Providers {
		if _, ok := cb.signed[p.Acc.Addr]; ok {
			used = append(used, p)
		}
	}
	if same && len(used) > 0 {
		return used[s.R.Draw("ops", len(used))]
	}
	var cand []*ProviderActor
	if cb.B.Epoch == s.EpochStart() && cb.Dev != nil {
		for _, p := range s.pairedProvidersFor(cb.Dev, cb.Spec) {
			if _, ok := cb.signed[p.Acc.Addr]; !ok || same {
				cand = append(cand, p)
			}
		}
	}
	if len(cand) > 0 {
		return cand[s.R.Draw("ops", len(cand))]
	}
	return s.pickProv()
}

// c18Attach gives the run badge users, badges and the c18badge operation; the C18 oracles are
// evaluated only when oracles is true.
func c18Attach(k *c03Kit, oracles bool) *c18State {
	st := &c18State{k: k, bySig: map[string]*c18Badge{}, pre: map[*c03RelInfo]*c18Pre{}, users: map[string]bool{}, oracles: oracles}
	for _, u := range k.badgeUsers {
		st.users[u.Addr] = true
	}
	for old := range c18States {
		delete(c18States, old)
	}
	c18States[k] = st
	k.preHooks = append(k.preHooks, st.preHook)
	k.postHooks = append(k.postHooks, st.postHook)
	return st
}

// ---------- the property ----------

func runC18(r *simrt.Run) {
	w := baseWeights()
	w["relay"] = 0
	w["c03relay"] = 10
	w["c03epochs"] = 4
	w["c03params"] = 2
	w["c18badge"] = 45
	cfg := mkCfg(r, w, 80, 400)
	if cfg.Weights["c18badge"] < 20 {
		cfg.Weights["c18badge"] = 20
	}
	s := NewSim(r, cfg)
	k := c03NewKit(s)
	defer delete(c03Kits, s)
	st := c18Attach(k, true)
	defer delete(c18States, k)
	k.checkC03 = false
	_ = st
	s.RunHistory()
}

func c18NonTrivial(r *simrt.Run) bool {
	return r.Probes["c18_badge_relay_paid"] >= 2 && r.Ops["relay_badge:rejected"]+r.Ops["relay_badge_batch:rejected"]+r.Ops["relay_badge_forged:rejected"] >= 1 && r.OKOps() >= 10
}

func init() {
	AddOp("c18badge", (*Sim).opC18Badge)
	simrt.Register("C18", &simrt.PropSpec{Fn: runC18, NonTrivial: c18NonTrivial,
		Rule: "mixed multi-actor histories in which developers issue real badges (types.Badge signed with the developer key; relays signed by the badge user's key) with random CU allocations; providers claim badge relays: first use, further sessions with CU around the remaining allocation (exact fit, +1, above the whole allocation), other providers, several badge relays per tx (badge attached once or to each) mixed with plain relays, claims in later blocks/epochs and after the usage record's expiry block (multi-epoch progress, EpochsToSave/EpochBlocks governance changes); forged variants: badge for another address / epoch / lava chain, signed by a non-developer, allocation / address / epoch replaced after signing. Oracles: per (badge signature, provider) the CU credited (growth of tracked CU, or the payment event's rewardedCU when several relays share a counter) never exceeds the signed allocation; a relay signed by a badge user is paid only through a badge of that tx for that address, epoch and this lava chain; no forged variant is paid; once a BadgeUsedCu record was observed and is gone, or BadgeUsedCuExpiry has passed without a record, the badge is not honoured. Non-trivial = >=2 paid badge relays, >=1 rejected badge relay, >=10 accepted ops",
		Real: chainReal, Stubbed: chainStub, Assume: append([]string{"badge users are keys that are never registered as developers of any project"}, chainAssume...)})
}
