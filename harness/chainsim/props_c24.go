package chainsim

import (
	"fmt"
	"sort"
	"time"

	"cosmossdk.io/math"
	sdk "github.com/cosmos/cosmos-sdk/types"
	stakingtypes "github.com/cosmos/cosmos-sdk/x/staking/types"
	pairingtypes "github.com/lavanet/lava/v5/x/pairing/types"
	subscriptiontypes "github.com/lavanet/lava/v5/x/subscription/types"
	"github.com/lavanet/lava/v5/zz_verif/simrt"
)

// ---------- C24: reputation pairing scores are bounded and order-preserving ----------
//
// No reference model: all three clauses are evaluated on the chain's own stored reputations and
// pairing scores right after every BeginBlock that ran epoch-start processing.

type c24State struct {
	s *Sim
	// validity and last-update time of every stored reputation as of the end of the previous block
	prevValid map[string]bool
	prevTime  map[string]int64
	adversary bool // this run also signs reports the consumer SDK would never produce (availability > 1)
}

var c24Cur *c24State

func c24Key(e pairingtypes.ReputationGenesis) string {
	return e.ChainId + " " + e.Cluster + " " + e.Provider
}

// remember refreshes the "before" picture (called after every transaction and non-epoch block).
func (st *c24State) remember() {
	st.prevValid = map[string]bool{}
	st.prevTime = map[string]int64{}
	for _, e := range st.s.K.Pairing.GetAllReputation(st.s.Ctx) {
		st.prevValid[c24Key(e)] = e.Reputation.Validate()
		st.prevTime[c24Key(e)] = e.Reputation.TimeLastUpdated
	}
}

type c24Upd struct {
	provider string
	qos      math.LegacyDec
	pairing  math.LegacyDec
}

func (st *c24State) afterBlock(w *World) {
	r := w.R
	k := w.K.Pairing
	h := w.Height()
	if w.K.Epochstorage.GetEpochStart(w.Ctx) != h {
		st.remember()
		return
	}
	now := w.Ctx.BlockTime().UTC().Unix()
	all := k.GetAllReputation(w.Ctx)
	groups := map[string][]c24Upd{}
	var gkeys []string
	blocked := false
	for _, e := range all {
		key := c24Key(e)
		name := e.ChainId + "/" + e.Cluster + "/" + w.NameOf(e.Provider)
		valid := e.Reputation.Validate()
		wasValid, existed := st.prevValid[key]
		// (3) the epoch-start update (time decay + epoch score) never turns a valid reputation invalid
		if existed && wasValid {
			r.Check(valid, "c24-decay-invalidated-reputation", "", "epoch start %d: reputation %s was valid before the block and is invalid after the update: %s", h, name, e.Reputation.String())
		} else if existed && !wasValid {
			r.Probe("c24_invalid_epoch_score_stored")
		}
		updated := e.Reputation.TimeLastUpdated == now && existed
		if !e.Reputation.EpochScore.Equal(pairingtypes.ZeroQosScore) {
			blocked = true // a report was aggregated but the epoch-start update did not consume it
		}
		if updated {
			r.Probe("c24_reputation_updated")
			if gap := now - st.prevTime[key]; gap > 2*24*3600 {
				r.Probe("c24_decay_gap_over_2d")
				if gap > 6*24*3600 {
					r.Probe("c24_decay_gap_over_6d")
				}
			}
			if now-e.Reputation.CreationTime > 60*24*3600 {
				r.Probe("c24_reputation_older_than_60d")
			}
		}
		// (1) bounds of the pairing score, whenever one is stored
		ps, found := k.GetReputationScore(w.Ctx, e.ChainId, e.Cluster, e.Provider)
		if found {
			inRange := !ps.IsNil() && ps.GTE(pairingtypes.MinReputationPairingScore) && ps.LTE(pairingtypes.MaxReputationPairingScore)
			r.Check(inRange, "c24-pairing-score-out-of-bounds", "", "epoch start %d: pairing score of %s is %s, outside [%s, %s]", h, name, ps, pairingtypes.MinReputationPairingScore, pairingtypes.MaxReputationPairingScore)
			switch {
			case ps.Equal(pairingtypes.MaxReputationPairingScore):
				r.Probe("c24_score_at_max")
			case ps.Equal(pairingtypes.MinReputationPairingScore):
				r.Probe("c24_score_at_min")
			default:
				r.Probe("c24_score_between")
			}
		}
		if !updated || !found {
			continue
		}
		_, entryBlock, f2 := k.GetReputationScoreForBlock(w.Ctx, e.ChainId, e.Cluster, e.Provider, h)
		if !f2 || entryBlock != h {
			r.Probe("c24_updated_without_new_pairing_score")
			continue
		}
		qos, err := e.Reputation.Score.Score.Resolve()
		if err != nil {
			continue
		}
		g := e.ChainId + " " + e.Cluster
		if _, ok := groups[g]; !ok {
			gkeys = append(gkeys, g)
		}
		groups[g] = append(groups[g], c24Upd{e.Provider, qos, ps})
	}
	if blocked {
		r.Probe("c24_epoch_update_blocked")
	}
	// (2) order preservation inside one (chain, cluster) updated at this epoch start
	sort.Strings(gkeys)
	for _, g := range gkeys {
		us := groups[g]
		if len(us) >= 2 {
			r.Probe("c24_group_of_2plus")
		}
		if len(us) >= 3 {
			r.Probe("c24_group_of_3plus")
		}
		distinct := map[string]bool{}
		for i := range us {
			distinct[us[i].pairing.String()] = true
			for j := range us {
				if us[i].qos.LT(us[j].qos) {
					r.Check(us[i].pairing.GTE(us[j].pairing), "c24-order-not-preserved", "", "epoch start %d group %q: %s has the better QoS score (%s < %s) but the lower pairing score (%s < %s) than %s", h, g, w.NameOf(us[i].provider), us[i].qos, us[j].qos, us[i].pairing, us[j].pairing, w.NameOf(us[j].provider))
				}
			}
		}
		if len(distinct) >= 2 {
			r.Probe("c24_group_with_distinct_pairing_scores")
		}
		if len(distinct) >= 3 {
			r.Probe("c24_group_with_3_distinct_pairing_scores")
		}
	}
	if len(all) > 0 {
		r.Logf("   c24 epoch %d: %d reputations, %d groups updated %v", h, len(all), len(gkeys), c24Summary(groups, gkeys))
	}
	st.remember()
}

func c24Summary(groups map[string][]c24Upd, gkeys []string) string {
	out := ""
	for _, g := range gkeys {
		out += "[" + g + ":"
		for _, u := range groups[g] {
			out += " " + u.pairing.String()[:6]
		}
		out += "]"
	}
	return out
}

// c24Qos draws a QoS excellence report: realistic values, extremes, and (adversary runs only)
// values outside what an honest consumer computes.
func (st *c24State) qos() *pairingtypes.QualityOfServiceReport {
	r := st.s.R
	dec := func(max int, prec int64) sdk.Dec { return sdk.NewDecWithPrec(int64(r.Draw("ops", max)), prec) }
	q := &pairingtypes.QualityOfServiceReport{Latency: dec(3000, 3), Sync: dec(2000, 2), Availability: sdk.NewDecWithPrec(int64(1+r.Draw("ops", 100)), 2)}
	switch r.Draw("ops", 12) {
	case 0: // perfect provider: score 0
		q.Latency, q.Sync, q.Availability = sdk.ZeroDec(), sdk.ZeroDec(), sdk.OneDec()
	case 1: // terrible provider
		q.Latency = sdk.NewDec(int64(1 + r.Draw("ops", 1_000_000)))
		q.Availability = sdk.NewDecWithPrec(1, int64(1+r.Draw("ops", 18)))
	case 2: // tiny differences
		q.Latency = sdk.NewDecWithPrec(int64(1+r.Draw("ops", 50)), 18)
		q.Sync = sdk.ZeroDec()
		q.Availability = sdk.OneDec()
	case 3: // almost identical providers
		q.Latency, q.Sync, q.Availability = sdk.NewDecWithPrec(100+int64(r.Draw("ops", 3)), 3), sdk.OneDec(), sdk.OneDec()
	case 4:
		if st.adversary {
			q.Availability = sdk.NewDecWithPrec(int64(101+r.Draw("ops", 300)), 2) // > 1: never produced by the SDK
			if r.Chance("ops", 1, 2) {
				q.Latency, q.Sync = sdk.NewDecWithPrec(int64(r.Draw("ops", 100)), 3), sdk.ZeroDec() // the report's score goes negative
			}
		}
	}
	return q
}

// opC24Relay: a paired provider claims a session that carries a signed QoS excellence report.
func (s *Sim) opC24Relay() {
	r := s.R
	st := c24Cur
	n := 1 + r.Draw("ops", 4) // several reports per step: groups need several providers per epoch
	for i := 0; i < n; i++ {
		c := s.pickCons()
		signer := c.Acc
		if r.Chance("ops", 1, 4) {
			signer = c.Devs[r.Draw("ops", len(c.Devs))]
		}
		spec := s.Specs[0]
		if r.Chance("ops", 1, 4) {
			spec = s.pickSpec()
		}
		paired := s.pairedProvidersFor(signer, spec.Index)
		if len(paired) == 0 {
			r.Op("c24relay", "unpaired")
			continue
		}
		p := paired[r.Draw("ops", len(paired))]
		s.sessionSeq++
		cu := uint64(1 + r.Draw("ops", 400))
		q := st.qos()
		rel := s.BuildRelay(RelaySpec{Consumer: c, Signer: signer, Provider: p, Spec: spec.Index, Epoch: int64(s.EpochStart()), Session: s.sessionSeq, CuSum: cu, RelayNum: 1, QosEx: q})
		res := s.SendRelayPayment("c24relay", p, []*pairingtypes.RelaySession{rel})
		if res.Err == nil && q.Availability.GT(sdk.OneDec()) {
			r.Fault("c24_report_availability_above_one")
		}
		r.Logf("qosrelay %s<-%s(%s) %s epoch=%d cu=%d lat=%s sync=%s avail=%s: %s", p.Acc.Name, c.Acc.Name, signer.Name, spec.Index, rel.Epoch, cu, q.Latency, q.Sync, q.Availability, short(res.Err))
	}
}

func (s *Sim) opC24Buy() {
	r := s.R
	c := s.pickCons()
	plan := s.PlanNames[0]
	if r.Chance("ops", 1, 3) {
		plan = s.pickPlan()
	}
	months := 3 + r.Draw("ops", 10)
	msg := &subscriptiontypes.MsgBuy{Creator: c.Acc.Addr, Consumer: c.Acc.Addr, Index: plan, Duration: uint64(months)}
	res := s.msgTx("c24buy", []sdk.Msg{msg}, func(ctx sdk.Context) error {
		_, err := s.S.SubscriptionServer.Buy(ctx, msg)
		return err
	})
	r.Logf("buy %s plan=%s months=%d: %s", c.Acc.Name, plan, months, short(res.Err))
}

func (s *Sim) opC24Idle() {
	r := s.R
	days := 3 + r.Draw("ops", 40)
	if r.Chance("ops", 1, 4) {
		days = 60 + r.Draw("ops", 60)
	}
	s.SlowBlocks(time.Duration(days) * 24 * time.Hour)
	r.Fault("idle_gap_days")
	r.Op("c24idle", "ok")
	r.Logf("idle %dd -> h=%d t=%s", days, s.Height(), s.Now().Format(time.RFC3339))
}

func runC24(r *simrt.Run) {
	w := map[string]int{
		"blocks": 22, "c24idle": 3, "stake": 6, "unstake": 1, "freeze": 1, "delegate": 3, "unbond": 1,
		"c24buy": 4, "buy": 1, "c24relay": 40, "relay": 4, "addproject": 1,
	}
	cfg := mkCfg(r, w, 90, 400)
	if cfg.Weights["c24relay"] < 20 {
		cfg.Weights["c24relay"] = 20
	}
	cfg.Faults["month_jump"] = false
	if cfg.NProv < 5 {
		cfg.NProv = 5 + r.Draw("cfg", 4)
	}
	s := NewSim(r, cfg)
	st := &c24State{s: s, adversary: r.Chance("cfg", 1, 5)}
	c24Cur = st
	st.remember()
	s.AfterBlock = append(s.AfterBlock, st.afterBlock)
	s.AfterTx = append(s.AfterTx, func(w *World, tx *TxResult) {
		if tx.Err == nil {
			st.remember()
		}
	})
	// warm-up: every provider stakes on the first spec (groups need company), long subscriptions
	for _, p := range s.Providers {
		r.Step()
		s.c24Stake(p)
	}
	for i := 0; i < len(s.Providers)/2; i++ {
		r.Step()
		s.OpStakeProvider()
	}
	for i := 0; i < 2*len(s.Consumers); i++ {
		r.Step()
		s.opC24Buy()
	}
	s.AdvanceToNextEpoch(s.BlockTimeDefault() / 2)
	s.AdvanceToNextEpoch(s.BlockTimeDefault() / 2)
	for i := 0; i < cfg.Steps; i++ {
		s.StepOp()
	}
	s.AdvanceToNextEpoch(s.BlockTimeDefault() / 2)
}

func (s *Sim) c24Stake(p *ProviderActor) {
	r := s.R
	spec := s.Specs[0]
	amount := spec.MinStakeProvider.Amount.Int64() * int64(1+r.Draw("ops", 20))
	val := s.pickVal()
	msg := &pairingtypes.MsgStakeProvider{
		Creator: p.Vault.Addr, Validator: sdk.ValAddress(val.Account.Addr).String(), ChainID: spec.Index,
		Amount: s.Coin(amount), Geolocation: 1, Endpoints: s.endpoints(spec, 1),
		DelegateLimit: s.Coin(0), DelegateCommission: uint64(r.Draw("ops", 101)), Address: p.Acc.Addr,
		Description: c24Desc,
	}
	res := s.msgTx("stake", []sdk.Msg{msg}, func(ctx sdk.Context) error {
		_, err := s.S.PairingServer.StakeProvider(ctx, msg)
		return err
	})
	r.Logf("stake %s on %s amount=%d: %s", p.Acc.Name, spec.Index, amount, short(res.Err))
}

var c24Desc = stakingtypes.NewDescription("prov", "iden", "web", "sec", "details")

func c24NonTrivial(r *simrt.Run) bool {
	return r.Ops["c24relay:ok"] >= 5 && r.Probes["c24_group_of_2plus"] >= 1 && r.Probes["c24_reputation_updated"] >= 4
}

func init() {
	AddOp("c24relay", (*Sim).opC24Relay)
	AddOp("c24buy", (*Sim).opC24Buy)
	AddOp("c24idle", (*Sim).opC24Idle)
	simrt.Register("C24", &simrt.PropSpec{Fn: runC24, NonTrivial: c24NonTrivial,
		Rule: "tape-generated histories in which 5..12 providers stake (1x..20x minimum, delegations, freezes) on a shared chain, consumers hold 3..12 month subscriptions, and paired providers claim sessions carrying consumer-signed QoS excellence reports (realistic values, perfect/terrible/near-identical providers, 1e-18 differences; in 1 of 5 runs also availability > 1), 1..4 reports per step, mixed with epoch progress and idle gaps of 3..120 days of slow blocks; right after every epoch-start BeginBlock all stored reputations and pairing scores are read back: bounds, pairwise order inside each (chain, cluster) whose pairing scores were written at this block, and validity of every reputation that was valid before the block. Non-trivial = >=5 accepted report-carrying relays, >=4 reputation updates, >=1 group of >=2 providers updated together",
		Real: chainReal, Stubbed: chainStub,
		Assume: append([]string{"'updated at the same epoch start' = reputation TimeLastUpdated equals the block time and the pairing-score entry was written at this block", "'time decay never makes a stored reputation invalid' is checked as: a reputation that validates at the end of the previous block validates after the epoch-start update (a report that is itself invalid, e.g. availability > 1, is outside this clause)"}, chainAssume...)})
	_ = fmt.Sprint
}
