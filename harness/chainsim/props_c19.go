package chainsim

import (
	"fmt"
	"sort"
	"strings"

	sdk "github.com/cosmos/cosmos-sdk/types"
	epochstoragetypes "github.com/lavanet/lava/v5/x/epochstorage/types"
	pairingkeeper "github.com/lavanet/lava/v5/x/pairing/keeper"
	pairingtypes "github.com/lavanet/lava/v5/x/pairing/types"
	"github.com/lavanet/lava/v5/zz_verif/simrt"
)

// ---------- C19: unresponsive-provider jailing is justified and bounded ----------
//
// The oracle never re-derives complainer CU from relays: just before every epoch-start block the
// chain's own stake entries, per-epoch complaint records and per-epoch serviced-CU records are
// snapshotted; after the block the stake entries are compared, and every newly jailed provider
// must be justified by the snapshot over the window given by the protocol's exported constants.

type c19Snap struct {
	height  uint64
	entries map[string]epochstoragetypes.StakeEntry // "chain addr"
	compl   map[string]uint64                       // "epoch chain addr" -> complainers CU
	serv    map[string]uint64                       // "epoch chain addr" -> serviced CU
}

type c19State struct {
	s     *Sim
	snap  *c19Snap
	jails map[string][]int64 // "chain addr" -> unix times of observed automatic jailings
	// voluntary unfreeze (which the chain documents as clearing the jail counter) per entry
	unfrozeAt map[string]int64
	victims   []*ProviderActor
}

var c19Cur *c19State

func c19Key(chain, addr string) string { return chain + " " + addr }
func c19RecKey(epoch uint64, chain, addr string) string {
	return fmt.Sprintf("%d %s %s", epoch, chain, addr)
}

func (st *c19State) jailKeys() []string {
	ks := make([]string, 0, len(st.jails))
	for k := range st.jails {
		ks = append(ks, k)
	}
	sort.Strings(ks)
	return ks
}

func (st *c19State) takeSnap() {
	s := st.s
	sn := &c19Snap{height: s.Height(), entries: map[string]epochstoragetypes.StakeEntry{}, compl: map[string]uint64{}, serv: map[string]uint64{}}
	for _, e := range s.K.Epochstorage.GetAllStakeEntriesCurrent(s.Ctx) {
		sn.entries[c19Key(e.Chain, e.Address)] = e
	}
	for _, c := range s.K.Pairing.GetAllProviderEpochComplainerCuStore(s.Ctx) {
		sn.compl[c19RecKey(c.Epoch, c.ChainId, c.Provider)] = c.ProviderEpochComplainerCu.ComplainersCu
	}
	for _, c := range s.K.Pairing.GetAllProviderEpochCuStore(s.Ctx) {
		sn.serv[c19RecKey(c.Epoch, c.ChainId, c.Provider)] = c.ProviderEpochCu.ServicedCu
	}
	st.snap = sn
}

// maybeSnap keeps the picture of the state "just before" the next epoch-start block.
func (st *c19State) maybeSnap() {
	if st.s.Height()+1 == st.s.NextEpochBlock() {
		st.takeSnap()
	}
}

// epochsBack walks n epochs back from block b (error: not enough history).
func (st *c19State) epochsBack(b uint64, n uint64) (uint64, error) {
	for i := uint64(0); i < n; i++ {
		p, err := st.s.K.Epochstorage.GetPreviousEpochStartForBlock(st.s.Ctx, b)
		if err != nil {
			return 0, err
		}
		b = p
	}
	return b, nil
}

func (st *c19State) minProviders() uint64 {
	s := st.s
	minP := ^uint64(0)
	for _, idx := range s.K.Plans.GetAllPlanIndices(s.Ctx) {
		if plan, found := s.K.Plans.FindPlan(s.Ctx, idx, s.Height()); found && plan.PlanPolicy.MaxProvidersToPair < minP {
			minP = plan.PlanPolicy.MaxProvidersToPair
		}
	}
	return minP
}

func (st *c19State) afterBlock(w *World) {
	defer st.maybeSnap()
	r := w.R
	h := w.Height()
	if w.K.Epochstorage.GetEpochStart(w.Ctx) != h || st.snap == nil || st.snap.height != h-1 {
		return
	}
	sn := st.snap
	now := w.Ctx.BlockTime().UTC().Unix()
	nCompl, nServ := pairingtypes.EPOCHS_NUM_TO_CHECK_FOR_COMPLAINERS, pairingtypes.EPOCHS_NUM_TO_CHECK_CU_FOR_UNRESPONSIVE_PROVIDER
	nMax := nCompl
	if nServ > nMax {
		nMax = nServ
	}
	collect := w.K.Pairing.RecommendedEpochNumToCollectPayment(w.Ctx)
	// the checked window: starts `collect` epochs before this epoch start and reaches back nMax epochs
	var window []uint64
	e0, errW := st.epochsBack(h, collect)
	if errW == nil {
		window = append(window, e0)
		for k := uint64(1); k < nMax; k++ {
			p, err := st.epochsBack(window[len(window)-1], 1)
			if err != nil {
				break
			}
			window = append(window, p)
		}
	}
	minHistory, errH := st.epochsBack(h, nMax+collect)

	after := map[string]epochstoragetypes.StakeEntry{}
	var keys []string
	for _, e := range w.K.Epochstorage.GetAllStakeEntriesCurrent(w.Ctx) {
		k := c19Key(e.Chain, e.Address)
		after[k] = e
		keys = append(keys, k)
	}
	sort.Strings(keys)
	jailedOnChain := map[string]int{}
	newly := map[string]bool{}
	for _, k := range keys {
		a := after[k]
		b, ok := sn.entries[k]
		if !ok {
			continue
		}
		name := a.Chain + "/" + w.NameOf(a.Address)
		// window sums from the chain's own records as of just before the block
		var complaints, serviced, servicedInComplaintEpochs uint64
		for i, ep := range window {
			rk := c19RecKey(ep, a.Chain, a.Address)
			if uint64(i) < nCompl {
				complaints += sn.compl[rk]
			}
			if uint64(i) < nServ {
				serviced += sn.serv[rk]
				if _, has := sn.compl[rk]; has {
					servicedInComplaintEpochs += sn.serv[rk] // used only to name the failure signature
				}
			}
		}
		jailed := a.JailEndTime != b.JailEndTime && a.JailEndTime > now
		if !jailed {
			if complaints > 0 && !b.IsFrozen() {
				switch {
				case complaints == 4*serviced:
					r.Probe("c19_spared_at_exact_threshold")
				case complaints > 4*serviced && errW == nil && errH == nil && (b.Jails > 0 || b.StakeAppliedBlock <= minHistory):
					r.Probe("c19_spared_although_over_threshold") // the min-providers guard (or nothing else) held it back
				case complaints > 4*serviced:
					r.Probe("c19_spared_short_history")
				default:
					r.Probe("c19_spared_below_threshold")
				}
			}
			continue
		}
		newly[k] = true
		jailedOnChain[a.Chain]++
		hard := a.IsFrozen()
		r.Logf("   jailed %s at h=%d: complaints=%d serviced=%d window=%v jails %d->%d hard=%v applied %d->%d minHistory=%d", name, h, complaints, serviced, window, b.Jails, a.Jails, hard, b.StakeAppliedBlock, a.StakeAppliedBlock, minHistory)
		if hard {
			r.Probe("c19_hard_jail")
		} else {
			r.Probe("c19_soft_jail")
		}
		// (1) justified by complaints > 4 x serviced CU inside the checked window
		sig := "complaints<=4x-serviced"
		if complaints == 4*serviced {
			sig = "complaints==4x-serviced"
		}
		if complaints <= 4*serviced && complaints > 4*servicedInComplaintEpochs {
			sig = "serviced-cu-of-epochs-without-complaint-record-ignored"
			r.Probe("c19_jailed_ignoring_serviced_cu_of_quiet_epochs")
		}
		r.Check(errW == nil && complaints > 4*serviced, "c19-jail-not-justified", sig, "epoch start %d: %s was jailed, but over the checked window %v (complaints: first %d epochs, serviced CU: first %d epochs) the chain's records just before the block hold complaints=%d and serviced=%d (4x = %d); window error: %v", h, name, window, nCompl, nServ, complaints, serviced, 4*serviced, errW)
		if complaints == 4*serviced+1 {
			r.Probe("c19_jailed_at_threshold_plus_one")
		}
		// (2) stake history long enough (first offence: the entry carries no earlier jails)
		if b.Jails == 0 {
			r.Check(errH == nil && b.StakeAppliedBlock <= minHistory, "c19-jailed-with-short-stake-history", "", "epoch start %d: %s was jailed although its stake applies only since block %d; the checked history starts at block %d (%d epochs back; error %v)", h, name, b.StakeAppliedBlock, minHistory, nMax+collect, errH)
		} else {
			r.Probe("c19_jailed_with_earlier_jails")
		}
		// (3) the complaints that justified this punishment are consumed
		for i, ep := range window {
			if uint64(i) >= nCompl {
				break
			}
			if _, had := sn.compl[c19RecKey(ep, a.Chain, a.Address)]; !had {
				continue
			}
			left, found := w.K.Pairing.GetProviderEpochComplainerCu(w.Ctx, ep, a.Address, a.Chain)
			r.Check(!found, "c19-complaints-not-consumed", "", "epoch start %d: %s was jailed for the complaints of epoch %d but that record is still there afterwards (%d CU): the same complaints can punish again", h, name, ep, left.ComplainersCu)
		}
		// (4) repeated jails within a day escalate to a frozen hard jail
		hist := st.jails[k]
		within := 1
		earliest := now
		for _, t := range hist {
			if now-t <= 24*3600 {
				within++
				if t < earliest {
					earliest = t
				}
			}
		}
		st.jails[k] = append(hist, now)
		if within >= 2 {
			r.Probe("c19_second_jail_within_a_day")
		}
		if len(hist) > 0 && now-hist[len(hist)-1] > 24*3600 {
			r.Probe("c19_jail_again_after_more_than_a_day")
		}
		if within > pairingkeeper.SOFT_JAILS {
			sig := "no-voluntary-unfreeze-in-between"
			if t, ok := st.unfrozeAt[k]; ok && t >= earliest {
				sig = "after-voluntary-freeze-and-unfreeze"
			}
			r.Check(hard && a.JailEndTime >= now+int64(pairingkeeper.HARD_JAIL_TIME), "c19-no-escalation", sig, "epoch start %d: %s was jailed for the %d. time within 24h (earlier jail times %v, now %d) but the jail is not a frozen hard jail (frozen=%v jailEnd=%d jails=%d)", h, name, within, hist, now, hard, a.JailEndTime, a.Jails)
		}
	}
	// (5) automatic jailing leaves at least the smallest plan's MaxProvidersToPair providers in service
	if len(jailedOnChain) > 0 {
		minP := st.minProviders()
		chains := make([]string, 0, len(jailedOnChain))
		for c := range jailedOnChain {
			chains = append(chains, c)
		}
		sort.Strings(chains)
		for _, c := range chains {
			inService, nonFrozen := 0, 0
			for _, k := range keys {
				e := after[k]
				if e.Chain != c || e.IsFrozen() {
					continue
				}
				nonFrozen++
				if !newly[k] {
					inService++
				}
			}
			r.Check(uint64(nonFrozen) >= minP, "c19-min-providers-guard", "non-frozen", "epoch start %d: after jailing %d provider(s) chain %s has %d non-frozen providers; the smallest plan pairs %d", h, jailedOnChain[c], c, nonFrozen, minP)
			r.Check(uint64(inService) >= minP, "c19-min-providers-guard", "non-frozen-and-not-just-jailed", "epoch start %d: after jailing %d provider(s) chain %s has %d providers that are neither frozen nor jailed at this block; the smallest plan pairs %d", h, jailedOnChain[c], c, inService, minP)
			if uint64(inService) == minP {
				r.Probe("c19_jailing_stopped_exactly_at_min_providers")
			}
			if jailedOnChain[c] >= 2 {
				r.Probe("c19_two_jailed_same_chain_same_epoch")
			}
		}
	}
}

// ----- operations -----

func (st *c19State) isVictim(p *ProviderActor) bool {
	for _, v := range st.victims {
		if v == p {
			return true
		}
	}
	return false
}

func (st *c19State) records(epoch uint64, chain, addr string) (compl, serv uint64) {
	if c, ok := st.s.K.Pairing.GetProviderEpochComplainerCu(st.s.Ctx, epoch, addr, chain); ok {
		compl = c.ComplainersCu
	}
	if c, ok := st.s.K.Pairing.GetProviderEpochCu(st.s.Ctx, epoch, addr, chain); ok {
		serv = c.ServicedCu
	}
	return
}

func (s *Sim) c19Epoch() uint64 {
	r := s.R
	e := s.EpochStart()
	if r.Chance("ops", 1, 6) {
		if p, err := s.K.Epochstorage.GetPreviousEpochStartForBlock(s.Ctx, e); err == nil {
			e = p // a late claim for the previous epoch
		}
	}
	return e
}

// opC19Report: a provider claims a session in which the consumer reports one or two other paired
// providers as unresponsive; the CU is steered so that the victim's complaints in that epoch end up
// around four times what it serviced.
func (s *Sim) opC19Report() {
	r := s.R
	st := c19Cur
	spec := s.Specs[0]
	if r.Chance("ops", 1, 6) {
		spec = s.pickSpec()
	}
	c := s.pickCons()
	signer := c.Acc
	paired := s.pairedProvidersFor(signer, spec.Index)
	if len(paired) < 2 {
		r.Op("c19report", "unpaired")
		return
	}
	// target: a victim if one is in the pairing, else anybody
	var target *ProviderActor
	for _, p := range paired {
		if st.isVictim(p) && !r.Chance("ops", 1, 5) {
			target = p
			break
		}
	}
	if target == nil {
		target = paired[r.Draw("ops", len(paired))]
	}
	var others []*ProviderActor
	for _, p := range paired {
		if p != target {
			others = append(others, p)
		}
	}
	claimer := others[r.Draw("ops", len(others))]
	unresp := []*pairingtypes.ReportedProvider{{Address: target.Acc.Addr, Disconnections: uint64(r.Draw("ops", 5)), Errors: uint64(r.Draw("ops", 5)), TimestampS: s.Now().Unix()}}
	if len(others) >= 2 && r.Chance("ops", 1, 5) {
		for _, p := range others {
			if p != claimer {
				unresp = append(unresp, &pairingtypes.ReportedProvider{Address: p.Acc.Addr, Errors: 1, TimestampS: s.Now().Unix()})
				break
			}
		}
	}
	epoch := s.c19Epoch()
	compl, serv := st.records(epoch, spec.Index, target.Acc.Addr)
	div := uint64(len(unresp)) * uint64(len(paired)-1)
	want := 4*serv + uint64(r.Draw("ops", 5)) // land on 4x-2 .. 4x+2 ...
	if want >= 2 {
		want -= 2
	}
	cu := uint64(1 + r.Draw("ops", 60))
	if want > compl && !r.Chance("ops", 1, 4) {
		cu = (want-compl)*div + uint64(r.Draw("ops", int(div))) // ... the remainder is dropped by the chain's division
	}
	if cu > 4000 {
		cu = 4000
	}
	if cu == 0 {
		cu = 1
	}
	s.sessionSeq++
	rel := s.BuildRelay(RelaySpec{Consumer: c, Signer: signer, Provider: claimer, Spec: spec.Index, Epoch: int64(epoch), Session: s.sessionSeq, CuSum: cu, RelayNum: 1, Unresp: unresp})
	res := s.SendRelayPayment("c19report", claimer, []*pairingtypes.RelaySession{rel})
	c2, s2 := st.records(epoch, spec.Index, target.Acc.Addr)
	r.Logf("report %s<-%s %s epoch=%d cu=%d reported=%s(+%d) paired=%d: %s | %s epoch %d complaints %d->%d serviced %d", claimer.Acc.Name, c.Acc.Name, spec.Index, epoch, cu, target.Acc.Name, len(unresp)-1, len(paired), short(res.Err), target.Acc.Name, epoch, compl, c2, s2)
	if res.Err == nil && c2 > compl {
		r.Fault("c19_complaint_recorded")
	}
}

// opC19Serve: a (possibly reported) provider claims a session of its own: serviced CU.
func (s *Sim) opC19Serve() {
	r := s.R
	st := c19Cur
	spec := s.Specs[0]
	c := s.pickCons()
	paired := s.pairedProvidersFor(c.Acc, spec.Index)
	if len(paired) == 0 {
		r.Op("c19serve", "unpaired")
		return
	}
	p := paired[r.Draw("ops", len(paired))]
	for _, q := range paired {
		if st.isVictim(q) && r.Chance("ops", 2, 3) {
			p = q
			break
		}
	}
	epoch := s.c19Epoch()
	cu := uint64(1 + r.Draw("ops", 30))
	s.sessionSeq++
	rel := s.BuildRelay(RelaySpec{Consumer: c, Signer: c.Acc, Provider: p, Spec: spec.Index, Epoch: int64(epoch), Session: s.sessionSeq, CuSum: cu, RelayNum: 1})
	res := s.SendRelayPayment("c19serve", p, []*pairingtypes.RelaySession{rel})
	_, s2 := st.records(epoch, spec.Index, p.Acc.Addr)
	r.Logf("serve %s<-%s %s epoch=%d cu=%d: %s | serviced now %d", p.Acc.Name, c.Acc.Name, spec.Index, epoch, cu, short(res.Err), s2)
}

// opC19Freeze: voluntary freeze / unfreeze by the provider (moves the provider count around the
// guard; an accepted unfreeze of a frozen entry is recorded because it clears the jail counter).
func (s *Sim) opC19Freeze() {
	r := s.R
	st := c19Cur
	p := s.pickProv()
	spec := s.Specs[0]
	if r.Chance("ops", 1, 2) {
		msg := &pairingtypes.MsgFreezeProvider{Creator: p.Acc.Addr, ChainIds: []string{spec.Index}, Reason: "sim"}
		res := s.msgTx("c19freeze", []sdk.Msg{msg}, func(ctx sdk.Context) error {
			_, err := s.S.PairingServer.FreezeProvider(ctx, msg)
			return err
		})
		r.Logf("freeze %s on %s: %s", p.Acc.Name, spec.Index, short(res.Err))
		return
	}
	before, had := s.K.Epochstorage.GetStakeEntryCurrent(s.Ctx, spec.Index, p.Acc.Addr)
	msg := &pairingtypes.MsgUnfreezeProvider{Creator: p.Acc.Addr, ChainIds: []string{spec.Index}}
	res := s.msgTx("c19unfreeze", []sdk.Msg{msg}, func(ctx sdk.Context) error {
		_, err := s.S.PairingServer.UnfreezeProvider(ctx, msg)
		return err
	})
	r.Logf("unfreeze %s on %s (was frozen=%v jails=%d): %s", p.Acc.Name, spec.Index, had && before.IsFrozen(), before.Jails, short(res.Err))
	if res.Err == nil && had && before.IsFrozen() {
		st.unfrozeAt[c19Key(spec.Index, p.Acc.Addr)] = s.Now().Unix()
		if before.Jails > 0 {
			r.Probe("c19_unfreeze_cleared_jail_counter")
		}
	}
}

func (s *Sim) opC19Epochs() {
	r := s.R
	n := 1 + r.Draw("ops", 3)
	for i := 0; i < n; i++ {
		s.AdvanceToNextEpoch(s.BlockTimeDefault() / 2)
	}
	r.Op("c19epochs", "ok")
	r.Logf("epochs +%d -> h=%d t=%s", n, s.Height(), s.Now().Format("2006-01-02T15:04:05Z"))
}

func runC19(r *simrt.Run) {
	w := map[string]int{
		"blocks": 10, "c19epochs": 16, "stake": 2, "unstake": 1, "delegate": 1, "buy": 2,
		"c19report": 34, "c19serve": 12, "c19freeze": 5, "relay": 3,
	}
	cfg := mkCfg(r, w, 110, 450)
	for _, k := range []string{"c19report", "c19epochs"} {
		if cfg.Weights[k] < 10 {
			cfg.Weights[k] = 10
		}
	}
	cfg.Faults["month_jump"] = false
	s := NewSim(r, cfg)
	st := &c19State{s: s, jails: map[string][]int64{}, unfrozeAt: map[string]int64{}}
	c19Cur = st
	nv := 1 + r.Draw("cfg", 3)
	for i := 0; i < nv && i < len(s.Providers); i++ {
		st.victims = append(st.victims, s.Providers[i])
	}
	s.AfterBlock = append(s.AfterBlock, st.afterBlock)
	s.AfterTx = append(s.AfterTx, func(w *World, tx *TxResult) {
		if tx.Err == nil && tx.Name == "unstake" {
			// a removed stake entry ends the jail history of that entry: staking again creates a new one
			for _, k := range st.jailKeys() {
				parts := strings.SplitN(k, " ", 2)
				if _, found := w.K.Epochstorage.GetStakeEntryCurrent(w.Ctx, parts[0], parts[1]); !found {
					delete(st.jails, k)
					delete(st.unfrozeAt, k)
					w.R.Probe("c19_jailed_provider_unstaked")
				}
			}
		}
		st.maybeSnap()
	})
	// warm-up: every provider on the first chain, subscriptions, then enough epochs of history
	for _, p := range s.Providers {
		r.Step()
		s.c24Stake(p)
	}
	for i := 0; i < 2*len(s.Consumers); i++ {
		r.Step()
		s.opC24Buy()
	}
	nEp := int(pairingtypes.EPOCHS_NUM_TO_CHECK_CU_FOR_UNRESPONSIVE_PROVIDER+s.K.Pairing.RecommendedEpochNumToCollectPayment(s.Ctx)) - r.Draw("cfg", 4)
	for i := 0; i < nEp; i++ {
		s.AdvanceToNextEpoch(s.BlockTimeDefault() / 2)
	}
	for i := 0; i < cfg.Steps; i++ {
		s.StepOp()
	}
	for i := 0; i < 5; i++ {
		s.AdvanceToNextEpoch(s.BlockTimeDefault() / 2)
	}
}

func c19NonTrivial(r *simrt.Run) bool {
	return r.Faults["c19_complaint_recorded"] >= 3 && r.Probes["c19_soft_jail"]+r.Probes["c19_hard_jail"] >= 1
}

func init() {
	AddOp("c19report", (*Sim).opC19Report)
	AddOp("c19serve", (*Sim).opC19Serve)
	AddOp("c19freeze", (*Sim).opC19Freeze)
	AddOp("c19epochs", (*Sim).opC19Epochs)
	simrt.Register("C19", &simrt.PropSpec{Fn: runC19, NonTrivial: c19NonTrivial,
		Rule: "tape-generated histories with 3..8 providers on one chain (plans pairing 2..5), 1..3 'victim' providers, relay payments carrying consumer-signed UnresponsiveProviders lists (1-2 reported providers, CU steered to 4x-2..4x+2 of the victim's serviced CU in that epoch, late claims for the previous epoch), servicing claims by the victims, voluntary freeze/unfreeze, stake/unstake, and epoch progress with downtime gaps and hour-scale clock jumps; the chain's stake entries, complaint and serviced-CU records are snapshotted just before each epoch-start block and each newly jailed provider is judged against them over the window of the exported constants. Non-trivial = >=3 recorded complaints and >=1 automatic jailing",
		Real: chainReal, Stubbed: chainStub,
		Assume: append([]string{"'newly jailed' = JailEndTime changed to a future time across an epoch-start BeginBlock", "window = EPOCHS_NUM_TO_CHECK_FOR_COMPLAINERS / EPOCHS_NUM_TO_CHECK_CU_FOR_UNRESPONSIVE_PROVIDER epochs counted back from RecommendedEpochNumToCollectPayment epochs before the epoch start; serviced CU is summed over ALL epochs of that window", "stake history is judged only for entries without earlier jails (a soft jail itself rewrites StakeAppliedBlock)", "escalation is judged one way only: more than SOFT_JAILS automatic jailings of one stake entry (an unstake ends the entry and its history) within 24h of block time => the last one is frozen with JailEndTime >= now+HARD_JAIL_TIME"}, chainAssume...)})
}
