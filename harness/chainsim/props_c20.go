package chainsim

// C20 — conflict votes follow commit-reveal and stake majority.
//
// Workload: response-conflict detections built exactly like the repo's own tests do
// (testutil/common.CreateResponseConflictMsgDetectionForTest: one consumer-signed request, two
// provider-signed replies, real signatures), forged variants of them, then commit / reveal
// messages by listed and unlisted voters (duplicates, wrong phase, wrong nonce / hash, somebody
// else's commit data, reveals without a commit), all interleaved with the mixed base workload
// (stake changes, delegations, relays) and with block / epoch progress.
//
// Oracle: a small state machine written from the property statement (NOT from vote.go):
//   * a vote changes phase (commit -> reveal -> closed) only in a block that is an epoch start and
//     whose height is at or past the vote's recorded deadline; never inside a transaction;
//   * a commit is accepted iff the vote is in its commit phase, the sender is a listed voter and
//     has not committed yet;
//   * a reveal is accepted only in the reveal phase, from a listed voter whose earlier commit
//     equals CommitVoteData(nonce, hash, sender) (and a first matching reveal is accepted);
//   * the ConflictVote record seen through the keeper getters equals the model after every
//     transaction and every block;
//   * at close, with the stake of every listed voter read through the public epochstorage getter
//     at that block, the emitted event says "resolved, winner X" iff option X holds more than half
//     of the counted stake, otherwise "unresolved"; only counted reveals contribute to an option,
//     voters who never revealed contribute to none (and are reported as non-voters).
// Rewards / slashing at resolution are not part of the property and are not looked at.

import (
	"bytes"
	"fmt"
	"sort"
	"strings"

	"cosmossdk.io/math"
	sdk "github.com/cosmos/cosmos-sdk/types"
	"github.com/lavanet/lava/v5/testutil/common"
	"github.com/lavanet/lava/v5/utils"
	"github.com/lavanet/lava/v5/utils/sigs"
	conflicttypes "github.com/lavanet/lava/v5/x/conflict/types"
	pairingtypes "github.com/lavanet/lava/v5/x/pairing/types"
	"github.com/lavanet/lava/v5/zz_verif/simrt"
)

const (
	c20PhaseCommit = 0
	c20PhaseReveal = 1
	c20PhaseClosed = 2

	c20OptP0   = 0
	c20OptP1   = 1
	c20OptNone = 2
)

type c20Voter struct {
	addr string
	// what the model says the chain must hold
	committed  bool
	commitHash []byte
	revealed   bool
	option     int // counted option (valid when revealed)
	// what the actor remembers of its own commit (to be able to reveal honestly later)
	nonce    int64
	dataHash []byte
	intent   int
}

type c20Vote struct {
	id         string
	chain      string
	startBlock uint64
	phase      int
	deadline   uint64
	first      string
	second     string
	voters     []*c20Voter
	byAddr     map[string]*c20Voter
	hash       [3][]byte // reveal payload per option (none = unrelated data)
	seq        int
}

type c20State struct {
	s      *Sim
	votes  []*c20Vote // creation order
	byID   map[string]*c20Vote
	closed int
}

var c20Cur *c20State

func c20st(s *Sim) *c20State {
	if c20Cur == nil || c20Cur.s != s {
		c20Cur = &c20State{s: s, byID: map[string]*c20Vote{}}
	}
	return c20Cur
}

func c20PhaseName(p int) string {
	switch p {
	case c20PhaseCommit:
		return "commit"
	case c20PhaseReveal:
		return "reveal"
	}
	return "closed"
}

func c20EventName(n string) string { return utils.EventPrefix + n }

func c20Attr(ev sdk.Event, key string) (string, bool) {
	for _, a := range ev.Attributes {
		if a.Key == key {
			return a.Value, true
		}
	}
	return "", false
}

// ---------------------------------------------------------------------------------------------
// observation: record vs model
// ---------------------------------------------------------------------------------------------

// expected per-voter Result value of the record
func (v *c20Voter) wantResult() int64 {
	switch {
	case v.revealed && v.option == c20OptP0:
		return conflicttypes.Provider0
	case v.revealed && v.option == c20OptP1:
		return conflicttypes.Provider1
	case v.revealed:
		return conflicttypes.NoneOfTheProviders
	case v.committed:
		return conflicttypes.Commit
	}
	return conflicttypes.NoVote
}

// c20VerifyAll compares every ConflictVote record with the model. where = stable label.
func (st *c20State) verifyAll(where string) {
	s := st.s
	r := s.R
	recs := s.K.Conflict.GetAllConflictVote(s.Ctx)
	seen := map[string]bool{}
	for i := range recs {
		rec := &recs[i]
		seen[rec.Index] = true
		v := st.byID[rec.Index]
		if v == nil || v.phase == c20PhaseClosed {
			r.Fail("vote-record-mismatch", where+":unexpected-record", "a ConflictVote record %q exists at height %d that the model does not know as open (model=%v)", rec.Index, s.Height(), v != nil)
			continue
		}
		r.Check(int(rec.VoteState) == v.phase, "vote-record-mismatch", where+":phase", "vote #%d: record state=%d, model phase=%s at height %d", v.seq, rec.VoteState, c20PhaseName(v.phase), s.Height())
		r.Check(rec.VoteDeadline == v.deadline, "vote-record-mismatch", where+":deadline", "vote #%d: record deadline=%d, model deadline=%d at height %d", v.seq, rec.VoteDeadline, v.deadline, s.Height())
		r.Check(len(rec.Votes) == len(v.voters), "vote-record-mismatch", where+":voter-list", "vote #%d: record lists %d voters, model %d", v.seq, len(rec.Votes), len(v.voters))
		for j, rv := range rec.Votes {
			mv := v.voters[j]
			r.Check(rv.Address == mv.addr, "vote-record-mismatch", where+":voter-list", "vote #%d voter %d: record address %s, model %s", v.seq, j, s.NameOf(rv.Address), s.NameOf(mv.addr))
			r.Check(rv.Result == mv.wantResult(), "vote-record-mismatch", where+":voter-result", "vote #%d voter %s: record result=%d, model expects %d (committed=%v revealed=%v option=%d) at height %d", v.seq, s.NameOf(mv.addr), rv.Result, mv.wantResult(), mv.committed, mv.revealed, mv.option, s.Height())
			wantHash := []byte(nil)
			if mv.committed {
				wantHash = mv.commitHash
			}
			r.Check(bytes.Equal(rv.Hash, wantHash), "vote-record-mismatch", where+":voter-hash", "vote #%d voter %s: record commit hash %x, model %x", v.seq, s.NameOf(mv.addr), rv.Hash, wantHash)
		}
	}
	for _, v := range st.votes {
		if v.phase != c20PhaseClosed && !seen[v.id] {
			r.Fail("vote-record-mismatch", where+":record-vanished", "vote #%d (%s phase, deadline %d) has no record any more at height %d", v.seq, c20PhaseName(v.phase), v.deadline, s.Height())
		}
	}
}

// c20AfterTx: no transaction may move a vote between phases or resolve it.
func (st *c20State) afterTx(tx *TxResult) {
	r := st.s.R
	for _, ev := range tx.Events {
		switch ev.Type {
		case c20EventName(conflicttypes.ConflictVoteRevealEventName), c20EventName(conflicttypes.ConflictVoteResolvedEventName), c20EventName(conflicttypes.ConflictVoteUnresolvedEventName):
			r.Fail("phase-transition", "in-transaction", "transaction %s emitted %s: a vote changed phase outside an epoch start block", tx.Name, ev.Type)
		}
	}
	if !strings.HasPrefix(tx.Name, "c20_") {
		// our own operations verify after they have updated the model
		st.verifyAll("after-tx")
	}
}

// c20AfterBlock: phase transitions and resolution.
func (st *c20State) afterBlock() {
	s := st.s
	r := s.R
	h := s.Height()
	isEpochStart := s.EpochStart() == h
	resolved := map[string]sdk.Event{}
	nres := map[string]int{}
	for _, ev := range s.Ctx.EventManager().Events() {
		if ev.Type == c20EventName(conflicttypes.ConflictVoteResolvedEventName) || ev.Type == c20EventName(conflicttypes.ConflictVoteUnresolvedEventName) {
			id, _ := c20Attr(ev, "voteID")
			resolved[id] = ev
			nres[id]++
		}
	}
	for _, v := range st.votes {
		if v.phase == c20PhaseClosed {
			continue
		}
		rec, found := s.K.Conflict.GetConflictVote(s.Ctx, v.id)
		if found && int(rec.VoteState) == v.phase {
			if isEpochStart && h >= v.deadline {
				r.Probe("c20_deadline_passed_no_move")
			}
			continue
		}
		from := c20PhaseName(v.phase)
		if found {
			// commit -> reveal is the only legal in-record move
			if !(v.phase == c20PhaseCommit && rec.VoteState == conflicttypes.StateReveal) {
				r.Fail("phase-transition", "illegal-move", "vote #%d moved from %s to record state %d at height %d", v.seq, from, rec.VoteState, h)
			}
			r.Check(isEpochStart, "phase-transition", "commit-to-reveal:not-epoch-start", "vote #%d moved commit->reveal at height %d which is not an epoch start (epoch start %d, deadline %d)", v.seq, h, s.EpochStart(), v.deadline)
			r.Check(h >= v.deadline, "phase-transition", "commit-to-reveal:before-deadline", "vote #%d moved commit->reveal at height %d before its deadline %d", v.seq, h, v.deadline)
			r.Logf("   vote #%d commit->reveal at h=%d (deadline was %d, new deadline %d)", v.seq, h, v.deadline, rec.VoteDeadline)
			v.phase = c20PhaseReveal
			v.deadline = rec.VoteDeadline
			r.Probe("c20_vote_reached_reveal")
			nc := 0
			for _, mv := range v.voters {
				if mv.committed {
					nc++
				}
			}
			if nc == 0 {
				r.Probe("c20_reveal_phase_without_commits")
			}
			continue
		}
		// record gone: the vote closed
		ev, hasEv := resolved[v.id]
		if !hasEv {
			// lava drops a vote silently when it cannot resolve the epoch of its start block any more
			_, _, err := s.K.Epochstorage.GetEpochStartForBlock(s.Ctx, v.startBlock)
			if err == nil {
				_, err = s.K.Epochstorage.BlocksToSave(s.Ctx, v.startBlock)
			}
			if err != nil {
				r.Probe("c20_vote_dropped_epoch_unknown")
				r.Logf("   vote #%d dropped at h=%d: start epoch unknown (%v)", v.seq, h, err)
				v.phase = c20PhaseClosed
				continue
			}
			r.Fail("vote-resolution", "closed-without-event", "vote #%d disappeared at height %d (phase %s) without a resolution event", v.seq, h, from)
		}
		r.Check(v.phase == c20PhaseReveal, "phase-transition", "commit-to-closed", "vote #%d closed at height %d straight from the commit phase", v.seq, h)
		r.Check(isEpochStart, "phase-transition", "reveal-to-closed:not-epoch-start", "vote #%d closed at height %d which is not an epoch start (epoch start %d, deadline %d)", v.seq, h, s.EpochStart(), v.deadline)
		r.Check(h >= v.deadline, "phase-transition", "reveal-to-closed:before-deadline", "vote #%d closed at height %d before its reveal deadline %d", v.seq, h, v.deadline)
		r.Check(nres[v.id] == 1, "vote-resolution", "several-events", "vote #%d: %d resolution events in block %d", v.seq, nres[v.id], h)
		st.checkOutcome(v, ev)
		v.phase = c20PhaseClosed
		st.closed++
		delete(resolved, v.id)
	}
	ids := make([]string, 0, len(resolved))
	for id := range resolved {
		ids = append(ids, id)
	}
	sort.Strings(ids)
	for _, id := range ids {
		r.Fail("vote-resolution", "stray-event", "block %d emitted %s for vote %q which did not close in this block according to the records", h, resolved[id].Type, id)
	}
	st.verifyAll("after-block")
}

// checkOutcome compares the emitted resolution with "more than half of the counted stake".
func (st *c20State) checkOutcome(v *c20Vote, ev sdk.Event) {
	s := st.s
	r := s.R
	total := math.ZeroInt()
	sums := [3]math.Int{math.ZeroInt(), math.ZeroInt(), math.ZeroInt()}
	nonVoters, revealers, missing := 0, 0, 0
	epochVoteStart, _, err := s.K.Epochstorage.GetEpochStartForBlock(s.Ctx, v.startBlock)
	if err != nil {
		r.Probe("c20_close_epoch_unknown")
		return
	}
	desc := []string{}
	for _, mv := range v.voters {
		entry, found := s.K.Epochstorage.GetStakeEntry(s.Ctx, epochVoteStart, v.chain, mv.addr)
		if !found {
			missing++
			desc = append(desc, fmt.Sprintf("%s:nostake", s.NameOf(mv.addr)))
			continue
		}
		stake := entry.TotalStake()
		total = total.Add(stake)
		if mv.revealed {
			sums[mv.option] = sums[mv.option].Add(stake)
			revealers++
			desc = append(desc, fmt.Sprintf("%s:%s->opt%d", s.NameOf(mv.addr), stake, mv.option))
		} else {
			nonVoters++
			if mv.committed {
				r.Probe("c20_committed_never_revealed")
			}
			desc = append(desc, fmt.Sprintf("%s:%s->none-voter", s.NameOf(mv.addr), stake))
		}
	}
	if missing > 0 {
		r.Probe("c20_voter_stake_missing_at_close")
	}
	winner := -1
	for o := 0; o < 3; o++ {
		if sums[o].MulRaw(2).GT(total) {
			winner = o
		}
	}
	wantType := c20EventName(conflicttypes.ConflictVoteUnresolvedEventName)
	wantWinner := ""
	if winner >= 0 {
		wantType = c20EventName(conflicttypes.ConflictVoteResolvedEventName)
		wantWinner = []string{v.first, v.second, "None"}[winner]
	}
	detail := fmt.Sprintf("vote #%d closed at h=%d: counted total=%s p0=%s p1=%s none=%s voters[%s]", v.seq, s.Height(), total, sums[0], sums[1], sums[2], strings.Join(desc, " "))
	r.Logf("   %s -> expect %s winner=%q; event %s", detail, wantType, s.NameOf(wantWinner), ev.Type)
	r.Check(ev.Type == wantType, "vote-outcome", map[bool]string{true: "majority-not-honoured", false: "resolved-without-majority"}[winner >= 0], "%s: expected %s, chain emitted %s", detail, wantType, ev.Type)
	if winner >= 0 {
		got, _ := c20Attr(ev, "winner")
		r.Check(got == wantWinner, "vote-outcome", "wrong-winner", "%s: expected winner %s, event says %s", detail, s.NameOf(wantWinner), s.NameOf(got))
		r.Probe("c20_closed_with_majority")
		r.Probe(fmt.Sprintf("c20_winner_opt%d", winner))
	} else {
		r.Probe("c20_closed_without_majority")
		if revealers > 0 {
			r.Probe("c20_closed_without_majority_with_reveals")
		}
		// exactly-half ties are the interesting boundary of "more than half"
		for o := 0; o < 3; o++ {
			if total.IsPositive() && sums[o].MulRaw(2).Equal(total) {
				r.Probe("c20_exact_half")
			}
		}
	}
	// the tallies the chain publishes with the resolution are the counted stake per option
	for _, t := range []struct {
		key  string
		want math.Int
		sig  string
	}{{"TotalVotes", total, "total"}, {"FirstProviderVotes", sums[0], "option"}, {"SecondProviderVotes", sums[1], "option"}, {"NoneProviderVotes", sums[2], "option"}} {
		if got, ok := c20Attr(ev, t.key); ok {
			r.Check(got == t.want.String(), "vote-tally", t.sig, "%s: event %s=%s, model counts %s", detail, t.key, got, t.want)
		}
	}
	if got, ok := c20Attr(ev, "NumOfNoVoters"); ok {
		r.Check(got == fmt.Sprint(nonVoters), "vote-tally", "non-voters", "%s: event NumOfNoVoters=%s, model has %d voters that never revealed", detail, got, nonVoters)
	}
	if nonVoters > 0 {
		r.Probe("c20_closed_with_non_voters")
	}
}

// ---------------------------------------------------------------------------------------------
// operations
// ---------------------------------------------------------------------------------------------

// providers staked on chain at the epoch snapshot
func (s *Sim) c20StakedAt(epoch uint64, chain string) []*ProviderActor {
	var out []*ProviderActor
	for _, e := range s.K.Epochstorage.GetAllStakeEntriesForEpochChainId(s.Ctx, epoch, chain) {
		for _, p := range s.Providers {
			if p.Acc.Addr == e.Address {
				out = append(out, p)
			}
		}
	}
	sort.Slice(out, func(i, j int) bool { return out[i].Acc.Name < out[j].Acc.Name })
	return out
}

func (s *Sim) opC20Detect() {
	r := s.R
	st := c20st(s)
	c := s.pickCons()
	signer := c.Acc
	if r.Chance("ops", 1, 4) {
		signer = c.Devs[r.Draw("ops", len(c.Devs))]
	}
	spec := s.pickSpec()
	// which block the relay claims: mostly inside the current epoch, sometimes older epochs
	cur := s.EpochStart()
	block := cur
	switch r.Draw("ops", 8) {
	case 0, 1, 2, 3:
	case 4:
		block = cur + uint64(r.Draw("ops", int(s.Height()-cur)+1))
	case 5:
		if p, err := s.K.Epochstorage.GetPreviousEpochStartForBlock(s.Ctx, cur); err == nil {
			block = p
		}
	case 6:
		eb := s.K.Epochstorage.EpochBlocksRaw(s.Ctx)
		back := uint64(2+r.Draw("ops", 3)) * eb
		if cur > back {
			block = cur - back
		}
	case 7:
		block = s.Height() + 1 + uint64(r.Draw("ops", 30)) // future
	}
	epochStart, _, err := s.K.Epochstorage.GetEpochStartForBlock(s.Ctx, block)
	if err != nil {
		epochStart = cur
	}
	staked := s.c20StakedAt(epochStart, spec.Index)
	var p0, p1 *ProviderActor
	if len(staked) >= 2 && !r.Chance("ops", 1, 8) {
		i := r.Draw("ops", len(staked))
		j := r.Draw("ops", len(staked)-1)
		if j >= i {
			j++
		}
		p0, p1 = staked[i], staked[j]
	} else {
		p0, p1 = s.pickProv(), s.pickProv() // may be unstaked or the same provider twice
	}
	a0, a1 := p0.Acc.Account, p1.Acc.Account
	variant := "valid"
	if r.Chance("ops", 1, 12) {
		a1 = p1.Vault.Account // vault key instead of the provider key
		variant = "vault-key"
	}
	ctxAt := sdk.WrapSDKContext(s.Ctx.WithBlockHeight(int64(block)))
	msg, reply0, reply1, err := common.CreateResponseConflictMsgDetectionForTest(ctxAt, signer.Account, a0, a1, &spec)
	if err != nil {
		r.Logf("c20_detect: could not build detection: %v", err)
		r.Op("c20_detect", "unbuildable")
		return
	}
	rc := msg.GetResponseConflict()
	// forged variants: one field changed after signing
	if r.Chance("ops", 1, 6) {
		switch r.Draw("ops", 4) {
		case 0:
			msg.Creator = s.pickCons().Acc.Addr
			if msg.Creator != signer.Addr {
				variant = "forged-creator"
			}
		case 1:
			rc.ConflictRelayData1.Request.RelayData.RequestBlock++
			variant = "forged-request-block"
		case 2:
			rc.ConflictRelayData1.Reply.HashAllDataHash = rc.ConflictRelayData0.Reply.HashAllDataHash
			variant = "forged-same-response"
		case 3:
			rc.ConflictRelayData0.Reply.LatestBlock += 7
			variant = "forged-latest-block"
		}
	}
	before := len(s.K.Conflict.GetAllConflictVote(s.Ctx))
	res := s.msgTx("c20_detect", []sdk.Msg{msg}, func(ctx sdk.Context) error {
		_, err := s.S.ConflictServer.Detection(ctx, msg)
		return err
	})
	r.Logf("c20_detect %s(%s) spec=%s block=%d(epoch %d) p0=%s p1=%s %s: %s", c.Acc.Name, signer.Name, spec.Index, block, epochStart, p0.Acc.Name, p1.Acc.Name, variant, short(res.Err))
	if res.Err != nil {
		r.Probe("c20_detect_rejected:" + variant)
		r.Check(len(s.K.Conflict.GetAllConflictVote(s.Ctx)) == before, "vote-record-mismatch", "rejected-detection-created-vote", "a rejected detection changed the number of vote records")
		st.verifyAll("after-detect")
		return
	}
	r.Probe("c20_detect_ok:" + variant)
	voteID := ""
	for _, ev := range res.Events {
		if ev.Type == c20EventName(conflicttypes.ConflictVoteDetectionEventName) {
			voteID, _ = c20Attr(ev, "voteID")
		}
	}
	rec, found := s.K.Conflict.GetConflictVote(s.Ctx, voteID)
	if !found {
		r.Fail("vote-record-mismatch", "accepted-detection-without-record", "accepted detection (event voteID=%q) left no ConflictVote record", voteID)
	}
	if old := st.byID[voteID]; old != nil && old.phase != c20PhaseClosed {
		r.Fail("vote-record-mismatch", "detection-replaced-open-vote", "accepted detection reuses the id of vote #%d which is still open (%s phase)", old.seq, c20PhaseName(old.phase))
	}
	v := &c20Vote{id: voteID, chain: rec.ChainID, startBlock: rec.VoteStartBlock, phase: c20PhaseCommit, deadline: rec.VoteDeadline,
		first: rec.FirstProvider.Account, second: rec.SecondProvider.Account, byAddr: map[string]*c20Voter{}, seq: len(st.votes)}
	r.Check(rec.VoteState == conflicttypes.StateCommit, "vote-record-mismatch", "new-vote-not-in-commit", "new vote starts in state %d", rec.VoteState)
	for _, rv := range rec.Votes {
		mv := &c20Voter{addr: rv.Address}
		v.voters = append(v.voters, mv)
		v.byAddr[rv.Address] = mv
		r.Check(rv.Result == conflicttypes.NoVote && len(rv.Hash) == 0, "vote-record-mismatch", "new-vote-has-votes", "new vote lists %s with result %d hash %x", s.NameOf(rv.Address), rv.Result, rv.Hash)
	}
	ex0 := pairingtypes.NewRelayExchange(*rc.ConflictRelayData0.Request, *reply0)
	ex1 := pairingtypes.NewRelayExchange(*rc.ConflictRelayData1.Request, *reply1)
	v.hash[c20OptP0] = sigs.HashMsg(ex0.DataToSign())
	v.hash[c20OptP1] = sigs.HashMsg(ex1.DataToSign())
	v.hash[c20OptNone] = sigs.HashMsg([]byte(fmt.Sprintf("none-of-them-%d", v.seq)))
	st.votes = append(st.votes, v)
	st.byID[voteID] = v
	names := []string{}
	for _, mv := range v.voters {
		names = append(names, s.NameOf(mv.addr))
	}
	r.Logf("   vote #%d opened: chain=%s startBlock=%d commit deadline=%d voters=[%s]", v.seq, v.chain, v.startBlock, v.deadline, strings.Join(names, ","))
	if len(v.voters) == 0 {
		r.Probe("c20_vote_without_voters")
	}
	if len(v.voters) >= 3 {
		r.Probe("c20_vote_with_3plus_voters")
	}
	st.verifyAll("after-detect")
}

// c20PickVote prefers a vote in the wanted phase; sometimes any vote (wrong phase / closed), and
// rarely an id that never existed.
func (s *Sim) c20PickVote(want int) (*c20Vote, string) {
	r := s.R
	st := c20st(s)
	if len(st.votes) == 0 || r.Chance("ops", 1, 25) {
		return nil, "no-such-vote"
	}
	if !r.Chance("ops", 1, 6) {
		var cand []*c20Vote
		for _, v := range st.votes {
			if v.phase == want {
				cand = append(cand, v)
			}
		}
		if len(cand) == 0 {
			for _, v := range st.votes {
				if v.phase != c20PhaseClosed {
					cand = append(cand, v)
				}
			}
		}
		if len(cand) > 0 {
			v := cand[r.Draw("ops", len(cand))]
			return v, v.id
		}
	}
	v := st.votes[r.Draw("ops", len(st.votes))]
	return v, v.id
}

// c20PickSender: a listed voter (mostly), or somebody who is not on the list.
func (s *Sim) c20PickSender(v *c20Vote) (addr string, kind string) {
	r := s.R
	if v != nil && len(v.voters) > 0 && !r.Chance("ops", 1, 5) {
		return v.voters[r.Draw("ops", len(v.voters))].addr, "listed"
	}
	switch r.Draw("ops", 4) {
	case 0:
		if v != nil {
			if r.Chance("ops", 1, 2) {
				return v.first, "conflicting-provider"
			}
			return v.second, "conflicting-provider"
		}
	case 1:
		if v != nil && len(v.voters) > 0 {
			a := v.voters[r.Draw("ops", len(v.voters))].addr
			if acc, ok := s.ByAddr[a]; ok && acc.Vault != nil {
				return acc.Vault.Addr.String(), "voter-vault"
			}
		}
	case 2:
		return s.pickCons().Acc.Addr, "consumer"
	}
	return s.pickProv().Acc.Addr, "some-provider"
}

func (s *Sim) c20SendCommit(v *c20Vote, voteID, sender, kind string, opt int, hashOverride []byte) {
	r := s.R
	st := c20st(s)
	nonce := int64(r.Draw64("ops") >> 1)
	var dataHash []byte
	if v != nil {
		dataHash = v.hash[opt]
	} else {
		dataHash = sigs.HashMsg([]byte("nothing"))
	}
	hash := conflicttypes.CommitVoteData(nonce, dataHash, sender)
	if hashOverride != nil {
		hash = hashOverride
	}
	msg := &conflicttypes.MsgConflictVoteCommit{Creator: sender, VoteID: voteID, Hash: hash}
	res := s.msgTx("c20_commit", []sdk.Msg{msg}, func(ctx sdk.Context) error {
		_, err := s.S.ConflictServer.ConflictVoteCommit(ctx, msg)
		return err
	})
	// model verdict, from the statement
	var mv *c20Voter
	if v != nil {
		mv = v.byAddr[sender]
	}
	reason := "valid"
	switch {
	case v == nil || v.phase == c20PhaseClosed:
		reason = "no-open-vote"
	case v.phase != c20PhaseCommit:
		reason = "wrong-phase"
	case mv == nil:
		reason = "unlisted"
	case mv.committed:
		reason = "duplicate"
	}
	vs := "-"
	if v != nil {
		vs = fmt.Sprintf("#%d/%s", v.seq, c20PhaseName(v.phase))
	}
	r.Logf("c20_commit vote=%s by %s (%s) opt=%d hash=%x.. model=%s: %s", vs, s.NameOf(sender), kind, opt, hash[:min(4, len(hash))], reason, short(res.Err))
	r.Probe("c20_commit_" + reason)
	if v != nil && v.phase != c20PhaseCommit {
		r.Probe("c20_late_commit") // after the commit phase was closed at its deadline epoch start
	}
	if kind != "listed" && reason == "unlisted" {
		r.Probe("c20_unlisted_voter_tried")
	}
	if reason == "valid" {
		r.Check(res.Err == nil, "commit-verdict", "valid-rejected", "commit by listed voter %s on vote #%d in its commit phase (first commit) was rejected: %v", s.NameOf(sender), v.seq, res.Err)
		mv.committed, mv.commitHash, mv.nonce, mv.dataHash, mv.intent = true, append([]byte(nil), hash...), nonce, dataHash, opt
		if hashOverride != nil {
			mv.nonce, mv.dataHash = 0, nil
		}
	} else {
		r.Check(res.Err != nil, "commit-verdict", reason+"-accepted", "commit by %s (%s) on vote %s was accepted although the model says %s (height %d)", s.NameOf(sender), kind, vs, reason, s.Height())
	}
	st.verifyAll("after-commit")
}

// c20NoOpenVote: with nothing to vote on, most vote messages would only hit closed votes; open a
// new conflict instead (some late messages are still wanted).
func (s *Sim) c20NoOpenVote() bool {
	for _, v := range c20st(s).votes {
		if v.phase != c20PhaseClosed {
			return false
		}
	}
	return s.R.Chance("ops", 3, 4)
}

func (s *Sim) opC20Commit() {
	r := s.R
	if s.c20NoOpenVote() {
		s.opC20Detect()
		return
	}
	v, id := s.c20PickVote(c20PhaseCommit)
	if v != nil && v.phase == c20PhaseCommit && len(v.voters) > 0 && r.Chance("ops", 1, 3) {
		// the whole jury commits (each member may be lazy); a common bias gives real majorities
		bias := r.Draw("ops", 3)
		r.Probe("c20_bulk_commit")
		for _, mv := range v.voters {
			if mv.committed || r.Chance("ops", 1, 5) {
				continue
			}
			opt := bias
			if r.Chance("ops", 1, 4) {
				opt = r.Draw("ops", 3)
			}
			s.c20SendCommit(v, id, mv.addr, "listed", opt, nil)
		}
		return
	}
	sender, kind := s.c20PickSender(v)
	opt := r.Draw("ops", 3)
	var override []byte
	if r.Chance("ops", 1, 20) {
		override = []byte{} // a commit that carries no hash at all
	}
	s.c20SendCommit(v, id, sender, kind, opt, override)
}

func (s *Sim) c20SendReveal(v *c20Vote, voteID, sender, kind, variant string, nonce int64, dataHash []byte) {
	r := s.R
	st := c20st(s)
	msg := &conflicttypes.MsgConflictVoteReveal{Creator: sender, VoteID: voteID, Nonce: nonce, Hash: dataHash}
	res := s.msgTx("c20_reveal", []sdk.Msg{msg}, func(ctx sdk.Context) error {
		_, err := s.S.ConflictServer.ConflictVoteReveal(ctx, msg)
		return err
	})
	var mv *c20Voter
	if v != nil {
		mv = v.byAddr[sender]
	}
	reason := "valid"
	switch {
	case v == nil || v.phase == c20PhaseClosed:
		reason = "no-open-vote"
	case v.phase != c20PhaseReveal:
		reason = "wrong-phase"
	case mv == nil:
		reason = "unlisted"
	case !mv.committed:
		reason = "no-commit"
	case mv.revealed:
		reason = "duplicate"
	case !bytes.Equal(conflicttypes.CommitVoteData(nonce, dataHash, sender), mv.commitHash):
		reason = "hash-mismatch"
	}
	vs := "-"
	if v != nil {
		vs = fmt.Sprintf("#%d/%s", v.seq, c20PhaseName(v.phase))
	}
	r.Logf("c20_reveal vote=%s by %s (%s) %s model=%s: %s", vs, s.NameOf(sender), kind, variant, reason, short(res.Err))
	r.Probe("c20_reveal_" + reason)
	if v != nil && v.phase == c20PhaseClosed {
		r.Probe("c20_late_reveal") // after the reveal phase was closed at its deadline epoch start
	}
	if v != nil && v.phase == c20PhaseCommit {
		r.Probe("c20_early_reveal")
	}
	if reason == "hash-mismatch" {
		r.Probe("c20_wrong_hash_reveal")
	}
	if kind != "listed" && reason == "unlisted" {
		r.Probe("c20_unlisted_voter_tried")
	}
	switch reason {
	case "valid":
		r.Check(res.Err == nil, "reveal-verdict", "valid-rejected", "reveal by %s on vote #%d (reveal phase, matches its commit) was rejected: %v", s.NameOf(sender), v.seq, res.Err)
		mv.revealed = true
		switch {
		case bytes.Equal(dataHash, v.hash[c20OptP0]):
			mv.option = c20OptP0
		case bytes.Equal(dataHash, v.hash[c20OptP1]):
			mv.option = c20OptP1
		default:
			mv.option = c20OptNone
		}
		r.Probe(fmt.Sprintf("c20_reveal_counted_opt%d", mv.option))
	case "duplicate":
		// the statement does not say whether a repeated matching reveal is an error; the record
		// must stay as it is either way (verifyAll below)
		if res.Err == nil {
			r.Probe("c20_duplicate_reveal_accepted")
		}
	default:
		r.Check(res.Err != nil, "reveal-verdict", reason+"-accepted", "reveal by %s (%s, %s) on vote %s was accepted although the model says %s (height %d)", s.NameOf(sender), kind, variant, vs, reason, s.Height())
	}
	st.verifyAll("after-reveal")
}

func (s *Sim) opC20Reveal() {
	r := s.R
	if s.c20NoOpenVote() {
		s.opC20Detect()
		return
	}
	v, id := s.c20PickVote(c20PhaseReveal)
	if v != nil && v.phase == c20PhaseReveal && r.Chance("ops", 1, 3) {
		r.Probe("c20_bulk_reveal")
		for _, mv := range v.voters {
			if !mv.committed || mv.revealed || mv.dataHash == nil || r.Chance("ops", 1, 5) {
				continue
			}
			s.c20SendReveal(v, id, mv.addr, "listed", "honest", mv.nonce, mv.dataHash)
		}
		return
	}
	sender, kind := s.c20PickSender(v)
	var mv *c20Voter
	if v != nil {
		mv = v.byAddr[sender]
	}
	nonce := int64(r.Draw64("ops") >> 1)
	dataHash := sigs.HashMsg([]byte("nothing"))
	variant := "blind"
	if v != nil {
		dataHash = v.hash[r.Draw("ops", 3)]
	}
	if mv != nil && mv.committed && mv.dataHash != nil {
		nonce, dataHash, variant = mv.nonce, mv.dataHash, "honest"
		switch r.Draw("ops", 8) {
		case 0:
			nonce++
			variant = "wrong-nonce"
		case 1:
			dataHash = v.hash[(mv.intent+1)%3]
			variant = "switched-option"
		case 2:
			dataHash = append([]byte(nil), dataHash...)
			dataHash[0] ^= 1
			variant = "corrupt-hash"
		}
	} else if v != nil && r.Chance("ops", 1, 2) {
		// replay somebody else's commit secret (the address is part of the commitment)
		for _, o := range v.voters {
			if o.committed && o.dataHash != nil && o.addr != sender {
				nonce, dataHash, variant = o.nonce, o.dataHash, "stolen-secret"
				break
			}
		}
	}
	s.c20SendReveal(v, id, sender, kind, variant, nonce, dataHash)
}

// opC20Epoch: run to the next epoch start (votes only move there), sometimes one block short of it
// so that messages land right before a deadline, sometimes a few blocks past it.
func (s *Sim) opC20Epoch() {
	r := s.R
	bt := s.BlockTimeDefault() / 2
	switch r.Draw("ops", 4) {
	case 0, 1:
		s.AdvanceToNextEpoch(bt)
	case 2:
		target := s.NextEpochBlock()
		for guard := 0; s.Height()+1 < target && guard < 400; guard++ {
			s.NextBlock(bt)
		}
	case 3:
		s.AdvanceToNextEpoch(bt)
		n := 1 + r.Draw("ops", 3)
		for i := 0; i < n; i++ {
			s.NextBlock(bt)
		}
	}
	r.Logf("c20_epoch -> h=%d epochStart=%d next=%d", s.Height(), s.EpochStart(), s.NextEpochBlock())
	r.Op("c20_epoch", "ok")
}

func c20Weights() map[string]int {
	return map[string]int{
		"blocks": 8, "c20_epoch": 14, "c20_detect": 8, "c20_commit": 22, "c20_reveal": 22,
		"stake": 4, "unstake": 1, "freeze": 1, "movestake": 1,
		"delegate": 3, "redelegate": 1, "unbond": 2, "claim": 0,
		"val_delegate": 1, "val_undelegate": 1, "val_redelegate": 0,
		"buy": 2, "autorenew": 0, "addproject": 1, "delproject": 0, "keys": 1, "setpolicy": 0,
		"relay": 3,
	}
}

func runC20(r *simrt.Run) {
	c20Cur = nil
	cfg := mkCfg(r, c20Weights(), 110, 450)
	// a jury needs providers beyond the two in conflict: more providers on fewer chains
	cfg.NProv = 5 + r.Draw("cfg", 5)
	cfg.NSpecs = 1 + r.Draw("cfg", 2)
	// the conflict operations and epoch progress must not be switched off by the swarm scaling
	for _, k := range []string{"c20_epoch", "c20_detect", "c20_commit", "c20_reveal"} {
		if cfg.Weights[k] < c20Weights()[k] {
			cfg.Weights[k] = c20Weights()[k]
		}
	}
	s := NewSim(r, cfg)
	st := c20st(s)
	s.AfterTx = append(s.AfterTx, func(w *World, tx *TxResult) { st.afterTx(tx) })
	s.AfterBlock = append(s.AfterBlock, func(w *World) { st.afterBlock() })
	s.Warmup()
	// extra stakes so that most providers sit on the same chain with different weights
	for i := 0; i < len(s.Providers); i++ {
		r.Step()
		s.OpStakeProvider()
	}
	s.AdvanceToNextEpoch(s.BlockTimeDefault() / 2)
	for i := 0; i < cfg.Steps; i++ {
		s.StepOp()
	}
	// let the open votes run to their end (bounded): phases need epoch starts
	for i := 0; i < 6; i++ {
		open := 0
		for _, v := range st.votes {
			if v.phase != c20PhaseClosed {
				open++
			}
		}
		if open == 0 {
			break
		}
		r.Step()
		s.AdvanceToNextEpoch(s.BlockTimeDefault() / 2)
		r.Logf("drain -> h=%d (open votes %d)", s.Height(), open)
	}
	r.Extra["c20_votes_opened"] += int64(len(st.votes))
	r.Extra["c20_votes_closed"] += int64(st.closed)
}

func c20NonTrivial(r *simrt.Run) bool {
	return r.Ops["c20_detect:ok"] >= 1 && r.Ops["c20_commit:ok"] >= 1 && r.Probes["c20_vote_reached_reveal"] >= 1
}

func init() {
	AddOp("c20_detect", (*Sim).opC20Detect)
	AddOp("c20_commit", (*Sim).opC20Commit)
	AddOp("c20_reveal", (*Sim).opC20Reveal)
	AddOp("c20_epoch", (*Sim).opC20Epoch)
	simrt.Register("C20", &simrt.PropSpec{Fn: runC20, NonTrivial: c20NonTrivial,
		Rule:    "tape-generated histories: response-conflict detections built like the repo's tests (consumer-signed request, two provider-signed replies, real signatures; plus forged variants with one field changed after signing, vault keys, unstaked / identical providers, old and future epochs), commits and reveals by listed and unlisted senders (duplicates, wrong phase, wrong nonce, switched option, corrupted hash, stolen secret, empty commit, reveal without commit, unknown vote id), whole-jury commit/reveal rounds with a common bias, interleaved with stake / unstake / freeze / delegation / relay traffic and with block and epoch progress (runs to, just before and just past epoch starts). Oracle = state-machine model of the statement compared with the ConflictVote records after every transaction and block, with each message's accept/reject verdict, and with the resolution event (type, winner, published tallies) at close using stakes read through the epochstorage getter at the closing block. Non-trivial = a detection accepted, a commit accepted and a vote reached its reveal phase; distinct = (op,outcome,fault) sequence hash",
		Real:    append(append([]string{}, chainReal...), "x/conflict msg server (Detection incl. full ValidateResponseConflict with real secp256k1 signatures, ConflictVoteCommit, ConflictVoteReveal) and its BeginBlock vote handling", "testutil/common.CreateResponseConflictMsgDetectionForTest + x/conflict/types/construct builders for detection payloads"),
		Stubbed: chainStub,
		Assume: append(append([]string{}, chainAssume...),
			"\"counted stake\" is the stake (TotalStake of the stake entry at the vote's start epoch, read through epochstorage.GetStakeEntry at the closing block) of all listed voters; a voter without a stake entry at that epoch counts zero",
			"which option a reveal stands for is decided by the payload the voter committed to (hash of provider 0's reply exchange, of provider 1's, or anything else = none of them), as in the repo's vote tests",
			"the statement is read one-directionally for phase moves (a move happens only at an epoch start at or past the deadline); promptness of the move is not asserted",
			"a repeated reveal that matches the commit is neither required to be accepted nor to be rejected; the record must not change",
			"rewards, slashing and jailing at resolution are out of scope")})
}
