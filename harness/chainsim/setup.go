package chainsim

import (
	"fmt"
	"time"

	sdk "github.com/cosmos/cosmos-sdk/types"
	stakingtypes "github.com/cosmos/cosmos-sdk/x/staking/types"
	planstypes "github.com/lavanet/lava/v5/x/plans/types"
	spectypes "github.com/lavanet/lava/v5/x/spec/types"
	"github.com/lavanet/lava/v5/zz_verif/simrt"
)

// Sim is the world plus the actors and ledgers shared by all chain properties.
type Sim struct {
	*World
	Cfg SimCfg

	Validators []*Account
	Providers  []*ProviderActor
	Consumers  []*ConsumerActor
	Delegators []*Account
	Specs      []spectypes.Spec
	PlanNames  []string
	planVer    map[string]int

	sessionSeq uint64
	// ledgers
	Paid map[string]bool // accepted relay sessions: epochStart|provider|project|chain|session
}

type ProviderActor struct {
	Acc   *Account
	Vault *Account
}

type ConsumerActor struct {
	Acc  *Account // subscription owner (consumer)
	Devs []*Account
}

// SimCfg are the per-run knobs (swarm): sizes, rates, enabled fault kinds.
type SimCfg struct {
	NVal, NProv, NCons, NDeleg, NSpecs, NPlans int
	Steps                                      int
	Weights                                    map[string]int
	Faults                                     map[string]bool
	BlockTime                                  time.Duration
}

const (
	bigBalance = int64(1_000_000_000_000)
)

func mockSpec(name string, minStake int64, shares uint64, cu uint64) spectypes.Spec {
	spec := spectypes.Spec{}
	spec.Name = name
	spec.Index = name
	spec.Enabled = true
	spec.ReliabilityThreshold = 4294967295
	spec.BlockDistanceForFinalizedData = 0
	spec.DataReliabilityEnabled = true
	spec.MinStakeProvider = sdk.NewCoin("ulava", sdk.NewInt(minStake))
	spec.ApiCollections = []*spectypes.ApiCollection{{Enabled: true, CollectionData: spectypes.CollectionData{ApiInterface: "stub", Type: "GET"}, Apis: []*spectypes.Api{{Name: name + "API", ComputeUnits: cu, Enabled: true}}}}
	spec.Shares = shares
	spec.AverageBlockTime = 6000
	spec.AllowedBlockLagForQosSync = 2
	spec.BlocksInFinalizationProof = 3
	return spec
}

func (s *Sim) mkPlan(idx int) planstypes.Plan {
	r := s.R
	price := int64(100 * (1 + r.Draw("cfg", 20)))
	total := uint64(1000 * (1 + r.Draw("cfg", 200)))
	epochLimit := total / uint64(1+r.Draw("cfg", 20))
	if epochLimit == 0 {
		epochLimit = 1
	}
	return planstypes.Plan{
		Index:                    fmt.Sprintf("plan%d", idx),
		Description:              "sim plan",
		Type:                     "rpc",
		Block:                    s.Height(),
		Price:                    s.Coin(price),
		AllowOveruse:             r.Chance("cfg", 1, 2),
		OveruseRate:              uint64(r.Draw("cfg", 20)),
		AnnualDiscountPercentage: uint64(r.Draw("cfg", 40)),
		PlanPolicy: planstypes.Policy{
			TotalCuLimit:       total,
			EpochCuLimit:       epochLimit,
			MaxProvidersToPair: uint64(2 + r.Draw("cfg", 4)),
			GeolocationProfile: 1,
		},
		ProjectsLimit: uint64(1 + r.Draw("cfg", 5)),
	}
}

// NewSim creates the world and its actors. Funding happens here only (before any monitor is
// armed): afterwards no tokens are created by the harness.
func NewSim(r *simrt.Run, cfg SimCfg) *Sim {
	w := NewWorld(r)
	s := &Sim{World: w, Cfg: cfg, Paid: map[string]bool{}, planVer: map[string]int{}}
	// validators
	for i := 0; i < cfg.NVal; i++ {
		v := w.NewAccount(fmt.Sprintf("val%d", i), bigBalance)
		amount := sdk.NewInt(bigBalance / 10)
		msg, err := stakingtypes.NewMsgCreateValidator(sdk.ValAddress(v.Account.Addr), v.PubKey, sdk.NewCoin(w.Denom, amount),
			stakingtypes.Description{}, stakingtypes.NewCommissionRates(sdk.NewDecWithPrec(1, 1), sdk.NewDecWithPrec(1, 1), sdk.NewDecWithPrec(1, 1)), sdk.ZeroInt())
		if err != nil {
			panic(err)
		}
		if _, err := w.S.StakingServer.CreateValidator(w.Ctx, msg); err != nil {
			panic(fmt.Sprintf("create validator: %v", err))
		}
		s.Validators = append(s.Validators, v)
	}
	w.NextBlock(w.BlockTimeDefault()) // staking end-blocker bonds the validators
	// specs
	for i := 0; i < cfg.NSpecs; i++ {
		sp := mockSpec(fmt.Sprintf("SP%c", 'A'+i), int64(1000*(1+r.Draw("cfg", 5))), uint64(1+r.Draw("cfg", 3)), uint64(10*(1+r.Draw("cfg", 10))))
		w.K.Spec.SetSpec(w.Ctx, sp)
		s.Specs = append(s.Specs, sp)
	}
	// plans
	for i := 0; i < cfg.NPlans; i++ {
		p := s.mkPlan(i)
		if err := w.K.Plans.AddPlan(w.Ctx, p, false); err != nil {
			panic(fmt.Sprintf("add plan: %v", err))
		}
		s.PlanNames = append(s.PlanNames, p.Index)
	}
	for i := 0; i < cfg.NProv; i++ {
		p := &ProviderActor{Acc: w.NewAccount(fmt.Sprintf("prov%d", i), bigBalance), Vault: w.NewAccount(fmt.Sprintf("vault%d", i), bigBalance)}
		p.Acc.Vault = &p.Vault.Account
		s.Providers = append(s.Providers, p)
	}
	for i := 0; i < cfg.NCons; i++ {
		c := &ConsumerActor{Acc: w.NewAccount(fmt.Sprintf("cons%d", i), bigBalance)}
		nd := 1 + r.Draw("cfg", 3)
		for j := 0; j < nd; j++ {
			c.Devs = append(c.Devs, w.NewAccount(fmt.Sprintf("dev%d_%d", i, j), 0))
		}
		s.Consumers = append(s.Consumers, c)
	}
	for i := 0; i < cfg.NDeleg; i++ {
		s.Delegators = append(s.Delegators, w.NewAccount(fmt.Sprintf("deleg%d", i), bigBalance))
	}
	w.AdvanceToNextEpoch(w.BlockTimeDefault())
	return s
}

func (s *Sim) pickVal() *Account        { return s.Validators[s.R.Draw("ops", len(s.Validators))] }
func (s *Sim) pickProv() *ProviderActor { return s.Providers[s.R.Draw("ops", len(s.Providers))] }
func (s *Sim) pickCons() *ConsumerActor { return s.Consumers[s.R.Draw("ops", len(s.Consumers))] }
func (s *Sim) pickSpec() spectypes.Spec { return s.Specs[s.R.Draw("ops", len(s.Specs))] }
func (s *Sim) pickPlan() string         { return s.PlanNames[s.R.Draw("ops", len(s.PlanNames))] }
func (s *Sim) pickDeleg() *Account {
	// delegators include vaults and consumers sometimes: anybody may delegate
	n := len(s.Delegators)
	return s.Delegators[s.R.Draw("ops", n)]
}
