package chainsim

// C13 — plan versions used by live subscriptions remain available.
//
// This file also holds the operations shared by the subscription-economy properties C10..C13
// (prefix c13): governance plan add / modify / delete proposals, the "smart" subscription
// generators (extend, upgrade, advance purchase, replaced advance purchase, auto-renew onto a
// modified plan, poor buyers) and the month-scale clock operation.

import (
	"fmt"
	"sort"
	"strings"
	"time"

	"cosmossdk.io/math"
	sdk "github.com/cosmos/cosmos-sdk/types"
	testkeeper "github.com/lavanet/lava/v5/testutil/keeper"
	pairingtypes "github.com/lavanet/lava/v5/x/pairing/types"
	planstypes "github.com/lavanet/lava/v5/x/plans/types"
	subscriptiontypes "github.com/lavanet/lava/v5/x/subscription/types"
	"github.com/lavanet/lava/v5/zz_verif/simrt"
)

// ---------------------------------------------------------------------------------------------
// shared per-run extension state (runs are strictly sequential inside a worker process)
// ---------------------------------------------------------------------------------------------

type c13Ext struct {
	s    *Sim
	Poor []*Account // buyers with little money (created right after NewSim)
	// plan version bookkeeping for vacuity probes only (never used by an oracle):
	// "index@block" -> height at which that version stopped being the latest (superseded/deleted)
	notLatestSince map[string]uint64
	// last successful buy message and its context, for the C12/C10 ledgers
	LastBuy *c13BuyInfo
	// MaxGapH: slow blocks are 1..MaxGapH hours apart (per-run knob; smaller gaps = more blocks per
	// month, i.e. a month spans several fixation stale periods)
	MaxGapH int
}

type c13BuyInfo struct {
	Msg                         *subscriptiontypes.MsgBuy
	Kind                        string // new | extend | upgrade | advance | advance_replace
	Plan                        planstypes.Plan
	PrevSub                     *subscriptiontypes.Subscription // most up-to-date entry before the tx (incl. pending upgrade)
	CreatorBefore, CreatorAfter math.Int
	Err                         error
	Height                      uint64
	NextEpoch                   uint64
	Time                        time.Time
}

var c13Cur *c13Ext

// c13Reset clears all per-run package state; every run function of C10..C13 calls it first.
func c13Reset() {
	c13Cur = nil
	c13AfterBuy = nil
	c13NoInPlace = false
}

func c13ext(s *Sim) *c13Ext {
	if c13Cur == nil || c13Cur.s != s {
		c13Cur = &c13Ext{s: s, notLatestSince: map[string]uint64{}, MaxGapH: 6}
	}
	return c13Cur
}

const c13MaxPlans = 6

// c13AddPoor creates n buyers whose balance covers only a few months of a plan. Must be called
// right after NewSim (before monitors are armed): it is setup-time funding.
func (s *Sim) c13AddPoor(n int) {
	x := c13ext(s)
	for i := 0; i < n; i++ {
		bal := int64(150 + s.R.Draw("cfg", 5000))
		x.Poor = append(x.Poor, s.NewAccount(fmt.Sprintf("poor%d", i), bal))
	}
}

// ---------------------------------------------------------------------------------------------
// observation helpers
// ---------------------------------------------------------------------------------------------

func (s *Sim) c13Current(consumer string) *subscriptiontypes.Subscription {
	res, err := s.K.Subscription.Current(s.Ctx, &subscriptiontypes.QueryCurrentRequest{Consumer: consumer})
	if err != nil || res == nil {
		return nil
	}
	return res.Sub
}

// c13Newest returns the most up-to-date entry of the consumer's subscription: the one that takes
// effect at the next epoch if an upgrade is pending, else the current one.
func (s *Sim) c13Newest(consumer string) *subscriptiontypes.Subscription {
	next := s.NextEpochBlock()
	sub, _, found := s.K.Subscription.GetSubscriptionForBlock(s.Ctx, consumer, next)
	if !found {
		return nil
	}
	return &sub
}

func (s *Sim) c13LatestPlan(idx string) (planstypes.Plan, bool) {
	return s.K.Plans.FindPlan(s.Ctx, idx, s.Height())
}

func (s *Sim) c13LiveConsumers() []*ConsumerActor {
	var out []*ConsumerActor
	for _, c := range s.Consumers {
		if s.c13Newest(c.Acc.Addr) != nil {
			out = append(out, c)
		}
	}
	return out
}

func c13PlanKey(idx string, block uint64) string { return fmt.Sprintf("%s@%d", idx, block) }

func c13SubStr(sb *subscriptiontypes.Subscription) string {
	if sb == nil {
		return "none"
	}
	fut := "-"
	if f := sb.FutureSubscription; f != nil {
		fut = fmt.Sprintf("%s@%d x%d credit=%s", f.PlanIndex, f.PlanBlock, f.DurationBought, f.Credit.Amount)
	}
	return fmt.Sprintf("plan=%s@%d block=%d left=%d bought=%d total=%d credit=%s cu=%d/%d expiry=%s auto=%q future=%s",
		sb.PlanIndex, sb.PlanBlock, sb.Block, sb.DurationLeft, sb.DurationBought, sb.DurationTotal, sb.Credit.Amount,
		sb.MonthCuLeft, sb.MonthCuTotal, time.Unix(int64(sb.MonthExpiryTime), 0).UTC().Format("2006-01-02T15:04:05"), sb.AutoRenewalNextPlan, fut)
}

// ---------------------------------------------------------------------------------------------
// governance operations on plans
// ---------------------------------------------------------------------------------------------

func (s *Sim) c13GenPlan(idx string) planstypes.Plan {
	r := s.R
	price := int64(100 * (1 + r.Draw("ops", 20)))
	total := uint64(1000 * (1 + r.Draw("ops", 200)))
	epochLimit := total / uint64(1+r.Draw("ops", 20))
	if epochLimit == 0 {
		epochLimit = 1
	}
	over := r.Chance("ops", 1, 2)
	rate := uint64(0)
	if over {
		rate = uint64(1 + r.Draw("ops", 19))
	}
	return planstypes.Plan{
		Index: idx, Description: "sim plan", Type: "rpc", Block: s.Height(), Price: s.Coin(price),
		AllowOveruse: over, OveruseRate: rate, AnnualDiscountPercentage: uint64(r.Draw("ops", 40)),
		PlanPolicy:    planstypes.Policy{TotalCuLimit: total, EpochCuLimit: epochLimit, MaxProvidersToPair: uint64(2 + r.Draw("ops", 4)), GeolocationProfile: 1},
		ProjectsLimit: uint64(1 + r.Draw("ops", 5)),
	}
}

// c13MarkNotLatest records (for probes) that the current latest version of idx stops being latest now.
func (s *Sim) c13MarkNotLatest(idx string) {
	if p, ok := s.c13LatestPlan(idx); ok {
		k := c13PlanKey(idx, p.Block)
		if _, seen := c13ext(s).notLatestSince[k]; !seen {
			c13ext(s).notLatestSince[k] = s.Height()
		}
	}
}

func (s *Sim) c13Referenced(idx string) bool {
	for _, c := range s.K.Subscription.GetAllSubscriptionsIndices(s.Ctx) {
		if sb := s.c13Current(c); sb != nil {
			if sb.PlanIndex == idx || (sb.FutureSubscription != nil && sb.FutureSubscription.PlanIndex == idx) {
				return true
			}
		}
	}
	return false
}

func (s *Sim) govTx(kind string, fn func(ctx sdk.Context) error) *TxResult {
	res := s.Tx(kind, nil, fn)
	out := "ok"
	if res.Err != nil {
		out = "rejected"
	}
	s.R.Op(kind, out)
	return res
}

func (s *Sim) opC13PlanAdd() {
	r := s.R
	var dead []string
	for _, n := range s.PlanNames {
		if _, ok := s.c13LatestPlan(n); !ok {
			dead = append(dead, n)
		}
	}
	idx := ""
	switch {
	case len(dead) > 0 && (len(s.PlanNames) >= c13MaxPlans || r.Chance("ops", 1, 2)):
		idx = dead[r.Draw("ops", len(dead))] // re-create a deleted plan index
	case len(s.PlanNames) < c13MaxPlans:
		idx = fmt.Sprintf("plan%d", len(s.PlanNames))
	default:
		s.opC13PlanModify()
		return
	}
	p := s.c13GenPlan(idx)
	res := s.govTx("c13_plan_add", func(ctx sdk.Context) error {
		return testkeeper.SimulatePlansAddProposal(ctx, s.K.Plans, []planstypes.Plan{p}, false)
	})
	if res.Err == nil {
		known := false
		for _, n := range s.PlanNames {
			known = known || n == idx
		}
		if !known {
			s.PlanNames = append(s.PlanNames, idx)
		}
	}
	r.Logf("gov plan add %s price=%s cu=%d projects=%d discount=%d: %s", idx, p.Price.Amount, p.PlanPolicy.TotalCuLimit, p.ProjectsLimit, p.AnnualDiscountPercentage, short(res.Err))
}

func (s *Sim) opC13PlanModify() {
	r := s.R
	idx := s.c13PickGovPlan()
	p, ok := s.c13LatestPlan(idx)
	if !ok {
		r.Op("c13_plan_mod", "skip")
		r.Logf("gov plan modify %s: no live version", idx)
		return
	}
	if p.Block == s.Height() {
		// a new version in the block that created the latest one would overwrite it in place (a
		// version that subscriptions may already have bought would change under them): not generated
		r.Op("c13_plan_mod", "skip")
		r.Logf("gov plan modify %s: skipped (latest version was created in this block)", idx)
		return
	}
	inPlace := r.Chance("ops", 1, 6) && !c13NoInPlace
	what := ""
	if inPlace {
		// modify=true rewrites the same version (price must stay)
		p.ProjectsLimit = uint64(1 + r.Draw("ops", 6))
		p.Description = fmt.Sprintf("sim plan r%d", r.Draw("ops", 100))
		what = "in-place"
	} else {
		switch r.Draw("ops", 5) {
		case 0:
			p.Price = s.Coin(p.Price.Amount.Int64() + int64(100*(1+r.Draw("ops", 5))))
			what = "price-up"
		case 1:
			np := p.Price.Amount.Int64() - int64(100*(1+r.Draw("ops", 5)))
			if np < 100 {
				np = 100
			}
			p.Price = s.Coin(np)
			what = "price-down"
		case 2:
			p.PlanPolicy.TotalCuLimit = uint64(1000 * (1 + r.Draw("ops", 200)))
			p.PlanPolicy.EpochCuLimit = p.PlanPolicy.TotalCuLimit / uint64(1+r.Draw("ops", 20))
			if p.PlanPolicy.EpochCuLimit == 0 {
				p.PlanPolicy.EpochCuLimit = 1
			}
			what = "cu-limits"
		case 3:
			p.ProjectsLimit = uint64(1 + r.Draw("ops", 6))
			what = "projects-limit"
		default:
			p.AnnualDiscountPercentage = uint64(r.Draw("ops", 60))
			what = "discount"
		}
		// the base setup may have produced an overuse combination ValidateBasic refuses
		if p.AllowOveruse && p.OveruseRate == 0 {
			p.OveruseRate = 1
		}
		if !p.AllowOveruse {
			p.OveruseRate = 0
		}
	}
	referenced := s.c13Referenced(idx)
	oldBlock := p.Block
	res := s.govTx("c13_plan_mod", func(ctx sdk.Context) error {
		return testkeeper.SimulatePlansAddProposal(ctx, s.K.Plans, []planstypes.Plan{p}, inPlace)
	})
	if res.Err == nil && !inPlace && oldBlock != s.Height() {
		k := c13PlanKey(idx, oldBlock)
		if _, seen := c13ext(s).notLatestSince[k]; !seen {
			c13ext(s).notLatestSince[k] = s.Height()
		}
		if referenced {
			r.Probe("c13_plan_modified_while_referenced")
		}
	}
	r.Logf("gov plan modify %s (%s) old=@%d price=%s cu=%d projects=%d discount=%d: %s", idx, what, oldBlock, p.Price.Amount, p.PlanPolicy.TotalCuLimit, p.ProjectsLimit, p.AnnualDiscountPercentage, short(res.Err))
}

// c13NoInPlace disables in-place plan rewrites (C12: "the plan total" of a version must be one value).
var c13NoInPlace bool

func (s *Sim) opC13PlanDel() {
	r := s.R
	live := 0
	for _, n := range s.PlanNames {
		if _, ok := s.c13LatestPlan(n); ok {
			live++
		}
	}
	idx := s.c13PickGovPlan()
	if live <= 1 {
		r.Op("c13_plan_del", "skip")
		r.Logf("gov plan del %s: skipped (last live plan)", idx)
		return
	}
	referenced := s.c13Referenced(idx)
	p, had := s.c13LatestPlan(idx)
	res := s.govTx("c13_plan_del", func(ctx sdk.Context) error {
		return testkeeper.SimulatePlansDelProposal(ctx, s.K.Plans, []string{idx})
	})
	if res.Err == nil {
		if had {
			k := c13PlanKey(idx, p.Block)
			if _, seen := c13ext(s).notLatestSince[k]; !seen {
				c13ext(s).notLatestSince[k] = s.NextEpochBlock()
			}
		}
		if referenced {
			r.Probe("c13_plan_deleted_while_referenced")
		}
	}
	r.Logf("gov plan del %s (effective at next epoch %d): %s", idx, s.NextEpochBlock(), short(res.Err))
}

// ---------------------------------------------------------------------------------------------
// subscription operations that know the current state
// ---------------------------------------------------------------------------------------------

// c13Buy sends a MsgBuy and records everything the ledgers (C12, C10) need about it.
func (s *Sim) c13Buy(kind string, creator *Account, consumer *ConsumerActor, plan string, months int, auto, advance bool) *c13BuyInfo {
	x := c13ext(s)
	msg := &subscriptiontypes.MsgBuy{Creator: creator.Addr, Consumer: consumer.Acc.Addr, Index: plan, Duration: uint64(months), AutoRenewal: auto, AdvancePurchase: advance}
	info := &c13BuyInfo{Msg: msg, Kind: kind, Height: s.Height(), NextEpoch: s.NextEpochBlock(), Time: s.Now()}
	info.Plan, _ = s.c13LatestPlan(plan)
	info.PrevSub = s.c13Newest(consumer.Acc.Addr)
	info.CreatorBefore = s.Balance(creator.Account.Addr)
	x.LastBuy = info
	res := s.msgTx("buy", []sdk.Msg{msg}, func(ctx sdk.Context) error {
		_, err := s.S.SubscriptionServer.Buy(ctx, msg)
		return err
	})
	info.Err = res.Err
	info.CreatorAfter = s.Balance(creator.Account.Addr)
	if res.Err == nil {
		s.R.Probe("c13_buy_ok_" + kind)
		if creator.Addr != consumer.Acc.Addr {
			s.R.Probe("c13_buyer_is_not_consumer")
		}
	}
	s.R.Logf("buy[%s] consumer=%s creator=%s plan=%s@%d price=%s months=%d auto=%v advance=%v paid=%s: %s | before: %s", kind, consumer.Acc.Name, creator.Name, plan, info.Plan.Block, info.Plan.Price.Amount, months, auto, advance,
		info.CreatorBefore.Sub(info.CreatorAfter), short(res.Err), c13SubStr(info.PrevSub))
	for _, h := range c13AfterBuy {
		h(s, info)
	}
	return info
}

// c13AfterBuy hooks are called after every buy made through c13Buy (ledgers of C12/C10).
var c13AfterBuy []func(s *Sim, info *c13BuyInfo)

func (s *Sim) c13Months() int {
	r := s.R
	switch r.Draw("ops", 10) {
	case 0:
		return 12
	case 1:
		return 13
	case 2:
		return 11
	default:
		return 1 + r.Draw("ops", 3)
	}
}

func (s *Sim) c13Creator(c *ConsumerActor) *Account {
	r := s.R
	x := c13ext(s)
	switch r.Draw("ops", 8) {
	case 0:
		return s.pickCons().Acc // somebody else pays
	case 1:
		if len(x.Poor) > 0 {
			return x.Poor[r.Draw("ops", len(x.Poor))]
		}
	}
	return c.Acc
}

// opC13Buy: classifies the purchase by the current state so that all kinds occur often.
func (s *Sim) opC13Buy() {
	r := s.R
	c := s.pickCons()
	cur := s.c13Newest(c.Acc.Addr)
	if cur == nil {
		creator := s.c13Creator(c)
		s.c13Buy("new", creator, c, s.pickPlan(), s.c13Months(), r.Chance("ops", 1, 2), false)
		return
	}
	switch r.Draw("ops", 4) {
	case 0:
		s.c13Extend(c, cur)
	case 1:
		s.c13Upgrade(c, cur)
	default:
		s.c13Advance(c, cur)
	}
}

func (s *Sim) c13Extend(c *ConsumerActor, cur *subscriptiontypes.Subscription) {
	creator := s.c13Creator(c)
	s.c13Buy("extend", creator, c, cur.PlanIndex, s.c13Months(), s.R.Chance("ops", 1, 4), false)
}

func (s *Sim) opC13Extend() {
	live := s.c13LiveConsumers()
	if len(live) == 0 {
		s.opC13Buy()
		return
	}
	c := live[s.R.Draw("ops", len(live))]
	s.c13Extend(c, s.c13Newest(c.Acc.Addr))
}

// c13Upgrade buys a different plan index, preferring one at least as expensive as the current.
func (s *Sim) c13Upgrade(c *ConsumerActor, cur *subscriptiontypes.Subscription) {
	r := s.R
	curPlan, curOK := s.K.Plans.FindPlan(s.Ctx, cur.PlanIndex, cur.PlanBlock)
	var pricier, other []string
	for _, n := range s.PlanNames {
		if n == cur.PlanIndex {
			continue
		}
		p, ok := s.c13LatestPlan(n)
		if !ok {
			continue
		}
		if !curOK || !p.Price.Amount.LT(curPlan.Price.Amount) {
			pricier = append(pricier, n)
		} else {
			other = append(other, n)
		}
	}
	target := ""
	switch {
	case len(pricier) > 0 && (len(other) == 0 || !r.Chance("ops", 1, 5)):
		target = pricier[r.Draw("ops", len(pricier))]
	case len(other) > 0:
		target = other[r.Draw("ops", len(other))] // cheaper: must be refused
	default:
		s.c13Extend(c, cur)
		return
	}
	creator := c.Acc
	if r.Chance("ops", 1, 5) {
		creator = s.c13Creator(c)
	}
	s.c13Buy("upgrade", creator, c, target, s.c13Months(), r.Chance("ops", 1, 4), false)
}

func (s *Sim) opC13Upgrade() {
	live := s.c13LiveConsumers()
	if len(live) == 0 {
		s.opC13Buy()
		return
	}
	c := live[s.R.Draw("ops", len(live))]
	s.c13Upgrade(c, s.c13Newest(c.Acc.Addr))
}

// c13Advance makes an advance purchase; when one exists it usually tries a pricier replacement.
func (s *Sim) c13Advance(c *ConsumerActor, cur *subscriptiontypes.Subscription) {
	r := s.R
	creator := s.c13Creator(c)
	plan := s.pickPlan()
	months := s.c13Months()
	kind := "advance"
	if f := cur.FutureSubscription; f != nil {
		kind = "advance_replace"
		if !r.Chance("ops", 1, 4) {
			// look for a (plan, months) whose total exceeds the credit of the existing one
			for try := 0; try < 4; try++ {
				p, ok := s.c13LatestPlan(plan)
				if ok && p.Price.Amount.MulRaw(int64(months)).GT(f.Credit.Amount) {
					break
				}
				if months < 12 {
					months += 1 + r.Draw("ops", 3)
				} else {
					plan = s.pickPlan()
				}
			}
		}
	}
	s.c13Buy(kind, creator, c, plan, months, false, true)
}

func (s *Sim) opC13Advance() {
	live := s.c13LiveConsumers()
	if len(live) == 0 {
		s.opC13Buy()
		return
	}
	c := live[s.R.Draw("ops", len(live))]
	s.c13Advance(c, s.c13Newest(c.Acc.Addr))
}

// opC13PoorBuy: a buyer with little money buys a short auto-renewing subscription for a consumer.
func (s *Sim) opC13PoorBuy() {
	r := s.R
	x := c13ext(s)
	if len(x.Poor) == 0 {
		s.opC13Buy()
		return
	}
	buyer := x.Poor[r.Draw("ops", len(x.Poor))]
	c := s.pickCons()
	cur := s.c13Newest(c.Acc.Addr)
	plan := s.pickPlan()
	kind := "new"
	if cur != nil {
		plan = cur.PlanIndex
		kind = "extend"
	}
	s.c13Buy(kind, buyer, c, plan, 1, true, false)
}

// opC13AutoRenew toggles auto-renewal; enabling usually names a plan (often a modified one).
func (s *Sim) opC13AutoRenew() {
	r := s.R
	live := s.c13LiveConsumers()
	if len(live) == 0 {
		s.opC13Buy()
		return
	}
	c := live[r.Draw("ops", len(live))]
	cur := s.c13Current(c.Acc.Addr)
	creator := c.Acc
	if cur != nil && cur.Creator != c.Acc.Addr && r.Chance("ops", 1, 2) {
		if a, ok := s.ByAddr[cur.Creator]; ok {
			creator = a
		}
	}
	msg := &subscriptiontypes.MsgAutoRenewal{Creator: creator.Addr, Consumer: c.Acc.Addr, Enable: !r.Chance("ops", 1, 3)}
	if msg.Enable && r.Chance("ops", 2, 3) {
		msg.Index = s.pickPlan()
	}
	res := s.msgTx("autorenew", []sdk.Msg{msg}, func(ctx sdk.Context) error {
		_, err := s.S.SubscriptionServer.AutoRenewal(ctx, msg)
		return err
	})
	if res.Err == nil && msg.Enable {
		r.Probe("c13_autorenew_enabled")
	}
	r.Logf("autorenew consumer=%s by=%s enable=%v plan=%q: %s", c.Acc.Name, creator.Name, msg.Enable, msg.Index, short(res.Err))
}

// c13SlowBlocks advances block time by about d with blocks 1..MaxGapH hours apart.
func (s *Sim) c13SlowBlocks(d time.Duration) {
	maxGap := c13ext(s).MaxGapH
	end := s.Now().Add(d)
	for guard := 0; s.Now().Before(end) && guard < 4000; guard++ {
		s.NextBlock(time.Duration(1+s.R.Draw("ops", maxGap)) * time.Hour)
	}
}

// c13PickGovPlan: governance acts on a random plan, or (half of the time) on a plan that a live
// subscription uses or will auto-renew onto.
func (s *Sim) c13PickGovPlan() string {
	r := s.R
	if r.Chance("ops", 1, 2) {
		var cand []string
		for _, c := range s.Consumers {
			if sb := s.c13Newest(c.Acc.Addr); sb != nil {
				cand = append(cand, sb.PlanIndex)
				if sb.AutoRenewalNextPlan != subscriptiontypes.AUTO_RENEWAL_PLAN_NONE {
					cand = append(cand, sb.AutoRenewalNextPlan)
				}
			}
		}
		if len(cand) > 0 {
			return cand[r.Draw("ops", len(cand))]
		}
	}
	return s.pickPlan()
}

// opC13Months lets the chain run slowly (blocks 1..6 h apart) for 3..35 days.
func (s *Sim) opC13Months() {
	r := s.R
	days := 3 + r.Draw("ops", 33)
	h0 := s.Height()
	s.c13SlowBlocks(time.Duration(days) * 24 * time.Hour)
	r.Fault("slow_chain_weeks")
	r.Op("c13_months", "ok")
	r.Logf("slow chain %dd: +%d blocks -> h=%d t=%s %s", days, s.Height()-h0, s.Height(), s.Now().Format(time.RFC3339), s.c13StateLine())
}

// opC13ToExpiry runs slow blocks until just after the earliest pending month expiry of any
// subscription (at most 32 days).
func (s *Sim) opC13ToExpiry() {
	r := s.R
	var first uint64
	for _, c := range s.K.Subscription.GetAllSubscriptionsIndices(s.Ctx) {
		if sb := s.c13Newest(c); sb != nil && (first == 0 || sb.MonthExpiryTime < first) {
			first = sb.MonthExpiryTime
		}
	}
	h0 := s.Height()
	if first == 0 {
		s.c13SlowBlocks(24 * time.Hour)
	} else {
		end := time.Unix(int64(first), 0)
		for guard := 0; s.Now().Before(end) && guard < 1500; guard++ {
			left := end.Sub(s.Now())
			gap := time.Duration(1+r.Draw("ops", c13ext(s).MaxGapH)) * time.Hour
			if left < gap && r.Chance("ops", 1, 2) {
				gap = left // land exactly on the expiry second
				if gap <= 0 {
					gap = time.Second
				}
			}
			s.NextBlock(gap)
		}
	}
	r.Fault("slow_chain_weeks")
	r.Op("c13_to_expiry", "ok")
	r.Logf("slow chain to next month expiry: +%d blocks -> h=%d t=%s %s", s.Height()-h0, s.Height(), s.Now().Format(time.RFC3339), s.c13StateLine())
}

// c13StateLine summarises balances and subscriptions (logged so that a divergence between two
// executions of the same tape shows up in the trace hash).
func (s *Sim) c13StateLine() string {
	out := fmt.Sprintf("| subscription-module=%s supply=%s subs:", s.ModuleBalance(subscriptiontypes.ModuleName), s.Supply())
	for _, c := range s.Consumers {
		if sb := s.c13Newest(c.Acc.Addr); sb != nil {
			out += fmt.Sprintf(" %s=%s@%d/left%d/credit%s/cu%d", c.Acc.Name, sb.PlanIndex, sb.PlanBlock, sb.DurationLeft, sb.Credit.Amount, sb.MonthCuLeft)
		}
	}
	return out
}

// c13Weights is the workload shared by C10..C13: the base mix with the blind subscription
// generators replaced by the state-aware ones, plus governance and the month-scale clock.
func c13Weights() map[string]int {
	w := baseWeights()
	w["buy"] = 0
	w["autorenew"] = 0
	for k, v := range map[string]int{
		"blocks": 14, "c13_months": 7, "c13_to_expiry": 7,
		"c13_buy": 8, "c13_extend": 3, "c13_upgrade": 4, "c13_advance": 5, "c13_poor_buy": 3, "c13_autorenew": 4,
		"c13_plan_add": 2, "c13_plan_mod": 5, "c13_plan_del": 2,
		"relay": 18, "stake": 6, "delegate": 3, "redelegate": 1, "unbond": 1, "claim": 2,
		"val_delegate": 1, "val_undelegate": 1, "val_redelegate": 1, "keys": 2, "setpolicy": 2,
	} {
		w[k] = v
	}
	return w
}

// c13Warmup: providers stake, every consumer buys through the recording path, projects are added.
func (s *Sim) c13Warmup() {
	r := s.R
	n := len(s.Providers) + r.Draw("ops", len(s.Providers))
	for i := 0; i < n; i++ {
		r.Step()
		s.OpStakeProvider()
	}
	for _, c := range s.Consumers {
		r.Step()
		creator := s.c13Creator(c)
		s.c13Buy("new", creator, c, s.pickPlan(), s.c13Months(), r.Chance("ops", 1, 2), false)
	}
	for i := 0; i < len(s.Consumers); i++ {
		r.Step()
		s.OpAddProject()
	}
	s.AdvanceToNextEpoch(s.BlockTimeDefault() / 2)
	s.AdvanceToNextEpoch(s.BlockTimeDefault() / 2)
}

// ---------------------------------------------------------------------------------------------
// C13 oracles
// ---------------------------------------------------------------------------------------------

// errors that say "the plan version a subscription references cannot be found"
var c13PlanMissingTexts = []string{
	"failed to find existing subscription plan",
	"failed to find plan for current subscription",
	"could not future subscription's plan",
}

func c13IsPlanMissing(err error) bool {
	if err == nil {
		return false
	}
	e := err.Error()
	for _, t := range c13PlanMissingTexts {
		if strings.Contains(e, t) {
			return true
		}
	}
	return false
}

// c13Check is r.Check that also tells the caller whether to go on (a muted known finding returns).
func c13Check(r *simrt.Run, ok bool, class, sig, format string, a ...interface{}) bool {
	r.Check(ok, class, sig, format, a...)
	return ok
}

// c13AbortIfMuted is r.Check that ends the run quietly when the violation is muted by a
// known-finding entry: the state is then outside what the remaining oracles can judge (every
// later failure would be a consequence of the same defect).
func c13AbortIfMuted(r *simrt.Run, ok bool, class, sig, format string, a ...interface{}) {
	if !c13Check(r, ok, class, sig, format, a...) {
		r.Abort()
	}
}

type c13Mon struct {
	s    *Sim
	prev map[string]subscriptiontypes.Subscription // consumer -> newest subscription entry seen at the last observation
	done map[string]uint64                         // consumer -> month expiry already handled
	// probesOnly: used by C10/C11 runs to count the interesting situations (renewal failed, advance
	// purchase activated, ...) without evaluating the C13 oracles
	probesOnly bool
}

// checkRefs: every live subscription (current entry and the entry pending for the next epoch) and
// its advance purchase reference a plan version that FindPlan still returns.
func (m *c13Mon) checkRefs(where string) {
	s, r := m.s, m.s.R
	if m.probesOnly {
		seen := map[string]subscriptiontypes.Subscription{}
		for _, consumer := range s.K.Subscription.GetAllSubscriptionsIndices(s.Ctx) {
			if nx := s.c13Newest(consumer); nx != nil {
				seen[consumer] = *nx
			}
		}
		m.prev = seen
		return
	}
	x := c13ext(s)
	stale := s.K.Epochstorage.BlocksToSaveRaw(s.Ctx)
	idxs := s.K.Subscription.GetAllSubscriptionsIndices(s.Ctx)
	seen := map[string]subscriptiontypes.Subscription{}
	for _, consumer := range idxs {
		var views []*subscriptiontypes.Subscription
		if cur := s.c13Current(consumer); cur != nil {
			views = append(views, cur)
		}
		if nx := s.c13Newest(consumer); nx != nil {
			// month boundaries act on the newest entry (an upgrade pending for the next epoch has
			// already replaced the month timer of the entry still in force)
			seen[consumer] = *nx
			if len(views) == 0 || nx.Block != views[0].Block {
				views = append(views, nx)
			}
		}
		for _, sb := range views {
			_, ok := s.K.Plans.FindPlan(s.Ctx, sb.PlanIndex, sb.PlanBlock)
			c13AbortIfMuted(r, ok, "plan-version-unavailable", "subscription", "%s: FindPlan(%s, %d) fails for the live subscription of %s at height %d (stale period %d blocks; version stopped being latest at height %d): %s",
				where, sb.PlanIndex, sb.PlanBlock, s.NameOf(consumer), s.Height(), stale, x.notLatestSince[c13PlanKey(sb.PlanIndex, sb.PlanBlock)], c13SubStr(sb))
			if since, gone := x.notLatestSince[c13PlanKey(sb.PlanIndex, sb.PlanBlock)]; gone && since <= s.Height() {
				r.Probe("c13_ref_nonlatest")
				if since+stale < s.Height() {
					r.Probe("c13_ref_nonlatest_past_stale_period")
				}
			}
			if f := sb.FutureSubscription; f != nil {
				_, ok := s.K.Plans.FindPlan(s.Ctx, f.PlanIndex, f.PlanBlock)
				c13AbortIfMuted(r, ok, "plan-version-unavailable", "future-subscription", "%s: FindPlan(%s, %d) fails for the advance purchase of %s at height %d: %s",
					where, f.PlanIndex, f.PlanBlock, s.NameOf(consumer), s.Height(), c13SubStr(sb))
				if since, gone := x.notLatestSince[c13PlanKey(f.PlanIndex, f.PlanBlock)]; gone && since+stale < s.Height() {
					r.Probe("c13_future_ref_nonlatest_past_stale_period")
				}
			}
		}
	}
	m.prev = seen
}

// afterBlock: references + what the month expiry did with subscriptions that had an advance purchase.
func (m *c13Mon) afterBlock() {
	s, r := m.s, m.s.R
	prev := m.prev
	now := uint64(s.Now().Unix())
	m.checkRefs("block")
	keys := make([]string, 0, len(prev))
	for k := range prev {
		keys = append(keys, k)
	}
	sort.Strings(keys)
	for _, consumer := range keys {
		p := prev[consumer]
		if p.MonthExpiryTime > now || m.done[consumer] == p.MonthExpiryTime {
			continue
		}
		m.done[consumer] = p.MonthExpiryTime
		// this subscription's month expired in this block's BeginBlock
		cur := s.c13Newest(consumer)
		if p.DurationLeft == 1 && p.FutureSubscription != nil {
			// the paid advance purchase must take over: its plan version was referenced
			ok := cur != nil && cur.PlanIndex == p.FutureSubscription.PlanIndex && cur.PlanBlock == p.FutureSubscription.PlanBlock
			r.Check(ok || m.probesOnly, "advance-purchase-lost", "expiry", "subscription of %s expired at height %d with a paid advance purchase %s@%d x%d but afterwards it is: %s",
				s.NameOf(consumer), s.Height(), p.FutureSubscription.PlanIndex, p.FutureSubscription.PlanBlock, p.FutureSubscription.DurationBought, c13SubStr(cur))
			r.Probe("c13_advance_activated")
		}
		if p.DurationLeft == 1 && p.FutureSubscription == nil && p.AutoRenewalNextPlan != subscriptiontypes.AUTO_RENEWAL_PLAN_NONE {
			if cur != nil && cur.Block > p.Block {
				r.Probe("c13_renewed")
				if cur.PlanIndex != p.PlanIndex || cur.PlanBlock != p.PlanBlock {
					r.Probe("c13_renew_onto_other_version")
				}
			} else {
				r.Probe("c13_renew_failed")
				if a, known := s.ByAddr[p.Creator]; known {
					if plan, ok := s.c13LatestPlan(p.AutoRenewalNextPlan); ok && s.Balance(a.Account.Addr).LT(plan.Price.Amount) {
						r.Probe("c13_renew_failed_no_funds")
					}
				}
			}
		}
		if p.DurationLeft == 1 && p.FutureSubscription == nil && p.AutoRenewalNextPlan == subscriptiontypes.AUTO_RENEWAL_PLAN_NONE {
			r.Probe("c13_expired")
		}
	}
}

func (m *c13Mon) afterTx(tx *TxResult) {
	r := m.s.R
	if m.probesOnly {
		if tx.Err == nil {
			m.checkRefs("tx")
		}
		return
	}
	r.Check(!c13IsPlanMissing(tx.Err), "plan-missing-error", tx.Name, "transaction %s failed because a referenced plan version is gone: %v", tx.Name, tx.Err)
	if tx.Err == nil {
		m.checkRefs("tx:" + tx.Name)
	}
}

// pairing for every consumer with a live subscription never fails for a missing plan
func (m *c13Mon) checkPairing() {
	s, r := m.s, m.s.R
	if len(s.Specs) == 0 {
		return
	}
	for _, c := range s.Consumers {
		if s.c13Current(c.Acc.Addr) == nil {
			continue
		}
		spec := s.Specs[0].Index
		_, err := s.K.Pairing.GetPairing(sdk.WrapSDKContext(s.Ctx), &pairingtypes.QueryGetPairingRequest{ChainID: spec, Client: c.Acc.Addr})
		r.Check(!c13IsPlanMissing(err), "plan-missing-error", "pairing-query", "GetPairing(%s, %s) at height %d fails because the subscription's plan version is gone: %v", spec, c.Acc.Name, s.Height(), err)
	}
}

// c13AttachProbes counts subscription life-cycle situations in runs of other properties.
func (s *Sim) c13AttachProbes() {
	m := &c13Mon{s: s, prev: map[string]subscriptiontypes.Subscription{}, done: map[string]uint64{}, probesOnly: true}
	s.AfterTx = append(s.AfterTx, func(w *World, tx *TxResult) { m.afterTx(tx) })
	s.AfterBlock = append(s.AfterBlock, func(w *World) { m.afterBlock() })
}

func runC13(r *simrt.Run) {
	c13Reset()
	w := c13Weights()
	w["c13_plan_mod"], w["c13_plan_del"], w["c13_autorenew"], w["c13_poor_buy"] = 8, 3, 6, 4
	w["relay"], w["stake"] = 10, 4
	cfg := mkCfg(r, w, 70, 300)
	cfg.NPlans = 2 + r.Draw("cfg", 2)
	s := NewSim(r, cfg)
	c13ext(s).MaxGapH = []int{2, 3, 6}[r.Draw("cfg", 3)]
	s.c13AddPoor(1 + r.Draw("cfg", 2))
	s.HaltOnBlockPanic = true
	m := &c13Mon{s: s, prev: map[string]subscriptiontypes.Subscription{}, done: map[string]uint64{}}
	s.AfterTx = append(s.AfterTx, func(w *World, tx *TxResult) { m.afterTx(tx) })
	s.AfterBlock = append(s.AfterBlock, func(w *World) { m.afterBlock() })
	s.c13Warmup()
	for i := 0; i < cfg.Steps; i++ {
		s.StepOp()
		m.checkPairing()
	}
	// let the last references age beyond the stale period
	r.Step()
	s.opC13Months()
	s.opC13Months()
	m.checkPairing()
}

func c13NonTrivial(r *simrt.Run) bool {
	gov := r.Ops["c13_plan_mod:ok"] + r.Ops["c13_plan_del:ok"]
	return r.OKOps() >= 10 && gov >= 1 && r.Probes["c13_ref_nonlatest"] >= 1
}

func init() {
	AddOp("c13_plan_add", (*Sim).opC13PlanAdd)
	AddOp("c13_plan_mod", (*Sim).opC13PlanModify)
	AddOp("c13_plan_del", (*Sim).opC13PlanDel)
	AddOp("c13_buy", (*Sim).opC13Buy)
	AddOp("c13_extend", (*Sim).opC13Extend)
	AddOp("c13_upgrade", (*Sim).opC13Upgrade)
	AddOp("c13_advance", (*Sim).opC13Advance)
	AddOp("c13_poor_buy", (*Sim).opC13PoorBuy)
	AddOp("c13_autorenew", (*Sim).opC13AutoRenew)
	AddOp("c13_months", (*Sim).opC13Months)
	AddOp("c13_to_expiry", (*Sim).opC13ToExpiry)
	simrt.Register("C13", &simrt.PropSpec{Fn: runC13, NonTrivial: c13NonTrivial,
		Rule: "tape-generated multi-actor histories over months of slow blocks (1..2/3/6 h apart depending on the run, never one giant gap; a month spans one to several fixation stale periods): governance plan add / new version (price up/down, CU limits, projects limit, annual discount, in-place rewrite) / delete proposals at arbitrary blocks, interleaved with subscription buy / extend / upgrade / advance purchase (and its replacement) / auto-renew toggles onto other or modified plans / poor buyers whose renewal fails, relay payments and staking; after every block and every accepted transaction FindPlan(PlanIndex, PlanBlock) must succeed for every live subscription entry (current and pending-next-epoch) and its advance purchase; no transaction or pairing query may fail with a referenced-plan-not-found error; a paid advance purchase must take over at expiry; a Begin/EndBlock panic is a violation. governance prefers plans that live subscriptions use or will renew onto. Non-trivial = >=10 accepted operations, >=1 accepted plan modification/deletion and >=1 observation of a live subscription that references a plan version which is no longer the latest",
		Real: chainReal, Stubbed: chainStub, Assume: append([]string{"governance proposals are executed by calling the plans proposal handler directly inside an atomic transaction (no voting period)", "consecutive blocks are at most 12 h apart"}, chainAssume...)})
}
