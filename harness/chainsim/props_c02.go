package chainsim

import (
	"fmt"
	"sort"
	"strings"

	sdk "github.com/cosmos/cosmos-sdk/types"
	stakingtypes "github.com/cosmos/cosmos-sdk/x/staking/types"
	testkeeper "github.com/lavanet/lava/v5/testutil/keeper"
	epochstoragetypes "github.com/lavanet/lava/v5/x/epochstorage/types"
	pairingtypes "github.com/lavanet/lava/v5/x/pairing/types"
	planstypes "github.com/lavanet/lava/v5/x/plans/types"
	projectstypes "github.com/lavanet/lava/v5/x/projects/types"
	spectypes "github.com/lavanet/lava/v5/x/spec/types"
	"github.com/lavanet/lava/v5/zz_verif/simrt"
)

// ---------- C02: pairing lists are valid, distinct and bounded ----------
//
// World: the base simulator plus one spec with several API collections (mandatory base
// collection, two add-ons, an optional api interface, extensions), optionally one static-provider
// spec; providers stake with endpoints that support different subsets of interfaces / add-ons /
// extensions in different geolocations; policies at plan (gov proposal), subscription and admin
// level with geolocation profiles, max-providers, selected-provider modes and chain requirements.
//
// Oracle (after every epoch start and after tape-chosen mid-epoch points), for every developer key
// that resolves to a project x every dynamic spec: the five clauses of the statement. What is
// *required* is read from the chain's own effective ("strictest") policy; whether a provider
// *meets* it is decided by c02Eligible below, written from the statement and the policy / stake
// entry types only (it never calls lava's filters).

const (
	c02Chain  = "C2X"
	c02Static = "C2S"
)

var (
	c02Base   = spectypes.CollectionData{ApiInterface: "jsonrpc", Type: "POST", AddOn: ""}
	c02Trace  = spectypes.CollectionData{ApiInterface: "jsonrpc", Type: "POST", AddOn: "trace"}
	c02Txpool = spectypes.CollectionData{ApiInterface: "jsonrpc", Type: "POST", AddOn: "txpool"}
	c02Rest   = spectypes.CollectionData{ApiInterface: "rest", Type: "GET", AddOn: "rest"} // optional api interface
)

type c02State struct {
	s         *Sim
	lastEpoch uint64
	// ledger of acknowledged explicit freezes: "provider|chain" -> height of the freeze tx; cleared by
	// any later acknowledged unfreeze / stake / unstake / move-stake touching that provider
	frozen map[string]uint64
	sweeps int
	// height of the last accepted in-place plan modification (it changes, retroactively for the
	// running epoch, the policy that VerifyPairing reads, while the per-block pairing relay cache may
	// still hold the pairing computed before it)
	planModHeight uint64
	nonEmpty      int
	newPlanSeq    int
}

// one run at a time per worker process
var c02Cur *c02State

func c02Ext(names ...string) []*spectypes.Extension {
	out := []*spectypes.Extension{}
	for _, n := range names {
		out = append(out, &spectypes.Extension{Name: n, CuMultiplier: 1})
	}
	return out
}

func c02RichSpec(r *simrt.Run) spectypes.Spec {
	sp := mockSpec(c02Chain, int64(1000*(1+r.Draw("cfg", 5))), uint64(1+r.Draw("cfg", 3)), uint64(10*(1+r.Draw("cfg", 10))))
	api := []*spectypes.Api{{Name: c02Chain + "API", ComputeUnits: 10, Enabled: true}}
	sp.ApiCollections = []*spectypes.ApiCollection{
		{Enabled: true, CollectionData: c02Base, Apis: api, Extensions: c02Ext("archive", "debug")},
		{Enabled: true, CollectionData: c02Trace, Extensions: c02Ext("archive", "debug")},
		{Enabled: true, CollectionData: c02Txpool, Extensions: c02Ext("archive", "debug")},
		{Enabled: true, CollectionData: c02Rest, Extensions: c02Ext("archive")},
	}
	return sp
}

func c02SpecByID(s *Sim, id string) (spectypes.Spec, bool) {
	for _, sp := range s.Specs {
		if sp.Index == id {
			return sp, true
		}
	}
	return spectypes.Spec{}, false
}

// ---------- generators ----------

var c02ProviderGeos = []int32{1, 2, 3, 4, 5, 8, 7, 64, 1 | 64}

func c02Subset(r *simrt.Run, from []string) []string {
	out := []string{}
	for _, x := range from {
		if r.Chance("ops", 1, 2) {
			out = append(out, x)
		}
	}
	return out
}

// c02Endpoints builds endpoints for the rich spec: per geolocation zone one jsonrpc endpoint with a
// random subset of add-ons and extensions, sometimes a second jsonrpc endpoint with a different
// subset (so that an add-on and an extension may be offered by *different* endpoints only),
// sometimes an endpoint for the optional "rest" interface.
func c02Endpoints(s *Sim, geo int32) []epochstoragetypes.Endpoint {
	r := s.R
	var eps []epochstoragetypes.Endpoint
	for _, g := range planstypes.GetGeolocationsFromUint(geo) {
		eps = append(eps, epochstoragetypes.Endpoint{IPPORT: fmt.Sprintf("10.0.0.%d:1", int32(g)), Geolocation: int32(g),
			ApiInterfaces: []string{"jsonrpc"}, Addons: c02Subset(r, []string{"trace", "txpool"}), Extensions: c02Subset(r, []string{"archive", "debug"})})
		if r.Chance("ops", 1, 4) {
			eps = append(eps, epochstoragetypes.Endpoint{IPPORT: fmt.Sprintf("10.0.0.%d:2", int32(g)), Geolocation: int32(g),
				ApiInterfaces: []string{"jsonrpc"}, Addons: c02Subset(r, []string{"trace", "txpool"}), Extensions: c02Subset(r, []string{"archive", "debug"})})
		}
		if r.Chance("ops", 1, 3) {
			eps = append(eps, epochstoragetypes.Endpoint{IPPORT: fmt.Sprintf("10.0.0.%d:3", int32(g)), Geolocation: int32(g),
				ApiInterfaces: []string{"rest"}, Extensions: c02Subset(r, []string{"archive"})})
		}
	}
	if r.Chance("ops", 1, 25) && len(eps) > 0 {
		eps[0].Addons = append(eps[0].Addons, "nosuchaddon") // rejected by the chain
	}
	return eps
}

func c02EpString(eps []epochstoragetypes.Endpoint) string {
	var b strings.Builder
	for i, e := range eps {
		if i > 0 {
			b.WriteString(" ")
		}
		fmt.Fprintf(&b, "g%d:%s", e.Geolocation, strings.Join(e.ApiInterfaces, "+"))
		if len(e.Addons) > 0 {
			b.WriteString("/" + strings.Join(e.Addons, "+"))
		}
		if len(e.Extensions) > 0 {
			b.WriteString("#" + strings.Join(e.Extensions, "+"))
		}
	}
	return b.String()
}

func (s *Sim) c02PickSpec() spectypes.Spec {
	if s.R.Draw("ops", 5) < 3 {
		if sp, ok := c02SpecByID(s, c02Chain); ok {
			return sp
		}
	}
	return s.pickSpec()
}

func (s *Sim) opC02Stake() {
	r := s.R
	p := s.pickProv()
	spec := s.c02PickSpec()
	amount := spec.MinStakeProvider.Amount.Int64() * int64(1+r.Draw("ops", 6))
	if r.Chance("ops", 1, 12) {
		amount = spec.MinStakeProvider.Amount.Int64() - 1
	}
	geo := c02ProviderGeos[r.Draw("ops", len(c02ProviderGeos))]
	var eps []epochstoragetypes.Endpoint
	if spec.Index == c02Chain {
		eps = c02Endpoints(s, geo)
	} else {
		eps = s.endpoints(spec, geo)
	}
	val := s.pickVal()
	msg := &pairingtypes.MsgStakeProvider{
		Creator: p.Vault.Addr, Validator: sdk.ValAddress(val.Account.Addr).String(), ChainID: spec.Index,
		Amount: s.Coin(amount), Geolocation: geo, Endpoints: eps,
		DelegateLimit: s.Coin(0), DelegateCommission: uint64(r.Draw("ops", 101)), Address: p.Acc.Addr,
		Description: stakingtypes.NewDescription("prov", "iden", "web", "sec", "details"),
	}
	res := s.msgTx("c02stake", []sdk.Msg{msg}, func(ctx sdk.Context) error {
		_, err := s.S.PairingServer.StakeProvider(ctx, msg)
		return err
	})
	if res.Err == nil && c02Cur != nil {
		delete(c02Cur.frozen, p.Acc.Addr+"|"+spec.Index)
	}
	r.Logf("c02stake %s on %s amount=%d geo=%d eps=[%s]: %s", p.Acc.Name, spec.Index, amount, geo, c02EpString(eps), short(res.Err))
}

// opC02Freeze is the base freeze/unfreeze operation plus a ledger of acknowledged freezes.
func (s *Sim) opC02Freeze() {
	r := s.R
	p := s.pickProv()
	spec := s.c02PickSpec()
	key := p.Acc.Addr + "|" + spec.Index
	if !r.Chance("ops", 2, 5) {
		msg := &pairingtypes.MsgFreezeProvider{Creator: p.Acc.Addr, ChainIds: []string{spec.Index}, Reason: "sim"}
		res := s.msgTx("c02freeze", []sdk.Msg{msg}, func(ctx sdk.Context) error {
			_, err := s.S.PairingServer.FreezeProvider(ctx, msg)
			return err
		})
		if res.Err == nil && c02Cur != nil {
			if _, ok := c02Cur.frozen[key]; !ok {
				c02Cur.frozen[key] = s.Height()
			}
		}
		r.Logf("c02freeze %s on %s: %s", p.Acc.Name, spec.Index, short(res.Err))
	} else {
		msg := &pairingtypes.MsgUnfreezeProvider{Creator: p.Acc.Addr, ChainIds: []string{spec.Index}}
		res := s.msgTx("c02unfreeze", []sdk.Msg{msg}, func(ctx sdk.Context) error {
			_, err := s.S.PairingServer.UnfreezeProvider(ctx, msg)
			return err
		})
		if res.Err == nil && c02Cur != nil {
			delete(c02Cur.frozen, key)
		}
		r.Logf("c02unfreeze %s on %s: %s", p.Acc.Name, spec.Index, short(res.Err))
	}
}

var c02PolicyGeos = []int32{1, int32(planstypes.Geolocation_GL), int32(planstypes.Geolocation_GL), 3, 5, 7, 1, 2, 4, 64, 0}

func c02ModeName(m planstypes.SELECTED_PROVIDERS_MODE) string {
	return planstypes.SELECTED_PROVIDERS_MODE_name[int32(m)]
}

// c02GenPolicy draws a policy. Mostly valid by construction; a few invalid shapes are left in so
// that the chain's own validation is exercised (those are rejected and change nothing).
func (s *Sim) c02GenPolicy(isPlan bool) planstypes.Policy {
	r := s.R
	pol := planstypes.Policy{}
	pol.GeolocationProfile = c02PolicyGeos[r.Draw("ops", len(c02PolicyGeos))]
	pol.MaxProvidersToPair = uint64(2 + r.Draw("ops", 7))
	switch r.Draw("ops", 16) {
	case 14:
		pol.MaxProvidersToPair = 20
	case 15:
		pol.MaxProvidersToPair = 1 // invalid
	}
	switch r.Draw("ops", 8) {
	case 0, 1, 2:
		pol.SelectedProvidersMode = planstypes.SELECTED_PROVIDERS_MODE_ALLOWED
	case 3, 4:
		pol.SelectedProvidersMode = planstypes.SELECTED_PROVIDERS_MODE_MIXED
	case 5, 6:
		pol.SelectedProvidersMode = planstypes.SELECTED_PROVIDERS_MODE_EXCLUSIVE
	default:
		pol.SelectedProvidersMode = planstypes.SELECTED_PROVIDERS_MODE_DISABLED // valid in a plan only
		if !isPlan && !r.Chance("ops", 1, 4) {
			pol.SelectedProvidersMode = planstypes.SELECTED_PROVIDERS_MODE_EXCLUSIVE
		}
	}
	if !isPlan && pol.GeolocationProfile == 0 && !r.Chance("ops", 1, 4) {
		pol.GeolocationProfile = 2 // GLS is valid in a plan only
	}
	wantList := pol.SelectedProvidersMode == planstypes.SELECTED_PROVIDERS_MODE_MIXED || pol.SelectedProvidersMode == planstypes.SELECTED_PROVIDERS_MODE_EXCLUSIVE
	if !wantList && r.Chance("ops", 1, 12) {
		wantList = true // invalid combination
	}
	if wantList {
		n := r.Draw("ops", 5)
		seen := map[string]bool{}
		for i := 0; i < n; i++ {
			p := s.pickProv()
			addr := p.Acc.Addr
			if r.Chance("ops", 1, 12) {
				addr = p.Vault.Addr // a vault address is not a provider address
			}
			if !seen[addr] {
				seen[addr] = true
				pol.SelectedProviders = append(pol.SelectedProviders, addr)
			}
		}
	}
	genReqs := func(sp spectypes.Spec) []planstypes.ChainRequirement {
		var reqs []planstypes.ChainRequirement
		n := r.Draw("ops", 3)
		for i := 0; i < n; i++ {
			col := sp.ApiCollections[r.Draw("ops", len(sp.ApiCollections))]
			names := []string{}
			for _, e := range col.Extensions {
				names = append(names, e.Name)
			}
			reqs = append(reqs, planstypes.ChainRequirement{Collection: col.CollectionData, Extensions: c02Subset(r, names), Mixed: r.Chance("ops", 1, 3)})
		}
		return reqs
	}
	switch r.Draw("ops", 7) {
	case 0:
	case 1, 2, 3:
		sp := s.c02PickSpec()
		pol.ChainPolicies = []planstypes.ChainPolicy{{ChainId: sp.Index, Requirements: genReqs(sp)}, {ChainId: planstypes.WILDCARD_CHAIN_POLICY}}
	case 4:
		sp := s.c02PickSpec()
		pol.ChainPolicies = []planstypes.ChainPolicy{{ChainId: sp.Index, Requirements: genReqs(sp)}}
	case 5:
		a, b := s.c02PickSpec(), s.pickSpec()
		pol.ChainPolicies = []planstypes.ChainPolicy{{ChainId: a.Index, Requirements: genReqs(a)}}
		if b.Index != a.Index {
			pol.ChainPolicies = append(pol.ChainPolicies, planstypes.ChainPolicy{ChainId: b.Index, Requirements: genReqs(b)})
		}
	default:
		pol.ChainPolicies = []planstypes.ChainPolicy{{ChainId: planstypes.WILDCARD_CHAIN_POLICY}}
	}
	if isPlan {
		pol.TotalCuLimit = uint64(1000 * (1 + r.Draw("ops", 200)))
		pol.EpochCuLimit = pol.TotalCuLimit / uint64(1+r.Draw("ops", 20))
		if pol.EpochCuLimit == 0 {
			pol.EpochCuLimit = 1
		}
	} else if r.Chance("ops", 1, 3) {
		pol.TotalCuLimit = uint64(1000 * (1 + r.Draw("ops", 200)))
		pol.EpochCuLimit = pol.TotalCuLimit / uint64(1+r.Draw("ops", 20))
	}
	return pol
}

func (s *Sim) c02PolString(p *planstypes.Policy) string {
	if p == nil {
		return "nil"
	}
	sel := []string{}
	for _, a := range p.SelectedProviders {
		sel = append(sel, s.NameOf(a))
	}
	sort.Strings(sel) // the effective list comes out of a Go map: never log its order
	cps := []string{}
	for _, cp := range p.ChainPolicies {
		rs := []string{}
		for _, q := range cp.Requirements {
			x := q.Collection.ApiInterface + "/" + q.Collection.AddOn + "#" + strings.Join(q.Extensions, "+")
			if q.Mixed {
				x += "~mixed"
			}
			rs = append(rs, x)
		}
		cps = append(cps, cp.ChainId+"{"+strings.Join(rs, ",")+"}")
	}
	return fmt.Sprintf("geo=%d max=%d mode=%s sel=[%s] chains=[%s]", p.GeolocationProfile, p.MaxProvidersToPair, c02ModeName(p.SelectedProvidersMode), strings.Join(sel, ","), strings.Join(cps, " "))
}

// opC02Policy sets an admin or subscription policy on a project through the real msg servers.
func (s *Sim) opC02Policy() {
	r := s.R
	c := s.pickCons()
	names := []string{projectstypes.ADMIN_PROJECT_NAME, "p0", "p1", "p2"}
	proj := s.projectID(c, names[r.Draw("ops", len(names))])
	// mostly aim at a project that exists (the admin project first)
	if existing := s.K.Projects.GetAllProjectsForSubscription(s.Ctx, c.Acc.Addr); len(existing) > 0 && !r.Chance("ops", 1, 8) {
		sort.Strings(existing)
		proj = existing[r.Draw("ops", len(existing))]
	}
	var pol *planstypes.Policy
	if !r.Chance("ops", 1, 12) {
		p := s.c02GenPolicy(false)
		pol = &p
	}
	if r.Chance("ops", 1, 2) {
		msg := &projectstypes.MsgSetPolicy{Creator: c.Acc.Addr, Project: proj, Policy: pol}
		res := s.msgTx("c02policy_admin", []sdk.Msg{msg}, func(ctx sdk.Context) error {
			_, err := s.S.ProjectServer.SetPolicy(ctx, msg)
			return err
		})
		r.Logf("c02policy admin %s/%s %s: %s", c.Acc.Name, proj[len(proj)-5:], s.c02PolString(pol), short(res.Err))
	} else {
		msg := &projectstypes.MsgSetSubscriptionPolicy{Creator: c.Acc.Addr, Projects: []string{proj}, Policy: pol}
		res := s.msgTx("c02policy_sub", []sdk.Msg{msg}, func(ctx sdk.Context) error {
			_, err := s.S.ProjectServer.SetSubscriptionPolicy(ctx, msg)
			return err
		})
		r.Logf("c02policy sub %s/%s %s: %s", c.Acc.Name, proj[len(proj)-5:], s.c02PolString(pol), short(res.Err))
	}
}

// opC02Plan: a governance plans-add proposal, either a new plan (version) or a modification in
// place of an existing plan version (which changes the policy of live subscriptions at once).
func (s *Sim) opC02Plan() {
	r := s.R
	st := c02Cur
	modify := r.Chance("ops", 1, 2)
	var plan planstypes.Plan
	if modify {
		idx := s.pickPlan()
		cur, found := s.K.Plans.FindPlan(s.Ctx, idx, s.Height())
		if !found {
			r.Logf("c02plan modify %s: no such plan", idx)
			r.Op("c02plan", "skipped")
			return
		}
		plan = cur
		plan.PlanPolicy = s.c02GenPolicy(true)
		if plan.AllowOveruse && plan.OveruseRate == 0 {
			plan.OveruseRate = 1 // the base world's plans may carry a combination the proposal validation refuses
		}
		if !plan.AllowOveruse {
			plan.OveruseRate = 0
		}
	} else {
		idx := s.pickPlan()
		if r.Chance("ops", 1, 2) && st != nil && st.newPlanSeq < 3 {
			idx = fmt.Sprintf("c2plan%d", st.newPlanSeq)
		}
		plan = planstypes.Plan{Index: idx, Description: "c02 plan", Type: "rpc", Block: s.Height(),
			Price: s.Coin(int64(100 * (1 + r.Draw("ops", 20)))), ProjectsLimit: uint64(1 + r.Draw("ops", 5)),
			PlanPolicy: s.c02GenPolicy(true)}
	}
	res := s.Tx("c02plan", nil, func(ctx sdk.Context) error {
		return testkeeper.SimulatePlansAddProposal(ctx, s.K.Plans, []planstypes.Plan{plan}, modify)
	})
	out := "ok"
	if res.Err != nil {
		out = "rejected"
	} else {
		if modify && st != nil {
			st.planModHeight = s.Height()
		}
		known := false
		for _, n := range s.PlanNames {
			if n == plan.Index {
				known = true
			}
		}
		if !known {
			s.PlanNames = append(s.PlanNames, plan.Index)
			if st != nil {
				st.newPlanSeq++
			}
		}
	}
	r.Op("c02plan", out)
	r.Logf("c02plan %s modify=%v block=%d %s: %s", plan.Index, modify, plan.Block, s.c02PolString(&plan.PlanPolicy), short(res.Err))
}

// opC02Complain: a paired provider claims a relay that carries an unresponsiveness report against
// another paired provider (the lowest-numbered one, so that complaints accumulate on one victim).
// Enough complaint CU over several epochs makes BeginBlock jail the victim: a soft jail moves its
// StakeAppliedBlock into the future, repeated jails freeze it.
func (s *Sim) opC02Complain() {
	r := s.R
	c := s.pickCons()
	signer := s.signerFor(c)
	spec := s.c02PickSpec()
	paired := s.pairedProvidersFor(signer, spec.Index)
	if len(paired) < 2 {
		r.Op("c02complain", "skipped")
		r.Logf("c02complain %s %s: fewer than two paired providers", signer.Name, spec.Index)
		return
	}
	victim := paired[0]
	for _, p := range paired {
		if p.Acc.Name < victim.Acc.Name {
			victim = p
		}
	}
	var claimers []*ProviderActor
	for _, p := range paired {
		if p != victim {
			claimers = append(claimers, p)
		}
	}
	p := claimers[r.Draw("ops", len(claimers))]
	s.sessionSeq++
	rs := RelaySpec{Consumer: c, Signer: signer, Provider: p, Spec: spec.Index, Epoch: int64(s.EpochStart()), Session: s.sessionSeq,
		CuSum: uint64(10 + r.Draw("ops", 500)), RelayNum: 1,
		Unresp: []*pairingtypes.ReportedProvider{{Address: victim.Acc.Addr, Errors: 3, Disconnections: 1, TimestampS: s.Now().Unix()}}}
	rel := s.BuildRelay(rs)
	res := s.SendRelayPayment("c02complain", p, []*pairingtypes.RelaySession{rel})
	r.Logf("c02complain %s<-%s(%s) %s epoch=%d cu=%d against %s: %s", p.Acc.Name, c.Acc.Name, signer.Name, spec.Index, rs.Epoch, rs.CuSum, victim.Acc.Name, short(res.Err))
}

// opC02Epochs: let one to three epochs pass (jailing needs a dozen epochs of history).
func (s *Sim) opC02Epochs() {
	n := 1 + s.R.Draw("ops", 3)
	for i := 0; i < n; i++ {
		s.AdvanceToNextEpoch(s.BlockTimeDefault() / 2)
	}
	s.R.Logf("c02epochs +%d -> h=%d epoch=%d", n, s.Height(), s.EpochStart())
	s.R.Op("c02epochs", "ok")
}

// opC02Check: a mid-epoch evaluation point.
func (s *Sim) opC02Check() {
	if c02Cur != nil {
		c02Cur.sweep("mid")
	}
	s.R.Op("c02check", "ok")
}

// ---------- the independent eligibility predicate ----------

func c02Has(list []string, x string) bool {
	for _, y := range list {
		if y == x {
			return true
		}
	}
	return false
}

// c02Supports: does the stake entry offer the collection (api interface + add-on) of the
// requirement together with each of its extensions? An add-on named like its api interface
// denotes an optional api interface (offering the interface is offering it). Every required
// extension must be offered by an endpoint that also offers the interface and the add-on.
func c02Supports(e *epochstoragetypes.StakeEntry, req planstypes.ChainRequirement) bool {
	iface, addon := req.Collection.ApiInterface, req.Collection.AddOn
	needAddon := addon != "" && addon != iface
	exts := []string{}
	for _, x := range req.Extensions {
		if x != "" && !c02Has(exts, x) {
			exts = append(exts, x)
		}
	}
	if len(exts) == 0 {
		exts = []string{""}
	}
	for _, x := range exts {
		found := false
		for _, ep := range e.Endpoints {
			if !c02Has(ep.ApiInterfaces, iface) {
				continue
			}
			if needAddon && !c02Has(ep.Addons, addon) {
				continue
			}
			if x != "" && !c02Has(ep.Extensions, x) {
				continue
			}
			found = true
			break
		}
		if !found {
			return false
		}
	}
	return true
}

// c02Eligible decides, from the statement only, whether a snapshot entry may appear in the pairing
// of a consumer whose effective policy is pol, for the epoch `epoch`:
//   - its stake is applied at the epoch (a frozen or jailed provider carries an applied block in the
//     far future, an unfrozen one the block at which it becomes active again);
//   - when the effective selected-providers mode is EXCLUSIVE it is on the selected list;
//   - it supports every chain requirement of the effective policy that is not flagged Mixed.
func c02Eligible(e *epochstoragetypes.StakeEntry, epoch uint64, pol *planstypes.Policy, chainID string, hybridLenient bool) (bool, string) {
	if e.StakeAppliedBlock > epoch {
		return false, "stake-not-applied"
	}
	if pol.SelectedProvidersMode == planstypes.SELECTED_PROVIDERS_MODE_EXCLUSIVE && !c02Has(pol.SelectedProviders, e.Address) {
		return false, "not-on-exclusive-list"
	}
	for _, cp := range pol.ChainPolicies {
		if cp.ChainId != chainID {
			continue
		}
		hybrid := c02Hybrid(cp.Requirements)
		if hybrid && hybridLenient {
			continue
		}
		for _, req := range cp.Requirements {
			if req.Mixed {
				continue
			}
			if !c02Supports(e, req) {
				if hybrid {
					return false, "requirement-unsupported:non-mixed-beside-mixed"
				}
				return false, "requirement-unsupported"
			}
		}
	}
	return true, ""
}

// c02Hybrid: the requirement list has both Mixed and non-Mixed requirements.
func c02Hybrid(reqs []planstypes.ChainRequirement) bool {
	m, n := false, false
	for _, q := range reqs {
		if q.Mixed {
			m = true
		} else {
			n = true
		}
	}
	return m && n
}

// ---------- the oracle ----------

func (st *c02State) names(list []epochstoragetypes.StakeEntry) string {
	out := []string{}
	for _, e := range list {
		out = append(out, st.s.NameOf(e.Address))
	}
	return strings.Join(out, ",")
}

func (st *c02State) query() sdk.Context {
	// queries run on a branch of the block state that is thrown away (as in a node): the pairing
	// relay cache that VerifyPairing writes must not leak into the chain state
	q, _ := st.s.Ctx.CacheContext()
	return q
}

// existedAt: did the developer key resolve to a project with a live subscription at `block`?
func (st *c02State) existedAt(dev string, block uint64) bool {
	s := st.s
	proj, err := s.K.Projects.GetProjectForDeveloper(s.Ctx, dev, block)
	if err != nil {
		return false
	}
	_, err = s.K.Subscription.GetPlanFromSubscription(s.Ctx, proj.Subscription, block)
	return err == nil
}

func (st *c02State) sweep(where string) {
	s := st.s
	r := s.R
	st.sweeps++
	epoch := s.EpochStart()
	height := s.Height()
	r.Logf("c02 sweep %s h=%d epoch=%d", where, height, epoch)
	for _, sp := range s.Specs {
		chainID := sp.Index
		if sp.ProvidersTypes == spectypes.Spec_static {
			// excluded by the statement (all unfrozen providers are returned)
			r.Probe("c02_static_spec_skipped")
			continue
		}
		snapshot := s.K.Epochstorage.GetAllStakeEntriesForEpochChainId(s.Ctx, epoch, chainID)
		snap := map[string]*epochstoragetypes.StakeEntry{}
		for i := range snapshot {
			snap[snapshot[i].Address] = &snapshot[i]
			e := &snapshot[i]
			if e.StakeAppliedBlock > epoch {
				if e.IsFrozen() {
					r.Probe("c02_frozen_in_snapshot")
				} else {
					r.Probe("c02_future_applied_in_snapshot")
				}
			}
			if e.Jails > 0 || e.JailEndTime > 0 {
				r.Probe("c02_jailed_in_snapshot")
				if e.StakeAppliedBlock > epoch {
					r.Probe("c02_jailed_unapplied_in_snapshot")
				}
			}
		}
		seenProject := map[string][]string{} // project index -> pairing addresses of the first key
		for _, c := range s.Consumers {
			keys := append([]*Account{c.Acc}, c.Devs...)
			for _, dev := range keys {
				st.checkOne(dev, c.Acc, chainID, epoch, height, snapshot, snap, seenProject)
			}
		}
	}
}

func (st *c02State) checkOne(dev, devOwner *Account, chainID string, epoch, height uint64, snapshot []epochstoragetypes.StakeEntry, snap map[string]*epochstoragetypes.StakeEntry, seenProject map[string][]string) {
	s := st.s
	r := s.R
	proj, perr := s.K.Projects.GetProjectForDeveloper(s.Ctx, dev.Addr, height)
	nowOK := perr == nil
	thenOK := st.existedAt(dev.Addr, epoch)
	if !nowOK && !thenOK {
		return // the key belongs to no project: nothing to pair
	}
	list, err := s.K.Pairing.GetPairingForClient(st.query(), chainID, dev.Account.Addr)
	addrs := []string{}
	in := map[string]bool{}
	for _, e := range list {
		addrs = append(addrs, e.Address)
	}
	tag := fmt.Sprintf("%s %s", dev.Name, chainID)

	if nowOK {
		if prev, ok := seenProject[proj.Index]; ok && err == nil {
			// another key of a project already examined in this sweep: the pairing is per project
			r.Check(strings.Join(prev, ",") == strings.Join(addrs, ","), "pairing-differs-between-keys", "same-project",
				"%s: keys of project %s get different pairings in the same block: [%s] vs [%s]", tag, proj.Index, strings.Join(prev, ","), strings.Join(addrs, ","))
			return
		}
	}

	// what the chain says is required
	var pol *planstypes.Policy
	var polErr error
	if nowOK {
		if !proj.Enabled {
			polErr = fmt.Errorf("project disabled")
		} else {
			pol, _, polErr = s.K.Pairing.GetProjectStrictestPolicy(st.query(), proj, chainID, height)
		}
	} else {
		polErr = perr
	}

	if err != nil {
		// no pairing list. Legitimate when no effective policy exists (chain not allowed, empty
		// geolocation intersection, project gone/disabled) or nobody is in the snapshot.
		reason := "other"
		switch {
		case polErr != nil:
			reason = "no_effective_policy"
		case len(snapshot) == 0:
			reason = "empty_snapshot"
		}
		r.Probe("c02_pairing_error_" + reason)
		if polErr != nil && strings.Contains(polErr.Error(), "strictest geo") {
			r.Probe("c02_geo_empty_intersection")
		}
		r.Logf("  pair %s: error (%s) %.90s", tag, reason, err.Error())
		r.Check(reason != "other", "pairing-unavailable", "policy-and-snapshot-present",
			"%s: an effective policy exists (%s) and %d providers are in the snapshot of epoch %d but GetPairingForClient failed: %v", tag, s.c02PolString(pol), len(snapshot), epoch, err)
	} else {
		if nowOK {
			seenProject[proj.Index] = addrs
		}
		// clause 1: distinct
		for _, a := range addrs {
			r.Check(!in[a], "pairing-duplicate", "duplicate-provider", "%s: provider %s appears twice in the pairing [%s] (epoch %d)", tag, s.NameOf(a), st.names(list), epoch)
			in[a] = true
		}
		// clause 2: staked on that chain in the epoch snapshot, stake applied
		for _, e := range list {
			se, ok := snap[e.Address]
			r.Check(ok && e.Chain == chainID, "pairing-member-not-in-snapshot", "not-staked-in-epoch", "%s: paired provider %s is not in the stake snapshot of epoch %d for this chain", tag, s.NameOf(e.Address), epoch)
			r.Check(se.StakeAppliedBlock <= epoch, "pairing-member-stake-not-applied", "applied-after-epoch", "%s: paired provider %s has StakeAppliedBlock=%d > epoch %d (frozen=%v)", tag, s.NameOf(e.Address), se.StakeAppliedBlock, epoch, se.IsFrozen())
			if fb, ok := st.frozen[e.Address+"|"+chainID]; ok && fb < epoch {
				r.Fail("pairing-member-frozen", "frozen-by-acknowledged-tx", "%s: provider %s was frozen by an accepted transaction at height %d (no unfreeze/restake since) and is paired at epoch %d", tag, s.NameOf(e.Address), fb, epoch)
			}
		}
		if polErr != nil {
			r.Fail("pairing-without-policy", "no-effective-policy", "%s: a pairing [%s] was returned but no effective policy can be computed: %v", tag, st.names(list), polErr)
		}
		// the three policy levels, read separately: the effective max-providers is the smallest of the
		// levels; a level that demands an EXCLUSIVE non-empty list binds every member (unless the
		// plan disables the selected-providers feature altogether)
		if plan, perr2 := s.K.Subscription.GetPlanFromSubscription(s.Ctx, proj.Subscription, height); perr2 == nil {
			levels := []*planstypes.Policy{&plan.PlanPolicy}
			if proj.SubscriptionPolicy != nil {
				levels = append(levels, proj.SubscriptionPolicy)
			}
			if proj.AdminPolicy != nil {
				levels = append(levels, proj.AdminPolicy)
			}
			minMax := levels[0].MaxProvidersToPair
			disabled := false
			for _, lv := range levels {
				if lv.MaxProvidersToPair < minMax {
					minMax = lv.MaxProvidersToPair
				}
				if lv.SelectedProvidersMode == planstypes.SELECTED_PROVIDERS_MODE_DISABLED {
					disabled = true
				}
			}
			r.Check(pol.MaxProvidersToPair == minMax, "effective-max-providers", "not-the-smallest-level", "%s: effective MaxProvidersToPair=%d but the smallest of the %d policy levels is %d", tag, pol.MaxProvidersToPair, len(levels), minMax)
			if !disabled {
				for li, lv := range levels {
					if lv.SelectedProvidersMode != planstypes.SELECTED_PROVIDERS_MODE_EXCLUSIVE || len(lv.SelectedProviders) == 0 {
						continue
					}
					for _, e := range list {
						r.Check(c02Has(lv.SelectedProviders, e.Address), "pairing-member-ineligible", "not-on-exclusive-list-of-a-level", "%s: paired provider %s is not on the EXCLUSIVE list of policy level %d (0=plan,1..=project): %s", tag, s.NameOf(e.Address), li, s.c02PolString(lv))
					}
				}
			}
		}
		// clause 3: every member meets every mandatory requirement
		lenient := false
		for _, e := range list {
			ok, why := c02Eligible(snap[e.Address], epoch, pol, chainID, false)
			r.OracleEvals++
			if !ok {
				known := r.Fail("pairing-member-ineligible", why, "%s: paired provider %s fails a mandatory requirement (%s); endpoints=[%s]; effective policy: %s", tag, s.NameOf(e.Address), why, c02EpString(snap[e.Address].Endpoints), s.c02PolString(pol))
				if known && why == "requirement-unsupported:non-mixed-beside-mixed" {
					// known finding: lava drops the non-Mixed requirements when another requirement of the
					// chain policy is Mixed; keep checking the other clauses under that reading
					lenient = true
				}
			}
		}
		nElig := 0
		whyNot := map[string]int{}
		for i := range snapshot {
			ok, why := c02Eligible(&snapshot[i], epoch, pol, chainID, lenient)
			if ok {
				nElig++
			} else {
				whyNot[why]++
			}
		}
		// clause 4: exactly min(max, eligible)
		want := nElig
		if pol.MaxProvidersToPair < uint64(want) {
			want = int(pol.MaxProvidersToPair)
		}
		r.Logf("  pair %s: [%s] max=%d eligible=%d/%d %s", tag, st.names(list), pol.MaxProvidersToPair, nElig, len(snapshot), c02ModeName(pol.SelectedProvidersMode))
		sig := "fewer-than-min"
		if len(list) > want {
			sig = "more-than-min"
		}
		r.Check(len(list) == want, "pairing-size", sig, "%s: pairing has %d entries [%s], expected min(max=%d, eligible=%d)=%d; snapshot=%d ineligible=%v; effective policy: %s", tag, len(list), st.names(list), pol.MaxProvidersToPair, nElig, want, len(snapshot), whyNot, s.c02PolString(pol))
		st.probes(dev, proj, pol, list, snapshot, nElig, whyNot, chainID, epoch)
		if len(list) > 0 {
			st.nonEmpty++
		}
	}

	// the GetPairing query is the same list (and names the same epoch)
	if err == nil && dev == devOwner {
		qres, qerr := s.K.Pairing.GetPairing(sdk.WrapSDKContext(st.query()), &pairingtypes.QueryGetPairingRequest{ChainID: chainID, Client: dev.Addr})
		qa := []string{}
		if qerr == nil {
			for _, e := range qres.Providers {
				qa = append(qa, e.Address)
			}
		}
		// compared as sets: with Mixed requirements the ORDER of the list depends on Go's map iteration
		// order inside the slot grouping (two computations in one process differ), the membership does not;
		// the statement is about membership (C01 compares membership across replicas as well)
		qs, as := append([]string{}, qa...), append([]string{}, addrs...)
		sort.Strings(qs)
		sort.Strings(as)
		if strings.Join(qa, ",") != strings.Join(addrs, ",") && strings.Join(qs, ",") == strings.Join(as, ",") {
			r.Probe("c02_pairing_list_order_differs_between_two_computations")
		}
		r.Check(qerr == nil && strings.Join(qs, ",") == strings.Join(as, ",") && qres.CurrentEpoch == epoch, "pairing-query-differs", "GetPairing-vs-GetPairingForClient",
			"%s: GetPairing query err=%v list=[%s] differs from GetPairingForClient [%s] (epoch %d)", tag, qerr, strings.Join(qa, ","), strings.Join(addrs, ","), epoch)
	}

	// clause 5: p in pairing <=> VerifyPairing(consumer, p, epoch) succeeds, for every provider actor
	young := !thenOK
	if young {
		r.Probe("c02_consumer_younger_than_epoch")
	}
	// Odd sweeps: every query on its own discarded branch (always recomputed). Even sweeps: the
	// queries of one (key, chain) share a branch, members first, so that the pairing relay cache
	// written by the first successful verification serves the others (as for the relays of a block).
	shared := st.query()
	order := make([]*ProviderActor, 0, len(s.Providers))
	for _, p := range s.Providers {
		if in[p.Acc.Addr] {
			order = append(order, p)
		}
	}
	for _, p := range s.Providers {
		if !in[p.Acc.Addr] {
			order = append(order, p)
		}
	}
	mismatch := false
	for _, p := range order {
		qctx := shared
		if st.sweeps%2 == 1 {
			qctx = st.query()
		}
		res, verr := s.K.Pairing.VerifyPairing(sdk.WrapSDKContext(qctx), &pairingtypes.QueryVerifyPairingRequest{ChainID: chainID, Client: dev.Addr, Provider: p.Acc.Addr, Block: epoch})
		valid := verr == nil && res != nil && res.Valid
		r.OracleEvals++
		if valid == in[p.Acc.Addr] {
			if !valid {
				if _, staked := snap[p.Acc.Addr]; !staked {
					r.Probe("c02_unstaked_provider_not_verified")
				}
			}
			continue
		}
		sig := "verify-ok-but-not-in-pairing"
		if !valid {
			sig = "in-pairing-but-verify-fails"
		}
		if young {
			sig += ":consumer-created-this-epoch"
		} else if st.planModHeight == height {
			sig += ":plan-modified-in-this-block"
		}
		mismatch = true
		if r.Fail("pairing-verify-mismatch", sig, "%s: provider %s inPairing=%v but VerifyPairing(block=%d).valid=%v err=%v at height %d; pairing=[%s]; project existed at epoch start=%v", tag, p.Acc.Name, in[p.Acc.Addr], epoch, valid, verr, height, st.names(list), thenOK) {
			break // known finding: one report per (key, chain) is enough
		}
	}
	if !mismatch && !young && st.planModHeight != height {
		st.crossEpoch(dev, chainID, epoch, height, in, tag)
	}
}

// c02Verify: does pairing verification for (consumer key, provider, epoch) succeed on qctx?
func (st *c02State) verify(qctx sdk.Context, dev *Account, p *ProviderActor, chainID string, block uint64) (bool, error) {
	res, verr := st.s.K.Pairing.VerifyPairing(sdk.WrapSDKContext(qctx), &pairingtypes.QueryVerifyPairingRequest{ChainID: chainID, Client: dev.Addr, Provider: p.Acc.Addr, Block: block})
	st.s.R.OracleEvals++
	return verr == nil && res != nil && res.Valid, verr
}

// crossEpoch: clause 5 when the block also verifies pairings of ANOTHER epoch that is still in
// memory for the same consumer and chain (a block normally carries relay payments and VerifyPairing
// queries for the current and for earlier epochs side by side). Whatever was verified earlier in
// the block, verification for the current epoch must keep answering exactly "is in the current
// pairing" (`in`, just established), and verification for the other epoch must keep answering what
// it answers on a branch of the block state where only that epoch is verified.
// The tape (stream "c02x", 0 = skip) picks how far back the other epoch is and which epoch is
// verified first. The first epoch is verified until one verification succeeds (only a successful
// verification fills the per-block pairing relay cache), then every provider is verified for the
// second epoch.
func (st *c02State) crossEpoch(dev *Account, chainID string, epoch, height uint64, in map[string]bool, tag string) {
	s := st.s
	r := s.R
	mode := r.Draw("c02x", 4)
	if mode == 0 {
		return
	}
	back := 1 + r.Draw("c02x", 3)
	earliest := s.K.Epochstorage.GetEarliestEpochStart(s.Ctx)
	other := epoch
	for i := 0; i < back; i++ {
		prev, err := s.K.Epochstorage.GetPreviousEpochStartForBlock(s.Ctx, other)
		if err != nil || prev >= other || prev < earliest {
			break
		}
		other = prev
	}
	if other == epoch {
		r.Probe("c02_cross_epoch_no_other_epoch")
		return
	}
	shared := st.query()
	if mode != 2 {
		// the other epoch first, then the current one against the current pairing
		first := ""
		for _, p := range s.Providers {
			ok, verr := st.verify(shared, dev, p, chainID, other)
			if ok {
				first = p.Acc.Name
				if !in[p.Acc.Addr] {
					r.Probe("c02_cross_epoch_pairings_differ")
				}
				break
			}
			if verr != nil {
				break // no pairing can be computed for that epoch (no project / policy / providers then)
			}
		}
		if first == "" {
			r.Probe("c02_cross_epoch_other_epoch_unpaired")
			return
		}
		r.Probe("c02_cross_epoch_checked")
		for _, p := range s.Providers {
			valid, verr := st.verify(shared, dev, p, chainID, epoch)
			if valid == in[p.Acc.Addr] {
				continue
			}
			sig := "verify-ok-but-not-in-pairing"
			if !valid {
				sig = "in-pairing-but-verify-fails"
			}
			r.Fail("pairing-verify-mismatch", sig+":after-verifying-another-epoch-in-this-block",
				"%s: provider %s inPairing=%v (current epoch %d) but VerifyPairing(block=%d).valid=%v err=%v at height %d, after VerifyPairing(provider %s, block=%d) succeeded on the same block state for this consumer and chain", tag, p.Acc.Name, in[p.Acc.Addr], epoch, epoch, valid, verr, height, first, other)
		}
		return
	}
	// the current epoch first (one member), then the other one against what verification for the
	// other epoch answers on a branch of the block state on which no other epoch is ever verified
	var member *ProviderActor
	for _, p := range s.Providers {
		if in[p.Acc.Addr] {
			member = p
			break
		}
	}
	if member == nil {
		r.Probe("c02_cross_epoch_current_epoch_unpaired")
		return
	}
	alone := map[string]bool{}
	single := st.query()
	for _, p := range s.Providers {
		ok, _ := st.verify(single, dev, p, chainID, other)
		alone[p.Acc.Addr] = ok
		if ok != in[p.Acc.Addr] {
			r.Probe("c02_cross_epoch_pairings_differ")
		}
	}
	if ok, _ := st.verify(shared, dev, member, chainID, epoch); !ok {
		return // cannot happen: the main loop just saw it succeed
	}
	r.Probe("c02_cross_epoch_checked")
	for _, p := range s.Providers {
		valid, verr := st.verify(shared, dev, p, chainID, other)
		r.Check(valid == alone[p.Acc.Addr], "pairing-verify-unstable", "earlier-epoch:answer-depends-on-other-verifications-in-this-block",
			"%s: VerifyPairing(provider %s, block=%d) answers valid=%v (err=%v) after VerifyPairing(provider %s, block=%d = current epoch) succeeded on the same block state for this consumer and chain, but valid=%v on a branch of the same state where only epoch %d is verified (height %d)", tag, p.Acc.Name, other, valid, verr, member.Acc.Name, epoch, alone[p.Acc.Addr], other, height)
	}
}

func (st *c02State) probes(dev *Account, proj projectstypes.Project, pol *planstypes.Policy, list, snapshot []epochstoragetypes.StakeEntry, nElig int, whyNot map[string]int, chainID string, epoch uint64) {
	s := st.s
	r := s.R
	max := int(pol.MaxProvidersToPair)
	switch {
	case nElig < max:
		r.Probe("c02_eligible_lt_max")
	case nElig == max:
		r.Probe("c02_eligible_eq_max")
	default:
		r.Probe("c02_eligible_gt_max")
	}
	if len(list) == 0 {
		r.Probe("c02_empty_pairing")
	}
	switch pol.SelectedProvidersMode {
	case planstypes.SELECTED_PROVIDERS_MODE_EXCLUSIVE:
		r.Probe("c02_mode_exclusive")
		if nElig > 0 && nElig < max {
			r.Probe("c02_exclusive_fewer_selected_than_max")
		}
		if whyNot["not-on-exclusive-list"] > 0 && nElig > 0 {
			r.Probe("c02_exclusive_excludes_some")
		}
	case planstypes.SELECTED_PROVIDERS_MODE_MIXED:
		if len(pol.SelectedProviders) > 0 {
			r.Probe("c02_mode_mixed_with_list")
		}
	case planstypes.SELECTED_PROVIDERS_MODE_DISABLED:
		r.Probe("c02_mode_disabled")
	}
	anyMixed, anyMand, addonExt := false, false, false
	for _, cp := range pol.ChainPolicies {
		for _, q := range cp.Requirements {
			if q.Mixed {
				anyMixed = true
			} else {
				anyMand = true
				if q.Collection.AddOn != "" && len(q.Extensions) > 0 {
					addonExt = true
				}
			}
		}
	}
	if anyMixed {
		r.Probe("c02_mixed_requirement")
	}
	if anyMixed && anyMand {
		r.Probe("c02_mixed_and_mandatory_requirements")
	}
	if anyMand && len(list) > 0 {
		r.Probe("c02_mandatory_requirement_paired")
	}
	if addonExt && len(list) > 0 {
		r.Probe("c02_addon_and_extension_required")
	}
	if whyNot["requirement-unsupported"]+whyNot["requirement-unsupported:non-mixed-beside-mixed"] > 0 && len(list) > 0 {
		r.Probe("c02_requirement_excludes_some")
	}
	if whyNot["stake-not-applied"] > 0 && len(list) > 0 {
		r.Probe("c02_unapplied_stake_excluded")
		for i := range snapshot {
			e := &snapshot[i]
			if e.StakeAppliedBlock > epoch && !e.IsFrozen() {
				r.Probe("c02_future_applied_excluded")
			}
			if e.IsFrozen() {
				r.Probe("c02_frozen_excluded")
			}
		}
	}
	// geolocation: a score, not a filter
	geos := planstypes.GetGeolocationsFromUint(pol.GeolocationProfile)
	if len(geos) > 1 && len(geos) < 7 {
		r.Probe("c02_multi_geo_policy")
	}
	for _, e := range list {
		if pol.GeolocationProfile&e.Geolocation == 0 {
			r.Probe("c02_geo_mismatch_paired")
			break
		}
	}
	// policy levels
	if proj.AdminPolicy != nil && proj.SubscriptionPolicy != nil {
		a, b := proj.AdminPolicy.MaxProvidersToPair, proj.SubscriptionPolicy.MaxProvidersToPair
		if a != b && (pol.MaxProvidersToPair != a || pol.MaxProvidersToPair != b) {
			r.Probe("c02_three_levels_differ")
		}
		if pol.MaxProvidersToPair == a && a < b {
			r.Probe("c02_max_from_admin_policy")
		}
		if pol.MaxProvidersToPair == b && b < a {
			r.Probe("c02_max_from_subscription_policy")
		}
		if pol.MaxProvidersToPair < a && pol.MaxProvidersToPair < b {
			r.Probe("c02_max_from_plan_policy")
		}
	}
}

// ---------- the run ----------

func c02Weights() map[string]int {
	return map[string]int{
		"blocks": 22, "stake": 2, "unstake": 3, "freeze": 0, "movestake": 2,
		"delegate": 3, "redelegate": 1, "unbond": 3, "claim": 0,
		"val_delegate": 1, "val_undelegate": 1, "val_redelegate": 0,
		"buy": 5, "autorenew": 1, "addproject": 4, "delproject": 1, "keys": 4, "setpolicy": 2,
		"relay":    6,
		"c02stake": 10, "c02freeze": 5, "c02policy": 14, "c02plan": 4, "c02check": 7, "c02complain": 6, "c02epochs": 4,
	}
}

func runC02(r *simrt.Run) {
	cfg := mkCfg(r, c02Weights(), 70, 300)
	cfg.NProv += 2
	cfg.Faults["month_jump"] = false // month-scale time is irrelevant here; keep the history dense in epochs
	s := NewSim(r, cfg)
	// extra specs (before monitors are armed)
	rich := c02RichSpec(r)
	s.K.Spec.SetSpec(s.Ctx, rich)
	s.Specs = append(s.Specs, rich)
	if r.Chance("cfg", 1, 2) {
		st := mockSpec(c02Static, 1000, 1, 10)
		st.ProvidersTypes = spectypes.Spec_static
		s.K.Spec.SetSpec(s.Ctx, st)
		s.Specs = append(s.Specs, st)
	}
	st := &c02State{s: s, frozen: map[string]uint64{}}
	c02Cur = st
	defer func() { c02Cur = nil }()

	// ledger upkeep for base operations that touch stake entries (we do not know which provider they
	// touched, so the freeze ledger is conservatively dropped)
	s.AfterTx = append(s.AfterTx, func(w *World, tx *TxResult) {
		if tx.Err != nil {
			return
		}
		switch tx.Name {
		case "stake", "unstake", "movestake", "unfreeze", "delegate", "redelegate", "unbond":
			// an unstake+restake, a stake increase after an automatic freeze, a move of stake or a
			// delegation change may legitimately end a freeze
			for k := range st.frozen {
				delete(st.frozen, k)
			}
		}
	})
	st.lastEpoch = s.EpochStart()
	s.AfterBlock = append(s.AfterBlock, func(w *World) {
		if e := s.EpochStart(); e != st.lastEpoch {
			st.lastEpoch = e
			st.sweep("epoch")
		} else if st.planModHeight != 0 && st.planModHeight+1 == s.Height() {
			// first block after an in-place plan modification, same epoch: the pairing of live
			// subscriptions changed mid-epoch; whatever was cached before must be gone by now
			st.sweep("after-plan-modify")
		}
	})

	// warm-up: plans with rich policies, providers with varied endpoints, subscriptions, projects,
	// project policies; then two epochs so that everything is in a snapshot
	for i := 0; i < 2+r.Draw("ops", 2); i++ {
		r.Step()
		s.opC02Plan()
	}
	n := 3 + r.Draw("ops", 3*len(s.Providers))
	for i := 0; i < n; i++ {
		r.Step()
		s.opC02Stake()
	}
	for i := 0; i < len(s.Consumers); i++ {
		r.Step()
		s.OpBuy()
	}
	for i := 0; i < len(s.Consumers); i++ {
		r.Step()
		s.OpAddProject()
	}
	for i := 0; i < len(s.Consumers); i++ {
		r.Step()
		s.opC02Policy()
	}
	s.AdvanceToNextEpoch(s.BlockTimeDefault() / 2)
	s.AdvanceToNextEpoch(s.BlockTimeDefault() / 2)
	for i := 0; i < cfg.Steps; i++ {
		s.StepOp()
	}
	s.AdvanceToNextEpoch(s.BlockTimeDefault() / 2)
	r.Extra["c02_sweeps"] += int64(st.sweeps)
	r.Extra["c02_nonempty_pairings"] += int64(st.nonEmpty)
}

func c02NonTrivial(r *simrt.Run) bool {
	return r.OKOps() >= 10 && r.Extra["c02_nonempty_pairings"] >= 5 &&
		(r.Probes["c02_eligible_gt_max"] > 0 || r.Probes["c02_eligible_lt_max"] > 0) &&
		(r.Probes["c02_mode_exclusive"]+r.Probes["c02_mode_mixed_with_list"]+r.Probes["c02_mandatory_requirement_paired"]+r.Probes["c02_mixed_requirement"]+r.Probes["c02_unapplied_stake_excluded"] > 0)
}

func init() {
	AddOp("c02stake", (*Sim).opC02Stake)
	AddOp("c02freeze", (*Sim).opC02Freeze)
	AddOp("c02policy", (*Sim).opC02Policy)
	AddOp("c02plan", (*Sim).opC02Plan)
	AddOp("c02check", (*Sim).opC02Check)
	AddOp("c02complain", (*Sim).opC02Complain)
	AddOp("c02epochs", (*Sim).opC02Epochs)
	simrt.Register("C02", &simrt.PropSpec{Fn: runC02, NonTrivial: c02NonTrivial,
		Rule:    "tape-generated histories on the base chain world plus a spec with a mandatory collection, two add-ons, an optional api interface and extensions (and sometimes a static-provider spec): providers (re)stake with per-geolocation endpoints supporting random subsets of interfaces/add-ons/extensions, freeze/unfreeze, unstake, move stake, delegations; plans are added/modified by governance proposals and subscription/admin policies set through the msg servers with geolocation profiles, max-providers, selected-provider modes (ALLOWED/MIXED/EXCLUSIVE/DISABLED) and chain requirements (collections + extensions, mixed or not); relays populate the pairing relay cache and carry unresponsiveness complaints that get a provider jailed. After every epoch start, in the block after an in-place plan modification and at tape-chosen mid-epoch points, for every developer key x dynamic spec the five clauses of the statement are evaluated (eligibility by an independent predicate); the verification clause is also evaluated with pairings of two epochs verified side by side on one block state (tape-chosen earlier epoch still in memory, either order: current-epoch answers must stay equal to the current pairing, earlier-epoch answers equal to those of a branch where only that epoch is verified). Non-trivial = >=10 accepted operations, >=5 non-empty pairings examined, eligible!=max seen and at least one of exclusive/mixed/requirement/unapplied-stake situations; distinct = (op,outcome,fault) sequence hash",
		Real:    chainReal,
		Stubbed: chainStub,
		Assume: append(append([]string{}, chainAssume...),
			"what is required of a provider is read from the chain's own strictest-policy computation (GetProjectStrictestPolicy); only whether a provider meets it is decided independently",
			"a requirement is mandatory iff it is not flagged Mixed; an EXCLUSIVE effective selected-providers mode makes the selected list mandatory; geolocation is a score, not a requirement",
			"frozen/jailed is observed as StakeAppliedBlock in the epoch snapshot (plus a ledger of acknowledged explicit freezes); jailing is reached only through accumulated unresponsiveness complaints (soft jail = StakeAppliedBlock in the future, repeated jail = frozen)",
			"queries (GetPairingForClient, VerifyPairing) run on a discarded branch of the block state, as on a node",
			"for an epoch that is no longer the current one there is no 'current pairing' to compare with: the reference is what VerifyPairing answers on a branch of the same block state on which no other epoch is verified"),
	})
}
