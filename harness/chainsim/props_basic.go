package chainsim

import (
	"cosmossdk.io/math"
	"github.com/lavanet/lava/v5/zz_verif/simrt"
)

var chainReal = []string{"all lava keepers + msg servers (pairing, subscription, projects, plans, spec, rewards, dualstaking, epochstorage, conflict, downtime, protocol, fixationstore, timerstore) with their Begin/EndBlockers in app order", "cosmos-sdk x/staking, x/slashing, x/distribution keepers", "dualstaking redelegation ante flagger", "IAVL/cachekv multistore"}
var chainStub = []string{"bank and account keepers (repo's in-memory mock; GetSupply = sum of balances)", "CometBFT / block store (mock)", "gov voting (proposal handlers are invoked directly)", "gas, signatures of sdk.Tx envelopes, rest of the ante chain"}
var chainAssume = []string{"results about supply/solvency concern lava's calls into the bank API, not x/bank itself", "transactions are atomic as in baseapp (cache context + mock-bank snapshot, provided by the harness)", "messages pass ValidateBasic before reaching a handler"}

func historyNonTrivial(r *simrt.Run) bool {
	return r.OKOps() >= 10 && r.Ops["relay:ok"] >= 1 && r.FaultsFired() >= 1
}

// ---------- C09: token supply never increases ----------

func runC09(r *simrt.Run) {
	cfg := mkCfg(r, baseWeights(), 80, 400)
	s := NewSim(r, cfg)
	last := s.Supply()
	check := func(where string) {
		cur := s.Supply()
		r.OracleEvals++
		if cur.GT(last) {
			r.Fail("supply-increased", where, "bond-denom supply rose from %s to %s (+%s) at height %d during %s", last, cur, cur.Sub(last), s.Height(), where)
		}
		if cur.LT(last) {
			r.Probe("supply_burned")
		}
		last = cur
	}
	s.AfterTx = append(s.AfterTx, func(w *World, tx *TxResult) { check("tx:" + tx.Name) })
	s.AfterBlock = append(s.AfterBlock, func(w *World) { check("block") })
	s.Warmup()
	for i := 0; i < cfg.Steps; i++ {
		s.StepOp()
	}
	// let pending monthly payouts and refills happen
	for i := 0; i < 3; i++ {
		s.OpBlocks()
	}
	_ = math.ZeroInt
}

// ---------- C37: block processing never halts ----------

func runC37(r *simrt.Run) {
	cfg := mkCfg(r, baseWeights(), 80, 400)
	s := NewSim(r, cfg)
	s.HaltOnBlockPanic = true
	s.Warmup()
	for i := 0; i < cfg.Steps; i++ {
		s.StepOp()
	}
	r.OracleEvals += int(s.Height())
}

func init() {
	simrt.Register("C09", &simrt.PropSpec{Fn: runC09, NonTrivial: historyNonTrivial,
		Rule:    "tape-generated multi-actor histories (stake/unstake/freeze/move, dual-staking and staking-module delegations, subscriptions, projects, keys, policies, relay payments) over a simulated block clock with downtime gaps, hour and multi-week jumps; supply compared after every transaction, BeginBlock+EndBlock pair. Non-trivial = >=10 accepted operations incl. a paid relay and >=1 clock fault; distinct = (op,outcome,fault) sequence hash",
		Real:    chainReal, Stubbed: chainStub, Assume: chainAssume})
	simrt.Register("C37", &simrt.PropSpec{Fn: runC37, NonTrivial: historyNonTrivial,
		Rule:    "same histories as C09 with recover() around every Begin/EndBlock: a recovered panic on a history of committed transactions is the violation. Non-trivial = >=10 accepted operations incl. a paid relay and >=1 clock fault",
		Real:    chainReal, Stubbed: chainStub, Assume: chainAssume})
}
