package chainsim

import (
	sdk "github.com/cosmos/cosmos-sdk/types"
	pairingtypes "github.com/lavanet/lava/v5/x/pairing/types"
	"github.com/lavanet/lava/v5/zz_verif/simrt"
)

var chainReal = []string{"all lava keepers + msg servers (pairing, subscription, projects, plans, spec, rewards, dualstaking, epochstorage, conflict, downtime, protocol, fixationstore, timerstore) with their Begin/EndBlockers in app order", "cosmos-sdk x/staking, x/slashing, x/distribution keepers", "dualstaking redelegation ante flagger", "IAVL/cachekv multistore"}
var chainStub = []string{"bank and account keepers (repo's in-memory mock; GetSupply = sum of balances)", "CometBFT / block store (mock)", "gov voting (proposal handlers are invoked directly)", "gas, signatures of sdk.Tx envelopes, rest of the ante chain"}
var chainAssume = []string{"results about supply/solvency concern lava's calls into the bank API, not x/bank itself", "transactions are atomic as in baseapp (cache context + mock-bank snapshot, provided by the harness)", "messages pass ValidateBasic before reaching a handler"}

func historyNonTrivial(r *simrt.Run) bool {
	return r.OKOps() >= 10 && r.Extra["blocks_observed"] >= 20
}

// ---------- history themes ----------
//
// C09 (supply) and C37 (no halt) quantify over *all* histories of lava transactions, governance
// proposals and block boundaries. Besides their own generic generator they are therefore decided
// on the histories of every other chain property's generator (subscription/plan governance,
// IPRPC funding, slashes, unresponsiveness complaints, conflicts, parameter changes, spec
// contributors, reputation, ...): a run draws a theme, the monitors are attached to every World
// the theme creates (worldInitHooks), and the theme's own oracles are ignored (OnlyClasses) —
// they are decided by their own checks.
type theme struct {
	name string
	fn   simrt.PropFn
}

var themes []theme

func init() {
	themes = []theme{
		{"generic", nil}, {"generic", nil}, {"generic-tiny", nil}, {"generic-gov", nil},
		{"C02", runC02}, {"C03", runC03}, {"C04", runC04}, {"C05", runC05}, {"C06", runC06}, {"C07", runC07}, {"C08", runC08},
		{"C10", runC10}, {"C11", runC11}, {"C12", runC12}, {"C13", runC13}, {"C16", runC16}, {"C17", runC17}, {"C18", runC18},
		{"C19", runC19}, {"C20", runC20}, {"C21", runC21}, {"C22", runC22}, {"C23", runC23}, {"C24", runC24}, {"C42", runC42},
	}
}

// runThemed runs one history of a drawn theme with `attach` called on every World created.
func runThemed(r *simrt.Run, classes []string, attach func(w *World), generic func(r *simrt.Run, variant string)) {
	t := themes[r.Draw("cfg", len(themes))]
	r.Probe("theme_" + t.name)
	r.Logf("history theme: %s", t.name)
	worldInitHooks = append(worldInitHooks, func(w *World) {
		w.AfterBlock = append(w.AfterBlock, func(*World) { r.Extra["blocks_observed"]++ })
		attach(w)
	})
	defer func() { worldInitHooks = nil }()
	if t.fn == nil {
		generic(r, t.name)
		return
	}
	r.OnlyClasses = map[string]bool{}
	for _, c := range classes {
		r.OnlyClasses[c] = true
	}
	t.fn(r)
}

// genericHistory is the base generator; variant generic-gov adds governance parameter changes, generic-tiny adds the degenerate economy (relays of 1..3 CU with
// zero QoS scores, so that tracked CU can be zero although relays were paid).
func genericHistory(r *simrt.Run, variant string) {
	w8 := baseWeights()
	switch variant {
	case "generic-tiny":
		w8["tiny_relays"] = 25
		w8["relay"] = 3
	case "generic-gov":
		// arbitrary valid parameter-change proposals of the lava modules between the operations
		w8["gov_param"] = 8
	}
	cfg := mkCfg(r, w8, 80, 400)
	s := NewSim(r, cfg)
	s.Warmup()
	for i := 0; i < cfg.Steps; i++ {
		s.StepOp()
	}
	// let pending monthly payouts and refills happen
	for i := 0; i < 3; i++ {
		s.OpBlocks()
	}
}

// opTinyRelays: the degenerate economy — relays of 1..3 CU whose QoS report has zero (or near
// zero) scores, so that the CU tracked for the provider after QoS can be 0 although a relay was paid.
func (s *Sim) opTinyRelays() {
	r := s.R
	c := s.pickCons()
	signer := s.signerFor(c)
	spec := s.pickSpec()
	paired := s.pairedProvidersFor(signer, spec.Index)
	if len(paired) == 0 {
		r.Op("tiny_relays", "skip")
		return
	}
	n := 1 + r.Draw("ops", 3)
	for i := 0; i < n; i++ {
		p := paired[r.Draw("ops", len(paired))]
		s.sessionSeq++
		rs := RelaySpec{Consumer: c, Signer: signer, Provider: p, Spec: spec.Index, Epoch: int64(s.EpochStart()), Session: s.sessionSeq,
			CuSum: uint64(1 + r.Draw("ops", 3)), RelayNum: 1}
		switch r.Draw("ops", 4) {
		case 0:
		case 1:
			rs.Qos = s.randQos("ops")
		default:
			z := sdk.ZeroDec()
			rs.Qos = &pairingtypes.QualityOfServiceReport{Latency: z, Availability: z, Sync: z}
			if r.Chance("ops", 1, 3) {
				rs.Qos.Latency = sdk.NewDecWithPrec(1, 2)
			}
		}
		rel := s.BuildRelay(rs)
		res := s.SendRelayPayment("relay", p, []*pairingtypes.RelaySession{rel})
		r.Logf("tiny relay %s<-%s %s cu=%d qos=%v: %s", p.Acc.Name, c.Acc.Name, spec.Index, rs.CuSum, rs.Qos != nil, short(res.Err))
	}
}

// ---------- C09: token supply never increases ----------

func runC09(r *simrt.Run) {
	runThemed(r, []string{"supply-increased"}, func(w *World) {
		started := false
		var last = w.Supply()
		check := func(where string) {
			cur := w.Supply()
			if !started {
				// world construction (genesis accounts, validators) mints by design
				last = cur
				return
			}
			r.OracleEvals++
			if cur.GT(last) {
				r.Fail("supply-increased", where, "bond-denom supply rose from %s to %s (+%s) at height %d during %s", last, cur, cur.Sub(last), w.Height(), where)
			}
			if cur.LT(last) {
				r.Probe("supply_burned")
			}
			last = cur
		}
		w.BeforeTx = append(w.BeforeTx, func(w *World, name string) {
			// harness-side funding of new accounts between transactions is not a lava mint:
			// re-base on the supply seen right before each transaction and block
			started = true
			last = w.Supply()
		})
		w.BeforeBlock = append(w.BeforeBlock, func(w *World) { started = true; last = w.Supply() })
		w.AfterTx = append(w.AfterTx, func(w *World, tx *TxResult) { check("tx:" + tx.Name) })
		w.AfterBlock = append(w.AfterBlock, func(w *World) { check("block") })
	}, genericHistory)
}

// ---------- C37: block processing never halts ----------

func runC37(r *simrt.Run) {
	runThemed(r, []string{"block-panic"}, func(w *World) {
		w.HaltOnBlockPanic = true
		w.AfterBlock = append(w.AfterBlock, func(*World) { r.OracleEvals++ })
	}, genericHistory)
}

func init() {
	AddOp("tiny_relays", (*Sim).opTinyRelays)
	simrt.Register("C09", &simrt.PropSpec{Fn: runC09, NonTrivial: historyNonTrivial, RunWallS: 600,
		Rule: "each run draws a history theme: the generic multi-actor generator (stake/unstake/freeze/move, dual-staking and staking-module delegations, subscriptions, projects, keys, policies, relay payments with QoS; one variant with 1..3-CU relays and zero QoS) or the generator of one of the other chain properties (C02-C08, C10-C13, C16-C24, C42: plan/spec governance, IPRPC funding, slashes, complaints and jailing, conflicts and votes, parameter changes, spec contributors, badges, reputation) whose own oracles are ignored here; the bond-denom supply is compared across every transaction and every BeginBlock+EndBlock pair of the history (harness-side account funding between them is re-based). Non-trivial = >=10 accepted operations and >=20 observed blocks; distinct = (op,outcome,fault) sequence hash",
		Real: chainReal, Stubbed: chainStub, Assume: chainAssume})
	simrt.Register("C37", &simrt.PropSpec{Fn: runC37, NonTrivial: historyNonTrivial, RunWallS: 600,
		Rule: "same themed histories as C09 with recover() around every Begin/EndBlock: a recovered panic on a history of committed transactions is the violation (signature = first lava frame). Non-trivial = >=10 accepted operations and >=20 observed blocks",
		Real: chainReal, Stubbed: chainStub, Assume: chainAssume})
}
