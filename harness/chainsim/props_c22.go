package chainsim

// C22 — spec inheritance expands deterministically and completely.
//
// Apart from the history interleaving (spec-add proposals land between the other operations of the
// mixed workload and between epochs, children are re-validated when a parent is modified), this is
// generated-input comparison: small import graphs (<= 6 generated specs plus the base specs;
// chains, diamonds, cycles incl. self import, unknown imports, overlapping collections, disabled
// collections and APIs, an add-on collection with intra-spec inheritance, extensions, overrides by
// name inside the same collection key, CU values around the allowed range) are
//   (a) submitted through the real spec-add proposal handler inside a transaction, and
//   (b) expanded directly with Keeper.ExpandSpec,
// and every successful expansion is compared with an independent recursive reference written from
// the property statement.

import (
	"crypto/sha256"
	"encoding/hex"
	"fmt"
	"sort"
	"strings"

	sdk "github.com/cosmos/cosmos-sdk/types"
	testkeeper "github.com/lavanet/lava/v5/testutil/keeper"
	spectypes "github.com/lavanet/lava/v5/x/spec/types"
	"github.com/lavanet/lava/v5/zz_verif/simrt"
)

var c22Indexes = []string{"C22A", "C22B", "C22C", "C22D", "C22E", "C22F"}

const (
	c22Unknown     = "C22ZZ"
	c22Repeats     = 8    // expansions of the same input inside one process (map ranges: sorted, reversed, 6 shuffles)
	c22StepBudget  = 4000 // spec look-ups one expansion may need (graphs have <= 10 nodes)
	c22MaxRefDepth = 24
	c22MinCU       = 1 // lower end of the allowed range (x/spec/types/spec.go: minCU); the upper end is the MaxCU param read at run time
)

var c22Keys = []spectypes.CollectionData{
	{ApiInterface: spectypes.APIInterfaceJsonRPC, Type: "POST"},
	{ApiInterface: spectypes.APIInterfaceRest, Type: "GET"},
	{ApiInterface: spectypes.APIInterfaceJsonRPC, Type: "POST", AddOn: "debug"},
	{ApiInterface: spectypes.APIInterfaceTendermintRPC},
}

// c22Variants[i] are collection keys that share api interface and add-on with c22Keys[i] and
// differ only in the connection type or the internal path (rest GET/POST, a json-rpc endpoint per
// internal path, ...): a spec may carry several of them next to each other.
var c22Variants = [][]spectypes.CollectionData{
	{{ApiInterface: spectypes.APIInterfaceJsonRPC, Type: "POST", InternalPath: "/x"}, {ApiInterface: spectypes.APIInterfaceJsonRPC, Type: "POST", InternalPath: "/p"}},
	{{ApiInterface: spectypes.APIInterfaceRest, Type: "POST"}, {ApiInterface: spectypes.APIInterfaceRest, Type: "GET", InternalPath: "/v2"}},
	{{ApiInterface: spectypes.APIInterfaceJsonRPC, Type: "POST", AddOn: "debug", InternalPath: "/x"}, {ApiInterface: spectypes.APIInterfaceJsonRPC, Type: "GET", AddOn: "debug"}},
	{{ApiInterface: spectypes.APIInterfaceTendermintRPC, InternalPath: "/ws"}, {ApiInterface: spectypes.APIInterfaceTendermintRPC, Type: "GET"}},
}

type c22GetFn func(index string) (spectypes.Spec, bool)

// c22WithMapOrder runs fn with the map-order seam (engines built with "maporder": ranges over maps
// in the chain code go through simrt.MapKeys) set for repetition i: sorted keys, reversed keys, then
// a different shuffle for every repetition. On an engine without the seam this changes nothing and
// the repetitions see the runtime's own (randomised) map order.
func c22WithMapOrder(i int, fn func()) {
	switch i {
	case 0:
		simrt.SetMapOrder(simrt.MapOrderSorted, 0)
	case 1:
		simrt.SetMapOrder(simrt.MapOrderReversed, 0)
	default:
		simrt.SetMapOrder(simrt.MapOrderShuffled, 0x9e3779b97f4a7c15*uint64(i))
	}
	defer simrt.SetMapOrder(simrt.MapOrderNative, 0)
	fn()
}

func c22Clone(sp spectypes.Spec) spectypes.Spec {
	b, err := sp.Marshal()
	if err != nil {
		panic(err)
	}
	var out spectypes.Spec
	if err := out.Unmarshal(b); err != nil {
		panic(err)
	}
	return out
}

func c22Digest(sp *spectypes.Spec) string {
	b, err := sp.Marshal()
	if err != nil {
		return "marshal-error"
	}
	h := sha256.Sum256(b)
	return hex.EncodeToString(h[:6])
}

func c22KeyStr(k spectypes.CollectionData) string {
	return fmt.Sprintf("%s/%s/%s/%s", k.ApiInterface, k.InternalPath, k.Type, k.AddOn)
}

// c22Describe renders a spec compactly (inputs of failing comparisons go into the detail).
func c22Describe(sp *spectypes.Spec) string {
	var b strings.Builder
	fmt.Fprintf(&b, "%s{imports=%v", sp.Index, sp.Imports)
	for _, c := range sp.ApiCollections {
		en := "+"
		if !c.Enabled {
			en = "-"
		}
		fmt.Fprintf(&b, " %s[%s]", en, c22KeyStr(c.CollectionData))
		if len(c.InheritanceApis) > 0 {
			b.WriteString("<inh")
			for _, i := range c.InheritanceApis {
				b.WriteString(" " + c22KeyStr(*i))
			}
			b.WriteString(">")
		}
		b.WriteString("(")
		for i, a := range c.Apis {
			if i > 0 {
				b.WriteString(",")
			}
			if !a.Enabled {
				b.WriteString("!")
			}
			fmt.Fprintf(&b, "%s:cu%d:t%d", a.Name, a.ComputeUnits, a.TimeoutMs)
		}
		b.WriteString(")")
		if len(c.Extensions) > 0 {
			fmt.Fprintf(&b, "ext%d", len(c.Extensions))
		}
	}
	b.WriteString("}")
	return b.String()
}

// ---------------------------------------------------------------------------------------------
// reference expansion (from the statement; recursive, simple, bounded)
// ---------------------------------------------------------------------------------------------

type c22RefApi struct {
	own       bool
	overrides bool             // own definition that differs from an enabled definition delivered by an import
	sources   int              // direct imports that deliver an enabled definition of this name
	cands     []*spectypes.Api // acceptable contents (own version, or the enabled versions of the imports)
}

type c22RefCol struct {
	own     bool
	enabled bool
	sibling bool // this collection, or the same collection of an import, is built on sibling collections (intra-spec inheritance): which definition of an API name it ends up with is not stated by the property
	apis    map[string]*c22RefApi
	names   []string
}

type c22Ref struct {
	err      string // "", "unknown-import", "import-cycle"
	errAt    string
	cols     map[spectypes.CollectionData]*c22RefCol
	keys     []spectypes.CollectionData
	disabled map[spectypes.CollectionData]bool // keys seen only disabled in the imports
}

type c22Walker struct {
	get      c22GetFn
	visits   map[string]int
	universe map[string][]*spectypes.Api // every API of every reachable raw spec, by name
	skippedA int
}

func (w *c22Walker) addUniverse(sp *spectypes.Spec) {
	for _, c := range sp.ApiCollections {
		for _, a := range c.Apis {
			w.universe[a.Name] = append(w.universe[a.Name], a)
		}
	}
}

func (w *c22Walker) ref(sp *spectypes.Spec, stack map[string]bool, depth int) *c22Ref {
	out := &c22Ref{cols: map[spectypes.CollectionData]*c22RefCol{}, disabled: map[spectypes.CollectionData]bool{}}
	if depth > c22MaxRefDepth {
		out.err, out.errAt = "import-cycle", sp.Index
		return out
	}
	w.addUniverse(sp)
	for _, c := range sp.ApiCollections {
		rc := out.cols[c.CollectionData]
		if rc == nil {
			rc = &c22RefCol{own: true, enabled: c.Enabled, apis: map[string]*c22RefApi{}}
			out.cols[c.CollectionData] = rc
			out.keys = append(out.keys, c.CollectionData)
		}
		if len(c.InheritanceApis) > 0 {
			rc.sibling = true
		}
		for _, a := range c.Apis {
			if rc.apis[a.Name] == nil {
				rc.apis[a.Name] = &c22RefApi{own: true, cands: []*spectypes.Api{a}}
				rc.names = append(rc.names, a.Name)
			}
		}
	}
	for _, idx := range sp.Imports {
		parent, found := w.get(idx)
		if !found {
			out.err, out.errAt = "unknown-import", idx
			return out
		}
		if stack[idx] {
			out.err, out.errAt = "import-cycle", idx
			return out
		}
		w.visits[idx]++
		stack[idx] = true
		pr := w.ref(&parent, stack, depth+1)
		delete(stack, idx)
		if pr.err != "" {
			out.err, out.errAt = pr.err, pr.errAt
			return out
		}
		for _, k := range pr.keys {
			pc := pr.cols[k]
			if !pc.enabled {
				if out.cols[k] == nil {
					out.disabled[k] = true
				}
				continue
			}
			rc := out.cols[k]
			if rc == nil {
				rc = &c22RefCol{own: false, enabled: true, apis: map[string]*c22RefApi{}}
				out.cols[k] = rc
				out.keys = append(out.keys, k)
				delete(out.disabled, k)
			}
			rc.sibling = rc.sibling || pc.sibling
			for _, n := range pc.names {
				pa := pc.apis[n]
				var enabledCands []*spectypes.Api
				for _, c := range pa.cands {
					if c.Enabled {
						enabledCands = append(enabledCands, c)
					}
				}
				if len(enabledCands) == 0 {
					w.skippedA++
					continue // a disabled API of an import is not inherited
				}
				ra := rc.apis[n]
				switch {
				case ra == nil:
					rc.apis[n] = &c22RefApi{cands: enabledCands, sources: 1}
					rc.names = append(rc.names, n)
				case ra.own:
					// the spec overrides the inherited API by name
					for _, c := range enabledCands {
						if !c.Equal(ra.cands[0]) {
							ra.overrides = true
						}
					}
				default:
					ra.cands = append(ra.cands, enabledCands...)
					ra.sources++
				}
			}
		}
	}
	// intra-spec inheritance (add-on collections built on a sibling collection) may make one of the
	// spec's own definitions take the place of an imported one of the same name: acceptable too
	for _, k := range out.keys {
		rc := out.cols[k]
		for _, n := range rc.names {
			if ra := rc.apis[n]; !ra.own {
				for _, c := range sp.ApiCollections {
					for _, a := range c.Apis {
						if a.Name == n {
							ra.cands = append(ra.cands, a)
						}
					}
				}
			}
		}
	}
	return out
}

// ---------------------------------------------------------------------------------------------
// checking one input
// ---------------------------------------------------------------------------------------------

type c22Budget struct{ left int }

type c22Runaway struct{}

// c22Terminates runs lava's DoExpandSpec with a counting look-up function. A recursion that never
// ends (e.g. a missed import cycle) exceeds the budget and is reported, instead of overflowing the
// stack inside the keeper later.
func (s *Sim) c22Terminates(ctx sdk.Context, where string, sp spectypes.Spec) {
	r := s.R
	bud := &c22Budget{left: c22StepBudget}
	get := func(ctx sdk.Context, index string) (spectypes.Spec, bool) {
		bud.left--
		if bud.left < 0 {
			panic(c22Runaway{})
		}
		return s.K.Spec.GetSpec(ctx, index)
	}
	runaway := false
	func() {
		defer func() {
			if p := recover(); p != nil {
				if _, ok := p.(c22Runaway); ok {
					runaway = true
					return
				}
				if simrt.IsSimPanic(p) {
					panic(p)
				}
				r.Probe("c22_expand_panic")
				r.Logf("   expansion of %s panicked: %.200v", sp.Index, p)
			}
		}()
		cp := c22Clone(sp)
		depends := map[string]bool{cp.Index: true}
		inherit := map[string]bool{}
		_, _ = spectypes.DoExpandSpec(ctx, &cp, depends, &inherit, cp.Index, get)
	}()
	r.OracleEvals++
	if runaway {
		r.Fail("expansion-nontermination", where, "expanding %s needed more than %d spec look-ups (graph of <= 10 specs): the expansion does not terminate. input: %s", sp.Index, c22StepBudget, c22Describe(&sp))
	}
	r.Extra["c22_lookups"] += int64(c22StepBudget - bud.left)
}

// c22CheckInput expands sp (read from / against the store visible in ctx) several times and
// compares with the reference. Returns whether lava's expansion succeeded.
func (s *Sim) c22CheckInput(ctx sdk.Context, where string, sp spectypes.Spec) bool {
	r := s.R
	s.c22Terminates(ctx, where, sp)
	get := func(index string) (spectypes.Spec, bool) { return s.K.Spec.GetSpec(ctx, index) }
	w := &c22Walker{get: get, visits: map[string]int{}, universe: map[string][]*spectypes.Api{}}
	raw := c22Clone(sp)
	ref := w.ref(&raw, map[string]bool{raw.Index: true}, 0)

	var first spectypes.Spec
	var firstBytes []byte
	var firstErr error
	simrt.MapOrderSites()
	for i := 0; i < c22Repeats; i++ {
		var res spectypes.Spec
		var err error
		c22WithMapOrder(i, func() { res, err = s.K.Spec.ExpandSpec(ctx, c22Clone(sp)) })
		var b []byte
		if err == nil {
			b, _ = res.Marshal()
		}
		if i == 0 {
			first, firstBytes, firstErr = res, b, err
			continue
		}
		r.OracleEvals++
		if (err == nil) != (firstErr == nil) {
			r.Fail("nondeterministic-expansion", where+":verdict", "the same input expanded with different verdicts when repeated in one process (map iteration order: run 0 sorted keys, run 1 reversed, later runs shuffled; native order on an engine without the map-order seam): run 0 err=%v, run %d err=%v. input: %s", firstErr, i, err, c22Describe(&sp))
		}
		if err == nil && string(b) != string(firstBytes) {
			r.Fail("nondeterministic-expansion", where+":result", "the same input expanded to different results when repeated in one process (map iteration order: run 0 sorted keys, run 1 reversed, later runs shuffled; native order on an engine without the map-order seam).\nrun 0: %s\nrun %d: %s\ninput: %s", c22Describe(&first), i, c22Describe(&res), c22Describe(&sp))
		}
	}
	if len(simrt.MapOrderSites()) > 0 {
		r.Probe("c22_map_order_seam_active") // some map with several keys was ranged over in a chosen order
	}
	verdict := "ok"
	if firstErr != nil {
		verdict = "err"
	}
	r.Logf("   expand[%s] %s ref=%s -> %s %s", where, c22Describe(&sp), map[bool]string{true: "ok", false: ref.err + "@" + ref.errAt}[ref.err == ""], verdict, c22Digest(&first))

	// cycles and unknown imports must be rejected
	if ref.err != "" {
		r.Check(firstErr != nil, ref.err+"-not-rejected", where, "expansion of %s succeeded although the reference finds an %s at %s. input: %s", sp.Index, ref.err, ref.errAt, c22Describe(&sp))
		r.Probe("c22_" + strings.ReplaceAll(ref.err, "-", "_") + "_rejected")
		if ref.err == "import-cycle" && ref.errAt == sp.Index && len(sp.Imports) > 0 {
			for _, im := range sp.Imports {
				if im == sp.Index {
					r.Probe("c22_self_import_rejected")
				}
			}
		}
		return false
	}
	if firstErr != nil {
		r.Probe("c22_expand_rejected_other")
		return false
	}
	r.Probe("c22_expand_ok")
	for _, n := range w.visits {
		if n >= 2 {
			r.Probe("c22_diamond_expanded")
			break
		}
	}
	s.c22Compare(ctx, where, &sp, &first, ref, w)
	return true
}

func (s *Sim) c22Compare(ctx sdk.Context, where string, in, res *spectypes.Spec, ref *c22Ref, w *c22Walker) {
	r := s.R
	desc := func() string { return fmt.Sprintf("input: %s\nresult: %s", c22Describe(in), c22Describe(res)) }
	// own API contents by name (intra-spec inheritance may legitimately bring a sibling's API)
	ownByName := map[string][]*spectypes.Api{}
	for _, c := range in.ApiCollections {
		for _, a := range c.Apis {
			ownByName[a.Name] = append(ownByName[a.Name], a)
		}
	}
	equalsAny := func(a *spectypes.Api, list []*spectypes.Api) bool {
		for _, c := range list {
			if a.Equal(c) {
				return true
			}
		}
		return false
	}
	// 1. no duplicates
	resCols := map[spectypes.CollectionData]*spectypes.ApiCollection{}
	resApis := map[spectypes.CollectionData]map[string]*spectypes.Api{}
	type dupT struct {
		key  spectypes.CollectionData
		name string
		sig  string
	}
	var dups []*dupT
	viaImports := map[spectypes.CollectionData]map[string]bool{}
	for _, c := range res.ApiCollections {
		r.Check(resCols[c.CollectionData] == nil, "expansion-duplicate", "collection", "collection %s appears twice in the expansion of %s.\n%s", c22KeyStr(c.CollectionData), in.Index, desc())
		resCols[c.CollectionData] = c
		m := map[string]*spectypes.Api{}
		for _, a := range c.Apis {
			r.OracleEvals++
			if prev := m[a.Name]; prev != nil {
				// signature: the same (equal) imported definition delivered by two or more direct
				// imports (diamond) and not overridden by the spec, vs. anything else
				d := &dupT{key: c.CollectionData, name: a.Name, sig: "api"}
				if prev.Equal(a) && s.c22DeliveredBy(ctx, in, c.CollectionData, a) >= 2 {
					d.sig = "api:same-definition-via-several-imports"
					if viaImports[c.CollectionData] == nil {
						viaImports[c.CollectionData] = map[string]bool{}
					}
					viaImports[c.CollectionData][a.Name] = true
				}
				dups = append(dups, d)
			}
			m[a.Name] = a
		}
		resApis[c.CollectionData] = m
	}
	// an add-on collection copies the APIs of the sibling it is built on, duplicates included
	for changed := true; changed; {
		changed = false
		for _, d := range dups {
			if d.sig != "api" {
				continue
			}
			for _, c := range in.ApiCollections {
				if c.CollectionData != d.key {
					continue
				}
				for _, sib := range c.InheritanceApis {
					if viaImports[*sib][d.name] {
						d.sig = "api:same-definition-via-several-imports"
						if viaImports[d.key] == nil {
							viaImports[d.key] = map[string]bool{}
						}
						viaImports[d.key][d.name] = true
						changed = true
					}
				}
			}
		}
	}
	for _, d := range dups {
		r.Fail("expansion-duplicate", d.sig, "API %s appears twice in collection %s of the expansion of %s.\n%s", d.name, c22KeyStr(d.key), in.Index, desc())
		r.Probe("c22_known_duplicate_seen")
	}
	// vacuity: several inherited (not overridden) collections that share api interface and add-on
	sameIfc := map[[2]string]int{}
	for _, k := range ref.keys {
		if rc := ref.cols[k]; !rc.own && rc.enabled {
			g := [2]string{k.ApiInterface, k.AddOn}
			sameIfc[g]++
			if sameIfc[g] == 2 {
				r.Probe("c22_same_interface_collections_inherited")
			}
		}
	}
	// 2. completeness + overrides
	for _, k := range ref.keys {
		rc := ref.cols[k]
		col := resCols[k]
		what := "inherited"
		if rc.own {
			what = "own"
		}
		r.Check(col != nil, "expansion-incomplete", "collection", "%s collection %s is missing from the expansion of %s.\n%s", what, c22KeyStr(k), in.Index, desc())
		if col == nil {
			continue
		}
		if rc.own {
			r.Check(col.Enabled == rc.enabled, "override-lost", "collection-enabled", "own collection %s of %s has enabled=%v in the expansion, the spec says %v.\n%s", c22KeyStr(k), in.Index, col.Enabled, rc.enabled, desc())
		} else {
			r.Check(col.Enabled, "expansion-incomplete", "collection-disabled", "enabled collection %s inherited by %s is disabled in the expansion.\n%s", c22KeyStr(k), in.Index, desc())
			r.Probe("c22_collection_inherited")
		}
		for _, n := range rc.names {
			ra := rc.apis[n]
			if !ra.own && rc.own && !rc.enabled {
				continue // the spec switched this collection off; what it carries inside is not stated
			}
			a := resApis[k][n]
			r.Check(a != nil, "expansion-incomplete", "api", "%s API %s of collection %s is missing from the expansion of %s.\n%s", map[bool]string{true: "own", false: "inherited enabled"}[ra.own], n, c22KeyStr(k), in.Index, desc())
			if a == nil {
				continue
			}
			if ra.own {
				r.Check(a.Equal(ra.cands[0]), "override-lost", "api", "API %s in collection %s of %s: the expansion does not carry the spec's own definition (cu %d t %d enabled %v) but (cu %d t %d enabled %v).\n%s", n, c22KeyStr(k), in.Index, ra.cands[0].ComputeUnits, ra.cands[0].TimeoutMs, ra.cands[0].Enabled, a.ComputeUnits, a.TimeoutMs, a.Enabled, desc())
				if ra.overrides {
					r.Probe("c22_override_applied")
				}
			} else {
				r.Check(equalsAny(a, ra.cands) || equalsAny(a, ownByName[n]) || (rc.sibling && equalsAny(a, w.universe[n])), "inherited-api-altered", "api", "API %s in collection %s of %s is neither an imported enabled definition nor one of the spec's own (cu %d t %d enabled %v).\n%s", n, c22KeyStr(k), in.Index, a.ComputeUnits, a.TimeoutMs, a.Enabled, desc())
				r.Probe("c22_api_inherited")
			}
		}
	}
	if w.skippedA > 0 {
		r.Probe("c22_disabled_api_not_inherited")
	}
	// 3. nothing that is switched off in the imports leaks in, nothing is invented
	for _, c := range res.ApiCollections {
		k := c.CollectionData
		rc := ref.cols[k]
		if rc == nil {
			if ref.disabled[k] {
				r.Fail("disabled-collection-inherited", "collection", "collection %s is disabled in every import of %s that has it, yet the expansion contains it.\n%s", c22KeyStr(k), in.Index, desc())
			}
			r.Fail("unexpected-collection", "collection", "collection %s in the expansion of %s comes neither from the spec nor from an enabled collection of its imports.\n%s", c22KeyStr(k), in.Index, desc())
			continue
		}
		for _, a := range c.Apis {
			if rc.apis[a.Name] != nil {
				continue
			}
			// not required by the reference: must at least be some definition that exists in the
			// import closure (e.g. a disabled API kept as disabled, or one brought by an add-on's
			// intra-spec inheritance)
			r.Check(equalsAny(a, w.universe[a.Name]), "unexpected-api", "api", "API %s (cu %d t %d enabled %v) in collection %s of the expansion of %s matches no definition in the import closure.\n%s", a.Name, a.ComputeUnits, a.TimeoutMs, a.Enabled, c22KeyStr(k), in.Index, desc())
		}
	}
	for k := range ref.disabled {
		if resCols[k] == nil {
			r.Probe("c22_disabled_collection_skipped")
		}
	}
}

// c22DeliveredBy counts the direct imports of in whose (lava-)expanded form carries an enabled
// collection key with an enabled API equal to a. Only used to give a duplicate its signature.
func (s *Sim) c22DeliveredBy(ctx sdk.Context, in *spectypes.Spec, key spectypes.CollectionData, a *spectypes.Api) int {
	n := 0
	for _, idx := range in.Imports {
		p, ok := s.K.Spec.GetSpec(ctx, idx)
		if !ok {
			continue
		}
		exp, err := s.K.Spec.ExpandSpec(ctx, p)
		if err != nil {
			continue
		}
		for _, c := range exp.ApiCollections {
			if c.CollectionData != key || !c.Enabled {
				continue
			}
			for _, pa := range c.Apis {
				if pa.Enabled && pa.Equal(a) {
					n++
					break
				}
			}
			break
		}
	}
	return n
}

// ---------------------------------------------------------------------------------------------
// generators
// ---------------------------------------------------------------------------------------------

func (s *Sim) c22Api(name string, special bool) *spectypes.Api {
	return s.c22ApiOn("ops", name, special)
}

func (s *Sim) c22ApiOn(stream, name string, special bool) *spectypes.Api {
	r := s.R
	a := &spectypes.Api{Name: name, Enabled: !r.Chance(stream, 1, 6), ComputeUnits: 10}
	if r.Chance(stream, 1, 5) {
		a.TimeoutMs = uint64(1000 * (1 + r.Draw(stream, 2))) // a different definition under the same name
	}
	if special && r.Chance(stream, 1, 10) {
		max := s.K.Spec.MaxCU(s.Ctx)
		pool := []uint64{max, max - 1, 1, 0, max + 1, 2, 1 << 40}
		a.ComputeUnits = pool[r.Draw(stream, len(pool))]
	} else if r.Chance(stream, 1, 6) {
		a.ComputeUnits = 20
	}
	return a
}

// c22AddVariants appends, next to own collections of the spec, collections whose key shares api
// interface and add-on with it and differs in connection type / internal path. All choices come
// from the stream "c22x" (an exhausted tape adds nothing).
func (s *Sim) c22AddVariants(sp *spectypes.Spec, picked []int) {
	r := s.R
	if !r.Chance("c22x", 1, 2) {
		return
	}
	cands := picked
	if len(cands) == 0 {
		cands = []int{r.Draw("c22x", len(c22Keys))} // a spec that only imports may still add a variant of its own
	}
	have := map[spectypes.CollectionData]bool{}
	for _, c := range sp.ApiCollections {
		have[c.CollectionData] = true
	}
	n := 1 + r.Draw("c22x", 3)
	for i := 0; i < n; i++ {
		ki := cands[r.Draw("c22x", len(cands))]
		key := c22Variants[ki][r.Draw("c22x", len(c22Variants[ki]))]
		if r.Chance("c22x", 1, 4) && !have[c22Keys[ki]] {
			key = c22Keys[ki]
		}
		if have[key] {
			continue
		}
		have[key] = true
		col := &spectypes.ApiCollection{Enabled: !r.Chance("c22x", 1, 6), CollectionData: key}
		napi := 1 + r.Draw("c22x", 3)
		used := map[int]bool{}
		for a := 0; a < napi; a++ {
			k := r.Draw("c22x", 5)
			if used[k] {
				continue
			}
			used[k] = true
			col.Apis = append(col.Apis, s.c22ApiOn("c22x", fmt.Sprintf("a%d", k), false))
		}
		sp.ApiCollections = append(sp.ApiCollections, col)
	}
}

func (s *Sim) c22Spec(index string, imports []string) spectypes.Spec {
	r := s.R
	letter := strings.ToLower(index[len(index)-1:])
	sp := spectypes.Spec{
		Index: index, Name: "gen spec " + letter, Enabled: !r.Chance("ops", 1, 6), ReliabilityThreshold: 268435455,
		BlockDistanceForFinalizedData: 1, BlocksInFinalizationProof: 3, AverageBlockTime: 6000, AllowedBlockLagForQosSync: 2,
		MinStakeProvider: sdk.NewCoin(s.Denom, sdk.NewInt(1000)), Shares: 1, Imports: imports,
	}
	ncol := r.Draw("ops", 4) // 0..3 own collections
	if ncol == 0 && len(imports) == 0 {
		ncol = 1
	}
	perm := []int{0, 1, 2, 3}
	for i := 0; i < ncol; i++ {
		j := i + r.Draw("ops", len(perm)-i)
		perm[i], perm[j] = perm[j], perm[i]
	}
	picked := append([]int(nil), perm[:ncol]...)
	sort.Ints(picked)
	hasBase := false
	for _, ki := range picked {
		key := c22Keys[ki]
		col := &spectypes.ApiCollection{Enabled: !r.Chance("ops", 1, 5), CollectionData: key}
		napi := 1 + r.Draw("ops", 3)
		used := map[int]bool{}
		for a := 0; a < napi; a++ {
			n := r.Draw("ops", 5)
			if used[n] {
				continue
			}
			used[n] = true
			col.Apis = append(col.Apis, s.c22Api(fmt.Sprintf("a%d", n), true))
		}
		if ki == 0 {
			hasBase = true
			if r.Chance("ops", 1, 4) {
				col.Extensions = []*spectypes.Extension{{Name: "archive", CuMultiplier: 5, Rule: &spectypes.Rule{Block: 127}}}
			}
			if r.Chance("ops", 1, 4) {
				sp.DataReliabilityEnabled = true
				col.ParseDirectives = []*spectypes.ParseDirective{
					{FunctionTag: spectypes.FUNCTION_TAG_GET_BLOCKNUM, FunctionTemplate: "blockNumber", ApiName: "a0"},
					{FunctionTag: spectypes.FUNCTION_TAG_GET_BLOCK_BY_NUM, FunctionTemplate: "getBlock %d", ApiName: "a1"},
				}
			}
		}
		if ki == 2 && (hasBase || r.Chance("ops", 1, 8)) && r.Chance("ops", 2, 3) {
			base := c22Keys[0]
			col.InheritanceApis = []*spectypes.CollectionData{&base} // add-on built on the base collection of the same interface
		}
		sp.ApiCollections = append(sp.ApiCollections, col)
	}
	s.c22AddVariants(&sp, picked)
	return sp
}

// c22Existing lists the stored spec indexes (generated ones first, then the base specs).
func (s *Sim) c22Existing() (gen []string, all []string) {
	for _, idx := range c22Indexes {
		if _, ok := s.K.Spec.GetSpec(s.Ctx, idx); ok {
			gen = append(gen, idx)
		}
	}
	all = append(all, gen...)
	for _, sp := range s.Specs {
		all = append(all, sp.Index)
	}
	return
}

func (s *Sim) c22PickImports(pool []string, self string, max int) []string {
	r := s.R
	var out []string
	n := r.Draw("ops", max+1)
	for i := 0; i < n && len(pool) > 0; i++ {
		c := pool[r.Draw("ops", len(pool))]
		dup := c == self
		for _, o := range out {
			if o == c {
				dup = true
			}
		}
		if !dup {
			out = append(out, c)
		}
	}
	return out
}

// c22Batch draws a batch of specs of some shape. kind is for the log / probes.
func (s *Sim) c22Batch() (specs []spectypes.Spec, kind string) {
	r := s.R
	gen, all := s.c22Existing()
	free := func(n int) []string { // n indexes, preferring unused ones
		var out []string
		used := map[string]bool{}
		for _, g := range gen {
			used[g] = true
		}
		for _, idx := range c22Indexes {
			if !used[idx] && len(out) < n {
				out = append(out, idx)
			}
		}
		// then re-use stored ones, starting at a drawn offset (bounded: an exhausted tape draws 0)
		off := r.Draw("ops", len(c22Indexes))
		for i := 0; i < len(c22Indexes) && len(out) < n; i++ {
			c := c22Indexes[(off+i)%len(c22Indexes)]
			dup := false
			for _, o := range out {
				dup = dup || o == c
			}
			if !dup {
				out = append(out, c)
			}
		}
		return out
	}
	switch r.Draw("ops", 12) {
	case 0, 1, 2:
		idx := c22Indexes[r.Draw("ops", len(c22Indexes))]
		return []spectypes.Spec{s.c22Spec(idx, s.c22PickImports(all, idx, 2))}, "single"
	case 3:
		ix := free(3)
		specs = []spectypes.Spec{s.c22Spec(ix[2], s.c22PickImports(all, ix[2], 1)), s.c22Spec(ix[1], []string{ix[2]}), s.c22Spec(ix[0], []string{ix[1]})}
		kind = "chain"
		if r.Chance("ops", 1, 4) {
			specs[0], specs[2] = specs[2], specs[0]
			kind = "chain-child-first"
		}
		return specs, kind
	case 4, 5:
		ix := free(4)
		specs = []spectypes.Spec{s.c22Spec(ix[3], nil), s.c22Spec(ix[2], []string{ix[3]}), s.c22Spec(ix[1], []string{ix[3]}), s.c22Spec(ix[0], []string{ix[1], ix[2]})}
		return specs, "diamond"
	case 6:
		ix := free(2 + r.Draw("ops", 2))
		for i, idx := range ix {
			specs = append(specs, s.c22Spec(idx, []string{ix[(i+1)%len(ix)]}))
		}
		return specs, "cycle"
	case 7:
		idx := c22Indexes[r.Draw("ops", len(c22Indexes))]
		imps := append(s.c22PickImports(all, idx, 1), idx)
		return []spectypes.Spec{s.c22Spec(idx, imps)}, "self-import"
	case 8:
		idx := c22Indexes[r.Draw("ops", len(c22Indexes))]
		imps := append(s.c22PickImports(all, idx, 1), c22Unknown)
		return []spectypes.Spec{s.c22Spec(idx, imps)}, "unknown-import"
	case 9, 10:
		// modify a stored generated spec (its children are re-validated): close a cycle, switch a
		// collection off, change an API
		if len(gen) == 0 {
			idx := c22Indexes[0]
			return []spectypes.Spec{s.c22Spec(idx, nil)}, "single"
		}
		idx := gen[r.Draw("ops", len(gen))]
		old, _ := s.K.Spec.GetSpec(s.Ctx, idx)
		sp := c22Clone(old)
		switch r.Draw("ops", 4) {
		case 0:
			sp.Imports = s.c22PickImports(gen, idx, 2) // may close a cycle through a child
			kind = "modify-imports"
		case 1:
			if len(sp.ApiCollections) > 0 {
				c := sp.ApiCollections[r.Draw("ops", len(sp.ApiCollections))]
				c.Enabled = !c.Enabled
			}
			kind = "modify-toggle-collection"
		case 2:
			if len(sp.ApiCollections) > 0 {
				c := sp.ApiCollections[r.Draw("ops", len(sp.ApiCollections))]
				if len(c.Apis) > 0 {
					a := c.Apis[r.Draw("ops", len(c.Apis))]
					*a = *s.c22Api(a.Name, true)
				}
			}
			kind = "modify-api"
		default:
			sp = s.c22Spec(idx, s.c22PickImports(all, idx, 2))
			kind = "modify-replace"
		}
		return []spectypes.Spec{sp}, kind
	default:
		// a child built on top of what is stored: imports two stored specs and overrides one of
		// their APIs by name in the same collection key
		idx := c22Indexes[r.Draw("ops", len(c22Indexes))]
		sp := s.c22Spec(idx, s.c22PickImports(all, idx, 3))
		for _, im := range sp.Imports {
			p, ok := s.K.Spec.GetSpec(s.Ctx, im)
			if !ok || len(p.ApiCollections) == 0 {
				continue
			}
			pc := p.ApiCollections[r.Draw("ops", len(p.ApiCollections))]
			if len(pc.Apis) == 0 {
				continue
			}
			pa := pc.Apis[r.Draw("ops", len(pc.Apis))]
			var mine *spectypes.ApiCollection
			for _, c := range sp.ApiCollections {
				if c.CollectionData == pc.CollectionData {
					mine = c
				}
			}
			if mine == nil {
				mine = &spectypes.ApiCollection{Enabled: true, CollectionData: pc.CollectionData}
				sp.ApiCollections = append(sp.ApiCollections, mine)
			}
			has := false
			for _, a := range mine.Apis {
				has = has || a.Name == pa.Name
			}
			if !has {
				ov := *pa
				ov.Enabled = true
				ov.ComputeUnits = 30
				ov.TimeoutMs = 7000
				mine.Apis = append(mine.Apis, &ov)
			}
			break
		}
		return []spectypes.Spec{sp}, "override-child"
	}
}

// ---------------------------------------------------------------------------------------------
// operations
// ---------------------------------------------------------------------------------------------

type c22Snapshot struct {
	ok    bool
	specs string
}

func (s *Sim) c22StoreBytes(ctx sdk.Context) string {
	var b strings.Builder
	for _, sp := range s.K.Spec.GetAllSpec(ctx) {
		bz, _ := sp.Marshal()
		b.WriteString(sp.Index)
		b.WriteByte(0)
		b.Write(bz)
		b.WriteByte(1)
	}
	return b.String()
}

// c22ErrClass maps a lava error to a stable short class (for logs and probes only).
func c22ErrClass(err error) string {
	if err == nil {
		return "ok"
	}
	msg := err.Error()
	for _, c := range []struct{ sub, class string }{
		{"import loops not allowed", "import-loop"},
		{"imported spec unknown", "unknown-import"},
		{"api defined twice", "api-defined-twice"},
		{"compute units out or range", "cu-out-of-range"},
		{"duplicate imported combinable", "conflicting-imports"},
		{"try overwrite existing", "conflicting-imports"},
		{"existing combinable", "conflicting-imports"},
		{"incompatible inheritance", "incompatible-inheritance"},
		{"did not find inheritingCollection", "addon-base-missing"},
		{"circular dependency in inheritance", "addon-cycle"},
		{"invalid inheriting collection", "addon-invalid"},
		{"unsupported api interface", "bad-interface"},
		{"missing tagged functions", "missing-parse-directives"},
		{"api list cannot be empty", "empty"},
		{"list empty", "empty"},
		{"panic in tx", "panic"},
	} {
		if strings.Contains(msg, c.sub) {
			return "ERR:" + c.class
		}
	}
	return "ERR:other"
}

// c22DryRun executes the proposal on a throw-away cache context.
func (s *Sim) c22DryRun(specs []spectypes.Spec) (snap c22Snapshot) {
	cctx, _ := s.Ctx.CacheContext()
	defer func() {
		if p := recover(); p != nil {
			if simrt.IsSimPanic(p) {
				panic(p)
			}
			snap = c22Snapshot{ok: false, specs: "panic"}
		}
	}()
	cp := make([]spectypes.Spec, len(specs))
	for i := range specs {
		cp[i] = c22Clone(specs[i])
	}
	err := testkeeper.SimulateSpecAddProposal(cctx, s.K.Spec, cp)
	if err != nil {
		return c22Snapshot{ok: false}
	}
	return c22Snapshot{ok: true, specs: s.c22StoreBytes(cctx)}
}

func (s *Sim) opC22Propose() {
	r := s.R
	specs, kind := s.c22Batch()
	descs := []string{}
	for i := range specs {
		descs = append(descs, c22Describe(&specs[i]))
	}
	r.Logf("c22_propose %s: %s", kind, strings.Join(descs, " ; "))
	// termination pre-flight on the states the handler will see (spec i stored, then validated)
	pre, _ := s.Ctx.CacheContext()
	for i := range specs {
		sp := c22Clone(specs[i])
		sp.BlockLastUpdated = s.Height()
		s.K.Spec.SetSpec(pre, sp)
		s.c22Terminates(pre, "proposal", sp)
	}
	for _, sp := range s.K.Spec.GetAllSpec(pre) {
		s.c22Terminates(pre, "proposal-refresh", sp)
	}
	// the same proposal on two throw-away contexts, then for real
	var d1, d2 c22Snapshot
	c22WithMapOrder(0, func() { d1 = s.c22DryRun(specs) })
	c22WithMapOrder(1, func() { d2 = s.c22DryRun(specs) })
	r.Check(d1 == d2, "nondeterministic-expansion", "proposal-dry-run", "the same spec-add proposal gave different results on two identical states: ok=%v/%v, stores equal=%v. specs: %s", d1.ok, d2.ok, d1.specs == d2.specs, strings.Join(descs, " ; "))
	real := make([]spectypes.Spec, len(specs))
	for i := range specs {
		real[i] = c22Clone(specs[i])
	}
	res := s.Tx("c22_propose", nil, func(ctx sdk.Context) error {
		return testkeeper.SimulateSpecAddProposal(ctx, s.K.Spec, real)
	})
	out := "ok"
	if res.Err != nil {
		out = "rejected"
	}
	r.Op("c22_propose", out)
	// never log the raw error: lava's messages carry %#v pointers and map-ordered attributes
	r.Logf("   -> %s", c22ErrClass(res.Err))
	r.Probe("c22_propose_" + kind + "_" + out)
	if res.Err != nil {
		r.Probe("c22_rejected_" + strings.TrimPrefix(c22ErrClass(res.Err), "ERR:"))
	}
	if d1.specs != "panic" {
		r.Check(d1.ok == (res.Err == nil), "nondeterministic-expansion", "proposal-verdict", "spec-add proposal: dry run ok=%v, real run err=%v. specs: %s", d1.ok, res.Err, strings.Join(descs, " ; "))
		if res.Err == nil {
			r.Check(d1.specs == s.c22StoreBytes(s.Ctx), "nondeterministic-expansion", "proposal-result", "spec-add proposal: the stored specs after the real run differ from the dry run. specs: %s", strings.Join(descs, " ; "))
		}
	}
	if res.Err != nil {
		return
	}
	// accepted: every stored spec must expand (no cycle, no unknown import anywhere), completely,
	// and expose only APIs inside the allowed CU range
	max := s.K.Spec.MaxCU(s.Ctx)
	for _, sp := range s.K.Spec.GetAllSpec(s.Ctx) {
		ok := s.c22CheckInput(s.Ctx, "stored", sp)
		r.Check(ok, "accepted-spec-unexpandable", "stored", "after an accepted proposal (%s) the stored spec %s does not expand. spec: %s", kind, sp.Index, c22Describe(&sp))
		exp, err := s.K.Spec.GetExpandedSpec(s.Ctx, sp.Index)
		if err != nil {
			continue
		}
		for _, c := range exp.ApiCollections {
			for _, a := range c.Apis {
				if !c.Enabled || !a.Enabled {
					continue
				}
				r.Check(a.ComputeUnits >= c22MinCU && a.ComputeUnits <= max, "cu-out-of-range-accepted", map[bool]string{true: "above-max", false: "below-min"}[a.ComputeUnits > max], "accepted spec %s exposes API %s in %s with %d compute units; allowed range is [%d, %d]. spec: %s", sp.Index, a.Name, c22KeyStr(c.CollectionData), a.ComputeUnits, c22MinCU, max, c22Describe(&sp))
				if a.ComputeUnits == max {
					r.Probe("c22_cu_at_max_accepted")
				}
				if a.ComputeUnits == c22MinCU {
					r.Probe("c22_cu_at_min_accepted")
				}
			}
		}
		if len(sp.Imports) > 0 {
			r.Probe("c22_accepted_spec_with_imports")
		}
	}
	for i := range specs {
		for _, c := range specs[i].ApiCollections {
			for _, a := range c.Apis {
				if a.ComputeUnits > max || a.ComputeUnits < c22MinCU {
					r.Probe("c22_out_of_range_cu_in_accepted_batch") // only possible for overridden / unexposed definitions
				}
			}
		}
	}
}

// opC22Expand: direct expansion of a generated spec against the stored ones (nothing is stored).
func (s *Sim) opC22Expand() {
	r := s.R
	specs, kind := s.c22Batch()
	// only the last spec of the batch is expanded; the earlier ones are not stored, so chains /
	// diamonds / cycles of a batch show up here as unknown imports unless they refer to stored specs
	sp := specs[len(specs)-1]
	if r.Chance("ops", 1, 3) {
		_, all := s.c22Existing()
		sp.Imports = s.c22PickImports(all, sp.Index, 3)
		kind += "+stored-imports"
	}
	r.Logf("c22_expand %s", kind)
	ok := s.c22CheckInput(s.Ctx, "direct", sp)
	out := "ok"
	if !ok {
		out = "rejected"
	}
	r.Op("c22_expand", out)
}

// c22FixBaseSpecs makes the base specs of the world acceptable to ValidateSpec: the spec-add
// handler re-validates every stored spec, so one invalid stored spec would reject every proposal.
func (s *Sim) c22FixBaseSpecs() {
	for i := range s.Specs {
		sp := s.Specs[i]
		sp.Name = "base spec " + string(rune('a'+i))
		sp.DataReliabilityEnabled = false
		for _, c := range sp.ApiCollections {
			c.CollectionData = c22Keys[1]
		}
		s.K.Spec.SetSpec(s.Ctx, sp)
		s.Specs[i] = sp
	}
}

func c22Weights() map[string]int {
	return map[string]int{
		"blocks": 12, "c22_propose": 30, "c22_expand": 18,
		"stake": 4, "unstake": 1, "freeze": 1, "movestake": 1,
		"delegate": 2, "redelegate": 1, "unbond": 1, "claim": 1,
		"val_delegate": 1, "val_undelegate": 1, "val_redelegate": 0,
		"buy": 2, "autorenew": 0, "addproject": 1, "delproject": 0, "keys": 1, "setpolicy": 1,
		"relay": 5,
	}
}

func runC22(r *simrt.Run) {
	cfg := mkCfg(r, c22Weights(), 70, 300)
	for _, k := range []string{"c22_propose", "c22_expand"} {
		if cfg.Weights[k] < c22Weights()[k]/2 {
			cfg.Weights[k] = c22Weights()[k] / 2
		}
	}
	s := NewSim(r, cfg)
	s.c22FixBaseSpecs()
	for _, sp := range s.Specs {
		if _, err := s.K.Spec.ValidateSpec(s.Ctx, sp); err != nil {
			panic(fmt.Sprintf("c22: base spec %s is not valid: %v", sp.Index, err))
		}
	}
	s.Warmup()
	for i := 0; i < cfg.Steps; i++ {
		s.StepOp()
	}
	// final sweep: whatever is stored at the end still expands completely
	for _, sp := range s.K.Spec.GetAllSpec(s.Ctx) {
		ok := s.c22CheckInput(s.Ctx, "stored", sp)
		r.Check(ok, "accepted-spec-unexpandable", "final", "at the end of the history the stored spec %s does not expand. spec: %s", sp.Index, c22Describe(&sp))
	}
}

func c22NonTrivial(r *simrt.Run) bool {
	return r.Ops["c22_propose:ok"] >= 2 && r.Ops["c22_propose:rejected"] >= 1 && r.Probes["c22_api_inherited"] >= 1
}

func init() {
	AddOp("c22_propose", (*Sim).opC22Propose)
	AddOp("c22_expand", (*Sim).opC22Expand)
	simrt.Register("C22", &simrt.PropSpec{Fn: runC22, NonTrivial: c22NonTrivial,
		Rule:    "generated-input comparison inside chain histories: tape-generated import graphs over <= 6 generated specs plus the world's base specs (single specs with random imports, chains incl. child-before-parent order, diamonds, 2- and 3-cycles, self import, unknown import, modifications of stored parents that toggle a collection / change an API / rewire imports so that a cycle may close through a child, children that override an imported API by name in the same collection key; 4 collection keys incl. an add-on with intra-spec inheritance plus, per key, variants that share api interface and add-on and differ only in connection type / internal path (rest GET/POST, a json-rpc collection per internal path) so that a spec inherits several collections of one interface, disabled collections and APIs, extensions, parse directives, CU values at min-1/min/max-1/max/max+1/huge) are (a) submitted through the real spec-add proposal handler in an atomic transaction between the other operations of the mixed workload and (b) expanded directly with Keeper.ExpandSpec. Each input is first expanded through DoExpandSpec with a counting spec look-up (termination budget), then 8 times in the same process (results must be byte-identical; with the map-order seam of engine chainsim_mo the repetitions range over maps in sorted, reversed and 6 differently shuffled key orders, and the two proposal dry runs in sorted resp. reversed order), and compared with an independent recursive reference expansion. Only the interleaving of proposals with the rest of the history (parents modified under stored children, epochs, staking on the base specs) is simulation; the oracle itself is input/output comparison. Non-trivial = >=2 accepted and >=1 rejected proposals and at least one inherited API checked; distinct = (op,outcome,fault) sequence hash",
		Real:    append(append([]string{}, chainReal...), "x/spec proposal handler (handleSpecProposal: SetSpec, ValidateSpec, RefreshSpec of every stored spec) via testutil/keeper.SimulateSpecAddProposal", "x/spec Keeper.ExpandSpec / GetExpandedSpec and types.DoExpandSpec (with a counting look-up function for the termination budget)"),
		Stubbed: chainStub,
		Assume: append(append([]string{}, chainAssume...),
			"same-result-on-every-run is checked by repeating each expansion 8 times in one process and by running each proposal on two throw-away cache contexts before the real one; on an engine built with the map-order seam (maporder: ./x/... ./utils/...) every `range` over a map in the chain code follows the order chosen per repetition (sorted / reversed / shuffled), which makes an order dependence show deterministically; without the seam the repetitions only see Go's own per-range randomisation (probe c22_map_order_seam_active tells which)",
			"inputs are legal: collection keys are unique inside one spec and API names are unique inside one collection (the proposal's ValidateBasic requires the latter)",
			"the allowed CU range is [1, MaxCU param]; exposed = enabled API in an enabled collection of the expanded spec",
			"an API that the reference does not require may be present if it equals some definition in the import closure (lava keeps disabled APIs of an imported collection as disabled, and add-on collections pull APIs from sibling collections)",
			"when the spec switches one of its own collections off, which imported APIs that collection carries is not asserted",
			"the world's base specs are rewritten to a form ValidateSpec accepts (lower-case name, rest interface) right after genesis, before any provider stakes, because the handler re-validates every stored spec")})
}
