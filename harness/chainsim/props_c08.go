package chainsim

// C08 — reward splits conserve value and follow credit and commission.
//
// Two sources of split events inside the same histories:
//  (a) every payout the chain performs by itself (subscription payout, bonus, IPRPC) is bracketed
//      by snapshots of all DelegatorReward records and of the dualstaking module balance;
//  (b) the harness calls RewardProvidersAndDelegators directly on a discarded cache context (bank
//      snapshot restored afterwards) with tape-chosen coin sets against the history-built state:
//      delegations of different ages under the simulated clock, commissions 0..100, contributor
//      lists/percentages set by governance. The coin sets of (b) are plain generated inputs.
//
// Credits are read through the keeper (CalculateMonthlyCredit); the definition of the credit
// itself is C23's business.

import (
	"fmt"
	"math/big"
	"sort"
	"time"

	"cosmossdk.io/math"
	sdk "github.com/cosmos/cosmos-sdk/types"
	stakingtypes "github.com/cosmos/cosmos-sdk/x/staking/types"
	testkeeper "github.com/lavanet/lava/v5/testutil/keeper"
	dualstakingtypes "github.com/lavanet/lava/v5/x/dualstaking/types"
	pairingtypes "github.com/lavanet/lava/v5/x/pairing/types"
	"github.com/lavanet/lava/v5/zz_verif/simrt"
)

const c08Source = "c08_reward_source"

var c08Denoms = []string{"", "uibc", "uusd"} // "" = bond denom

type c08State struct {
	contribs []*Account
	recsPre  map[string]sdk.Coins
	dualPre  sdk.Coins
}

func (s *Sim) c08Records(ctx sdk.Context) map[string]sdk.Coins {
	out := map[string]sdk.Coins{}
	for _, rec := range s.K.Dualstaking.GetAllDelegatorReward(ctx) {
		out[rec.Provider+"|"+rec.Delegator] = rec.Amount
	}
	return out
}

func c08Big(i math.Int) *big.Int { return i.BigInt() }

// c08PoolFits: is there an integer delegators' pool, within a few units of
// rest*C/(self+C)*(100-commission)/100, such that every part is floor(pool*credit_i/C) and the
// parts do not exceed the pool? (The statement fixes the rounding of the delegators' parts, not
// of the provider's own share and commission, hence the small window.)
func c08PoolFits(rest, self, C math.Int, commission uint64, credits, parts []math.Int) (bool, string) {
	T := self.Add(C)
	num := new(big.Int).Mul(c08Big(rest), c08Big(C))
	num.Mul(num, big.NewInt(int64(100-commission)))
	den := new(big.Int).Mul(c08Big(T), big.NewInt(100))
	base := new(big.Int).Quo(num, den)
	sum := big.NewInt(0)
	for _, p := range parts {
		sum.Add(sum, c08Big(p))
	}
	for k := int64(-1); k <= 3; k++ {
		pool := new(big.Int).Add(base, big.NewInt(k))
		if pool.Sign() < 0 || pool.Cmp(c08Big(rest)) > 0 || sum.Cmp(pool) > 0 {
			continue
		}
		ok := true
		for i := range credits {
			want := new(big.Int).Mul(pool, c08Big(credits[i]))
			want.Quo(want, c08Big(C))
			if want.Cmp(c08Big(parts[i])) != 0 {
				ok = false
				break
			}
		}
		if ok {
			return true, pool.String()
		}
	}
	return false, base.String()
}

// c08Split performs one direct split on a discarded copy of the state and checks it.
func (s *Sim) c08Split(p *ProviderActor, chain string, coins sdk.Coins) {
	r := s.R
	ctx := s.Ctx
	prov := p.Acc.Addr
	meta, metaErr := s.K.Epochstorage.GetMetadata(ctx, prov)
	dels, _ := s.K.Dualstaking.GetProviderDelegators(ctx, prov)
	contribsAll, pct := s.K.Spec.GetContributorReward(ctx, chain)
	// the same address may be listed twice: measure each distinct address once
	var contribs []sdk.AccAddress
	seenC := map[string]bool{}
	for _, c := range contribsAll {
		if !seenC[c.String()] {
			seenC[c.String()] = true
			contribs = append(contribs, c)
		}
	}
	if len(contribs) < len(contribsAll) {
		r.Probe("c08_duplicate_contributor")
	}
	recs0 := s.c08Records(ctx)
	src := testkeeper.GetModuleAddress(c08Source)
	dualAddr := testkeeper.GetModuleAddress(dualstakingtypes.ModuleName)
	bal := func(a sdk.AccAddress) sdk.Coins { return s.K.BankKeeper.GetAllBalances(ctx, a) }
	src0, dual0 := bal(src), bal(dualAddr)
	contrib0 := make([]sdk.Coins, len(contribs))
	for i, c := range contribs {
		contrib0[i] = bal(c)
	}

	// credits as the keeper computes them now
	self := math.ZeroInt()
	selfRaw := math.ZeroInt()
	hasSelf := false
	type dl struct {
		addr   string
		credit math.Int
	}
	var others []dl
	C := math.ZeroInt()
	now := s.Now().Unix()
	for _, d := range dels {
		credit := s.K.Dualstaking.CalculateMonthlyCredit(ctx, d).Amount
		age := now - d.Timestamp
		if metaErr == nil && d.Delegator == meta.Vault {
			hasSelf = true
			self = credit
			selfRaw = d.Amount.Amount
			continue
		}
		if age < 30*24*3600 {
			r.Probe("c08_delegation_age_lt_30d")
		} else {
			r.Probe("c08_delegation_age_ge_30d")
		}
		if d.Credit.IsNil() || !d.Credit.Amount.IsPositive() {
			r.Probe("c08_delegation_without_history")
		} else {
			r.Probe("c08_delegation_with_credit_history")
		}
		others = append(others, dl{d.Delegator, credit})
		C = C.Add(credit)
	}

	snap := testkeeper.VerifBankSnapshot()
	cctx, _ := ctx.CacheContext()
	ret, err := s.K.Dualstaking.RewardProvidersAndDelegators(cctx, prov, chain, coins, c08Source, false, false, false)
	recs1 := s.c08Records(cctx)
	src1, dual1 := bal(src), bal(dualAddr)
	contrib1 := make([]sdk.Coins, len(contribs))
	for i, c := range contribs {
		contrib1[i] = bal(c)
	}
	testkeeper.VerifBankRestore(snap)

	desc := fmt.Sprintf("provider=%s chain=%s coins=%s commission=%d self=%s(raw %s) delegators=%d C=%s contributors=%d pct=%s", p.Acc.Name, chain, coins, meta.DelegateCommission, self, selfRaw, len(others), C, len(contribs), pct)
	if err != nil || metaErr != nil {
		r.Op("c08_split", "rejected")
		r.Logf("split %s: %s", desc, c21Short(err))
		// a refused split must not have moved anything
		same := src0.IsEqual(src1) && dual0.IsEqual(dual1) && len(recs0) == len(recs1)
		r.Check(same || len(contribs) > 0, "split-rejected-but-moved", "rejected", "split refused (%v) but balances/records changed: %s", err, desc)
		return
	}
	r.Op("c08_split", "ok")

	// ---- parts
	recD := func(key string) map[string]math.Int { return c21Diff(recs1[key], recs0[key]) }
	vaultPart := recD(prov + "|" + meta.Vault)
	known := map[string]bool{prov + "|" + meta.Vault: true}
	parts := make([]map[string]math.Int, len(others))
	for i, o := range others {
		parts[i] = recD(prov + "|" + o.addr)
		known[prov+"|"+o.addr] = true
	}
	// no other record may change
	keys := map[string]bool{}
	for k := range recs0 {
		keys[k] = true
	}
	for k := range recs1 {
		keys[k] = true
	}
	var ks []string
	for k := range keys {
		ks = append(ks, k)
	}
	sort.Strings(ks)
	for _, k := range ks {
		if !known[k] {
			r.Check(len(recD(k)) == 0, "split-foreign-record", "record-of-non-delegator", "split for %s changed the reward record %s by %s", desc, k, c21DiffStr(recD(k)))
		}
	}
	contribPart := make([]map[string]math.Int, len(contribs))
	for i := range contribs {
		contribPart[i] = c21Diff(contrib1[i], contrib0[i])
	}
	srcOut := c21Diff(src0, src1)   // what left the sender
	dualIn := c21Diff(dual1, dual0) // what reached the dualstaking module
	line := fmt.Sprintf("split %s -> provider=%s ret=%s delegators=[", desc, c21DiffStr(vaultPart), ret)
	for i := range parts {
		line += fmt.Sprintf("%s:%s ", others[i].credit, c21DiffStr(parts[i]))
	}
	line += "] contributors=["
	for i := range contribPart {
		line += c21DiffStr(contribPart[i]) + " "
	}
	r.Logf("%s] sender-out=%s", line, c21DiffStr(srcOut))

	// probes
	comm := meta.DelegateCommission
	switch {
	case comm == 0:
		r.Probe("c08_commission_0")
	case comm == 100:
		r.Probe("c08_commission_100")
	default:
		r.Probe("c08_commission_mid")
	}
	if len(contribs) > 0 {
		r.Probe("c08_contributors_present")
	}
	if len(coins) > 1 {
		r.Probe("c08_multi_denom")
	}
	withCredit := 0
	for _, o := range others {
		if o.credit.IsPositive() {
			withCredit++
		}
	}
	if withCredit >= 2 {
		r.Probe("c08_two_or_more_delegators")
	}
	if withCredit >= 1 {
		r.Probe("c08_delegators_with_credit")
		if comm == 0 {
			r.Probe("c08_commission_0_with_delegators")
		}
		if comm == 100 {
			r.Probe("c08_commission_100_with_delegators")
		}
		if len(contribs) > 0 {
			r.Probe("c08_contributors_and_delegators")
		}
	}

	totalCreditZero := !self.IsPositive() && !C.IsPositive()
	if hasSelf && !self.IsPositive() {
		r.Probe("c08_self_credit_zero")
	}

	for _, coin := range coins {
		den := coin.Denom
		get := func(m map[string]math.Int) math.Int {
			if v, ok := m[den]; ok {
				return v
			}
			return math.ZeroInt()
		}
		// none negative
		neg := get(vaultPart).IsNegative()
		sum := get(vaultPart)
		sumDel := math.ZeroInt()
		for i := range parts {
			neg = neg || get(parts[i]).IsNegative()
			sum = sum.Add(get(parts[i]))
			sumDel = sumDel.Add(get(parts[i]))
		}
		sumContrib := math.ZeroInt()
		for i := range contribPart {
			neg = neg || get(contribPart[i]).IsNegative()
			sum = sum.Add(get(contribPart[i]))
			sumContrib = sumContrib.Add(get(contribPart[i]))
		}
		r.Check(!neg, "split-negative-part", "negative", "a part of the split is negative (%s): %s", den, line)
		// the parts add up to exactly the distributed amount, and exactly that left the sender
		if totalCreditZero {
			// nobody holds credit: the statement's precondition (a provider that holds stake with
			// credit) does not apply; only "nothing is created" is checked
			r.Probe("c08_total_credit_zero")
			r.Check(sum.LTE(coin.Amount) && get(srcOut).Equal(sum), "split-sum", "zero-credit", "parts %s / sender-out %s exceed the reward %s: %s", sum, get(srcOut), coin, line)
			continue
		}
		r.Check(sum.Equal(coin.Amount), "split-sum", "parts!=amount", "parts add up to %s%s, distributed amount is %s: %s", sum, den, coin, line)
		r.Check(get(srcOut).Equal(coin.Amount), "split-sum", "sender-out!=amount", "%s%s left the sender module for a reward of %s: %s", get(srcOut), den, coin, line)
		r.Check(get(dualIn).Equal(get(vaultPart).Add(sumDel)), "split-sum", "records!=module-funds", "reward records grew by %s%s but the dualstaking module received %s: %s", get(vaultPart).Add(sumDel), den, get(dualIn), line)

		rest := coin.Amount.Sub(sumContrib)
		// delegators without credit get nothing
		var credits, dparts []math.Int
		for i, o := range others {
			if !o.credit.IsPositive() {
				r.Check(get(parts[i]).IsZero(), "split-delegator-share", "zero-credit-delegator-paid", "delegator with zero credit received %s%s: %s", get(parts[i]), den, line)
				continue
			}
			credits = append(credits, o.credit)
			dparts = append(dparts, get(parts[i]))
		}
		if comm == 100 {
			// exactly the whole reward at 100% commission
			r.Check(get(vaultPart).Equal(rest) && sumDel.IsZero(), "split-commission-100", "provider-not-whole", "commission 100: provider got %s%s of %s (after contributors %s), delegators %s: %s", get(vaultPart), den, coin, sumContrib, sumDel, line)
			continue
		}
		if len(credits) == 0 {
			r.Check(get(vaultPart).Equal(rest), "split-provider-share", "no-delegators-provider-not-whole", "no delegator holds credit: provider got %s%s of %s: %s", get(vaultPart), den, rest, line)
			continue
		}
		sig := "floor(pool*credit/total)"
		if hasSelf && !self.IsPositive() {
			sig = "self-credit-zero"
		}
		ok, pool := c08PoolFits(rest, self, C, comm, credits, dparts)
		r.Check(ok, "split-delegator-share", sig, "%s: no delegators' pool near %s (= (reward-contributors %s) * delegators' credit %s / total credit %s * (100-%d)%%) explains the delegators' parts as floor(pool*credit_i/%s): %s", den, pool, rest, C, self.Add(C), comm, C, line)
		if ok {
			p, _ := math.NewIntFromString(pool)
			if p.GT(sumDel) {
				r.Probe("c08_rounding_remainder_to_provider")
			}
		}
		// provider part = everything that is not a delegator's or contributor's part (own share +
		// commission + rounding remainder): follows from the sum check; at commission 0 with no
		// own credit it is just the remainder
	}
}

// ---------- operations ----------

func (s *Sim) opC08Split() {
	r := s.R
	p := s.pickProv()
	chain := s.pickSpec().Index
	// prefer a chain the provider is staked on
	if meta, err := s.K.Epochstorage.GetMetadata(s.Ctx, p.Acc.Addr); err == nil && len(meta.Chains) > 0 && !r.Chance("ops", 1, 8) {
		chain = meta.Chains[r.Draw("ops", len(meta.Chains))]
	}
	coins := sdk.NewCoins()
	n := 1 + r.Draw("ops", 3)
	for i := 0; i < n; i++ {
		den := c08Denoms[i]
		if den == "" {
			den = s.Denom
		}
		var amt int64
		switch r.Draw("ops", 4) {
		case 0:
			amt = int64(1 + r.Draw("ops", 30))
		case 1:
			amt = int64(1 + r.Draw("ops", 5000))
		case 2:
			amt = int64(1 + r.Draw("ops", 100_000_000))
		default:
			amt = int64(1+r.Draw("ops", 1_000_000)) * 999_983
		}
		coins = coins.Add(sdk.NewCoin(den, sdk.NewInt(amt)))
	}
	s.c08Split(p, chain, coins)
}

// opC08Contrib: governance sets / clears the contributors of a spec.
func (s *Sim) opC08Contrib(st *c08State) {
	r := s.R
	sp := s.pickSpec()
	cur, found := s.K.Spec.GetSpec(s.Ctx, sp.Index)
	if !found {
		return
	}
	n := r.Draw("ops", 4)
	cur.Contributor = nil
	cur.ContributorPercentage = nil
	if n > 0 {
		for i := 0; i < n; i++ {
			cur.Contributor = append(cur.Contributor, st.contribs[(r.Draw("ops", len(st.contribs))+i)%len(st.contribs)].Addr)
		}
		if r.Chance("ops", 1, 6) {
			cur.Contributor[0] = s.pickDeleg().Addr // a delegator who is also a contributor
		}
		vals := []string{"0.1", "0.5", "0.8", "0.00001", "0.333333", "0.07", "0.012345"}
		d := sdk.MustNewDecFromStr(vals[r.Draw("ops", len(vals))])
		cur.ContributorPercentage = &d
	}
	// The spec-add proposal handler refuses the simulator's specs ("unsupported api interface
	// stub", same as the repo's own mock spec), so governance is modelled by writing the spec inside
	// a transaction after checking the contributor rules of Spec.ValidateSpec by hand: valid
	// account addresses, percentage within [1/ContributorPrecision, 0.8].
	res := s.Tx("gov_spec", nil, func(ctx sdk.Context) error {
		for _, c := range cur.Contributor {
			if _, err := sdk.AccAddressFromBech32(c); err != nil {
				return err
			}
		}
		if p := cur.ContributorPercentage; p != nil && (p.GT(sdk.MustNewDecFromStr("0.8")) || p.LT(sdk.NewDecWithPrec(1, 5))) {
			return fmt.Errorf("contributor percentage out of range")
		}
		s.K.Spec.SetSpec(ctx, cur)
		return nil
	})
	r.Op("c08_contrib", c21Outcome(res))
	r.Logf("gov: spec %s contributors=%d pct=%v: %s", sp.Index, len(cur.Contributor), cur.ContributorPercentage, c21Outcome(res))
}

// opC08Stake: like the base stake op, but commissions are drawn from the interesting corners.
func (s *Sim) opC08Stake() {
	r := s.R
	p := s.pickProv()
	spec := s.pickSpec()
	amount := spec.MinStakeProvider.Amount.Int64() * int64(1+r.Draw("ops", 6))
	comms := []uint64{100, 0, 50, 1, 99}
	comm := comms[r.Draw("ops", len(comms))]
	val := s.pickVal()
	msg := &pairingtypes.MsgStakeProvider{
		Creator: p.Vault.Addr, Validator: sdk.ValAddress(val.Account.Addr).String(), ChainID: spec.Index,
		Amount: s.Coin(amount), Geolocation: 1, Endpoints: s.endpoints(spec, 1),
		DelegateLimit: s.Coin(0), DelegateCommission: comm, Address: p.Acc.Addr,
		Description: stakingtypes.NewDescription("prov", "iden", "web", "sec", "details"),
	}
	res := s.msgTx("c08_stake", []sdk.Msg{msg}, func(ctx sdk.Context) error {
		_, err := s.S.PairingServer.StakeProvider(ctx, msg)
		return err
	})
	r.Logf("c08 stake %s on %s amount=%d commission=%d: %s", p.Acc.Name, spec.Index, amount, comm, c21Short(res.Err))
}

// opC08Days lets delegations age: 1..12 days of slow blocks.
func (s *Sim) opC08Days() {
	days := 1 + s.R.Draw("ops", 12)
	s.SlowBlocks(time.Duration(days) * 24 * time.Hour)
	s.R.Op("c08_days", "ok")
	s.R.Logf("c08 days +%d -> h=%d t=%s", days, s.Height(), s.Now().Format(time.RFC3339))
}

var c08Cur *c08State // the run in progress (workers execute runs sequentially)

func runC08(r *simrt.Run) {
	w := baseWeights()
	w["c08_split"] = 14
	w["c08_contrib"] = 4
	w["c08_stake"] = 5
	w["c08_days"] = 5
	w["delegate"] = 12
	w["redelegate"] = 4
	w["unbond"] = 4
	w["claim"] = 4
	cfg := mkCfg(r, w, 90, 320)
	s := NewSim(r, cfg)
	st := &c08State{}
	c08Cur = st
	for i := 0; i < 4; i++ {
		st.contribs = append(st.contribs, s.NewAccount(fmt.Sprintf("contrib%d", i), 0))
	}
	// the reward source of the direct splits (only ever spent inside discarded what-if states)
	s.K.BankKeeper.SetBalance(s.Ctx, testkeeper.GetModuleAddress(c08Source), sdk.NewCoins(
		sdk.NewCoin(s.Denom, sdk.NewInt(4_000_000_000_000_000)), sdk.NewCoin("uibc", sdk.NewInt(4_000_000_000_000_000)), sdk.NewCoin("uusd", sdk.NewInt(4_000_000_000_000_000))))

	// (a) payouts the chain performs by itself (all of them happen in End/BeginBlock)
	take := func() {
		st.recsPre = s.c08Records(s.Ctx)
		st.dualPre = s.c21ModCoins(dualstakingtypes.ModuleName)
	}
	take()
	s.AfterTx = append(s.AfterTx, func(w *World, tx *TxResult) { take() })
	s.AfterBlock = append(s.AfterBlock, func(w *World) {
		recs := s.c08Records(s.Ctx)
		dual := s.c21ModCoins(dualstakingtypes.ModuleName)
		grew := sdk.NewCoins()
		changed := false
		ks := make([]string, 0, len(st.recsPre))
		for k := range st.recsPre {
			ks = append(ks, k)
		}
		sort.Strings(ks)
		for _, k := range ks {
			d := c21Diff(recs[k], st.recsPre[k])
			if len(d) == 0 {
				continue
			}
			changed = true
			r.Check(!c21AnyNeg(d), "payout-negative-part", "record-shrank-in-block", "height %d: reward record %s changed by %s during End/BeginBlock", s.Height(), k, c21DiffStr(d))
			for den, v := range d {
				if v.IsPositive() {
					grew = grew.Add(sdk.NewCoin(den, v))
				}
			}
		}
		nks := make([]string, 0)
		for k := range recs {
			if _, ok := st.recsPre[k]; !ok {
				nks = append(nks, k)
			}
		}
		sort.Strings(nks)
		for _, k := range nks {
			changed = true
			grew = grew.Add(recs[k]...)
		}
		if changed {
			r.Probe("c08_chain_payout")
			in := c21Diff(dual, st.dualPre)
			want := c21Diff(grew, sdk.NewCoins())
			r.Check(c21DiffStr(in) == c21DiffStr(want), "payout-sum", "records!=module-funds", "height %d: reward records grew by %s during End/BeginBlock but the dualstaking module received %s", s.Height(), c21DiffStr(want), c21DiffStr(in))
			r.Logf("   chain payout at h=%d: records +%s", s.Height(), grew)
		}
		st.recsPre, st.dualPre = recs, dual
	})

	s.Cfg.Faults["month_jump"] = true
	s.RunHistory()
	// a last look at the final state from several providers
	for i := 0; i < 3; i++ {
		r.Step()
		s.opC08Split()
	}
}

func init() {
	AddOp("c08_split", (*Sim).opC08Split)
	AddOp("c08_contrib", func(s *Sim) {
		if c08Cur != nil && len(c08Cur.contribs) > 0 {
			s.opC08Contrib(c08Cur)
		}
	})
	AddOp("c08_stake", (*Sim).opC08Stake)
	AddOp("c08_days", (*Sim).opC08Days)
	simrt.Register("C08", &simrt.PropSpec{Fn: runC08,
		NonTrivial: func(r *simrt.Run) bool {
			return r.Ops["c08_split:ok"] >= 5 && r.Probes["c08_delegators_with_credit"] >= 1 && r.OKOps() >= 10
		},
		Rule: "tape-generated multi-actor histories (base chainsim workload with more delegations, stake ops with commissions from {0,1,50,99,100}, governance setting spec contributors/percentages, days-long clock advances so that delegations age across the 30-day credit window). (a) every End/BeginBlock pair is bracketed by snapshots of all DelegatorReward records and the dualstaking module balance; (b) RewardProvidersAndDelegators is called directly on a discarded cache context with tape-chosen coin sets (1-3 denoms, 1..1e12) against the history-built state; credits are read through CalculateMonthlyCredit. The coin sets of (b) are plain generated inputs. Non-trivial = >=5 accepted direct splits incl. one with a credited delegator, >=10 accepted operations",
		Real: chainReal, Stubbed: chainStub,
		Assume: append(append([]string{}, chainAssume...), "the provider's own-share/commission rounding is not fixed by the statement: the delegators' pool is accepted within [-1,+3] units of the exact rational value", "direct splits are paid from a harness-owned module account that is funded before any monitor is armed and only spent inside discarded state copies")})
}
