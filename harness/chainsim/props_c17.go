package chainsim

import (
	"fmt"
	"strings"
	"time"

	sdk "github.com/cosmos/cosmos-sdk/types"
	pairingtypes "github.com/lavanet/lava/v5/x/pairing/types"
	projectstypes "github.com/lavanet/lava/v5/x/projects/types"
	subscriptiontypes "github.com/lavanet/lava/v5/x/subscription/types"
	"github.com/lavanet/lava/v5/zz_verif/simrt"
)

// ---------- C17: developer keys map to one project and usage is charged once ----------
//
// Reference ledger: for every key a timeline "from block b on the key belongs to project P / to
// nothing", fed by acknowledged operations only:
//   - a project created / a developer key added at a block of epoch E: effective from E (the
//     chain's documented behaviour: additions apply to the running epoch);
//   - a developer key removed / a project deleted / a subscription expired: effective from the
//     next epoch start N;
// and the keeper's answers for every key at every epoch start still in memory, at the current
// block and at the next epoch start are compared with it. Independently of the ledger two
// structural invariants are evaluated on the chain's own data: a key that resolves, resolves to a
// live project that lists it as a developer key; a live project lists as developer keys only keys
// that resolve to it (so no key can sit in two projects).

type c17Ev struct {
	from uint64
	proj string // "" = no project
}

type c17PEv struct {
	from  uint64
	alive bool
}

type c17Model struct {
	s          *Sim
	keys       []*Account // fixed universe: subscription owners and their developer accounts
	projIDs    []string   // fixed universe: consumer x {admin,p0,p1,p2}
	projOwner  map[string]*ConsumerActor
	keyTL      map[string][]c17Ev
	projTL     map[string][]c17PEv
	unmodelled map[string]bool
	admins     map[string][]*Account // admin keys ever granted per project (generation hint only)
	epochN     int
	lastRelays []*pairingtypes.RelaySession // last accepted relay payment (for the replay variant)
	lastProv   *ProviderActor
	lastSigner *Account
}

var c17Names = []string{projectstypes.ADMIN_PROJECT_NAME, "p0", "p1", "p2"}

// c17Cur is the ledger of the run in progress (runs are sequential within a worker process).
var c17Cur *c17Model

func c17Of(s *Sim) *c17Model {
	if c17Cur == nil || c17Cur.s != s {
		return nil
	}
	return c17Cur
}

func c17New(s *Sim) *c17Model {
	m := &c17Model{s: s, projOwner: map[string]*ConsumerActor{}, keyTL: map[string][]c17Ev{}, projTL: map[string][]c17PEv{}, unmodelled: map[string]bool{}, admins: map[string][]*Account{}}
	for _, c := range s.Consumers {
		m.keys = append(m.keys, c.Acc)
		m.keys = append(m.keys, c.Devs...)
		for _, n := range c17Names {
			id := projectstypes.ProjectIndex(c.Acc.Addr, n)
			m.projIDs = append(m.projIDs, id)
			m.projOwner[id] = c
		}
	}
	return m
}

func (m *c17Model) resolve(key string, b uint64) string {
	tl := m.keyTL[key]
	for i := len(tl) - 1; i >= 0; i-- {
		if tl[i].from <= b {
			return tl[i].proj
		}
	}
	return ""
}

func (m *c17Model) alive(proj string, b uint64) bool {
	tl := m.projTL[proj]
	for i := len(tl) - 1; i >= 0; i-- {
		if tl[i].from <= b {
			return tl[i].alive
		}
	}
	return false
}

// setKey appends a timeline event. Events arrive with non-decreasing effective blocks; anything
// else would need a guess about the intended semantics, so the key leaves the ledger comparison
// (the structural invariants still apply) and a probe records it.
func (m *c17Model) setKey(key string, from uint64, proj string) {
	tl := m.keyTL[key]
	if n := len(tl); n > 0 && tl[n-1].from > from {
		m.unmodelled[key] = true
		m.s.R.Probe("c17_model_ambiguous")
		return
	}
	m.keyTL[key] = append(tl, c17Ev{from, proj})
}

// reincarnated reports whether the ledger saw the project end or start after block `from` and up
// to block `to`.
func (m *c17Model) reincarnated(proj string, from, to uint64) bool {
	for _, e := range m.projTL[proj] {
		if e.from > from && e.from <= to {
			return true
		}
	}
	return false
}

func (m *c17Model) setProj(proj string, from uint64, alive bool) {
	m.projTL[proj] = append(m.projTL[proj], c17PEv{from, alive})
}

func (m *c17Model) pname(id string) string {
	if c, ok := m.projOwner[id]; ok {
		return c.Acc.Name + "/" + id[len(c.Acc.Addr)+1:]
	}
	if id == "" {
		return "-"
	}
	return id
}

func (m *c17Model) curEpoch() uint64 { return m.s.EpochStart() }
func (m *c17Model) nextEpoch() uint64 {
	n, err := m.s.K.Epochstorage.GetNextEpoch(m.s.Ctx, m.s.Height())
	if err != nil {
		return m.s.Height() + 1
	}
	return n
}

// ----- ledger updates (acknowledged operations only) -----

func (m *c17Model) ackCreate(proj string, keys []projectstypes.ProjectKey) {
	e := m.curEpoch()
	m.setProj(proj, e, true)
	for _, k := range keys {
		if k.IsType(projectstypes.ProjectKey_DEVELOPER) {
			m.setKey(k.Key, e, proj)
		}
	}
}

func (m *c17Model) ackDelete(proj string) {
	n := m.nextEpoch()
	for _, k := range m.keys {
		if m.resolve(k.Addr, n) == proj {
			m.setKey(k.Addr, n, "")
		}
	}
	m.setProj(proj, n, false)
}

func (m *c17Model) ackAddKeys(proj string, keys []projectstypes.ProjectKey) {
	e, n := m.curEpoch(), m.nextEpoch()
	for _, k := range keys {
		if !k.IsType(projectstypes.ProjectKey_DEVELOPER) {
			continue
		}
		if m.resolve(k.Key, e) == proj && m.resolve(k.Key, n) == proj {
			continue // already ours
		}
		m.setKey(k.Key, e, proj)
	}
}

func (m *c17Model) ackDelKeys(proj string, keys []projectstypes.ProjectKey) {
	n := m.nextEpoch()
	for _, k := range keys {
		if !k.IsType(projectstypes.ProjectKey_DEVELOPER) {
			continue
		}
		if m.unmodelled[k.Key] {
			continue
		}
		cur := m.resolve(k.Key, n)
		m.s.R.Check(cur == proj, "c17-key-ledger-mismatch", "delkeys-accepted-for-key-of-other-project",
			"removal of developer key %s from project %s was accepted at height %d but by the ledger the key belongs to %s at block %d", m.s.NameOf(k.Key), m.pname(proj), m.s.Height(), m.pname(cur), n)
		m.setKey(k.Key, n, "")
	}
}

func (m *c17Model) ackExpiry(consumer string) {
	n := m.nextEpoch()
	for _, id := range m.projIDs {
		if m.projOwner[id].Acc.Addr == consumer && m.alive(id, n) {
			m.ackDelete(id)
		}
	}
}

// ----- oracles -----

// blocks returns the epoch starts in memory, the current block and the next epoch start.
func (m *c17Model) blocks() []uint64 {
	k := m.s.K.Epochstorage
	h := m.s.Height()
	var out []uint64
	for e, guard := k.GetEarliestEpochStart(m.s.Ctx), 0; e <= h && guard < 64; guard++ {
		out = append(out, e)
		n, err := k.GetNextEpoch(m.s.Ctx, e)
		if err != nil || n <= e {
			break
		}
		e = n
	}
	if len(out) == 0 || out[len(out)-1] != h {
		out = append(out, h)
	}
	out = append(out, m.nextEpoch())
	return out
}

func (m *c17Model) registry(key string, b uint64) string {
	dd, err := m.s.K.Projects.GetProjectDeveloperData(m.s.Ctx, key, b)
	if err != nil {
		return ""
	}
	return dd.ProjectID
}

func (m *c17Model) checkKey(key *Account, b uint64) {
	r := m.s.R
	pk := m.s.K.Projects
	pid := m.registry(key.Addr, b)
	proj, err := pk.GetProjectForDeveloper(m.s.Ctx, key.Addr, b)
	if pid != "" {
		if _, ours := m.projOwner[pid]; err != nil && ours && m.alive(pid, b) {
			// The registry maps the key to a project that no acknowledged operation deleted, yet the
			// project version for that block cannot be read. This is not "resolving to a deleted
			// project" (nothing is returned, and the project is alive): it is a retention matter of
			// the versioned store (a version superseded in mid-epoch turns stale a few blocks before
			// its epoch leaves the epoch memory). Recorded, not judged by this property.
			r.Probe("c17_live_project_unreadable_in_memory")
			return
		}
		r.Check(err == nil, "c17-key-resolves-to-dead-project", "", "at height %d key %s is mapped to project %s for block %d but that project does not exist there: %v", m.s.Height(), key.Name, m.pname(pid), b, err)
		r.Check(proj.Index == pid, "c17-key-resolves-to-two-projects", "registry-vs-resolution", "at height %d key %s block %d: registry says %s, resolution returns %s", m.s.Height(), key.Name, b, m.pname(pid), m.pname(proj.Index))
		r.Check(proj.GetKey(key.Addr).IsType(projectstypes.ProjectKey_DEVELOPER), "c17-key-not-in-resolved-project", "", "at height %d key %s resolves to project %s for block %d but that project version does not list it as a developer key (keys %v)", m.s.Height(), key.Name, m.pname(pid), b, proj.ProjectKeys)
		if _, ours := m.projOwner[pid]; ours {
			r.Check(m.alive(pid, b), "c17-key-resolves-to-deleted-project", "", "at height %d key %s resolves for block %d to project %s which was deleted (effective before that block)", m.s.Height(), key.Name, b, m.pname(pid))
		}
	} else {
		r.Check(err != nil, "c17-key-resolves-to-two-projects", "unmapped-key-resolves", "at height %d key %s has no mapping for block %d but resolves to %s", m.s.Height(), key.Name, b, m.pname(proj.Index))
	}
	if !m.unmodelled[key.Addr] {
		want := m.resolve(key.Addr, b)
		sig := "different-projects"
		if pid == "" {
			sig = "chain-none,ledger-project"
		} else if want == "" {
			sig = "chain-project,ledger-none"
		}
		r.Check(pid == want, "c17-key-ledger-mismatch", sig, "at height %d key %s for block %d: chain resolves to %s, ledger of acknowledged operations says %s (timeline %v)", m.s.Height(), key.Name, b, m.pname(pid), m.pname(want), m.keyTL[key.Addr])
	}
}

func (m *c17Model) checkProject(id string, b uint64) {
	proj, err := m.s.K.Projects.GetProjectForBlock(m.s.Ctx, id, b)
	if err != nil {
		return
	}
	m.s.R.Probe("c17_live_project_checked")
	for _, k := range proj.ProjectKeys {
		if !k.IsType(projectstypes.ProjectKey_DEVELOPER) {
			continue
		}
		got := m.registry(k.Key, b)
		m.s.R.Check(got == id, "c17-key-in-two-projects", "", "at height %d project %s lists developer key %s for block %d but the key resolves to %s", m.s.Height(), m.pname(id), m.s.NameOf(k.Key), b, m.pname(got))
	}
}

func (m *c17Model) sweep(blocks []uint64) {
	for _, b := range blocks {
		for _, k := range m.keys {
			m.checkKey(k, b)
		}
		for _, id := range m.projIDs {
			m.checkProject(id, b)
		}
	}
}

func (m *c17Model) afterBlock(w *World) {
	// subscription expiry is observed through the chain's own event
	for _, ev := range w.Ctx.EventManager().Events() {
		if !strings.HasSuffix(ev.Type, subscriptiontypes.ExpireSubscriptionEventName) {
			continue
		}
		for _, a := range ev.Attributes {
			if a.Key == "consumer" {
				w.R.Probe("c17_subscription_expired")
				w.R.Logf("   subscription of %s expired at h=%d (projects end at %d)", w.NameOf(a.Value), w.Height(), m.nextEpoch())
				m.ackExpiry(a.Value)
			}
		}
	}
	if w.K.Epochstorage.GetEpochStart(w.Ctx) != w.Height() {
		return
	}
	m.epochN++
	all := m.blocks()
	if m.epochN%4 == 0 || len(all) <= 4 {
		m.sweep(all)
		return
	}
	// the new epoch start, its predecessor, the oldest epoch in memory and the next epoch
	n := len(all)
	m.sweep([]uint64{all[0], all[n-3], all[n-2], all[n-1]})
}

// ----- operations -----

func (m *c17Model) pickKeyAcc() *Account {
	r := m.s.R
	if r.Chance("ops", 1, 2) {
		// prefer a key that currently belongs to some project (moves and conflicts)
		var mapped []*Account
		for _, k := range m.keys {
			if m.resolve(k.Addr, m.s.Height()) != "" {
				mapped = append(mapped, k)
			}
		}
		if len(mapped) > 0 {
			return mapped[r.Draw("ops", len(mapped))]
		}
	}
	return m.keys[r.Draw("ops", len(m.keys))]
}

func (m *c17Model) pickProjectKeys(max int) ([]projectstypes.ProjectKey, string) {
	r := m.s.R
	n := 1 + r.Draw("ops", max)
	var keys []projectstypes.ProjectKey
	var desc []string
	for i := 0; i < n; i++ {
		a := m.pickKeyAcc()
		var k projectstypes.ProjectKey
		switch r.Draw("ops", 5) {
		case 0:
			k = projectstypes.ProjectAdminKey(a.Addr)
			desc = append(desc, a.Name+":A")
		case 1:
			k = projectstypes.ProjectDeveloperKey(a.Addr).AddType(projectstypes.ProjectKey_ADMIN)
			desc = append(desc, a.Name+":AD")
		default:
			k = projectstypes.ProjectDeveloperKey(a.Addr)
			desc = append(desc, a.Name+":D")
		}
		keys = append(keys, k)
	}
	return keys, strings.Join(desc, ",")
}

// aliveProjects lists the universe projects that the ledger considers alive now and next epoch.
func (m *c17Model) aliveProjects() []string {
	var out []string
	h, n := m.s.Height(), m.nextEpoch()
	for _, id := range m.projIDs {
		if m.alive(id, h) && m.alive(id, n) {
			out = append(out, id)
		}
	}
	return out
}

// keysWhere lists universe keys by where the ledger maps them next epoch: to proj (want=true) or to
// no project at all now and next epoch (proj == "").
func (m *c17Model) keysWhere(proj string) []*Account {
	var out []*Account
	h, n := m.s.Height(), m.nextEpoch()
	for _, k := range m.keys {
		if proj == "" {
			if m.resolve(k.Addr, h) == "" && m.resolve(k.Addr, n) == "" {
				out = append(out, k)
			}
		} else if m.resolve(k.Addr, n) == proj {
			out = append(out, k)
		}
	}
	return out
}

func (s *Sim) opC17Buy() {
	r := s.R
	m := c17Of(s)
	c := s.pickCons()
	plan := s.pickPlan()
	months := 1
	if r.Chance("ops", 1, 4) {
		months = 2 + r.Draw("ops", 2)
	}
	msg := &subscriptiontypes.MsgBuy{Creator: c.Acc.Addr, Consumer: c.Acc.Addr, Index: plan, Duration: uint64(months), AutoRenewal: r.Chance("ops", 1, 6)}
	_, _, existed := s.K.Subscription.GetSubscriptionForBlock(s.Ctx, c.Acc.Addr, m.nextEpoch())
	res := s.msgTx("c17buy", []sdk.Msg{msg}, func(ctx sdk.Context) error {
		_, err := s.S.SubscriptionServer.Buy(ctx, msg)
		return err
	})
	r.Logf("buy %s plan=%s months=%d auto=%v (had subscription: %v): %s", c.Acc.Name, plan, months, msg.AutoRenewal, existed, short(res.Err))
	if res.Err == nil && !existed {
		id := projectstypes.ProjectIndex(c.Acc.Addr, projectstypes.ADMIN_PROJECT_NAME)
		m.ackCreate(id, []projectstypes.ProjectKey{projectstypes.ProjectDeveloperKey(c.Acc.Addr)})
		m.sweep(m.blocks())
	}
}

func (s *Sim) opC17AddProject() {
	r := s.R
	m := c17Of(s)
	c := s.pickCons()
	name := c17Names[1+r.Draw("ops", 3)]
	for try := 0; try < 4 && !r.Chance("ops", 1, 6); try++ {
		// prefer an owner with a live subscription and a name that is free now
		if m.alive(projectstypes.ProjectIndex(c.Acc.Addr, projectstypes.ADMIN_PROJECT_NAME), s.Height()) && !m.alive(projectstypes.ProjectIndex(c.Acc.Addr, name), s.Height()) {
			break
		}
		c = s.pickCons()
		name = c17Names[1+r.Draw("ops", 3)]
	}
	var keys []projectstypes.ProjectKey
	desc := ""
	if !r.Chance("ops", 1, 6) {
		free := m.keysWhere("")
		if len(free) > 0 && r.Chance("ops", 2, 3) {
			a := free[r.Draw("ops", len(free))]
			keys, desc = []projectstypes.ProjectKey{projectstypes.ProjectDeveloperKey(a.Addr)}, a.Name+":D"
			if r.Chance("ops", 1, 3) {
				more, d2 := m.pickProjectKeys(2)
				keys, desc = append(keys, more...), desc+","+d2
			}
		} else {
			keys, desc = m.pickProjectKeys(3)
		}
	}
	pd := projectstypes.ProjectData{Name: name, Enabled: true, ProjectKeys: keys}
	msg := &subscriptiontypes.MsgAddProject{Creator: c.Acc.Addr, ProjectData: pd}
	res := s.msgTx("c17addproject", []sdk.Msg{msg}, func(ctx sdk.Context) error {
		_, err := s.S.SubscriptionServer.AddProject(ctx, msg)
		return err
	})
	r.Logf("addproject %s/%s keys=[%s] h=%d: %s", c.Acc.Name, name, desc, s.Height(), short(res.Err))
	if res.Err == nil {
		id := projectstypes.ProjectIndex(c.Acc.Addr, name)
		if len(m.projTL[id]) > 0 {
			r.Probe("c17_project_recreated")
		}
		m.ackCreate(id, keys)
		m.sweep(m.blocks())
	}
}

func (s *Sim) opC17DelProject() {
	r := s.R
	m := c17Of(s)
	c := s.pickCons()
	name := c17Names[r.Draw("ops", 4)]
	if name == projectstypes.ADMIN_PROJECT_NAME && !r.Chance("ops", 1, 4) {
		name = "p0"
	}
	if alive := m.aliveProjects(); len(alive) > 0 && !r.Chance("ops", 1, 4) {
		id := alive[r.Draw("ops", len(alive))]
		if n := id[len(m.projOwner[id].Acc.Addr)+1:]; n != projectstypes.ADMIN_PROJECT_NAME || r.Chance("ops", 1, 4) {
			c, name = m.projOwner[id], n
		}
	}
	msg := &subscriptiontypes.MsgDelProject{Creator: c.Acc.Addr, Name: name}
	res := s.msgTx("c17delproject", []sdk.Msg{msg}, func(ctx sdk.Context) error {
		_, err := s.S.SubscriptionServer.DelProject(ctx, msg)
		return err
	})
	r.Logf("delproject %s/%s h=%d: %s", c.Acc.Name, name, s.Height(), short(res.Err))
	if res.Err == nil {
		m.ackDelete(projectstypes.ProjectIndex(c.Acc.Addr, name))
		m.sweep(m.blocks())
	}
}

func (s *Sim) opC17Keys() {
	r := s.R
	m := c17Of(s)
	c := s.pickCons()
	proj := projectstypes.ProjectIndex(c.Acc.Addr, c17Names[r.Draw("ops", 4)])
	if alive := m.aliveProjects(); len(alive) > 0 && !r.Chance("ops", 1, 5) {
		proj = alive[r.Draw("ops", len(alive))]
		c = m.projOwner[proj]
	}
	creator := c.Acc
	if r.Chance("ops", 1, 4) {
		creator = m.keys[r.Draw("ops", len(m.keys))] // possibly a stranger
		if adm := m.admins[proj]; len(adm) > 0 && !r.Chance("ops", 1, 3) {
			creator = adm[r.Draw("ops", len(adm))] // (probably still) an admin key holder
		}
	}
	add := r.Chance("ops", 3, 5)
	kindOf := func(a *Account) (projectstypes.ProjectKey, string) {
		switch r.Draw("ops", 6) {
		case 0:
			return projectstypes.ProjectAdminKey(a.Addr), a.Name + ":A"
		case 1:
			return projectstypes.ProjectDeveloperKey(a.Addr).AddType(projectstypes.ProjectKey_ADMIN), a.Name + ":AD"
		}
		return projectstypes.ProjectDeveloperKey(a.Addr), a.Name + ":D"
	}
	var keys []projectstypes.ProjectKey
	var descs []string
	for i, n := 0, 1+r.Draw("ops", 2); i < n; i++ {
		var a *Account
		mine, free := m.keysWhere(proj), m.keysWhere("")
		switch {
		case !add && len(mine) > 0 && !r.Chance("ops", 1, 4):
			a = mine[r.Draw("ops", len(mine))]
		case add && len(free) > 0 && r.Chance("ops", 1, 2):
			a = free[r.Draw("ops", len(free))]
		default:
			a = m.pickKeyAcc()
		}
		k, d := kindOf(a)
		keys = append(keys, k)
		descs = append(descs, d)
	}
	desc := strings.Join(descs, ",")
	var res *TxResult
	if add {
		msg := &projectstypes.MsgAddKeys{Creator: creator.Addr, Project: proj, ProjectKeys: keys}
		res = s.msgTx("c17addkeys", []sdk.Msg{msg}, func(ctx sdk.Context) error {
			_, err := s.S.ProjectServer.AddKeys(ctx, msg)
			return err
		})
	} else {
		msg := &projectstypes.MsgDelKeys{Creator: creator.Addr, Project: proj, ProjectKeys: keys}
		res = s.msgTx("c17delkeys", []sdk.Msg{msg}, func(ctx sdk.Context) error {
			_, err := s.S.ProjectServer.DelKeys(ctx, msg)
			return err
		})
	}
	r.Logf("keys add=%v %s by %s keys=[%s] h=%d: %s", add, m.pname(proj), creator.Name, desc, s.Height(), short(res.Err))
	if res.Err != nil {
		return
	}
	if creator != c.Acc {
		r.Probe("c17_keys_changed_by_admin_key")
	}
	for _, k := range keys {
		if !k.IsType(projectstypes.ProjectKey_DEVELOPER) {
			continue
		}
		tl := m.keyTL[k.Key]
		if add && len(tl) > 0 && tl[len(tl)-1].proj == "" {
			prev := ""
			for i := len(tl) - 1; i >= 0; i-- {
				if tl[i].proj != "" {
					prev = tl[i].proj
					break
				}
			}
			switch {
			case prev == proj:
				r.Probe("c17_key_readded_same_project")
			case prev != "" && m.projOwner[prev] != m.projOwner[proj]:
				r.Probe("c17_key_moved_other_subscription")
			case prev != "":
				r.Probe("c17_key_moved_same_subscription")
			}
		}
	}
	if add {
		for _, k := range keys {
			if k.IsType(projectstypes.ProjectKey_ADMIN) {
				m.admins[proj] = append(m.admins[proj], s.ByAddr[k.Key])
			}
		}
		m.ackAddKeys(proj, keys)
	} else {
		m.ackDelKeys(proj, keys)
	}
	m.sweep(m.blocks())
}

type c17Obs struct {
	block uint64
	found bool
	snap  uint64
	used  uint64
}

func (m *c17Model) observe(id string, blocks []uint64) []c17Obs {
	out := make([]c17Obs, 0, len(blocks))
	for _, b := range blocks {
		p, err := m.s.K.Projects.GetProjectForBlock(m.s.Ctx, id, b)
		out = append(out, c17Obs{b, err == nil, p.Snapshot, p.UsedCu})
	}
	return out
}

// opC17Relay: a provider claims one or two fresh sessions signed by a key of the universe, for the
// current or an older epoch; or replays the last accepted payment.
func (s *Sim) opC17Relay() {
	r := s.R
	m := c17Of(s)
	h := s.Height()
	all := m.blocks()
	epochs := all[:len(all)-1]
	if epochs[len(epochs)-1] == h && s.EpochStart() != h {
		epochs = epochs[:len(epochs)-1]
	}
	if len(epochs) == 0 {
		return
	}
	replay := len(m.lastRelays) > 0 && r.Chance("ops", 1, 10)
	var relays []*pairingtypes.RelaySession
	var prov *ProviderActor
	var signer *Account
	var epoch uint64
	spec := s.pickSpec()
	if replay {
		relays, prov = m.lastRelays, m.lastProv
		epoch = uint64(relays[0].Epoch)
		signer = m.lastSigner
	} else {
		signer = m.pickKeyAcc()
		epoch = epochs[len(epochs)-1]
		switch {
		case r.Chance("ops", 1, 4) && len(epochs) >= 2:
			epoch = epochs[len(epochs)-2]
		case r.Chance("ops", 1, 6):
			epoch = epochs[r.Draw("ops", len(epochs))]
		}
		// new stream (old tapes read 0 = unchanged): claims for the OLDEST epoch still in memory, the
		// case in which versions scheduled for the next epoch are farthest from the relay's epoch
		if r.Draw("c17old", 4) == 1 {
			epoch = epochs[0]
			r.Probe("c17_relay_for_oldest_epoch_in_memory")
		}
		paired := s.pairedProvidersFor(signer, spec.Index)
		if len(paired) > 0 {
			prov = paired[r.Draw("ops", len(paired))]
		} else {
			prov = s.pickProv()
		}
		n := 1
		if r.Chance("ops", 1, 5) {
			n = 2
		}
		for i := 0; i < n; i++ {
			s.sessionSeq++
			cu := uint64(1 + r.Draw("ops", 300))
			if r.Chance("ops", 1, 8) {
				cu = uint64(1 + r.Draw("ops", 5000))
			}
			relays = append(relays, s.BuildRelay(RelaySpec{Signer: signer, Provider: prov, Spec: spec.Index, Epoch: int64(epoch), Session: s.sessionSeq, CuSum: cu, RelayNum: 1}))
		}
	}
	var total uint64
	for _, rel := range relays {
		total += rel.CuSum
	}
	// what the relay resolves to, and the observation points (relay epoch and everything later)
	resolved, rerr := s.K.Projects.GetProjectForDeveloper(s.Ctx, signer.Addr, epoch)
	var obsBlocks []uint64
	for _, b := range all {
		if b >= epoch {
			obsBlocks = append(obsBlocks, b)
		}
	}
	before := map[string][]c17Obs{}
	for _, id := range m.projIDs {
		before[id] = m.observe(id, obsBlocks)
	}
	subOf := func(addr string, b uint64) (uint64, uint64, bool) {
		sub, eb, found := s.K.Subscription.GetSubscriptionForBlock(s.Ctx, addr, b)
		return sub.MonthCuLeft, eb, found
	}
	type subObs struct {
		left, ver uint64
		found     bool
	}
	subBefore := map[string][2]subObs{}
	for _, c := range s.Consumers {
		l1, v1, f1 := subOf(c.Acc.Addr, epoch)
		l2, v2, f2 := subOf(c.Acc.Addr, h)
		subBefore[c.Acc.Addr] = [2]subObs{{l1, v1, f1}, {l2, v2, f2}}
	}
	kind := "c17relay"
	if replay {
		kind = "c17relay_replay"
	}
	res := s.SendRelayPayment(kind, prov, relays)
	r.Logf("%s %s<-%s %s epoch=%d (h=%d) n=%d cu=%d resolves=%s snap=%d: %s", kind, prov.Acc.Name, signer.Name, relays[0].SpecId, epoch, h, len(relays), total, m.pname(resolved.Index), resolved.Snapshot, short(res.Err))
	accepted := res.Err == nil
	if accepted {
		r.Check(rerr == nil, "c17-relay-charged-without-project", "", "relay signed by %s for epoch %d accepted although the key resolves to no project there: %v", signer.Name, epoch, rerr)
		if replay {
			r.Fail("c17-relay-charged-twice", "replayed-payment-accepted", "the relay payment of session %d (epoch %d, key %s) was accepted a second time", relays[0].SessionId, epoch, signer.Name)
		}
		m.lastRelays, m.lastProv, m.lastSigner = relays, prov, signer
		if epoch != epochs[len(epochs)-1] {
			r.Probe("c17_relay_paid_for_older_epoch")
		}
	}
	// projects: exactly +total in every version of the resolved project from the relay epoch on
	// within the same snapshot; every other project and snapshot untouched
	versionsCharged := map[uint64]bool{}
	for _, id := range m.projIDs {
		after := m.observe(id, obsBlocks)
		for i, a := range after {
			b := before[id][i]
			if !b.found || !a.found || a.snap != b.snap {
				continue
			}
			if id == resolved.Index && m.reincarnated(id, epoch, a.block) {
				// deleted and created again between the relay's epoch and this block: a different
				// project that merely reuses the name (its snapshot counter restarts), no expectation
				r.Probe("c17_relay_for_earlier_incarnation")
				continue
			}
			want := b.used
			if accepted && id == resolved.Index && b.snap == resolved.Snapshot {
				want += total
				versionsCharged[b.used] = true
			}
			sig := "other-project-or-snapshot"
			if id == resolved.Index && b.snap == resolved.Snapshot {
				sig = "resolved-project"
			}
			if !accepted {
				sig = "rejected-payment"
			} else if sig == "resolved-project" && a.used == b.used && a.block > epoch+s.K.Epochstorage.BlocksToSaveRaw(s.Ctx) {
				// names one specific situation: the uncharged version lies further ahead of the relay's
				// epoch than the blocks-to-save span (a pending next-epoch version, relay for the oldest epoch)
				sig = "pending-version-beyond-relay-epoch-plus-blocks-to-save"
				r.Probe("c17_pending_version_beyond_charge_range")
			}
			if accepted && sig == "resolved-project" && a.used == b.used {
				// names one specific situation: a version scheduled for the next epoch was created before a
				// monthly snapshot and still carries the previous snapshot number, so a version with a
				// newer snapshot lies between the relay's epoch and it (lava stops charging there)
				for j := 0; j < i; j++ {
					if before[id][j].found && before[id][j].snap > b.snap {
						sig = "pending-version-older-snapshot-than-a-version-before-it"
						r.Probe("c17_pending_version_with_stale_snapshot")
					}
				}
			}
			r.Check(a.used == want, "c17-project-used-cu", sig, "%s of %d CU (key %s, epoch %d, resolved project %s snapshot %d, accepted=%v): project %s as of block %d (snapshot %d) has UsedCu %d -> %d, expected %d [observed blocks %v; before %v after %v (block found snapshot usedCu)]", kind, total, signer.Name, epoch, m.pname(resolved.Index), resolved.Snapshot, accepted, m.pname(id), a.block, a.snap, b.used, a.used, want, obsBlocks, before[id], after)
		}
		if accepted && id == resolved.Index {
			other := false
			for i := range after {
				if before[id][i].found && before[id][i].snap != resolved.Snapshot {
					other = true
				}
			}
			if other {
				r.Probe("c17_charge_with_other_snapshot_in_view")
			}
		}
	}
	if accepted {
		// distinct versions: count observation points whose (snapshot, used) histories differ
		seen := map[string]bool{}
		for _, o := range before[resolved.Index] {
			if o.found && o.snap == resolved.Snapshot {
				p, _ := s.K.Projects.GetProjectForBlock(s.Ctx, resolved.Index, o.block)
				seen[fmt.Sprint(p.ProjectKeys, p.AdminPolicy, p.SubscriptionPolicy)] = true
			}
		}
		if len(seen) >= 2 {
			r.Probe("c17_charge_across_versions")
		}
	}
	// subscriptions: the version in force at the relay epoch loses exactly total (not below zero)
	for _, c := range s.Consumers {
		bf := subBefore[c.Acc.Addr]
		l1, v1, f1 := subOf(c.Acc.Addr, epoch)
		l2, v2, f2 := subOf(c.Acc.Addr, h)
		charged := accepted && rerr == nil && resolved.Subscription == c.Acc.Addr
		if bf[0].found && f1 && bf[0].ver == v1 {
			want := bf[0].left
			if charged {
				if want >= total {
					want -= total
				} else {
					want = 0
					r.Probe("c17_month_cu_exhausted")
				}
			}
			sig := "other-subscription"
			if charged {
				sig = "charged-subscription"
			}
			r.Check(l1 == want, "c17-subscription-month-cu", sig, "%s of %d CU (key %s epoch %d accepted=%v): subscription %s version %d MonthCuLeft %d -> %d, expected %d", kind, total, signer.Name, epoch, accepted, c.Acc.Name, v1, bf[0].left, l1, want)
		}
		if bf[1].found && f2 && bf[1].ver == v2 && v2 != v1 {
			r.Probe("c17_relay_for_previous_subscription_version")
			r.Check(l2 == bf[1].left, "c17-subscription-month-cu", "other-version", "%s of %d CU for epoch %d: subscription %s current version %d (not the one in force at the relay epoch, %d) changed MonthCuLeft %d -> %d", kind, total, epoch, c.Acc.Name, v2, v1, bf[1].left, l2)
		}
	}
}

func (s *Sim) opC17Slow() {
	r := s.R
	days := 6 + r.Draw("ops", 28)
	s.SlowBlocks(time.Duration(days) * 24 * time.Hour)
	r.Fault("slow_chain_weeks")
	r.Op("c17slow", "ok")
	r.Logf("slow chain %dd -> h=%d t=%s", days, s.Height(), s.Now().Format(time.RFC3339))
}

func runC17(r *simrt.Run) {
	w := map[string]int{
		"blocks": 20, "c17slow": 3, "stake": 3, "setpolicy": 4, "autorenew": 1,
		"c17buy": 6, "c17addproject": 8, "c17delproject": 4, "c17keys": 18, "c17relay": 24,
	}
	cfg := mkCfg(r, w, 90, 400)
	cfg.Faults["month_jump"] = false // months are crossed by c17slow
	for _, k := range []string{"c17keys", "c17relay"} {
		if cfg.Weights[k] < 8 {
			cfg.Weights[k] = 8
		}
	}
	s := NewSim(r, cfg)
	m := c17New(s)
	c17Cur = m
	s.AfterBlock = append(s.AfterBlock, m.afterBlock)
	// warm-up through the monitored operations
	n := len(s.Providers) + r.Draw("ops", len(s.Providers))
	for i := 0; i < n; i++ {
		r.Step()
		s.OpStakeProvider()
	}
	for i := 0; i < 2*len(s.Consumers); i++ {
		r.Step()
		s.opC17Buy()
	}
	for i := 0; i < len(s.Consumers); i++ {
		r.Step()
		s.opC17AddProject()
	}
	s.AdvanceToNextEpoch(s.BlockTimeDefault() / 2)
	s.AdvanceToNextEpoch(s.BlockTimeDefault() / 2)
	for i := 0; i < cfg.Steps; i++ {
		s.StepOp()
	}
	s.AdvanceToNextEpoch(s.BlockTimeDefault() / 2)
	m.sweep(m.blocks())
}

func c17NonTrivial(r *simrt.Run) bool {
	return r.Ops["c17relay:ok"] >= 2 && r.Ops["c17addkeys:ok"]+r.Ops["c17delkeys:ok"] >= 3 && r.Ops["c17addproject:ok"] >= 1
}

func init() {
	AddOp("c17buy", (*Sim).opC17Buy)
	AddOp("c17addproject", (*Sim).opC17AddProject)
	AddOp("c17delproject", (*Sim).opC17DelProject)
	AddOp("c17keys", (*Sim).opC17Keys)
	AddOp("c17relay", (*Sim).opC17Relay)
	AddOp("c17slow", (*Sim).opC17Slow)
	simrt.Register("C17", &simrt.PropSpec{Fn: runC17, NonTrivial: c17NonTrivial,
		Rule: "tape-generated histories of subscription purchases, project creation/deletion (incl. the admin project and re-creation), developer/admin key additions and removals by owners and by admin-key holders with keys drawn from all subscriptions (moves, conflicts, re-adds), policy changes, subscription expiry over slow-block months, and relay payments (1-2 sessions, current and older epochs, replays) signed by any key; after every accepted key/project operation and at every epoch start the keeper's key->project answers for all keys at the epoch starts in memory, the current block and the next epoch are compared with a ledger of acknowledged operations and with two structural invariants; around every relay payment UsedCu of every project at the relay epoch and all later observation blocks and MonthCuLeft of every subscription are compared before/after. Non-trivial = >=2 paid relays, >=3 accepted key changes, >=1 project created",
		Real: chainReal, Stubbed: chainStub,
		Assume: append([]string{"additions of keys/projects are effective from the start of the running epoch, removals/deletions/expiry from the next epoch start (the chain's documented semantics)", "usage must be visible in every version of the resolved project from the relay's epoch onwards within the same snapshot; versions older than the relay's epoch are not examined", "subscription expiry is observed through the chain's expire_subscription_event"}, chainAssume...)})
}
