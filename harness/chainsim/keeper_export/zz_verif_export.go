package keeper

// Added by /verif through a build overlay only (never present in the tree): lets the simulator
// snapshot/restore the package-level mock bank (transaction atomicity) and pin the genesis date.

import (
	"sort"
	"time"

	sdk "github.com/cosmos/cosmos-sdk/types"
)

// VerifBankSnapshot returns a deep-enough copy of the mock bank (sdk.Coins values are treated as
// immutable by the mock: every update stores a new slice).
func VerifBankSnapshot() map[string]sdk.Coins {
	cp := make(map[string]sdk.Coins, len(balance))
	for k, v := range balance {
		cp[k] = v
	}
	return cp
}

func VerifBankRestore(snap map[string]sdk.Coins) {
	balance = make(map[string]sdk.Coins, len(snap))
	for k, v := range snap {
		balance[k] = v
	}
}

// VerifBankAddrs returns all addresses with a bank entry, sorted.
func VerifBankAddrs() []string {
	ks := make([]string, 0, len(balance))
	for k := range balance {
		ks = append(ks, k)
	}
	sort.Strings(ks)
	return ks
}

func VerifBankGet(addr string) sdk.Coins { return balance[addr] }

// VerifSetFixedDate pins the genesis block time used by InitAllKeepers / MockBlockStore.
func VerifSetFixedDate(t time.Time) {
	fixedTime = true
	fixedDate = t
}
