package chainsim

import (
	"os"
	"time"

	subscriptiontypes "github.com/lavanet/lava/v5/x/subscription/types"
	"github.com/lavanet/lava/v5/zz_verif/simrt"
)

// baseWeights is the default mixed workload.
func baseWeights() map[string]int {
	return map[string]int{
		"blocks": 22, "stake": 8, "unstake": 2, "freeze": 2, "movestake": 2,
		"delegate": 5, "redelegate": 3, "unbond": 3, "claim": 3,
		"val_delegate": 3, "val_undelegate": 3, "val_redelegate": 2,
		"buy": 8, "autorenew": 2, "addproject": 4, "delproject": 1, "keys": 4, "setpolicy": 3,
		"relay": 25,
	}
}

// mkCfg draws the swarm configuration of a run: sizes, step count, and per-run perturbation of
// the operation mix (each weight is scaled by 0..2 so that some runs lack some operations
// entirely and others are dominated by them).
func mkCfg(r *simrt.Run, base map[string]int, quickSteps, thoroughSteps int) SimCfg {
	cfg := SimCfg{
		NVal: 1 + r.Draw("cfg", 3), NProv: 3 + r.Draw("cfg", 6), NCons: 2 + r.Draw("cfg", 3), NDeleg: 1 + r.Draw("cfg", 3),
		NSpecs: 1 + r.Draw("cfg", 3), NPlans: 2 + r.Draw("cfg", 3),
		Weights: map[string]int{}, Faults: map[string]bool{},
	}
	steps := quickSteps
	if r.Tier == "thorough" {
		steps = thoroughSteps
	}
	cfg.Steps = steps/2 + r.Draw("cfg", steps)
	for _, o := range opTable {
		wgt := base[o.name]
		// one stream per operation: registering further operations (other property files) must
		// not shift the choices of a recorded tape
		switch r.Draw("cfgw:"+o.name, 4) {
		case 0:
			wgt = wgt / 3
		case 1:
			wgt = wgt * 2
		}
		cfg.Weights[o.name] = wgt
	}
	if cfg.Weights["blocks"] < 5 {
		cfg.Weights["blocks"] = 5
	}
	for _, f := range []string{"downtime", "clock_jump", "month_jump"} {
		cfg.Faults[f] = r.Chance("cfg", 2, 3)
	}
	return cfg
}

// warmup stakes providers and buys subscriptions so that every run starts with a live economy.
// It uses the same transaction path as the workload (and is monitored like it).
func (s *Sim) Warmup() {
	r := s.R
	n := len(s.Providers) + r.Draw("ops", len(s.Providers))
	for i := 0; i < n; i++ {
		r.Step()
		s.OpStakeProvider()
	}
	for i := 0; i < len(s.Consumers); i++ {
		r.Step()
		s.OpBuy()
	}
	for i := 0; i < len(s.Consumers); i++ {
		r.Step()
		s.OpAddProject()
	}
	s.AdvanceToNextEpoch(s.BlockTimeDefault() / 2)
	s.AdvanceToNextEpoch(s.BlockTimeDefault() / 2)
}

// DebugDump logs subscription state after each step when VERIF_DEBUG=1 (replay investigations).
func (s *Sim) DebugDump() {
	if !debugOn {
		return
	}
	for _, c := range s.Consumers {
		res, err := s.K.Subscription.Current(s.Ctx, &subscriptiontypes.QueryCurrentRequest{Consumer: c.Acc.Addr})
		if err != nil || res.Sub == nil {
			s.R.Logf("      [dbg] %s: no subscription (%v)", c.Acc.Name, err)
			continue
		}
		sb := res.Sub
		s.R.Logf("      [dbg] %s: plan=%s/%d block=%d left=%d total=%d bought=%d credit=%s cuLeft=%d/%d expiry=%s auto=%q future=%v", c.Acc.Name, sb.PlanIndex, sb.PlanBlock, sb.Block, sb.DurationLeft, sb.DurationTotal, sb.DurationBought, sb.Credit.Amount, sb.MonthCuLeft, sb.MonthCuTotal, time.Unix(int64(sb.MonthExpiryTime), 0).UTC().Format(time.RFC3339), sb.AutoRenewalNextPlan, sb.FutureSubscription != nil)
	}
}

var debugOn = os.Getenv("VERIF_DEBUG") == "1"
