package chainsim

// C21 — reward pools release funds on schedule and within balance.
//
// Observation: the rewards module's Pools query (balances, TimeToRefill, AllocationPoolMonthsLeft)
// and bank balances of the fee collector / subscription / dualstaking / distribution module
// accounts, taken right before every EndBlock (after the last transaction of the block) and right
// after the following BeginBlock. Parameters (LeftoverBurnRate) are read through the keeper at the
// same points, never copied.

import (
	"fmt"
	"sort"
	"strings"
	"time"

	"cosmossdk.io/math"
	sdk "github.com/cosmos/cosmos-sdk/types"
	authtypes "github.com/cosmos/cosmos-sdk/x/auth/types"
	distributiontypes "github.com/cosmos/cosmos-sdk/x/distribution/types"
	testkeeper "github.com/lavanet/lava/v5/testutil/keeper"
	dualstakingtypes "github.com/lavanet/lava/v5/x/dualstaking/types"
	rewardstypes "github.com/lavanet/lava/v5/x/rewards/types"
	subscriptiontypes "github.com/lavanet/lava/v5/x/subscription/types"
	"github.com/lavanet/lava/v5/zz_verif/simrt"
)

const c21Day = int64(24 * 3600)

// c21Snap is one observation of everything the C21/C42 oracles look at.
type c21Snap struct {
	Now        time.Time
	Height     int64
	TTR        int64 // Pools query: seconds to the next refill
	MonthsLeft int64 // Pools query: allocation pool months left
	ValDist    sdk.Coins
	ValAlloc   sdk.Coins
	ValLeft    sdk.Coins
	ProvDist   sdk.Coins
	ProvAlloc  sdk.Coins
	Iprpc      sdk.Coins
	FeeColl    sdk.Coins
	SubMod     sdk.Coins
	Dual       sdk.Coins
	DistrMod   sdk.Coins
	Contrib    sdk.Coins // sum of balances of all spec contributors (dedupe)
	Supply     math.Int
	BurnRate   sdk.Dec
}

func (s *Sim) c21ModCoins(module string) sdk.Coins {
	return s.K.BankKeeper.GetAllBalances(s.Ctx, testkeeper.GetModuleAddress(module))
}

// c21Contributors returns the (sorted, distinct) contributor addresses of all specs.
func (s *Sim) c21Contributors() []string {
	seen := map[string]bool{}
	var out []string
	for _, sp := range s.Specs {
		cur, found := s.K.Spec.GetSpec(s.Ctx, sp.Index)
		if !found {
			continue
		}
		for _, c := range cur.Contributor {
			if !seen[c] {
				seen[c] = true
				out = append(out, c)
			}
		}
	}
	sort.Strings(out)
	return out
}

func (s *Sim) c21Snapshot() c21Snap {
	res, err := s.K.Rewards.Pools(sdk.WrapSDKContext(s.Ctx), &rewardstypes.QueryPoolsRequest{})
	if err != nil {
		panic(fmt.Sprintf("pools query: %v", err))
	}
	sn := c21Snap{Now: s.Now(), Height: s.Ctx.BlockHeight(), TTR: res.TimeToRefill, MonthsLeft: res.AllocationPoolMonthsLeft}
	for _, p := range res.Pools {
		switch rewardstypes.Pool(p.Name) {
		case rewardstypes.ValidatorsRewardsDistributionPoolName:
			sn.ValDist = p.Balance
		case rewardstypes.ValidatorsRewardsAllocationPoolName:
			sn.ValAlloc = p.Balance
		case rewardstypes.ValidatorsRewardsLeftOverPoolName:
			sn.ValLeft = p.Balance
		case rewardstypes.ProviderRewardsDistributionPool:
			sn.ProvDist = p.Balance
		case rewardstypes.ProvidersRewardsAllocationPool:
			sn.ProvAlloc = p.Balance
		case rewardstypes.IprpcPoolName:
			sn.Iprpc = p.Balance
		}
	}
	sn.FeeColl = s.c21ModCoins(authtypes.FeeCollectorName)
	sn.SubMod = s.c21ModCoins(subscriptiontypes.ModuleName)
	sn.Dual = s.c21ModCoins(dualstakingtypes.ModuleName)
	sn.DistrMod = s.c21ModCoins(distributiontypes.ModuleName)
	for _, c := range s.c21Contributors() {
		addr, err := sdk.AccAddressFromBech32(c)
		if err == nil {
			sn.Contrib = sn.Contrib.Add(s.K.BankKeeper.GetAllBalances(s.Ctx, addr)...)
		}
	}
	sn.Supply = s.Supply()
	sn.BurnRate = s.K.Rewards.GetParams(s.Ctx).LeftoverBurnRate
	return sn
}

// c21Diff returns after-before per denom (may be negative).
func c21Diff(after, before sdk.Coins) map[string]math.Int {
	out := map[string]math.Int{}
	for _, c := range after {
		out[c.Denom] = c.Amount
	}
	for _, c := range before {
		if v, ok := out[c.Denom]; ok {
			out[c.Denom] = v.Sub(c.Amount)
		} else {
			out[c.Denom] = c.Amount.Neg()
		}
	}
	for d, v := range out {
		if v.IsZero() {
			delete(out, d)
		}
	}
	return out
}

func c21DiffStr(m map[string]math.Int) string {
	ks := make([]string, 0, len(m))
	for k := range m {
		ks = append(ks, k)
	}
	sort.Strings(ks)
	out := ""
	for _, k := range ks {
		out += fmt.Sprintf("%s%s ", m[k].String(), k)
	}
	if out == "" {
		return "0"
	}
	return out[:len(out)-1]
}

func c21AnyNeg(m map[string]math.Int) bool {
	for _, v := range m {
		if v.IsNegative() {
			return true
		}
	}
	return false
}

func c21AnyPos(m map[string]math.Int) bool {
	for _, v := range m {
		if v.IsPositive() {
			return true
		}
	}
	return false
}

// c21Mon holds the C21 oracles.
type c21Mon struct {
	s       *Sim
	pre     c21Snap // state right before the EndBlock of the current block
	Refills int
	// OnRefill lets C42 piggy-back on the same bracketing (pre = before EndBlock, post = after
	// the next BeginBlock).
	OnInterval func(pre, post c21Snap, refill bool)
	checkC21   bool
}

func newC21Mon(s *Sim, checkC21 bool) *c21Mon {
	m := &c21Mon{s: s, checkC21: checkC21}
	m.pre = s.c21Snapshot()
	s.AfterTx = append(s.AfterTx, func(w *World, tx *TxResult) { m.pre = s.c21Snapshot() })
	s.AfterBlock = append(s.AfterBlock, func(w *World) { m.afterBlock() })
	return m
}

func (m *c21Mon) afterBlock() {
	s, r := m.s, m.s.R
	pre := m.pre
	post := s.c21Snapshot()
	m.pre = post

	preX := pre.Now.Unix() + pre.TTR
	postX := post.Now.Unix() + post.TTR
	refill := preX != postX
	if refill {
		m.Refills++
	}
	if m.OnInterval != nil {
		m.OnInterval(pre, post, refill)
	}
	if !m.checkC21 {
		return
	}

	// ---- schedule: the refill announced by TimeToRefill happens in the EndBlock of the first
	// block whose time reached it, and not before (equality is left open).
	if pre.TTR < 0 {
		r.Check(refill, "refill-schedule", "due-not-refilled", "height %d time %s: TimeToRefill=%d <0 before EndBlock but no refill happened", pre.Height, pre.Now.Format(time.RFC3339), pre.TTR)
	} else if pre.TTR > 0 {
		r.Check(!refill, "refill-schedule", "refilled-early", "height %d time %s: refill happened with TimeToRefill=%d >0", pre.Height, pre.Now.Format(time.RFC3339), pre.TTR)
	}

	// the validators' block reward of BeginBlock(h+1): nothing else pays the fee collector
	feeD := c21Diff(post.FeeColl, pre.FeeColl)
	if c21AnyNeg(feeD) {
		r.Probe("c21_fee_collector_drained") // not expected with the mock distribution wiring
	}
	reward := sdk.NewCoins()
	for den, v := range feeD {
		if v.IsPositive() {
			reward = reward.Add(sdk.NewCoin(den, v))
		}
	}
	subD := c21Diff(post.SubMod, pre.SubMod)
	iprpcD := c21Diff(post.Iprpc, pre.Iprpc)
	// cu-tracker payout(s) moved coins out of the subscription module; a payout can hide behind an
	// auto-renewal charge of the same block (net inflow), so the participation event emitted by
	// ContributeToValidatorsAndCommunityPool in this End/BeginBlock counts as well
	payout := c21AnyNeg(subD) || m.s.BlockEmitted("lava_validators_and_community_fund")
	iprpcPaid := c21AnyNeg(iprpcD) // IPRPC distribution took coins out of the IPRPC pool
	leftD := c21Diff(post.ValLeft, pre.ValLeft)

	if !refill {
		// ---- block reward never exceeds the validators distribution pool before it
		if !payout && !iprpcPaid {
			// nothing else touched the pool in this interval: pool before the reward == pre.ValDist
			r.Check(reward.IsAllLTE(pre.ValDist) || reward.IsZero(), "block-reward-within-pool", "reward>pool", "height %d: block reward %s exceeds validators distribution pool %s", post.Height, reward, pre.ValDist)
			if !reward.IsZero() {
				r.Probe("c21_block_reward_paid")
			}
		} else {
			before := post.ValDist.Add(reward...)
			r.Check(reward.IsAllLTE(before) || reward.IsZero(), "block-reward-within-pool", "reward>pool", "height %d: block reward %s exceeds validators distribution pool %s", post.Height, reward, before)
		}
		// ---- destination of the validators' participation: leftover pool only in the last 24 h
		if pre.TTR > c21Day {
			if payout {
				r.Probe("c21_payout_outside_last_24h")
			}
			ok := len(leftD) == 0
			r.OracleEvals++
			if !ok {
				r.Logf("   leftover pool changed by %s at height %d with TimeToRefill=%ds (payout=%v)", c21DiffStr(leftD), pre.Height, pre.TTR, payout)
				r.Fail("participation-pool", "leftover-grew-outside-last-24h", "height %d time %s: validators leftover pool changed by %s although the next refill is %d s (> 24 h) away; validators distribution pool %s -> %s",
					pre.Height, pre.Now.Format(time.RFC3339), c21DiffStr(leftD), pre.TTR, pre.ValDist, post.ValDist)
			}
		} else if pre.TTR > 0 && pre.TTR < c21Day {
			if payout {
				r.Probe("c21_payout_in_last_24h")
				if c21AnyPos(leftD) {
					r.Probe("c21_leftover_received_in_last_24h")
				}
				r.Logf("   payout in last 24h: height %d ttr=%d leftover %s valdist %s reward %s", pre.Height, pre.TTR, c21DiffStr(leftD), c21DiffStr(c21Diff(post.ValDist, pre.ValDist)), reward)
			}
			r.Check(!c21AnyNeg(leftD), "participation-pool", "leftover-shrank-before-refill", "height %d: leftover pool shrank by %s without a refill", pre.Height, c21DiffStr(leftD))
		}
	} else {
		m.checkRefill(pre, post, reward, payout, iprpcPaid)
	}
	m.probeParticipation(post)
}

func (m *c21Mon) checkRefill(pre, post c21Snap, reward sdk.Coins, payout, iprpcPaid bool) {
	s, r := m.s, m.s.R
	d := s.Denom
	r.Probe("c21_refill")
	if pre.BurnRate.LT(sdk.OneDec()) {
		r.Probe("c21_refill_burn_rate_lt_1")
		if pre.BurnRate.IsZero() {
			r.Probe("c21_refill_burn_rate_0")
		}
	}
	newX := post.Now.Unix() + post.TTR
	gapDays := float64(newX-pre.Now.Unix()) / 86400
	r.Check(gapDays > 27 && gapDays < 32, "refill-schedule", "next-refill-not-a-month-away", "refill at %s scheduled the next one %.2f days later", pre.Now.Format(time.RFC3339), gapDays)

	quota := func(alloc math.Int) math.Int {
		if pre.MonthsLeft == 0 || alloc.IsZero() {
			return math.ZeroInt()
		}
		return alloc.QuoRaw(pre.MonthsLeft)
	}
	valDist0, valAlloc0, valLeft0 := pre.ValDist.AmountOf(d), pre.ValAlloc.AmountOf(d), pre.ValLeft.AmountOf(d)
	provDist0, provAlloc0 := pre.ProvDist.AmountOf(d), pre.ProvAlloc.AmountOf(d)
	qV, qP := quota(valAlloc0), quota(provAlloc0)
	burnV := pre.BurnRate.MulInt(valDist0).TruncateInt()
	rew := reward.AmountOf(d)
	supplyDrop := pre.Supply.Sub(post.Supply)

	r.Logf("refill #%d at height %d time %s monthsLeft=%d->%d burnRate=%s valDist %s->%s valAlloc %s->%s valLeft %s->%s provDist %s->%s provAlloc %s->%s blockReward=%s supplyDrop=%s payout=%v iprpc=%v",
		m.Refills, pre.Height, pre.Now.Format(time.RFC3339), pre.MonthsLeft, post.MonthsLeft, pre.BurnRate, valDist0, post.ValDist.AmountOf(d), valAlloc0, post.ValAlloc.AmountOf(d),
		valLeft0, post.ValLeft.AmountOf(d), provDist0, post.ProvDist.AmountOf(d), provAlloc0, post.ProvAlloc.AmountOf(d), rew, supplyDrop, payout, iprpcPaid)

	// supply must not grow at a refill (burn, then move)
	r.Check(!supplyDrop.IsNegative(), "refill-supply", "supply-grew", "refill at height %d: supply grew by %s", pre.Height, supplyDrop.Neg())

	// allocation / months-left moves out of each allocation pool ...
	r.Check(post.ValAlloc.AmountOf(d).Equal(valAlloc0.Sub(qV)), "refill-quota", "validators-allocation", "refill at height %d: validators allocation pool %s -> %s, expected to release %s (= %s / %d months left)", pre.Height, valAlloc0, post.ValAlloc.AmountOf(d), qV, valAlloc0, pre.MonthsLeft)
	r.Check(post.ProvAlloc.AmountOf(d).Equal(provAlloc0.Sub(qP)), "refill-quota", "providers-allocation", "refill at height %d: providers allocation pool %s -> %s, expected to release %s (= %s / %d months left)", pre.Height, provAlloc0, post.ProvAlloc.AmountOf(d), qP, provAlloc0, pre.MonthsLeft)
	// ... into each distribution pool, after EVERYTHING left in the providers' one was burned
	// (nothing else flows into the providers distribution pool, so this holds in every refill block)
	r.Check(post.ProvDist.AmountOf(d).Equal(qP), "refill-providers-pool", "burn-all-then-quota", "refill at height %d: providers distribution pool is %s after the refill, expected exactly the monthly quota %s (balance before %s, everything left must be burned first)", pre.Height, post.ProvDist.AmountOf(d), qP, provDist0)

	if payout || iprpcPaid {
		// subscription payouts / IPRPC participation in the very same EndBlock also feed the
		// validators pools: their amounts are not observable separately, so the exact validators
		// equation is checked in clean refill blocks only.
		r.Probe("c21_refill_unclean")
		return
	}
	r.Probe("c21_refill_clean")
	if valLeft0.IsPositive() {
		r.Probe("c21_refill_moved_leftover")
	}
	if burnV.IsPositive() && burnV.LT(valDist0) {
		r.Probe("c21_refill_partial_burn")
	}
	// validators distribution pool: burn the configured fraction of what is left, THEN add the quota
	// (and the leftover pool); the block reward of the following BeginBlock left to the fee collector
	expect := valDist0.Sub(burnV).Add(qV).Add(valLeft0)
	got := post.ValDist.AmountOf(d).Add(rew)
	r.Check(got.Equal(expect), "refill-validators-pool", "burn-fraction-then-quota", "refill at height %d: validators distribution pool (+block reward %s) is %s, expected %s = before %s - burn %s (rate %s) + quota %s + leftover pool %s", pre.Height, rew, got, expect, valDist0, burnV, pre.BurnRate, qV, valLeft0)
	r.Check(post.ValLeft.IsZero(), "refill-validators-pool", "leftover-not-emptied", "refill at height %d: leftover pool still holds %s", pre.Height, post.ValLeft)

	// bonus rewards paid this month (they went to the dualstaking module as claimable rewards and
	// to spec contributors) never exceed the providers distribution pool
	bonus := post.Dual.AmountOf(d).Sub(pre.Dual.AmountOf(d)).Add(post.Contrib.AmountOf(d).Sub(pre.Contrib.AmountOf(d)))
	r.Check(!bonus.IsNegative() && bonus.LTE(provDist0), "bonus-within-pool", "bonus>pool", "refill at height %d: bonus rewards paid %s, providers distribution pool held %s", pre.Height, bonus, provDist0)
	if bonus.IsPositive() {
		r.Probe("c21_bonus_paid")
	}
	// everything left in the providers' pool and the configured fraction of the validators' one was burned
	expectDrop := burnV.Add(provDist0.Sub(bonus))
	r.Check(supplyDrop.Equal(expectDrop), "refill-burn", "burned-amount", "refill at height %d: supply dropped by %s, expected %s = validators burn %s + providers leftover %s (pool %s - bonus %s)", pre.Height, supplyDrop, expectDrop, burnV, provDist0.Sub(bonus), provDist0, bonus)
}

// probeParticipation asks the rewards keeper, on a discarded copy of the state, where the
// validators' share of a provider reward would go right now.
func (m *c21Mon) probeParticipation(cur c21Snap) {
	s, r := m.s, m.s.R
	ttr := cur.TTR
	if ttr <= 0 || ttr == c21Day {
		return
	}
	dist := ttr - c21Day
	if dist < 0 {
		dist = -dist
	}
	if dist > 12*3600 && cur.Height%16 != 0 {
		return
	}
	sender := subscriptiontypes.ModuleName
	bal := cur.SubMod.AmountOf(s.Denom)
	if bal.LT(math.NewInt(1000)) {
		sender = string(rewardstypes.IprpcPoolName)
		bal = cur.Iprpc.AmountOf(s.Denom)
		if bal.LT(math.NewInt(1000)) {
			r.Probe("c21_probe_skipped_no_funds")
			return
		}
	}
	amt := math.NewInt(1_000_003)
	if bal.LT(amt) {
		amt = bal
	}
	snap := testkeeper.VerifBankSnapshot()
	cctx, _ := s.Ctx.CacheContext()
	upd, err := s.K.Rewards.ContributeToValidatorsAndCommunityPool(cctx, sdk.NewCoin(s.Denom, amt), sender)
	distAfter := s.K.Rewards.TotalPoolTokens(cctx, rewardstypes.ValidatorsRewardsDistributionPoolName).AmountOf(s.Denom)
	leftAfter := s.K.Rewards.TotalPoolTokens(cctx, rewardstypes.ValidatorsRewardsLeftOverPoolName).AmountOf(s.Denom)
	testkeeper.VerifBankRestore(snap)
	if err != nil {
		r.Probe("c21_probe_error")
		return
	}
	dDist := distAfter.Sub(cur.ValDist.AmountOf(s.Denom))
	dLeft := leftAfter.Sub(cur.ValLeft.AmountOf(s.Denom))
	if dDist.IsZero() && dLeft.IsZero() {
		r.Probe("c21_probe_zero_participation")
		return
	}
	_ = upd
	if ttr > c21Day {
		r.Probe("c21_probe_outside_window")
		r.OracleEvals++
		if !dLeft.IsZero() {
			r.Fail("participation-pool", "probe-leftover-outside-last-24h", "height %d time %s, next refill in %d s (> 24 h): a provider reward of %s sent %s of validators participation to the leftover pool and %s to the distribution pool", cur.Height, cur.Now.Format(time.RFC3339), ttr, amt, dLeft, dDist)
		}
	} else {
		r.Probe("c21_probe_inside_window")
		r.Check(dDist.IsZero(), "participation-pool", "probe-distribution-inside-last-24h", "height %d time %s, next refill in %d s (< 24 h): a provider reward of %s sent %s of validators participation to the distribution pool and %s to the leftover pool", cur.Height, cur.Now.Format(time.RFC3339), ttr, amt, dDist, dLeft)
	}
}

// ---------- operations ----------

// opC21Params: governance changes reward parameters mid-history (burn rate, validators'
// participation, community tax).
func (s *Sim) opC21Params() {
	r := s.R
	switch r.Draw("ops", 3) {
	case 0:
		vals := []string{"1.0", "0.5", "0.0", "0.25", "0.333333333333333333", "0.9"}
		v := vals[r.Draw("ops", len(vals))]
		res := s.Tx("gov_param", nil, func(ctx sdk.Context) error {
			return testkeeper.SimulateParamChange(ctx, s.K.ParamsKeeper, rewardstypes.ModuleName, string(rewardstypes.KeyLeftoverBurnRate), "\""+v+"\"")
		})
		r.Op("gov_param", c21Outcome(res))
		r.Logf("gov: LeftoverBurnRate=%s: %s", v, c21Short(res.Err))
	case 1:
		vals := []string{"0.05", "0.0", "0.1", "0.2", "0.013"}
		v := vals[r.Draw("ops", len(vals))]
		res := s.Tx("gov_param", nil, func(ctx sdk.Context) error {
			return testkeeper.SimulateParamChange(ctx, s.K.ParamsKeeper, rewardstypes.ModuleName, string(rewardstypes.KeyValidatorsSubscriptionParticipation), "\""+v+"\"")
		})
		r.Op("gov_param", c21Outcome(res))
		r.Logf("gov: ValidatorsSubscriptionParticipation=%s: %s", v, c21Short(res.Err))
	default:
		vals := []string{"0.02", "0.0", "0.1", "0.25"}
		v := vals[r.Draw("ops", len(vals))]
		res := s.Tx("gov_param", nil, func(ctx sdk.Context) error {
			p := s.K.Distribution.GetParams(ctx)
			p.CommunityTax = sdk.MustNewDecFromStr(v)
			return s.K.Distribution.SetParams(ctx, p)
		})
		r.Op("gov_param", c21Outcome(res))
		r.Logf("gov: CommunityTax=%s: %s", v, c21Short(res.Err))
	}
}

// c21Short is short() without the attribute list of lava's errors (printed in map order).
func c21Short(err error) string {
	if err == nil {
		return "ok"
	}
	e := err.Error()
	if i := strings.Index(e, "{"); i >= 0 {
		e = e[:i]
	}
	if len(e) > 90 {
		e = e[:90]
	}
	return "ERR " + e
}

func c21Outcome(res *TxResult) string {
	if res.Err != nil {
		return "rejected"
	}
	return "ok"
}

func (s *Sim) c21TTR() int64 { return s.K.Rewards.TimeToNextTimerExpiry(s.Ctx) }

// c21Approach advances with slow blocks (1..6 h apart) until at most off seconds remain to the
// next refill; the last gap is cut so that the target offset is hit.
func (s *Sim) c21Approach(off int64) {
	for guard := 0; guard < 1500; guard++ {
		ttr := s.c21TTR()
		if ttr <= off {
			return
		}
		gap := time.Duration(1+s.R.Draw("ops", 6)) * time.Hour
		if rem := time.Duration(ttr-off) * time.Second; gap > rem {
			gap = rem
		}
		s.NextBlock(gap)
	}
}

// c21Month plays one month: activity, then an approach to a tape-chosen offset around the
// "24 h before the refill" boundary, a burst of fast blocks there (height-based cu-tracker
// timers fire: subscription payouts land at that offset), more activity, then the refill.
func (s *Sim) c21Month(m *c21Mon, steps int) {
	r := s.R
	for i := 0; i < steps; i++ {
		s.StepOp()
	}
	r.Step()
	// offset 18 h .. 30 h before the refill in 15 min steps (0 = 18 h: inside the window)
	off := c21Day - 6*3600 + int64(r.Draw("ops", 49))*900
	if r.Chance("ops", 1, 4) {
		off = int64(r.Draw("ops", 28*24)) * 3600 // anywhere in the month
	}
	s.c21Approach(off)
	burst := 40 * r.Draw("ops", 7)
	bt := s.BlockTimeDefault()
	for i := 0; i < burst; i++ {
		s.NextBlock(bt / 2)
	}
	r.Logf("month: approached ttr=%ds (target %ds), burst %d blocks -> h=%d t=%s", s.c21TTR(), off, burst, s.Height(), s.Now().Format(time.RFC3339))
	r.Op("c21_approach", "ok")
	for i := 0; i < 2+r.Draw("ops", 3); i++ {
		s.StepOp()
	}
	r.Step()
	before := m.Refills
	for guard := 0; m.Refills == before && guard < 1500; guard++ {
		s.NextBlock(time.Duration(1+r.Draw("ops", 6)) * time.Hour)
	}
	r.Op("c21_cross_refill", "ok")
}

func c21Months(r *simrt.Run) int {
	if r.Tier == "thorough" {
		return 14 + r.Draw("cfg", 3)
	}
	return 3 + r.Draw("cfg", 2)
}

func runC21(r *simrt.Run) {
	w := baseWeights()
	w["c21_params"] = 3
	w["buy"] = 12
	w["relay"] = 30
	cfg := mkCfg(r, w, 50, 150)
	months := c21Months(r)
	s := NewSim(r, cfg)
	m := newC21Mon(s, true)
	s.Warmup()
	per := cfg.Steps / months
	if per < 4 {
		per = 4
	}
	for i := 0; i < months; i++ {
		s.c21Month(m, per)
	}
	r.Extra["c21_refills"] += int64(m.Refills)
}

func init() {
	AddOp("c21_params", (*Sim).opC21Params)
	simrt.Register("C21", &simrt.PropSpec{Fn: runC21,
		NonTrivial: func(r *simrt.Run) bool {
			return r.Probes["c21_refill"] >= 3 && r.Ops["relay:ok"] >= 1 && r.OKOps() >= 10
		},
		Rule: "tape-generated multi-actor histories (base chainsim workload + governance changes of LeftoverBurnRate / ValidatorsSubscriptionParticipation / CommunityTax) over >=3 (quick) / >=14 (thorough) simulated months; every month the clock is driven to a tape-chosen offset around 'refill minus 24 h' and a burst of fast blocks makes pending subscription payouts land there, then the refill is crossed with blocks 1..6 h apart. Pools query + module balances are bracketed around every EndBlock/BeginBlock pair; additionally ContributeToValidatorsAndCommunityPool is asked on a discarded state copy where the validators' share would go. Non-trivial = >=3 refills, >=10 accepted operations incl. a paid relay",
		Real: chainReal, Stubbed: chainStub,
		Assume: append(append([]string{}, chainAssume...), "the block reward oracle compares the fee collector's gain with the pool balance before it; the bank (mock, like x/bank) refuses overdrafts, so this clause can only fail together with a bank defect", "in refill blocks where subscription payouts or IPRPC participation also occur the exact validators-pool equation is skipped (amounts not separable from balances); providers pool, allocation pools and supply are still checked")})
}
