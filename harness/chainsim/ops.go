package chainsim

import (
	"fmt"
	"strings"
	"time"

	sdk "github.com/cosmos/cosmos-sdk/types"
	stakingtypes "github.com/cosmos/cosmos-sdk/x/staking/types"
	"github.com/lavanet/lava/v5/utils/sigs"
	dualstakingtypes "github.com/lavanet/lava/v5/x/dualstaking/types"
	epochstoragetypes "github.com/lavanet/lava/v5/x/epochstorage/types"
	pairingtypes "github.com/lavanet/lava/v5/x/pairing/types"
	planstypes "github.com/lavanet/lava/v5/x/plans/types"
	projectstypes "github.com/lavanet/lava/v5/x/projects/types"
	spectypes "github.com/lavanet/lava/v5/x/spec/types"
	subscriptiontypes "github.com/lavanet/lava/v5/x/subscription/types"
)

// msgTx runs one or more messages as one atomic transaction (ValidateBasic first, like baseapp).
func (s *Sim) msgTx(kind string, msgs []sdk.Msg, run func(ctx sdk.Context) error) *TxResult {
	res := s.Tx(kind, msgs, func(ctx sdk.Context) error {
		for _, m := range msgs {
			if err := m.ValidateBasic(); err != nil {
				return fmt.Errorf("validate basic: %w", err)
			}
		}
		return run(ctx)
	})
	out := "ok"
	if res.Err != nil {
		out = "rejected"
	}
	s.R.Op(kind, out)
	return res
}

func short(err error) string {
	if err == nil {
		return "ok"
	}
	e := err.Error()
	// lava's formatted errors append their attributes in Go map order: cut before them so that
	// the decoded schedule (and the determinism trace hash) never depends on it
	if i := strings.Index(e, "{"); i >= 0 {
		e = e[:i]
	}
	if len(e) > 110 {
		e = e[:110]
	}
	return "ERR " + e
}

// ---------- clock ----------

func (s *Sim) OpBlocks() {
	r := s.R
	bt := s.BlockTimeDefault()
	switch r.Draw("ops", 10) {
	case 0, 1, 2, 3:
		n := 1 + r.Draw("ops", 3)
		for i := 0; i < n; i++ {
			s.NextBlock(bt / 2)
		}
		r.Logf("blocks +%d -> h=%d", n, s.Height())
	case 4, 5, 6:
		s.AdvanceToNextEpoch(bt / 2)
		r.Logf("epoch -> h=%d epochStart=%d t=%s", s.Height(), s.EpochStart(), s.Now().Format(time.RFC3339))
	case 7:
		if s.Cfg.Faults["downtime"] {
			gap := bt*2 + time.Duration(r.Draw("fault", 3600))*time.Second
			s.NextBlock(gap)
			r.Fault("downtime_gap")
			r.Logf("downtime gap %s -> h=%d", gap, s.Height())
		} else {
			s.NextBlock(bt / 2)
		}
	case 8:
		if s.Cfg.Faults["clock_jump"] {
			// a severe but realistic outage: one block arrives hours late (never more than MaxBlockGap)
			d := time.Duration(1+r.Draw("fault", int(MaxBlockGap/time.Hour))) * time.Hour
			s.NextBlock(d)
			r.Fault("clock_jump_hours")
			r.Logf("clock jump %s -> h=%d t=%s", d, s.Height(), s.Now().Format(time.RFC3339))
		} else {
			s.NextBlock(bt / 2)
		}
	default:
		if s.Cfg.Faults["month_jump"] {
			// a long period of slow blocks (each 1..6 h apart) that crosses weeks of block time
			days := 5 + r.Draw("fault", 30)
			s.SlowBlocks(time.Duration(days) * 24 * time.Hour)
			r.Fault("slow_chain_weeks")
			r.Logf("slow chain %dd -> h=%d t=%s", days, s.Height(), s.Now().Format(time.RFC3339))
		} else {
			s.AdvanceToNextEpoch(bt / 2)
		}
	}
	r.Op("blocks", "ok")
}

// MaxBlockGap bounds the time between two consecutive blocks. Month-scale progress is made by many
// slow blocks, never by one giant gap: a single block arriving weeks late is not a block
// progression any deployment meets, and histories that need it are not reported.
const MaxBlockGap = 12 * time.Hour

// SlowBlocks advances block time by about d using blocks 1..6 hours apart.
func (s *Sim) SlowBlocks(d time.Duration) {
	end := s.Now().Add(d)
	for guard := 0; s.Now().Before(end) && guard < 2000; guard++ {
		gap := time.Duration(1+s.R.Draw("ops", 6)) * time.Hour
		s.NextBlock(gap)
	}
}

// ---------- pairing / staking of providers ----------

func (s *Sim) endpoints(spec spectypes.Spec, geo int32) []epochstoragetypes.Endpoint {
	ifaces := []string{}
	for _, c := range spec.ApiCollections {
		ifaces = append(ifaces, c.CollectionData.ApiInterface)
	}
	var eps []epochstoragetypes.Endpoint
	for _, g := range planstypes.GetGeolocationsFromUint(geo) {
		eps = append(eps, epochstoragetypes.Endpoint{IPPORT: "123", ApiInterfaces: ifaces, Geolocation: int32(g)})
	}
	return eps
}

func (s *Sim) OpStakeProvider() {
	r := s.R
	p := s.pickProv()
	spec := s.pickSpec()
	amount := spec.MinStakeProvider.Amount.Int64() * int64(1+r.Draw("ops", 6))
	if r.Chance("ops", 1, 10) {
		amount = spec.MinStakeProvider.Amount.Int64() - 1 // below minimum
	}
	val := s.pickVal()
	msg := &pairingtypes.MsgStakeProvider{
		Creator: p.Vault.Addr, Validator: sdk.ValAddress(val.Account.Addr).String(), ChainID: spec.Index,
		Amount: s.Coin(amount), Geolocation: 1, Endpoints: s.endpoints(spec, 1),
		DelegateLimit: s.Coin(0), DelegateCommission: uint64(r.Draw("ops", 101)), Address: p.Acc.Addr,
		Description: stakingtypes.NewDescription("prov", "iden", "web", "sec", "details"),
	}
	res := s.msgTx("stake", []sdk.Msg{msg}, func(ctx sdk.Context) error {
		_, err := s.S.PairingServer.StakeProvider(ctx, msg)
		return err
	})
	r.Logf("stake %s on %s amount=%d commission=%d val=%s: %s", p.Acc.Name, spec.Index, amount, msg.DelegateCommission, val.Name, short(res.Err))
}

func (s *Sim) OpUnstakeProvider() {
	r := s.R
	p := s.pickProv()
	spec := s.pickSpec()
	creator := p.Vault.Addr
	if r.Chance("ops", 1, 4) {
		creator = p.Acc.Addr // by provider address
	}
	val := s.pickVal()
	msg := &pairingtypes.MsgUnstakeProvider{Creator: creator, ChainID: spec.Index, Validator: sdk.ValAddress(val.Account.Addr).String()}
	res := s.msgTx("unstake", []sdk.Msg{msg}, func(ctx sdk.Context) error {
		_, err := s.S.PairingServer.UnstakeProvider(ctx, msg)
		return err
	})
	r.Logf("unstake %s from %s by %s: %s", p.Acc.Name, spec.Index, s.NameOf(creator), short(res.Err))
}

func (s *Sim) OpFreeze() {
	r := s.R
	p := s.pickProv()
	spec := s.pickSpec()
	if r.Chance("ops", 1, 2) {
		msg := &pairingtypes.MsgFreezeProvider{Creator: p.Acc.Addr, ChainIds: []string{spec.Index}, Reason: "sim"}
		res := s.msgTx("freeze", []sdk.Msg{msg}, func(ctx sdk.Context) error {
			_, err := s.S.PairingServer.FreezeProvider(ctx, msg)
			return err
		})
		r.Logf("freeze %s on %s: %s", p.Acc.Name, spec.Index, short(res.Err))
	} else {
		msg := &pairingtypes.MsgUnfreezeProvider{Creator: p.Acc.Addr, ChainIds: []string{spec.Index}}
		res := s.msgTx("unfreeze", []sdk.Msg{msg}, func(ctx sdk.Context) error {
			_, err := s.S.PairingServer.UnfreezeProvider(ctx, msg)
			return err
		})
		r.Logf("unfreeze %s on %s: %s", p.Acc.Name, spec.Index, short(res.Err))
	}
}

func (s *Sim) OpMoveStake() {
	r := s.R
	if len(s.Specs) < 2 {
		return
	}
	p := s.pickProv()
	a, b := s.pickSpec(), s.pickSpec()
	amount := int64(1 + r.Draw("ops", 3000))
	msg := &pairingtypes.MsgMoveProviderStake{Creator: p.Acc.Addr, SrcChain: a.Index, DstChain: b.Index, Amount: s.Coin(amount)}
	res := s.msgTx("movestake", []sdk.Msg{msg}, func(ctx sdk.Context) error {
		_, err := s.S.PairingServer.MoveProviderStake(ctx, msg)
		return err
	})
	r.Logf("movestake %s %s->%s %d: %s", p.Acc.Name, a.Index, b.Index, amount, short(res.Err))
}

// ---------- dualstaking ----------

func (s *Sim) anyDelegator() *Account {
	r := s.R
	switch r.Draw("ops", 4) {
	case 0:
		return s.pickProv().Vault
	default:
		return s.pickDeleg()
	}
}

func (s *Sim) OpDelegate() {
	r := s.R
	d := s.anyDelegator()
	p := s.pickProv()
	val := s.pickVal()
	amount := int64(1 + r.Draw("ops", 50000))
	msg := &dualstakingtypes.MsgDelegate{Creator: d.Addr, Validator: sdk.ValAddress(val.Account.Addr).String(), Provider: p.Acc.Addr, ChainID: "chainID", Amount: s.Coin(amount)}
	res := s.msgTx("delegate", []sdk.Msg{msg}, func(ctx sdk.Context) error {
		_, err := s.S.DualstakingServer.Delegate(ctx, msg)
		return err
	})
	r.Logf("delegate %s -> %s via %s %d: %s", d.Name, p.Acc.Name, val.Name, amount, short(res.Err))
}

func (s *Sim) OpRedelegate() {
	r := s.R
	d := s.anyDelegator()
	from, to := s.pickProv().Acc.Addr, s.pickProv().Acc.Addr
	if r.Chance("ops", 1, 4) {
		from = "empty_provider"
	}
	amount := int64(1 + r.Draw("ops", 30000))
	msg := &dualstakingtypes.MsgRedelegate{Creator: d.Addr, FromProvider: from, ToProvider: to, FromChainID: "a", ToChainID: "b", Amount: s.Coin(amount)}
	res := s.msgTx("redelegate", []sdk.Msg{msg}, func(ctx sdk.Context) error {
		_, err := s.S.DualstakingServer.Redelegate(ctx, msg)
		return err
	})
	r.Logf("redelegate %s %s->%s %d: %s", d.Name, s.NameOf(from), s.NameOf(to), amount, short(res.Err))
}

func (s *Sim) OpUnbond() {
	r := s.R
	d := s.anyDelegator()
	p := s.pickProv()
	val := s.pickVal()
	amount := int64(1 + r.Draw("ops", 30000))
	msg := &dualstakingtypes.MsgUnbond{Creator: d.Addr, Validator: sdk.ValAddress(val.Account.Addr).String(), Provider: p.Acc.Addr, ChainID: "chainID", Amount: s.Coin(amount)}
	res := s.msgTx("unbond", []sdk.Msg{msg}, func(ctx sdk.Context) error {
		_, err := s.S.DualstakingServer.Unbond(ctx, msg)
		return err
	})
	r.Logf("unbond %s from %s via %s %d: %s", d.Name, p.Acc.Name, val.Name, amount, short(res.Err))
}

func (s *Sim) OpClaimRewards() {
	r := s.R
	d := s.anyDelegator()
	prov := ""
	if r.Chance("ops", 1, 2) {
		prov = s.pickProv().Acc.Addr
	}
	msg := &dualstakingtypes.MsgClaimRewards{Creator: d.Addr, Provider: prov}
	res := s.msgTx("claim", []sdk.Msg{msg}, func(ctx sdk.Context) error {
		_, err := s.S.DualstakingServer.ClaimRewards(ctx, msg)
		return err
	})
	r.Logf("claim %s provider=%s: %s", d.Name, s.NameOf(prov), short(res.Err))
}

// ---------- cosmos staking module ----------

func (s *Sim) OpValDelegate() {
	r := s.R
	d := s.anyDelegator()
	val := s.pickVal()
	amount := int64(1 + r.Draw("ops", 50000))
	msg := stakingtypes.NewMsgDelegate(d.Account.Addr, sdk.ValAddress(val.Account.Addr), s.Coin(amount))
	res := s.msgTx("val_delegate", []sdk.Msg{msg}, func(ctx sdk.Context) error {
		_, err := s.S.StakingServer.Delegate(ctx, msg)
		return err
	})
	r.Logf("val_delegate %s -> %s %d: %s", d.Name, val.Name, amount, short(res.Err))
}

func (s *Sim) OpValUndelegate() {
	r := s.R
	d := s.anyDelegator()
	val := s.pickVal()
	amount := int64(1 + r.Draw("ops", 50000))
	msg := stakingtypes.NewMsgUndelegate(d.Account.Addr, sdk.ValAddress(val.Account.Addr), s.Coin(amount))
	res := s.msgTx("val_undelegate", []sdk.Msg{msg}, func(ctx sdk.Context) error {
		_, err := s.S.StakingServer.Undelegate(ctx, msg)
		return err
	})
	r.Logf("val_undelegate %s from %s %d: %s", d.Name, val.Name, amount, short(res.Err))
}

func (s *Sim) OpValRedelegate() {
	r := s.R
	if len(s.Validators) < 2 {
		return
	}
	d := s.anyDelegator()
	a, b := s.pickVal(), s.pickVal()
	amount := int64(1 + r.Draw("ops", 30000))
	msg := stakingtypes.NewMsgBeginRedelegate(d.Account.Addr, sdk.ValAddress(a.Account.Addr), sdk.ValAddress(b.Account.Addr), s.Coin(amount))
	res := s.msgTx("val_redelegate", []sdk.Msg{msg}, func(ctx sdk.Context) error {
		_, err := s.S.StakingServer.BeginRedelegate(ctx, msg)
		return err
	})
	r.Logf("val_redelegate %s %s->%s %d: %s", d.Name, a.Name, b.Name, amount, short(res.Err))
}

// ---------- subscriptions / projects ----------

func (s *Sim) OpBuy() {
	r := s.R
	c := s.pickCons()
	plan := s.pickPlan()
	months := 1 + r.Draw("ops", 3)
	if r.Chance("ops", 1, 10) {
		months = 12
	}
	creator := c.Acc
	if r.Chance("ops", 1, 6) {
		creator = s.pickCons().Acc // somebody else pays
	}
	msg := &subscriptiontypes.MsgBuy{Creator: creator.Addr, Consumer: c.Acc.Addr, Index: plan, Duration: uint64(months),
		AutoRenewal: r.Chance("ops", 1, 4), AdvancePurchase: r.Chance("ops", 1, 6)}
	res := s.msgTx("buy", []sdk.Msg{msg}, func(ctx sdk.Context) error {
		_, err := s.S.SubscriptionServer.Buy(ctx, msg)
		return err
	})
	r.Logf("buy consumer=%s creator=%s plan=%s months=%d auto=%v advance=%v: %s", c.Acc.Name, creator.Name, plan, months, msg.AutoRenewal, msg.AdvancePurchase, short(res.Err))
}

func (s *Sim) OpAutoRenewal() {
	r := s.R
	c := s.pickCons()
	msg := &subscriptiontypes.MsgAutoRenewal{Creator: c.Acc.Addr, Consumer: c.Acc.Addr, Enable: r.Chance("ops", 1, 2), Index: ""}
	if r.Chance("ops", 1, 2) {
		msg.Index = s.pickPlan()
	}
	res := s.msgTx("autorenew", []sdk.Msg{msg}, func(ctx sdk.Context) error {
		_, err := s.S.SubscriptionServer.AutoRenewal(ctx, msg)
		return err
	})
	r.Logf("autorenew %s enable=%v plan=%q: %s", c.Acc.Name, msg.Enable, msg.Index, short(res.Err))
}

func (s *Sim) OpAddProject() {
	r := s.R
	c := s.pickCons()
	name := fmt.Sprintf("p%d", r.Draw("ops", 3))
	dev := c.Devs[r.Draw("ops", len(c.Devs))]
	pd := projectstypes.ProjectData{Name: name, Enabled: true,
		ProjectKeys: []projectstypes.ProjectKey{projectstypes.ProjectDeveloperKey(dev.Addr)}}
	msg := &subscriptiontypes.MsgAddProject{Creator: c.Acc.Addr, ProjectData: pd}
	res := s.msgTx("addproject", []sdk.Msg{msg}, func(ctx sdk.Context) error {
		_, err := s.S.SubscriptionServer.AddProject(ctx, msg)
		return err
	})
	r.Logf("addproject %s/%s dev=%s: %s", c.Acc.Name, name, dev.Name, short(res.Err))
}

func (s *Sim) OpDelProject() {
	r := s.R
	c := s.pickCons()
	name := fmt.Sprintf("p%d", r.Draw("ops", 3))
	msg := &subscriptiontypes.MsgDelProject{Creator: c.Acc.Addr, Name: name}
	res := s.msgTx("delproject", []sdk.Msg{msg}, func(ctx sdk.Context) error {
		_, err := s.S.SubscriptionServer.DelProject(ctx, msg)
		return err
	})
	r.Logf("delproject %s/%s: %s", c.Acc.Name, name, short(res.Err))
}

func (s *Sim) projectID(c *ConsumerActor, name string) string {
	return projectstypes.ProjectIndex(c.Acc.Addr, name)
}

func (s *Sim) OpKeys() {
	r := s.R
	c := s.pickCons()
	names := []string{projectstypes.ADMIN_PROJECT_NAME, "p0", "p1", "p2"}
	proj := s.projectID(c, names[r.Draw("ops", len(names))])
	// keys may come from another consumer's developers (cross-project conflicts)
	owner := c
	if r.Chance("ops", 1, 4) {
		owner = s.pickCons()
	}
	dev := owner.Devs[r.Draw("ops", len(owner.Devs))]
	key := projectstypes.ProjectDeveloperKey(dev.Addr)
	if r.Chance("ops", 1, 2) {
		msg := &projectstypes.MsgAddKeys{Creator: c.Acc.Addr, Project: proj, ProjectKeys: []projectstypes.ProjectKey{key}}
		res := s.msgTx("addkeys", []sdk.Msg{msg}, func(ctx sdk.Context) error {
			_, err := s.S.ProjectServer.AddKeys(ctx, msg)
			return err
		})
		r.Logf("addkeys %s key=%s: %s", proj[len(proj)-8:], dev.Name, short(res.Err))
	} else {
		msg := &projectstypes.MsgDelKeys{Creator: c.Acc.Addr, Project: proj, ProjectKeys: []projectstypes.ProjectKey{key}}
		res := s.msgTx("delkeys", []sdk.Msg{msg}, func(ctx sdk.Context) error {
			_, err := s.S.ProjectServer.DelKeys(ctx, msg)
			return err
		})
		r.Logf("delkeys %s key=%s: %s", proj[len(proj)-8:], dev.Name, short(res.Err))
	}
}

func (s *Sim) OpSetPolicy() {
	r := s.R
	c := s.pickCons()
	names := []string{projectstypes.ADMIN_PROJECT_NAME, "p0", "p1"}
	proj := s.projectID(c, names[r.Draw("ops", len(names))])
	pol := &planstypes.Policy{
		TotalCuLimit:       uint64(100 * r.Draw("ops", 500)),
		EpochCuLimit:       uint64(10 * r.Draw("ops", 500)),
		MaxProvidersToPair: uint64(2 + r.Draw("ops", 5)),
		GeolocationProfile: 1,
	}
	if r.Chance("ops", 1, 2) {
		msg := &projectstypes.MsgSetPolicy{Creator: c.Acc.Addr, Project: proj, Policy: pol}
		res := s.msgTx("setpolicy", []sdk.Msg{msg}, func(ctx sdk.Context) error {
			_, err := s.S.ProjectServer.SetPolicy(ctx, msg)
			return err
		})
		r.Logf("setpolicy admin %s total=%d epoch=%d maxprov=%d: %s", proj[len(proj)-8:], pol.TotalCuLimit, pol.EpochCuLimit, pol.MaxProvidersToPair, short(res.Err))
	} else {
		msg := &projectstypes.MsgSetSubscriptionPolicy{Creator: c.Acc.Addr, Projects: []string{proj}, Policy: pol}
		res := s.msgTx("setsubpolicy", []sdk.Msg{msg}, func(ctx sdk.Context) error {
			_, err := s.S.ProjectServer.SetSubscriptionPolicy(ctx, msg)
			return err
		})
		r.Logf("setpolicy sub %s total=%d epoch=%d maxprov=%d: %s", proj[len(proj)-8:], pol.TotalCuLimit, pol.EpochCuLimit, pol.MaxProvidersToPair, short(res.Err))
	}
}

// ---------- relay payments ----------

// signerFor returns a key that is (probably) a developer of some project of c.
func (s *Sim) signerFor(c *ConsumerActor) *Account {
	r := s.R
	if r.Chance("ops", 1, 3) {
		return c.Acc // the subscription owner is admin+developer of the admin project
	}
	return c.Devs[r.Draw("ops", len(c.Devs))]
}

type RelaySpec struct {
	Consumer *ConsumerActor
	Signer   *Account
	Provider *ProviderActor
	Spec     string
	Epoch    int64
	Session  uint64
	CuSum    uint64
	RelayNum uint64
	Qos      *pairingtypes.QualityOfServiceReport
	QosEx    *pairingtypes.QualityOfServiceReport
	Unresp   []*pairingtypes.ReportedProvider
}

func (s *Sim) BuildRelay(rs RelaySpec) *pairingtypes.RelaySession {
	rel := &pairingtypes.RelaySession{
		Provider: rs.Provider.Acc.Addr, ContentHash: []byte("apiname"), SessionId: rs.Session, SpecId: rs.Spec,
		CuSum: rs.CuSum, Epoch: rs.Epoch, RelayNum: rs.RelayNum, QosReport: rs.Qos, QosExcellenceReport: rs.QosEx,
		UnresponsiveProviders: rs.Unresp, LavaChainId: LavaChainID,
	}
	sig, err := sigs.Sign(rs.Signer.SK, *rel)
	if err != nil {
		panic(err)
	}
	rel.Sig = sig
	return rel
}

// pairedProviderFor returns a provider from the consumer's current pairing (or nil).
func (s *Sim) pairedProvidersFor(signer *Account, spec string) []*ProviderActor {
	res, err := s.K.Pairing.GetPairing(sdk.WrapSDKContext(s.Ctx), &pairingtypes.QueryGetPairingRequest{ChainID: spec, Client: signer.Addr})
	if err != nil {
		return nil
	}
	var out []*ProviderActor
	for _, e := range res.Providers {
		for _, p := range s.Providers {
			if p.Acc.Addr == e.Address {
				out = append(out, p)
			}
		}
	}
	return out
}

func (s *Sim) SendRelayPayment(kind string, creator *ProviderActor, relays []*pairingtypes.RelaySession) *TxResult {
	msg := &pairingtypes.MsgRelayPayment{Creator: creator.Acc.Addr, Relays: relays, DescriptionString: "sim"}
	return s.msgTx(kind, []sdk.Msg{msg}, func(ctx sdk.Context) error {
		_, err := s.S.PairingServer.RelayPayment(ctx, msg)
		return err
	})
}

func (s *Sim) randQos(stream string) *pairingtypes.QualityOfServiceReport {
	r := s.R
	dec := func(max int64) sdk.Dec { return sdk.NewDecWithPrec(int64(r.Draw(stream, int(max))), 2) }
	return &pairingtypes.QualityOfServiceReport{Latency: dec(101), Availability: dec(101), Sync: dec(101)}
}

// OpRelay: an honest provider claims a fresh session of a paired consumer.
func (s *Sim) OpRelay() {
	r := s.R
	c := s.pickCons()
	signer := s.signerFor(c)
	spec := s.pickSpec()
	paired := s.pairedProvidersFor(signer, spec.Index)
	var p *ProviderActor
	if len(paired) > 0 && !r.Chance("ops", 1, 10) {
		p = paired[r.Draw("ops", len(paired))]
	} else {
		p = s.pickProv()
	}
	s.sessionSeq++
	rs := RelaySpec{Consumer: c, Signer: signer, Provider: p, Spec: spec.Index, Epoch: int64(s.EpochStart()), Session: s.sessionSeq,
		CuSum: uint64(1 + r.Draw("ops", 2000)), RelayNum: 1}
	if r.Chance("ops", 1, 3) {
		rs.Qos = s.randQos("ops")
	}
	rel := s.BuildRelay(rs)
	res := s.SendRelayPayment("relay", p, []*pairingtypes.RelaySession{rel})
	r.Logf("relay %s<-%s(%s) %s epoch=%d session=%d cu=%d qos=%v: %s", p.Acc.Name, c.Acc.Name, signer.Name, spec.Index, rs.Epoch, rs.Session, rs.CuSum, rs.Qos != nil, short(res.Err))
}

// Step picks and executes one operation according to the profile weights.
func (s *Sim) StepOp() {
	r := s.R
	r.Step()
	defer s.DebugDump()
	total := 0
	for _, o := range opTable {
		total += s.Cfg.Weights[o.name]
	}
	if total == 0 {
		s.OpBlocks()
		return
	}
	x := r.Draw("ops", total)
	for _, o := range opTable {
		wgt := s.Cfg.Weights[o.name]
		if x < wgt {
			o.fn(s)
			return
		}
		x -= wgt
	}
}

type opEntry struct {
	name string
	fn   func(*Sim)
}

// fixed order: the tape indexes into it
var opTable = []opEntry{
	{"blocks", (*Sim).OpBlocks},
	{"stake", (*Sim).OpStakeProvider},
	{"unstake", (*Sim).OpUnstakeProvider},
	{"freeze", (*Sim).OpFreeze},
	{"movestake", (*Sim).OpMoveStake},
	{"delegate", (*Sim).OpDelegate},
	{"redelegate", (*Sim).OpRedelegate},
	{"unbond", (*Sim).OpUnbond},
	{"claim", (*Sim).OpClaimRewards},
	{"val_delegate", (*Sim).OpValDelegate},
	{"val_undelegate", (*Sim).OpValUndelegate},
	{"val_redelegate", (*Sim).OpValRedelegate},
	{"buy", (*Sim).OpBuy},
	{"autorenew", (*Sim).OpAutoRenewal},
	{"addproject", (*Sim).OpAddProject},
	{"delproject", (*Sim).OpDelProject},
	{"keys", (*Sim).OpKeys},
	{"setpolicy", (*Sim).OpSetPolicy},
	{"relay", (*Sim).OpRelay},
}

// AddOp registers an extra operation (from a property file's init()). It has weight 0 unless the
// property's base weights name it.
func AddOp(name string, fn func(*Sim)) {
	for _, o := range opTable {
		if o.name == name {
			panic("duplicate op " + name)
		}
	}
	opTable = append(opTable, opEntry{name, fn})
}

// RunHistory executes warm-up plus cfg.Steps tape-chosen operations.
func (s *Sim) RunHistory() {
	s.Warmup()
	for i := 0; i < s.Cfg.Steps; i++ {
		s.StepOp()
	}
}
