package chainsim

// C05 "relay payments are accepted only for authentic, paired relays; every other relay is
// rejected without changing anything". Built on the relay toolkit of props_c03.go.

import (
	"fmt"

	sdk "github.com/cosmos/cosmos-sdk/types"
	stakingtypes "github.com/cosmos/cosmos-sdk/x/staking/types"
	pairingtypes "github.com/lavanet/lava/v5/x/pairing/types"
	projectstypes "github.com/lavanet/lava/v5/x/projects/types"
	subscriptiontypes "github.com/lavanet/lava/v5/x/subscription/types"
	"github.com/lavanet/lava/v5/zz_verif/simrt"
)

// ---------- oracles (evaluated for every relay-payment transaction of the run) ----------

func (k *c03Kit) oraclesC05(tx *c03TxInfo) {
	r := k.s.R
	if !tx.OK {
		// every other relay is rejected without changing any balance, usage counter or reputation:
		// the full state digest (every store + bank) is the same before and after the messages ran
		sig := tx.Kind
		for _, ri := range tx.Rels {
			if ri.P.MustReject != "" {
				sig = c03KindClass(ri.P.Kind)
				break
			}
		}
		if tx.Res.DigestBefore == "" {
			r.Probe("c05_rejected_in_ante_step") // the messages never ran
		} else {
			r.Check(tx.Res.DigestBefore == tx.Res.DigestAfter, "c05-rejected-tx-changed-state", sig,
				"relay payment %s was rejected (%v) but the state digest changed %s -> %s", tx.Kind, tx.Res.Err, tx.Res.DigestBefore, tx.Res.DigestAfter)
		}
		for _, ri := range tx.Rels {
			for _, why := range ri.Invalid {
				r.Probe("c05_rejected:" + why)
			}
			if ri.P.MustReject != "" {
				r.Probe("c05_rejected_kind:" + c03KindClass(ri.P.Kind))
			}
		}
		return
	}
	for _, ri := range tx.Rels {
		rel := ri.P.Rel
		// accepted => every precondition of the statement held on the pre-state (read through the
		// chain's own queries) ...
		if len(ri.Invalid) > 0 {
			r.Fail("c05-invalid-relay-paid", ri.Invalid[0],
				"relay #%d (%s session=%d epoch=%d provider=%s signer=%s kind=%s) was paid at height %d although on the pre-state: %v", ri.Idx, rel.SpecId, rel.SessionId, rel.Epoch, k.s.NameOf(rel.Provider), k.s.NameOf(ri.SignerAddr), ri.P.Kind, tx.Height, ri.Invalid)
		}
		r.OracleEvals++
		// ... and it is not a relay the harness corrupted on purpose
		r.Check(ri.P.MustReject == "", "c05-corrupted-relay-paid", c03KindClass(ri.P.Kind),
			"relay #%d (%s session=%d epoch=%d cu=%d provider=%s) was paid at height %d although the harness made it invalid: %s", ri.Idx, rel.SpecId, rel.SessionId, rel.Epoch, rel.CuSum, k.s.NameOf(rel.Provider), tx.Height, ri.P.MustReject)
	}
}

// ---------- corruption catalogue ----------

type c05Corruption struct {
	name string
	// apply returns the corrupted proof and the creator to send it with; nil = not applicable now
	apply func(k *c03Kit, base *c03Proof) (*c03Proof, *ProviderActor)
}

func c05Tamper(base *c03Proof, kind string, edit func(rel *pairingtypes.RelaySession)) *c03Proof {
	cp := *base.Rel
	if cp.QosReport != nil {
		q := *cp.QosReport
		cp.QosReport = &q
	}
	if cp.QosExcellenceReport != nil {
		q := *cp.QosExcellenceReport
		cp.QosExcellenceReport = &q
	}
	cp.UnresponsiveProviders = append([]*pairingtypes.ReportedProvider(nil), cp.UnresponsiveProviders...)
	cp.Sig = append([]byte(nil), cp.Sig...)
	cp.ContentHash = append([]byte(nil), cp.ContentHash...)
	edit(&cp)
	return &c03Proof{Rel: &cp, Prov: base.Prov, Signer: nil, Cons: base.Cons, Honest: false, Built: base.Built, Kind: kind, MustReject: kind + " (changed after signing)"}
}

func (k *c03Kit) otherProvider(p *ProviderActor) *ProviderActor {
	s := k.s
	if len(s.Providers) < 2 {
		return nil
	}
	for i := 0; i < 4; i++ {
		o := s.pickProv()
		if o != p {
			return o
		}
	}
	return nil
}

var c05Catalogue = []c05Corruption{
	{"t:provider", func(k *c03Kit, b *c03Proof) (*c03Proof, *ProviderActor) {
		o := k.otherProvider(b.Prov)
		if o == nil {
			return nil, nil
		}
		if k.s.R.Chance("ops", 1, 2) { // the thief sends it under its own name
			return c05Tamper(b, "t:provider_and_sender", func(rel *pairingtypes.RelaySession) { rel.Provider = o.Acc.Addr }), o
		}
		return c05Tamper(b, "t:provider", func(rel *pairingtypes.RelaySession) { rel.Provider = o.Acc.Addr }), b.Prov
	}},
	{"sender_not_provider", func(k *c03Kit, b *c03Proof) (*c03Proof, *ProviderActor) {
		o := k.otherProvider(b.Prov)
		if o == nil {
			return nil, nil
		}
		cp := *b
		cp.Kind, cp.MustReject = "sender_not_provider", "relay names another provider than the sender"
		return &cp, o
	}},
	{"r:provider_not_sender", func(k *c03Kit, b *c03Proof) (*c03Proof, *ProviderActor) {
		o := k.otherProvider(b.Prov)
		if o == nil {
			return nil, nil
		}
		// mostly a provider that is in the very same pairing (then "names the sender" is the ONLY
		// precondition that does not hold); stream "c05multi", 0 = the provider drawn above
		if alt := k.c05PairedOther(b); alt != nil {
			o = alt
		}
		np := k.resign(b, b.Signer, "r:provider_not_sender", func(rel *pairingtypes.RelaySession) { rel.Provider = o.Acc.Addr })
		np.MustReject = "relay names another provider than the sender"
		return np, b.Prov
	}},
	{"r:other_provider", func(k *c03Kit, b *c03Proof) (*c03Proof, *ProviderActor) {
		// validly signed for another provider, sent by that provider: acceptable only if paired
		o := k.otherProvider(b.Prov)
		if o == nil {
			return nil, nil
		}
		np := k.resign(b, b.Signer, "r:other_provider", func(rel *pairingtypes.RelaySession) { rel.Provider = o.Acc.Addr })
		np.Prov = o
		return np, o
	}},
	{"t:spec", func(k *c03Kit, b *c03Proof) (*c03Proof, *ProviderActor) {
		o := k.s.pickSpec().Index
		if o == b.Rel.SpecId {
			o = "NOSPEC"
		}
		return c05Tamper(b, "t:spec", func(rel *pairingtypes.RelaySession) { rel.SpecId = o }), b.Prov
	}},
	{"r:spec_unknown", func(k *c03Kit, b *c03Proof) (*c03Proof, *ProviderActor) {
		np := k.resign(b, b.Signer, "r:spec_unknown", func(rel *pairingtypes.RelaySession) { rel.SpecId = "NOSPEC" })
		np.MustReject = "spec does not exist"
		return np, b.Prov
	}},
	{"t:lava_chain_id", func(k *c03Kit, b *c03Proof) (*c03Proof, *ProviderActor) {
		return c05Tamper(b, "t:lava_chain_id", func(rel *pairingtypes.RelaySession) { rel.LavaChainId = "lava-other" }), b.Prov
	}},
	{"r:lava_chain_id", func(k *c03Kit, b *c03Proof) (*c03Proof, *ProviderActor) {
		id := []string{"lava-other", "", LavaChainID + "x"}[k.s.R.Draw("ops", 3)]
		np := k.resign(b, b.Signer, "r:lava_chain_id", func(rel *pairingtypes.RelaySession) { rel.LavaChainId = id })
		np.MustReject = "signed for another lava chain"
		return np, b.Prov
	}},
	{"t:epoch", func(k *c03Kit, b *c03Proof) (*c03Proof, *ProviderActor) {
		d := []int64{1, -1, 20, -20, 7}[k.s.R.Draw("ops", 5)]
		return c05Tamper(b, "t:epoch", func(rel *pairingtypes.RelaySession) { rel.Epoch += d }), b.Prov
	}},
	{"r:epoch_future", func(k *c03Kit, b *c03Proof) (*c03Proof, *ProviderActor) {
		e := int64(k.s.NextEpochBlock())
		switch k.s.R.Draw("ops", 3) {
		case 1:
			e = int64(k.s.Height()) + 1
		case 2:
			e = int64(k.s.NextEpochBlock()) + 20*int64(1+k.s.R.Draw("ops", 50))
		}
		np := k.resign(b, b.Signer, "r:epoch_future", func(rel *pairingtypes.RelaySession) { rel.Epoch = e })
		np.MustReject = "epoch in the future"
		return np, b.Prov
	}},
	{"r:epoch_negative", func(k *c03Kit, b *c03Proof) (*c03Proof, *ProviderActor) {
		np := k.resign(b, b.Signer, "r:epoch_negative", func(rel *pairingtypes.RelaySession) { rel.Epoch = -rel.Epoch - 1 })
		np.MustReject = "negative epoch"
		return np, b.Prov
	}},
	{"r:epoch_out_of_memory", func(k *c03Kit, b *c03Proof) (*c03Proof, *ProviderActor) {
		earliest := k.s.K.Epochstorage.GetEarliestEpochStart(k.s.Ctx)
		var old []uint64
		for _, e := range k.epochs {
			if e < earliest {
				old = append(old, e)
			}
		}
		if len(old) == 0 {
			return nil, nil
		}
		e := old[k.s.R.Draw("ops", len(old))]
		np := k.resign(b, b.Signer, "r:epoch_out_of_memory", func(rel *pairingtypes.RelaySession) { rel.Epoch = int64(e) })
		np.MustReject = fmt.Sprintf("epoch older than chain memory")
		return np, b.Prov
	}},
	{"t:session_id", func(k *c03Kit, b *c03Proof) (*c03Proof, *ProviderActor) {
		return c05Tamper(b, "t:session_id", func(rel *pairingtypes.RelaySession) { rel.SessionId++ }), b.Prov
	}},
	{"t:cu_sum", func(k *c03Kit, b *c03Proof) (*c03Proof, *ProviderActor) {
		up := k.s.R.Chance("ops", 2, 3)
		return c05Tamper(b, "t:cu_sum", func(rel *pairingtypes.RelaySession) {
			if up || rel.CuSum < 2 {
				rel.CuSum += uint64(1 + k.s.R.Draw("ops", 100000))
			} else {
				rel.CuSum--
			}
		}), b.Prov
	}},
	{"t:relay_num", func(k *c03Kit, b *c03Proof) (*c03Proof, *ProviderActor) {
		return c05Tamper(b, "t:relay_num", func(rel *pairingtypes.RelaySession) { rel.RelayNum += uint64(1 + k.s.R.Draw("ops", 5)) }), b.Prov
	}},
	{"t:content_hash", func(k *c03Kit, b *c03Proof) (*c03Proof, *ProviderActor) {
		return c05Tamper(b, "t:content_hash", func(rel *pairingtypes.RelaySession) { rel.ContentHash = append(rel.ContentHash, 'x') }), b.Prov
	}},
	{"t:qos", func(k *c03Kit, b *c03Proof) (*c03Proof, *ProviderActor) {
		return c05Tamper(b, "t:qos", func(rel *pairingtypes.RelaySession) {
			one := sdk.OneDec()
			if rel.QosReport == nil {
				rel.QosReport = &pairingtypes.QualityOfServiceReport{Latency: one, Availability: one, Sync: one}
				return
			}
			switch k.s.R.Draw("ops", 3) {
			case 0: // the provider polishes its own report
				rel.QosReport = &pairingtypes.QualityOfServiceReport{Latency: one, Availability: one, Sync: one.Sub(sdk.NewDecWithPrec(1, 18))}
			case 1:
				rel.QosReport = nil
			default:
				rel.QosReport.Latency = rel.QosReport.Latency.Quo(sdk.NewDec(2)).Add(sdk.NewDecWithPrec(1, 3))
			}
		}), b.Prov
	}},
	{"t:qos_excellence", func(k *c03Kit, b *c03Proof) (*c03Proof, *ProviderActor) {
		return c05Tamper(b, "t:qos_excellence", func(rel *pairingtypes.RelaySession) {
			if rel.QosExcellenceReport == nil {
				rel.QosExcellenceReport = &pairingtypes.QualityOfServiceReport{Latency: sdk.NewDecWithPrec(1, 2), Availability: sdk.OneDec(), Sync: sdk.NewDecWithPrec(1, 2)}
			} else {
				rel.QosExcellenceReport = nil
			}
		}), b.Prov
	}},
	{"t:unresponsive", func(k *c03Kit, b *c03Proof) (*c03Proof, *ProviderActor) {
		return c05Tamper(b, "t:unresponsive", func(rel *pairingtypes.RelaySession) {
			if len(rel.UnresponsiveProviders) > 0 && k.s.R.Chance("ops", 1, 2) {
				rel.UnresponsiveProviders = rel.UnresponsiveProviders[1:]
				return
			}
			// a provider frames a competitor
			rel.UnresponsiveProviders = append(rel.UnresponsiveProviders, &pairingtypes.ReportedProvider{Address: k.s.pickProv().Acc.Addr, Disconnections: 5, Errors: 3, TimestampS: k.s.Now().Unix()})
		}), b.Prov
	}},
	{"t:sig", func(k *c03Kit, b *c03Proof) (*c03Proof, *ProviderActor) {
		mode := k.s.R.Draw("ops", 5)
		pos := k.s.R.Draw("ops", 65)
		return c05Tamper(b, "t:sig", func(rel *pairingtypes.RelaySession) {
			switch mode {
			case 0:
				rel.Sig[1+pos%64] ^= 1 << uint(pos%8) // inside r/s
			case 1:
				rel.Sig = rel.Sig[:len(rel.Sig)-1-pos%8]
			case 2:
				rel.Sig = nil
			case 3:
				for i := range rel.Sig {
					rel.Sig[i] = byte(i*7 + pos)
				}
			default:
				rel.Sig[0] ^= 1 // recovery id
			}
		}), b.Prov
	}},
	{"r:stranger", func(k *c03Kit, b *c03Proof) (*c03Proof, *ProviderActor) {
		st := k.strangers[k.s.R.Draw("ops", len(k.strangers))]
		np := k.resign(b, st, "r:stranger", func(rel *pairingtypes.RelaySession) {})
		np.MustReject = "signed by a key that is not a developer of any project"
		return np, b.Prov
	}},
	{"r:provider_key", func(k *c03Kit, b *c03Proof) (*c03Proof, *ProviderActor) {
		// the provider signs its own relay
		np := k.resign(b, b.Prov.Acc, "r:provider_key", func(rel *pairingtypes.RelaySession) {})
		np.MustReject = "signed by the provider, not by a developer"
		return np, b.Prov
	}},
}

// c05PairedOther: a provider other than the proof's that is in the current pairing of the proof's
// signer for the proof's chain (tape: stream "c05multi", 0 = none).
func (k *c03Kit) c05PairedOther(b *c03Proof) *ProviderActor {
	r := k.s.R
	if b.Signer == nil || r.Draw("c05multi", 3) == 0 {
		return nil
	}
	var cands []*ProviderActor
	for _, p := range k.s.pairedProvidersFor(b.Signer, b.Rel.SpecId) {
		if p != b.Prov {
			cands = append(cands, p)
		}
	}
	if len(cands) == 0 {
		return nil
	}
	return cands[r.Draw("c05multi", len(cands))]
}

// c05GoodFor builds a fresh relay that `creator` can claim on its own right now (a dry run on a
// discarded branch accepts it): some consumer key x chain whose current pairing contains creator.
// The tape (stream "c05multi") picks where the search starts.
func (k *c03Kit) c05GoodFor(creator *ProviderActor) *c03Proof {
	s, r := k.s, k.s.R
	nc, ns := len(s.Consumers), len(s.Specs)
	c0, s0 := r.Draw("c05multi", nc), r.Draw("c05multi", ns)
	tries := 0
	for i := 0; i < nc && tries < 6; i++ {
		c := s.Consumers[(c0+i)%nc]
		keys := append([]*Account{c.Acc}, c.Devs...)
		signer := keys[r.Draw("c05multi", len(keys))]
		for j := 0; j < ns && tries < 6; j++ {
			spec := s.Specs[(s0+j)%ns].Index
			paired := false
			for _, p := range s.pairedProvidersFor(signer, spec) {
				if p == creator {
					paired = true
				}
			}
			if !paired {
				continue
			}
			tries++
			g := k.build(c, signer, creator, spec, int64(s.EpochStart()), k.nextSession(), uint64(1+r.Draw("c05multi", 100)), "good_next_to_corrupted")
			if _, err := k.dryRun(creator, []*pairingtypes.RelaySession{g.Rel}); err == nil {
				return g
			}
		}
	}
	return nil
}

// c05Hide: the corrupted relay travels in ONE message together with good relays of the sender
// (each of them payable on its own), at a tape-chosen position: after a good one, before a good
// one, between two, after two. The statement speaks about every relay session of a payment, so a
// relay that must be refused must be refused wherever it stands in the message. Stream
// "c05multi", 0 = the corrupted relay travels alone.
func (k *c03Kit) c05Hide(bad *c03Proof, creator *ProviderActor) ([]*c03Proof, bool) {
	r := k.s.R
	shape := r.Draw("c05multi", 6)
	if shape == 0 || shape == 5 {
		return []*c03Proof{bad}, false
	}
	want := 1
	if shape >= 3 {
		want = 2
	}
	var goods []*c03Proof
	for len(goods) < want {
		g := k.c05GoodFor(creator)
		if g == nil {
			break
		}
		goods = append(goods, g)
	}
	if len(goods) == 0 {
		r.Probe("c05_hide_no_good_relay_for_sender")
		return []*c03Proof{bad}, false
	}
	var batch []*c03Proof
	switch {
	case shape == 2:
		batch = append([]*c03Proof{bad}, goods...)
		r.Probe("c05_hidden_before_good_relays")
	case shape == 3 && len(goods) == 2:
		batch = []*c03Proof{goods[0], bad, goods[1]}
		r.Probe("c05_hidden_between_good_relays")
	default:
		batch = append(append([]*c03Proof{}, goods...), bad)
		r.Probe("c05_hidden_after_good_relays")
	}
	if batch[0] != bad && bad.Rel.Provider != creator.Acc.Addr {
		r.Probe("c05_foreign_provider_relay_after_own_relay")
	}
	return batch, true
}

// richFresh builds a fresh payable relay that carries optional reports (so that they can be
// corrupted).
func (k *c03Kit) richFresh(kind string) (*c03Proof, bool) {
	s, r := k.s, k.s.R
	c, signer, spec, p, ok := k.payable()
	rs := RelaySpec{Consumer: c, Signer: signer, Provider: p, Spec: spec, Epoch: int64(s.EpochStart()), Session: k.nextSession(), CuSum: uint64(1 + r.Draw("ops", 300)), RelayNum: uint64(1 + r.Draw("ops", 9))}
	if r.Chance("ops", 1, 2) {
		rs.Qos = s.randQos("ops")
	}
	if r.Chance("ops", 1, 3) {
		rs.QosEx = &pairingtypes.QualityOfServiceReport{Latency: sdk.NewDecWithPrec(int64(1+r.Draw("ops", 500)), 2), Availability: sdk.NewDecWithPrec(int64(1+r.Draw("ops", 100)), 2), Sync: sdk.NewDecWithPrec(int64(1+r.Draw("ops", 500)), 2)}
	}
	if r.Chance("ops", 1, 3) {
		rs.Unresp = []*pairingtypes.ReportedProvider{{Address: s.pickProv().Acc.Addr, Disconnections: 1, Errors: 1, TimestampS: s.Now().Unix()}}
	}
	rel := s.BuildRelay(rs)
	return &c03Proof{Rel: rel, Prov: p, Signer: signer, Cons: c, Honest: true, Built: s.Height(), Kind: kind}, ok
}

// opC05Probe: an otherwise valid, fresh, payable relay with exactly one thing corrupted.
func (s *Sim) opC05Probe() {
	k := c03KitOf(s)
	r := s.R
	ci := r.Draw("ops", len(c05Catalogue))
	base, _ := k.richFresh("base")
	if _, err := k.dryRun(base.Prov, []*pairingtypes.RelaySession{base.Rel}); err != nil {
		// not payable right now (no subscription / no pairing / limits): a natural rejection
		r.Probe("c05_base_not_payable")
		k.send("relay", base.Prov, []*c03Proof{base})
		return
	}
	corr := c05Catalogue[ci]
	bad, creator := corr.apply(k, base)
	if bad == nil {
		r.Probe("c05_corruption_not_applicable:" + corr.name)
		k.send("relay", base.Prov, []*c03Proof{base})
		return
	}
	batch := []*c03Proof{bad}
	mixed := false
	if creator == base.Prov && bad.Rel.Provider == base.Rel.Provider && r.Chance("ops", 1, 5) {
		// hidden among good relays of the same provider
		other, ok := k.richFresh("good_next_to_corrupted")
		if ok && other.Prov == base.Prov {
			batch = []*c03Proof{other, bad}
			mixed = true
		}
	}
	if !mixed {
		batch, mixed = k.c05Hide(bad, creator)
	}
	r.Fault("c05_corrupt_" + c03KindClass(bad.Kind))
	tx := k.send("relay_corrupted", creator, batch)
	_ = mixed
	if tx.OK {
		r.Probe("c05_variant_accepted:" + c03KindClass(bad.Kind)) // legal only for re-signed variants that stay valid
	}
	// the uncorrupted twin was payable on this very state and the corrupted transaction changed
	// nothing, so it must be accepted now
	if !tx.OK && r.Chance("ops", 2, 3) {
		t2 := k.send("relay_valid_twin", base.Prov, []*c03Proof{base})
		r.Check(t2.OK, "c05-valid-twin-rejected", c03KindClass(bad.Kind),
			"a relay that was payable (dry run) is rejected (%v) after the rejected corrupted variant %s was sent", t2.Res.Err, bad.Kind)
		if t2.OK {
			r.Probe("c05_valid_twin_paid")
		}
	}
}

// opC05State: a state precondition of an otherwise payable relay is removed.
func (s *Sim) opC05State() {
	k := c03KitOf(s)
	r := s.R
	mode := r.Draw("ops", 6)
	switch mode {
	case 0: // developer key removed (effective next epoch)
		c, signer, spec, p, ok := k.payable()
		if !ok || signer == c.Acc {
			r.Probe("c05_state_not_applicable")
			return
		}
		proj, err := s.K.Projects.GetProjectForDeveloper(k.query(), signer.Addr, s.Height())
		if err != nil {
			return
		}
		msg := &projectstypes.MsgDelKeys{Creator: c.Acc.Addr, Project: proj.Index, ProjectKeys: []projectstypes.ProjectKey{projectstypes.ProjectDeveloperKey(signer.Addr)}}
		res := s.msgTx("delkeys", []sdk.Msg{msg}, func(ctx sdk.Context) error {
			_, err := s.S.ProjectServer.DelKeys(ctx, msg)
			return err
		})
		r.Logf("delkeys %s key=%s: %s", c03ProjName(s, proj.Index), signer.Name, c03Short(res.Err))
		if res.Err != nil {
			return
		}
		// still a developer in this epoch
		k.send("relay_key_leaving", p, []*c03Proof{k.build(c, signer, p, spec, int64(s.EpochStart()), k.nextSession(), uint64(1+r.Draw("ops", 200)), "key_removed_next_epoch")})
		old := k.build(c, signer, p, spec, int64(s.EpochStart()), k.nextSession(), uint64(1+r.Draw("ops", 200)), "signed_before_key_removal")
		s.AdvanceToNextEpoch(s.BlockTimeDefault() / 2)
		bad := k.build(c, signer, p, spec, int64(s.EpochStart()), k.nextSession(), uint64(1+r.Draw("ops", 200)), "s:key_removed")
		bad.MustReject = "developer key was removed from the project before this epoch"
		r.Fault("c05_state_key_removed")
		k.send("relay_state", p, []*c03Proof{bad})
		// the proof signed while the key was valid stays a valid claim (if still paired and in memory)
		k.send("relay_kept", p, []*c03Proof{old})
	case 1: // project created disabled
		c := s.pickCons()
		dev := k.disabledDevs[c]
		if dev == nil {
			return
		}
		pd := projectstypes.ProjectData{Name: "pdis", Enabled: false, ProjectKeys: []projectstypes.ProjectKey{projectstypes.ProjectDeveloperKey(dev.Addr)}}
		msg := &subscriptiontypes.MsgAddProject{Creator: c.Acc.Addr, ProjectData: pd}
		res := s.msgTx("addproject", []sdk.Msg{msg}, func(ctx sdk.Context) error {
			_, err := s.S.SubscriptionServer.AddProject(ctx, msg)
			return err
		})
		r.Logf("addproject (disabled) %s/pdis dev=%s: %s", c.Acc.Name, dev.Name, c03Short(res.Err))
		if _, err := s.K.Projects.GetProjectForDeveloper(k.query(), dev.Addr, s.Height()); err != nil {
			return
		}
		spec := s.pickSpec().Index
		paired := s.pairedProvidersFor(c.Acc, spec)
		p := s.pickProv()
		if len(paired) > 0 {
			p = paired[r.Draw("ops", len(paired))]
		}
		if r.Chance("ops", 1, 2) {
			s.AdvanceToNextEpoch(s.BlockTimeDefault() / 2)
		}
		bad := k.build(c, dev, p, spec, int64(s.EpochStart()), k.nextSession(), uint64(1+r.Draw("ops", 200)), "s:project_disabled")
		bad.MustReject = "project is disabled"
		r.Fault("c05_state_project_disabled")
		k.send("relay_state", p, []*c03Proof{bad})
	case 2: // spec disabled / re-enabled by governance
		i := r.Draw("ops", len(s.Specs))
		sp := s.Specs[i]
		cur, found := s.K.Spec.GetSpec(s.Ctx, sp.Index)
		if !found {
			return
		}
		cur.Enabled = !cur.Enabled
		cur.BlockLastUpdated = s.Height()
		// What the spec proposal handler does for a modified spec is Spec.SetSpec with
		// BlockLastUpdated = height. The handler itself cannot be used here: its validation refuses
		// the repo's own mock spec (upper-case name, api interface "stub") that the simulator uses.
		res := s.Tx("gov_spec", nil, func(ctx sdk.Context) error {
			s.K.Spec.SetSpec(ctx, cur)
			return nil
		})
		r.Op("gov_spec", map[bool]string{true: "ok", false: "rejected"}[res.Err == nil])
		r.Logf("gov spec %s enabled=%v: %s", sp.Index, cur.Enabled, c03Short(res.Err))
		if res.Err != nil || cur.Enabled {
			return
		}
		r.Fault("c05_state_spec_disabled")
		c := s.pickCons()
		signer := s.signerFor(c)
		p := s.pickProv()
		bad := k.build(c, signer, p, sp.Index, int64(s.EpochStart()), k.nextSession(), uint64(1+r.Draw("ops", 200)), "s:spec_disabled")
		bad.MustReject = "spec is disabled"
		k.send("relay_state", p, []*c03Proof{bad})
	case 3, 4: // provider frozen / unstaked: out of the pairing from the next epoch on
		c, signer, spec, p, ok := k.payable()
		if !ok {
			r.Probe("c05_state_not_applicable")
			return
		}
		kind := "s:provider_frozen"
		if mode == 3 {
			msg := &pairingtypes.MsgFreezeProvider{Creator: p.Acc.Addr, ChainIds: []string{spec}, Reason: "sim"}
			res := s.msgTx("freeze", []sdk.Msg{msg}, func(ctx sdk.Context) error {
				_, err := s.S.PairingServer.FreezeProvider(ctx, msg)
				return err
			})
			r.Logf("freeze %s on %s: %s", p.Acc.Name, spec, c03Short(res.Err))
			if res.Err != nil {
				return
			}
		} else {
			kind = "s:provider_unstaked"
			val := s.pickVal()
			msg := &pairingtypes.MsgUnstakeProvider{Creator: p.Vault.Addr, ChainID: spec, Validator: sdk.ValAddress(val.Account.Addr).String()}
			res := s.msgTx("unstake", []sdk.Msg{msg}, func(ctx sdk.Context) error {
				_, err := s.S.PairingServer.UnstakeProvider(ctx, msg)
				return err
			})
			r.Logf("unstake %s from %s: %s", p.Acc.Name, spec, c03Short(res.Err))
			if res.Err != nil {
				return
			}
		}
		// the current epoch's pairing still contains the provider
		k.send("relay_provider_leaving", p, []*c03Proof{k.build(c, signer, p, spec, int64(s.EpochStart()), k.nextSession(), uint64(1+r.Draw("ops", 200)), "provider_leaving_next_epoch")})
		s.AdvanceToNextEpoch(s.BlockTimeDefault() / 2)
		bad := k.build(c, signer, p, spec, int64(s.EpochStart()), k.nextSession(), uint64(1+r.Draw("ops", 200)), kind)
		bad.MustReject = "provider is frozen/unstaked: not in the pairing of this epoch"
		r.Fault("c05_state_" + kind[2:])
		k.send("relay_state", p, []*c03Proof{bad})
	default: // a provider that is not in the consumer's pairing claims
		c := s.pickCons()
		signer := s.signerFor(c)
		spec := s.pickSpec().Index
		paired := s.pairedProvidersFor(signer, spec)
		if len(paired) == 0 {
			r.Probe("c05_state_not_applicable")
			return
		}
		in := map[*ProviderActor]bool{}
		for _, p := range paired {
			in[p] = true
		}
		var out []*ProviderActor
		for _, p := range s.Providers {
			if !in[p] {
				out = append(out, p)
			}
		}
		if len(out) == 0 {
			r.Probe("c05_state_all_paired")
			return
		}
		p := out[r.Draw("ops", len(out))]
		bad := k.build(c, signer, p, spec, int64(s.EpochStart()), k.nextSession(), uint64(1+r.Draw("ops", 200)), "s:unpaired_provider")
		bad.MustReject = "provider is not in the consumer's pairing list (GetPairing) of this epoch"
		r.Fault("c05_state_unpaired_provider")
		k.send("relay_state", p, []*c03Proof{bad})
	}
}

// ---------- the property ----------

func runC05(r *simrt.Run) {
	w := baseWeights()
	w["relay"] = 0
	w["c03relay"] = 12
	w["c03epochs"] = 2
	w["c03params"] = 1
	w["c05probe"] = 40
	w["c05state"] = 8
	w["stake"] = 12
	cfg := mkCfg(r, w, 70, 300)
	if cfg.Weights["c05probe"] < 20 {
		cfg.Weights["c05probe"] = 20
	}
	s := NewSim(r, cfg)
	k := c03NewKit(s)
	defer delete(c03Kits, s)
	k.checkC03 = false // C03's oracles are evaluated by C03 only
	k.wantDig = true
	k.postHooks = append(k.postHooks, k.oraclesC05)
	s.RunHistory()
}

func c05NonTrivial(r *simrt.Run) bool {
	return r.Ops["relay_valid_twin:ok"]+r.Ops["relay:ok"] >= 2 && r.Ops["relay_corrupted:rejected"] >= 2 && r.OKOps() >= 10
}

func init() {
	AddOp("c05probe", (*Sim).opC05Probe)
	AddOp("c05state", (*Sim).opC05State)
	simrt.Register("C05", &simrt.PropSpec{Fn: runC05, NonTrivial: c05NonTrivial,
		Rule: "mixed multi-actor histories; each probe builds a fresh relay that a dry run on a discarded cache context shows payable, then corrupts exactly one thing: a signed field changed after signing (provider, spec id, lava chain id, epoch, session id, CuSum, relay num, content hash, QoS report, QoS excellence report, unresponsive list, signature bytes), a re-signed but semantically invalid variant (provider != sender, unknown spec, other lava chain id, future/negative/out-of-memory epoch, signed by a non-developer or by the provider itself), sender != provider, or a removed state precondition (developer key deleted, project disabled, spec disabled by governance, provider frozen/unstaked, provider outside the pairing); corrupted relays (of every kind, including those that name another provider or are sent by another provider) are also hidden in one message with good relays of the sender, each payable on its own: after one, before one, between two, after two; the re-signed 'provider != sender' variant mostly names a provider of the same pairing, so that naming the sender is the only precondition that fails. Oracles on every relay-payment tx of the run: rejected => full state digest (all stores + bank) unchanged; accepted => every statement precondition held on the pre-state per the chain's own queries (developer of an enabled project with a subscription at the relay's block, provider == sender, lava chain id, epoch not future / in memory, spec enabled, VerifyPairing valid) and the relay is not one the harness corrupted; the uncorrupted twin is then sent and must be paid. Non-trivial = >=2 paid valid relays, >=2 rejected corrupted relays, >=10 accepted ops",
		Real: chainReal, Stubbed: chainStub, Assume: append([]string{"a MsgRelayPayment is rejected as a whole when any of its relays is rejected (current handler behaviour), so 'rejected relay => nothing changed' is checked per transaction", "a field changed after signing makes the recovered signer an unrelated address (probability of hitting a developer key is negligible)"}, chainAssume...)})
}

var _ = stakingtypes.Description{}
