package chainsim

// C04 "credited CU never exceeds signed CU or the epoch allowance; QoS only lowers".
// Built on the relay toolkit of props_c03.go.

import (
	"fmt"
	"math"
	"strings"

	sdk "github.com/cosmos/cosmos-sdk/types"
	pairingtypes "github.com/lavanet/lava/v5/x/pairing/types"
	planstypes "github.com/lavanet/lava/v5/x/plans/types"
	projectstypes "github.com/lavanet/lava/v5/x/projects/types"
	"github.com/lavanet/lava/v5/zz_verif/simrt"
)

type c04Pre struct {
	factor      uint64 // Downtime.GetDowntimeFactor(relay epoch) on the pre-state
	epochLimit  uint64 // strictest non-zero EpochCuLimit of plan / subscription policy / admin policy (0 = none)
	totalLimit  uint64 // strictest non-zero TotalCuLimit of the same
	usedCu      uint64 // project UsedCu (version of the relay block) on the pre-state
	pcecKey     string
	pcecKeyName string
}

type c04State struct {
	k        *c03Kit
	pre      map[*c03RelInfo]*c04Pre
	credited map[string]uint64 // (epochStart, provider, project, chain) -> CU credited so far
	bound    map[string]uint64 // max over its payments of allowance(VerifyPairing.CuPerEpoch) x downtime factor
	boundPol map[string]uint64 // max over its payments of strictest policy EpochCuLimit x downtime factor
	noChain  map[string]uint64 // (epochStart, provider, project) -> credited (all chains): probe only
	tainted  map[string]bool   // key hit an open known finding: its sums are no longer checked
}

func c04Mul(a, b uint64) uint64 {
	if a != 0 && b > math.MaxUint64/a {
		return math.MaxUint64
	}
	return a * b
}

func c04MinNZ(cur, v uint64) uint64 {
	if v != 0 && (cur == 0 || v < cur) {
		return v
	}
	return cur
}

func (st *c04State) preHook(tx *c03TxInfo, q sdk.Context) {
	s := st.k.s
	for _, ri := range tx.Rels {
		if !ri.ProjOK || !ri.EpochOK || ri.P.Rel.Epoch < 0 {
			continue
		}
		rel := ri.P.Rel
		p := &c04Pre{factor: s.K.Downtime.GetDowntimeFactor(q, uint64(rel.Epoch)), usedCu: ri.Project.UsedCu}
		var pols []*planstypes.Policy
		if plan, err := s.K.Subscription.GetPlanFromSubscription(q, ri.Project.Subscription, uint64(rel.Epoch)); err == nil {
			pp := plan.PlanPolicy
			pols = append(pols, &pp)
		}
		pols = append(pols, ri.Project.AdminPolicy, ri.Project.SubscriptionPolicy)
		for _, pol := range pols {
			if pol != nil {
				p.epochLimit = c04MinNZ(p.epochLimit, pol.EpochCuLimit)
				p.totalLimit = c04MinNZ(p.totalLimit, pol.TotalCuLimit)
			}
		}
		p.pcecKey = fmt.Sprintf("%d|%s|%s|%s", ri.EpochStart, rel.Provider, ri.Project.Index, rel.SpecId)
		p.pcecKeyName = fmt.Sprintf("epoch %d provider %s project %s chain %s", ri.EpochStart, s.NameOf(rel.Provider), c03ProjName(s, ri.Project.Index), rel.SpecId)
		st.pre[ri] = p
		if debugOn {
			sub, _ := s.K.Subscription.GetSubscription(q, ri.Project.Subscription)
			s.R.Logf("      [dbg] relay #%d pre: factor=%d epochLimit=%d totalLimit=%d usedCu=%d allowed=%d monthCuLeft=%d subBlock=%d", ri.Idx, p.factor, p.epochLimit, p.totalLimit, p.usedCu, ri.AllowedCU, sub.MonthCuLeft, sub.Block)
		}
	}
}

func (st *c04State) postHook(tx *c03TxInfo) {
	k := st.k
	s, r := k.s, k.s.R
	defer func() {
		for _, ri := range tx.Rels {
			delete(st.pre, ri)
		}
	}()
	if !tx.OK {
		return
	}
	// which relays feed which tracked-CU counter
	feeds := map[string][]*c03RelInfo{}
	for _, ri := range tx.Rels {
		if ri.SubFound && ri.EpochOK && ri.ProjOK {
			name := fmt.Sprintf("TrackedCu|%s|%s|%s|%d", s.NameOf(ri.Consumer), s.NameOf(ri.P.Rel.Provider), ri.P.Rel.SpecId, ri.SubBlock)
			feeds[name] = append(feeds[name], ri)
		}
	}
	pcecPost := func(ri *c03RelInfo) uint64 {
		v, _ := s.K.Pairing.GetProviderConsumerEpochCu(k.query(), ri.EpochStart, ri.P.Rel.Provider, ri.Project.Index, ri.P.Rel.SpecId)
		return v.Cu
	}
	branch := func(ri *c03RelInfo) string {
		p := st.pre[ri]
		if p != nil && p.totalLimit > 0 && pcecPost(ri) >= p.totalLimit {
			return "total_cu_limit_reached" // EnforceClientCUsUsageInEpoch returned "total limit - project usage"
		}
		return "other"
	}
	// (1) per accepted relay: credit <= signed cumulative CU (event attribute of the payment)
	for _, ri := range tx.Rels {
		rel := ri.P.Rel
		p := st.pre[ri]
		if p != nil && p.totalLimit > 0 && p.usedCu > p.totalLimit {
			r.Probe("c04_paid_with_project_usage_above_total_limit")
		}
		if p != nil && p.factor > 1 {
			r.Probe("c04_paid_with_downtime_factor_gt1")
		}
		if !ri.HasEvent {
			r.Probe("c04_no_rewarded_event")
			continue
		}
		r.OracleEvals++
		if ri.Rewarded > rel.CuSum {
			det := ""
			if p != nil {
				det = fmt.Sprintf(" (pre-state: project UsedCu=%d, strictest TotalCuLimit=%d, strictest EpochCuLimit=%d, allowance=%d, downtime factor=%d; ProviderConsumerEpochCu after=%d)", p.usedCu, p.totalLimit, p.epochLimit, ri.AllowedCU, p.factor, pcecPost(ri))
			}
			if r.Fail("c04-credit-exceeds-signed", branch(ri), "relay #%d (%s session=%d epoch=%d) signed CuSum=%d but the payment event says rewardedCU=%d%s", ri.Idx, rel.SpecId, rel.SessionId, rel.Epoch, rel.CuSum, ri.Rewarded, det) {
				r.Probe("c04_known_finding_hit")
				r.Abort() // the ledgers of this run are no longer meaningful
			}
		}
		if ri.Rewarded < rel.CuSum {
			r.Probe("c04_credit_clipped")
		}
	}
	// (2) tracked CU (what the monthly payout uses) grows by no more than the signed CU, and by no
	// more than the pre-QoS credit (QoS can only lower)
	perRelay := map[*c03RelInfo]uint64{}
	for _, c := range tx.Counters {
		if !strings.HasPrefix(c.name, "TrackedCu|") {
			continue
		}
		fs := feeds[c.name]
		sig := "other"
		if len(fs) > 0 {
			sig = branch(fs[0])
		}
		r.OracleEvals++
		if c.post < c.pre || c.post-c.pre > c.want {
			if r.Fail("c04-credit-exceeds-signed", "tracked:"+sig, "%s moved %d -> %d in a tx whose relays for it sign %d CU in total", c.name, c.pre, c.post, c.want) {
				r.Probe("c04_known_finding_hit")
				r.Abort()
			}
		}
		delta := c.post - c.pre
		var rewarded uint64
		qos := false
		for _, ri := range fs {
			rewarded += ri.Rewarded
			qos = qos || ri.P.Rel.QosReport != nil
		}
		r.Check(delta <= rewarded, "c04-qos-raised-credit", "tracked_gt_rewarded", "%s grew by %d, more than the pre-QoS credit %d of its relays", c.name, delta, rewarded)
		if qos && delta < rewarded {
			r.Probe("c04_qos_lowered_credit")
		}
		if len(fs) == 1 {
			perRelay[fs[0]] = delta
		}
	}
	// (3) per (epoch, provider, project[, chain]): total credited <= allowance x downtime factor
	for _, ri := range tx.Rels {
		p := st.pre[ri]
		if p == nil {
			continue
		}
		credit, exact := perRelay[ri]
		if !exact {
			credit = ri.Rewarded // upper bound of the credit after QoS
		}
		st.credited[p.pcecKey] += credit
		b := c04Mul(ri.AllowedCU, p.factor)
		if b > st.bound[p.pcecKey] {
			st.bound[p.pcecKey] = b
		}
		bp := uint64(math.MaxUint64)
		if p.epochLimit > 0 {
			bp = c04Mul(p.epochLimit, p.factor)
		}
		if bp > st.boundPol[p.pcecKey] {
			st.boundPol[p.pcecKey] = bp
		}
		if !st.tainted[p.pcecKey] {
			br := branch(ri)
			r.OracleEvals += 2
			if st.credited[p.pcecKey] > st.bound[p.pcecKey] {
				if r.Fail("c04-epoch-allowance-exceeded", "vs_verify_pairing_cu_per_epoch:"+br,
					"%s: %d CU credited so far (this relay %d of signed %d) but the largest allowance x downtime factor seen at its payments is %d (now: VerifyPairing.CuPerEpoch=%d, factor=%d; strictest TotalCuLimit=%d, project UsedCu before=%d)", p.pcecKeyName, st.credited[p.pcecKey], credit, ri.P.Rel.CuSum, st.bound[p.pcecKey], ri.AllowedCU, p.factor, p.totalLimit, p.usedCu) {
					r.Probe("c04_known_finding_hit")
					st.tainted[p.pcecKey] = true
				}
			} else if st.credited[p.pcecKey] > st.boundPol[p.pcecKey] {
				if r.Fail("c04-epoch-allowance-exceeded", "vs_policy_epoch_cu_limit:"+br,
					"%s: %d CU credited so far but the strictest EpochCuLimit of plan/subscription/admin policy x downtime factor is at most %d (now: limit=%d factor=%d)", p.pcecKeyName, st.credited[p.pcecKey], st.boundPol[p.pcecKey], p.epochLimit, p.factor) {
					r.Probe("c04_known_finding_hit")
					st.tainted[p.pcecKey] = true
				}
			}
		}
		if st.credited[p.pcecKey] == st.bound[p.pcecKey] && credit > 0 {
			r.Probe("c04_allowance_exhausted_exactly")
		}
		nk := fmt.Sprintf("%d|%s|%s", ri.EpochStart, ri.P.Rel.Provider, ri.Project.Index)
		st.noChain[nk] += credit
		if st.noChain[nk] > st.bound[p.pcecKey] && st.noChain[nk] > st.credited[p.pcecKey] {
			r.Probe("c04_allowance_exceeded_across_chains") // the chain enforces the allowance per chain
		}
	}
}

// ---------- operations ----------

// opC04Relay: a provider claims several sessions of one project in one epoch with CU sums around
// the allowance.
func (s *Sim) opC04Relay() {
	k := c03KitOf(s)
	r := s.R
	c, signer, spec, p, ok := k.payable()
	if !ok {
		k.send("relay", p, []*c03Proof{k.build(c, signer, p, spec, int64(s.EpochStart()), k.nextSession(), k.drawCu(), "fresh")})
		return
	}
	epoch := s.EpochStart()
	if r.Chance("ops", 1, 5) && len(k.epochs) > 1 {
		epoch = k.epochs[len(k.epochs)-1-r.Draw("ops", c04MinInt(len(k.epochs), 4))] // late claim for a recent epoch
	}
	allow := uint64(1000)
	vq := k.query()
	if res, err := s.K.Pairing.VerifyPairing(sdk.WrapSDKContext(vq), &pairingtypes.QueryVerifyPairingRequest{ChainID: spec, Client: signer.Addr, Provider: p.Acc.Addr, Block: epoch}); err == nil && res.Valid && res.CuPerEpoch > 0 && res.CuPerEpoch < 1<<40 {
		allow = res.CuPerEpoch
	}
	n := 1 + r.Draw("ops", 4)
	sameTx := r.Chance("ops", 1, 3)
	var batch []*c03Proof
	for i := 0; i < n; i++ {
		var cu uint64
		switch r.Draw("ops", 8) {
		case 0:
			cu = allow
		case 1:
			cu = allow + 1
		case 2:
			cu = allow - 1
		case 3:
			cu = allow/2 + 1
		case 4:
			cu = allow/3 + 1
		case 5:
			cu = allow*2 + uint64(r.Draw("ops", 100))
		default:
			cu = uint64(1 + r.Draw("ops", 500))
		}
		if cu == 0 {
			cu = 1
		}
		pr := k.build(c, signer, p, spec, int64(epoch), k.nextSession(), cu, "around_allowance")
		if r.Chance("ops", 1, 3) {
			pr = k.resign(pr, signer, "around_allowance_qos", func(rel *pairingtypes.RelaySession) { rel.QosReport = s.randQos("ops") })
		}
		k.remember(pr)
		if sameTx {
			batch = append(batch, pr)
		} else {
			k.send("relay", p, []*c03Proof{pr})
		}
	}
	if sameTx {
		k.send("relay", p, batch)
	}
}

func c04MinInt(a, b int) int {
	if a < b {
		return a
	}
	return b
}

// opC04Limit: the subscription owner / project admin sets CU limits relative to the project's
// current usage — also below it.
func (s *Sim) opC04Limit() {
	k := c03KitOf(s)
	r := s.R
	c := s.pickCons()
	names := []string{projectstypes.ADMIN_PROJECT_NAME, "p0", "p1", "p2"}
	proj := s.projectID(c, names[r.Draw("ops", len(names))])
	used := uint64(0)
	if pr, err := s.K.Projects.GetProjectForBlock(k.query(), proj, s.Height()); err == nil {
		used = pr.UsedCu
	}
	var total uint64
	switch r.Draw("ops", 7) {
	case 0:
		total = used / 2
	case 1:
		total = used
	case 2:
		total = used + 1
	case 3:
		total = used + uint64(1+r.Draw("ops", 3000))
	case 4:
		if used > 0 {
			total = used - 1
		}
	case 5:
		total = uint64(1 + r.Draw("ops", 300))
	default:
		total = uint64(100 * (1 + r.Draw("ops", 500)))
	}
	if total == 0 {
		total = 1
	}
	var epoch uint64
	switch r.Draw("ops", 4) {
	case 0:
		epoch = 0 // no own epoch limit
	case 1:
		epoch = total
	case 2:
		epoch = 1 + total/uint64(2+r.Draw("ops", 8))
	default:
		epoch = uint64(1 + r.Draw("ops", 400))
	}
	if epoch > total {
		epoch = total
	}
	pol := &planstypes.Policy{TotalCuLimit: total, EpochCuLimit: epoch, MaxProvidersToPair: uint64(2 + r.Draw("ops", 5)), GeolocationProfile: 1}
	var res *TxResult
	level := "admin"
	if r.Chance("ops", 1, 2) {
		msg := &projectstypes.MsgSetPolicy{Creator: c.Acc.Addr, Project: proj, Policy: pol}
		res = s.msgTx("setpolicy", []sdk.Msg{msg}, func(ctx sdk.Context) error {
			_, err := s.S.ProjectServer.SetPolicy(ctx, msg)
			return err
		})
	} else {
		level = "subscription"
		msg := &projectstypes.MsgSetSubscriptionPolicy{Creator: c.Acc.Addr, Projects: []string{proj}, Policy: pol}
		res = s.msgTx("setsubpolicy", []sdk.Msg{msg}, func(ctx sdk.Context) error {
			_, err := s.S.ProjectServer.SetSubscriptionPolicy(ctx, msg)
			return err
		})
	}
	if res.Err == nil && total <= used {
		r.Fault("c04_total_limit_set_at_or_below_usage")
	}
	r.Logf("set %s policy of %s total=%d epoch=%d (project UsedCu=%d): %s", level, c03ProjName(s, proj), total, epoch, used, c03Short(res.Err))
}

// opC04Qos: the same relay signed with and without a QoS report; executed on discarded contexts.
func (s *Sim) opC04Qos() {
	k := c03KitOf(s)
	r := s.R
	c, signer, spec, p, ok := k.payable()
	if !ok {
		r.Probe("c04_qos_not_applicable")
		return
	}
	sess := k.nextSession()
	plain := k.build(c, signer, p, spec, int64(s.EpochStart()), sess, k.drawCu(), "qos_twin_plain")
	qos := s.randQos("ops")
	switch r.Draw("ops", 6) {
	case 0:
		qos = &pairingtypes.QualityOfServiceReport{Latency: sdk.OneDec(), Availability: sdk.OneDec(), Sync: sdk.OneDec()}
	case 1:
		qos = &pairingtypes.QualityOfServiceReport{Latency: sdk.ZeroDec(), Availability: sdk.OneDec(), Sync: sdk.OneDec()}
	case 2:
		qos.Availability = sdk.OneDec().Sub(sdk.NewDecWithPrec(1, 18))
	}
	with := k.resign(plain, signer, "qos_twin_report", func(rel *pairingtypes.RelaySession) { rel.QosReport = qos })
	ri := k.resolve(k.query(), 0, plain, []*c03Proof{plain}, p)
	if !ri.SubFound {
		r.Probe("c04_qos_not_applicable")
		return
	}
	credit := func(pr *c03Proof) (uint64, error) {
		before, _, _ := s.K.Subscription.GetTrackedCu(k.query(), ri.Consumer, p.Acc.Addr, spec, ri.SubBlock)
		ctx, err := k.dryRun(p, []*pairingtypes.RelaySession{pr.Rel})
		if err != nil {
			return 0, err
		}
		after, _, _ := s.K.Subscription.GetTrackedCu(ctx, ri.Consumer, p.Acc.Addr, spec, ri.SubBlock)
		return after - before, nil
	}
	c0, e0 := credit(plain)
	c1, e1 := credit(with)
	r.Logf("qos twin %s<-%s(%s) %s cu=%d qos=(%s,%s,%s): credit without=%d (%s) with=%d (%s)", p.Acc.Name, c.Acc.Name, signer.Name, spec, plain.Rel.CuSum, qos.Latency, qos.Availability, qos.Sync, c0, c03Short(e0), c1, c03Short(e1))
	if e0 == nil && e1 == nil {
		r.Check(c1 <= c0, "c04-qos-raised-credit", "differential", "the same relay (cu=%d) is credited %d with QoS report (%s,%s,%s) but only %d without", plain.Rel.CuSum, c1, qos.Latency, qos.Availability, qos.Sync, c0)
		r.Probe("c04_qos_differential")
		if c1 < c0 {
			r.Probe("c04_qos_differential_lower")
		}
	}
	r.Op("qos_twin", "ok")
	if r.Chance("ops", 1, 2) {
		k.send("relay", p, []*c03Proof{with})
	} else {
		k.send("relay", p, []*c03Proof{plain})
	}
}

// ---------- the property ----------

func runC04(r *simrt.Run) {
	w := baseWeights()
	w["relay"] = 0
	w["c03relay"] = 10
	w["c03epochs"] = 1
	w["c04relay"] = 35
	w["c04limit"] = 8
	w["c04qos"] = 8
	w["setpolicy"] = 4
	w["buy"] = 10
	cfg := mkCfg(r, w, 80, 400)
	if cfg.Weights["c04relay"] < 15 {
		cfg.Weights["c04relay"] = 15
	}
	cfg.Faults["downtime"] = true
	s := NewSim(r, cfg)
	k := c03NewKit(s)
	defer delete(c03Kits, s)
	k.checkC03 = false // C03's oracles are evaluated by C03 only
	st := &c04State{k: k, pre: map[*c03RelInfo]*c04Pre{}, credited: map[string]uint64{}, bound: map[string]uint64{}, boundPol: map[string]uint64{}, noChain: map[string]uint64{}, tainted: map[string]bool{}}
	k.preHooks = append(k.preHooks, st.preHook)
	k.postHooks = append(k.postHooks, st.postHook)
	s.RunHistory()
}

func c04NonTrivial(r *simrt.Run) bool {
	return r.Ops["relay:ok"] >= 3 && r.OKOps() >= 10 && (r.Probes["c04_credit_clipped"] >= 1 || r.Probes["c04_qos_lowered_credit"] >= 1)
}

func init() {
	AddOp("c04relay", (*Sim).opC04Relay)
	AddOp("c04limit", (*Sim).opC04Limit)
	AddOp("c04qos", (*Sim).opC04Qos)
	simrt.Register("C04", &simrt.PropSpec{Fn: runC04, NonTrivial: c04NonTrivial,
		Rule: "mixed multi-actor histories in which providers claim several sessions of one project in one epoch with CU sums around the current allowance (allowance, +-1, halves, doubles; one tx or several; late claims for recent epochs; with and without QoS reports), plan policies with random total/epoch limits, subscription-level and admin-level policies set relative to the project's current UsedCu (half, equal, +-1, tiny: limits below usage included), downtime gaps (factor > 1), month expiry. Oracles per accepted relay: rewardedCU event attribute <= signed CuSum; growth of GetTrackedCu(subscription, provider, chain) <= signed CU of its relays and <= their pre-QoS credit; per (epoch, provider, project, chain): sum credited <= max over its payments of VerifyPairing.CuPerEpoch x GetDowntimeFactor(epoch), and <= strictest policy EpochCuLimit x factor; differential: same relay signed with and without QoS report on discarded cache contexts, credit_with <= credit_without. Non-trivial = >=3 paid relay txs, >=10 accepted ops and at least one credit clipped by a limit or lowered by QoS",
		Real: chainReal, Stubbed: chainStub, Assume: append([]string{"the allowance of the statement is read as the chain's own per-epoch allowance for the project (VerifyPairing.CuPerEpoch at payment time; it changes as usage accrues, so the bound is the largest value seen at the payments of that epoch/provider/project/chain), enforced per chain as ProviderConsumerEpochCu is keyed"}, chainAssume...)})
}
