package chainsim

// C07: provider stake entries and metadata stay consistent.

import (
	"sort"
	"strings"

	"cosmossdk.io/math"
	sdk "github.com/cosmos/cosmos-sdk/types"
	stakingtypes "github.com/cosmos/cosmos-sdk/x/staking/types"
	epochstoragetypes "github.com/lavanet/lava/v5/x/epochstorage/types"
	pairingtypes "github.com/lavanet/lava/v5/x/pairing/types"
	"github.com/lavanet/lava/v5/zz_verif/simrt"
)

// ---------- realistic provider operations (existing entries are picked from the keeper) ----------

func (s *Sim) c07Provider(addr string) *ProviderActor {
	for _, p := range s.Providers {
		if p.Acc.Addr == addr {
			return p
		}
	}
	return nil
}

// c07Entries returns the current stake entries of known providers (store order).
func (s *Sim) c07Entries() []epochstoragetypes.StakeEntry {
	var out []epochstoragetypes.StakeEntry
	for _, e := range s.K.Epochstorage.GetAllStakeEntriesCurrent(s.Ctx) {
		if s.c07Provider(e.Address) != nil {
			out = append(out, e)
		}
	}
	return out
}

func (s *Sim) c07SpecByName(name string) (int, bool) {
	for i, sp := range s.Specs {
		if sp.Index == name {
			return i, true
		}
	}
	return 0, false
}

// opC07Modify: the vault (or, for non-stake traits, the provider) modifies an existing entry:
// increases / decreases the stake (also to just below / at the spec minimum), changes commission.
func (s *Sim) opC07Modify() {
	r := s.R
	ents := s.c07Entries()
	if len(ents) == 0 {
		s.OpStakeProvider()
		return
	}
	e := ents[r.Draw("ops", len(ents))]
	p := s.c07Provider(e.Address)
	si, ok := s.c07SpecByName(e.Chain)
	if !ok {
		return
	}
	spec := s.Specs[si]
	min := spec.MinStakeProvider.Amount.Int64()
	cur := i64(e.Stake.Amount)
	var amount int64
	switch r.Draw("ops", 8) {
	case 0:
		amount = cur + int64(1+r.Draw("ops", 5000))
	case 1:
		amount = cur - int64(1+r.Draw("ops", int(minI64(cur, 5000))))
	case 2:
		amount = min - 1
	case 3:
		amount = min
	case 4:
		amount = cur / 2
	case 5:
		amount = cur // only non-stake traits
	case 6:
		amount = min + int64(r.Draw("ops", 3000))
	default:
		amount = cur + 1
	}
	if amount < 1 {
		amount = 1
	}
	md, err := s.K.Epochstorage.GetMetadata(s.Ctx, e.Address)
	commission := uint64(r.Draw("ops", 101))
	if err == nil && !r.Chance("ops", 1, 4) {
		commission = md.DelegateCommission
		if r.Chance("ops", 1, 3) {
			commission++
		}
	}
	creator := p.Vault.Addr
	if r.Chance("ops", 1, 8) {
		creator = p.Acc.Addr
	}
	val := s.pickVal()
	// when decreasing, unbond through a validator the vault really uses
	if amount < cur {
		if hold := s.c06Holdings(p.Vault); len(hold) > 0 {
			h := hold[r.Draw("ops", len(hold))]
			for _, v := range s.Validators {
				if c06Val(v).Equals(h.Val) {
					val = v
				}
			}
		}
	}
	msg := &pairingtypes.MsgStakeProvider{
		Creator: creator, Validator: c06Val(val).String(), ChainID: e.Chain,
		Amount: s.Coin(amount), Geolocation: 1, Endpoints: s.endpoints(spec, 1),
		DelegateLimit: s.Coin(0), DelegateCommission: commission, Address: p.Acc.Addr,
		Description: stakingtypes.NewDescription("prov", "iden", "web", "sec", "details"),
	}
	wasFrozen := e.IsFrozen()
	r.Logf("c07_modify: %s on %s by %s stake %d->%d (min %d) commission=%d val=%s frozen=%v ...", p.Acc.Name, e.Chain, s.NameOf(creator), cur, amount, min, commission, val.Name, wasFrozen)
	kind := "c07_modify"
	res := s.msgTx(kind, []sdk.Msg{msg}, func(ctx sdk.Context) error {
		_, err := s.S.PairingServer.StakeProvider(ctx, msg)
		return err
	})
	if res.Err == nil {
		if amount > cur && wasFrozen && cur < min && amount >= min {
			r.Probe("c07_increase_of_frozen_entry_to_min")
		}
		if amount < cur {
			r.Probe("c07_stake_decreased")
		}
		if amount > cur {
			r.Probe("c07_stake_increased")
		}
	}
	r.Logf("   ... c07_modify: %s", short(res.Err))
}

// opC07Unstake: unstake an existing entry by the vault or by the provider address.
func (s *Sim) opC07Unstake() {
	r := s.R
	ents := s.c07Entries()
	if len(ents) == 0 {
		s.OpUnstakeProvider()
		return
	}
	e := ents[r.Draw("ops", len(ents))]
	p := s.c07Provider(e.Address)
	creator := p.Vault.Addr
	byProvider := r.Chance("ops", 1, 3)
	if byProvider {
		creator = p.Acc.Addr
	}
	val := s.pickVal()
	if hold := s.c06Holdings(p.Vault); len(hold) > 0 && !r.Chance("ops", 1, 6) {
		// the validator through which the vault holds most
		best := hold[0]
		for _, h := range hold {
			if h.Tokens.GT(best.Tokens) {
				best = h
			}
		}
		for _, v := range s.Validators {
			if c06Val(v).Equals(best.Val) {
				val = v
			}
		}
	}
	nChains := 0
	if md, err := s.K.Epochstorage.GetMetadata(s.Ctx, e.Address); err == nil {
		nChains = len(md.Chains)
	}
	msg := &pairingtypes.MsgUnstakeProvider{Creator: creator, ChainID: e.Chain, Validator: c06Val(val).String()}
	kind := "c07_unstake"
	r.Logf("c07_unstake: %s from %s by %s (stake %s, chains=%d) val=%s ...", p.Acc.Name, e.Chain, s.NameOf(creator), e.Stake.Amount, nChains, val.Name)
	res := s.msgTx(kind, []sdk.Msg{msg}, func(ctx sdk.Context) error {
		_, err := s.S.PairingServer.UnstakeProvider(ctx, msg)
		return err
	})
	if res.Err == nil {
		if byProvider {
			r.Probe("c07_unstake_by_provider_address")
			if nChains > 1 {
				r.Probe("c07_unstake_by_provider_address_multichain")
			}
		} else {
			r.Probe("c07_unstake_by_vault")
		}
		if nChains == 1 {
			r.Probe("c07_last_entry_unstaked")
		}
	}
	r.Logf("   ... c07_unstake: %s", short(res.Err))
}

// opC07MoveStake: move stake between two chains the provider is really staked on.
func (s *Sim) opC07MoveStake() {
	r := s.R
	ents := s.c07Entries()
	byProv := map[string][]epochstoragetypes.StakeEntry{}
	var provs []string
	for _, e := range ents {
		if len(byProv[e.Address]) == 0 {
			provs = append(provs, e.Address)
		}
		byProv[e.Address] = append(byProv[e.Address], e)
	}
	var multi []string
	for _, p := range provs {
		if len(byProv[p]) >= 2 {
			multi = append(multi, p)
		}
	}
	if len(multi) == 0 {
		s.OpMoveStake()
		return
	}
	pa := multi[r.Draw("ops", len(multi))]
	es := byProv[pa]
	si := r.Draw("ops", len(es))
	di := r.Draw("ops", len(es)-1)
	if di >= si {
		di++
	}
	src, dst := es[si], es[di]
	p := s.c07Provider(pa)
	amount := s.c06Amount(i64(src.Stake.Amount) - 100)
	creator := p.Acc.Addr
	if r.Chance("ops", 1, 3) {
		creator = p.Vault.Addr
	}
	msg := &pairingtypes.MsgMoveProviderStake{Creator: creator, SrcChain: src.Chain, DstChain: dst.Chain, Amount: s.Coin(amount)}
	r.Logf("c07_movestake: %s %s(%s)->%s(%s) %d by %s ...", p.Acc.Name, src.Chain, src.Stake.Amount, dst.Chain, dst.Stake.Amount, amount, s.NameOf(creator))
	res := s.msgTx("c07_movestake", []sdk.Msg{msg}, func(ctx sdk.Context) error {
		_, err := s.S.PairingServer.MoveProviderStake(ctx, msg)
		return err
	})
	if res.Err == nil {
		r.Probe("c07_move_stake")
	}
	r.Logf("   ... c07_movestake: %s", short(res.Err))
}

// ---------- the monitor ----------

type c07ProvSnap struct {
	stakes map[string]math.Int // chain -> Stake
	total  map[string]math.Int // chain -> Stake + DelegateTotal
	frozen map[string]bool
	delegs string // canonical rendering of the provider's delegations
}

type c07Mon struct {
	s        *Sim
	prev     map[string]*c07ProvSnap
	poisoned map[string]bool // providers hit by a listed known finding: no longer evaluated
	// signature only: VerifyDelegatorBalance of each vault at the previous observation
	prevVaultDiff map[string]math.Int
}

func c07Render(ds []c07Deleg) string {
	var sb strings.Builder
	for _, d := range ds {
		sb.WriteString(d.delegator)
		sb.WriteByte('=')
		sb.WriteString(d.amount.String())
		sb.WriteByte(';')
	}
	return sb.String()
}

type c07Deleg struct {
	delegator string
	amount    math.Int
}

func newC07Mon(s *Sim) *c07Mon {
	m := &c07Mon{s: s, prev: map[string]*c07ProvSnap{}, poisoned: map[string]bool{}, prevVaultDiff: map[string]math.Int{}}
	m.observe("arm", false)
	if debugOn {
		s.BeforeTx = append(s.BeforeTx, func(w *World, name string) { s.R.Logf("      [dbg] tx %s begins", name) })
	}
	s.AfterTx = append(s.AfterTx, func(w *World, tx *TxResult) { m.observe("tx:"+tx.Name, tx.Err == nil) })
	s.AfterBlock = append(s.AfterBlock, func(w *World) { m.observe("block", false) })
	return m
}

func (m *c07Mon) observe(where string, afterTx bool) {
	s := m.s
	r := s.R
	ctx := s.Ctx
	curProv, curVault, sigOverride := "", "", ""
	fail := func(class, format string, a ...interface{}) {
		a = append(a, where, s.Height())
		sig := "after " + where
		if sigOverride != "" {
			sig = sigOverride
		}
		if kind := s.c06SlashErrOf(curVault); where == "block" && kind != "" {
			sig = "after block: rebalancing the vault after a validator slash failed (" + kind + ") and the error was ignored"
		}
		r.Fail(class, sig, format+" (at %s, height %d)", a...)
		// only reached for a listed known finding: the "at every block" relations of this provider stay
		// broken, stop evaluating it (the post-transaction relations are re-established by the chain
		// at the provider's next change, so they need no muting)
		if curProv != "" && class != "c07-delegate-total-not-proportional" && class != "c07-below-min-not-frozen" {
			m.poisoned[curProv] = true
		}
	}
	mds, err := s.K.Epochstorage.GetAllMetadata(ctx)
	if err != nil {
		fail("c07-query-failed", "GetAllMetadata: %v", err)
	}
	entries := s.K.Epochstorage.GetAllStakeEntriesCurrent(ctx)
	byProv := map[string][]epochstoragetypes.StakeEntry{}
	for _, e := range entries {
		byProv[e.Address] = append(byProv[e.Address], e)
	}
	mdBy := map[string]epochstoragetypes.ProviderMetadata{}
	for _, md := range mds {
		mdBy[md.Provider] = md
	}
	// every entry's provider has metadata
	provs := make([]string, 0, len(byProv))
	for p := range byProv {
		provs = append(provs, p)
	}
	sort.Strings(provs)
	for _, p := range provs {
		if m.poisoned[p] {
			continue
		}
		curProv, curVault = p, byProv[p][0].Vault
		r.OracleEvals++
		if _, ok := mdBy[p]; !ok {
			fail("c07-entry-without-metadata", "provider %s has %d current stake entries (first on %s) but no metadata", s.NameOf(p), len(byProv[p]), byProv[p][0].Chain)
		}
	}
	cur := map[string]*c07ProvSnap{}
	vaultDiff := map[string]math.Int{}
	defer func() { m.prevVaultDiff = vaultDiff }()
	for _, pa := range s.Providers {
		if d, _, verr := s.K.Dualstaking.VerifyDelegatorBalance(ctx, pa.Vault.Account.Addr); verr == nil {
			vaultDiff[pa.Vault.Addr] = d
		}
	}
	for _, md := range mds {
		p := md.Provider
		es := byProv[p]
		if m.poisoned[p] {
			continue
		}
		curProv, curVault = p, md.Vault
		// (1) metadata chains == chains with a current entry; exists only while >= 1 entry
		r.OracleEvals++
		if len(es) == 0 {
			fail("c07-metadata-without-entry", "metadata of provider %s exists (chains %v) but it has no current stake entry", s.NameOf(p), md.Chains)
		}
		want := []string{}
		for _, e := range es {
			want = append(want, e.Chain)
		}
		sort.Strings(want)
		got := append([]string{}, md.Chains...)
		sort.Strings(got)
		r.OracleEvals++
		if strings.Join(want, ",") != strings.Join(got, ",") {
			fail("c07-metadata-chains-mismatch", "provider %s: metadata chains %v but current stake entries on %v", s.NameOf(p), got, want)
		}
		// (2) self stake of the entries == vault's delegation to the provider
		sumStake := math.ZeroInt()
		for _, e := range es {
			sumStake = sumStake.Add(e.Stake.Amount)
		}
		vaultDel := math.ZeroInt()
		if d, found := s.K.Dualstaking.GetDelegation(ctx, p, md.Vault); found {
			vaultDel = d.Amount.Amount
		}
		r.OracleEvals++
		if !sumStake.Equal(vaultDel) && strings.Contains(where, "movestake") && m.prev[p] != nil && len(m.prev[p].stakes) == len(es) {
			// signature only: did one entry grow while nothing shrank?
			up, down := 0, 0
			for _, e := range es {
				if pv, ok := m.prev[p].stakes[e.Chain]; ok {
					if e.Stake.Amount.GT(pv) {
						up++
					} else if e.Stake.Amount.LT(pv) {
						down++
					}
				}
			}
			if up == 1 && down == 0 {
				sigOverride = "after a move-stake whose source and destination chain are the same (the entry's stake grows, nothing is delegated)"
			}
		}
		if pd, ok := m.prevVaultDiff[md.Vault]; ok && afterTx && sigOverride == "" && !sumStake.Equal(vaultDel) && sumStake.Sub(vaultDel).Abs().LTE(pd.Abs().AddRaw(1)) {
			// signature only: the mismatch is as small as the vault's validator/provider imbalance before the
			// transaction plus one unit of share rounding
			sigOverride = "a stake change credits the vault's provider delegation with the empty-provider delta (share rounding / earlier imbalance) instead of the staked amount"
		}
		if !sumStake.Equal(vaultDel) {
			fail("c07-selfstake-vs-vault-delegation", "provider %s: entries' self stake sums to %s but its vault %s delegates %s to it; entries now: %s; at the previous observation: %s; VerifyDelegatorBalance(vault) was %v at the previous observation and is %v now", s.NameOf(p), sumStake, s.NameOf(md.Vault), vaultDel, c07DescribeEntries(es), c07DescribeSnap(m.prev[p]), m.prevVaultDiff[md.Vault], vaultDiff[md.Vault])
			sigOverride = ""
			continue
		}
		// (3) recorded total delegations == sum of non-vault delegations
		dels, derr := s.K.Dualstaking.GetProviderDelegators(ctx, p)
		if derr != nil {
			fail("c07-query-failed", "GetProviderDelegators(%s): %v", s.NameOf(p), derr)
		}
		sumDel := math.ZeroInt()
		var dl []c07Deleg
		for _, d := range dels {
			dl = append(dl, c07Deleg{d.Delegator, d.Amount.Amount})
			if d.Delegator != md.Vault {
				sumDel = sumDel.Add(d.Amount.Amount)
			}
		}
		r.OracleEvals++
		if !md.TotalDelegations.Amount.Equal(sumDel) {
			fail("c07-total-delegations-mismatch", "provider %s: metadata TotalDelegations=%s but its non-vault delegations sum to %s", s.NameOf(p), md.TotalDelegations.Amount, sumDel)
		}
		snap := &c07ProvSnap{stakes: map[string]math.Int{}, total: map[string]math.Int{}, frozen: map[string]bool{}, delegs: c07Render(dl)}
		for _, e := range es {
			snap.stakes[e.Chain] = e.Stake.Amount
			snap.total[e.Chain] = e.TotalStake()
			snap.frozen[e.Chain] = e.IsFrozen()
		}
		cur[p] = snap

		// (4) after a transaction that changed this provider's stakes or delegations
		prev := m.prev[p]
		if !afterTx || !c07Changed(prev, snap) {
			continue
		}
		r.Probe("c07_provider_changed_by_tx")
		// what kind of change was it (only used to give a violation a specific signature)
		redistributed := false
		if prev != nil && len(prev.stakes) > len(es) && len(es) > 0 {
			ps := math.ZeroInt()
			for _, v := range prev.stakes {
				ps = ps.Add(v)
			}
			redistributed = ps.Equal(sumStake)
		}
		for _, e := range es {
			sigOverride = ""
			if redistributed {
				sigOverride = "after an unstake by the provider address (its stake is redistributed to the remaining entries)"
			} else if prev != nil {
				if pst, ok := prev.stakes[e.Chain]; ok && prev.frozen[e.Chain] && !e.IsFrozen() && e.Stake.Amount.GT(pst) {
					sigOverride = "after a stake increase that automatically unfreezes the entry"
				}
			}
			r.OracleEvals++
			if !sumStake.IsPositive() {
				continue
			}
			wantDT := md.TotalDelegations.Amount.Mul(e.Stake.Amount).Quo(sumStake)
			if !e.DelegateTotal.Amount.Equal(wantDT) {
				fail("c07-delegate-total-not-proportional", "provider %s entry on %s: DelegateTotal=%s but floor(TotalDelegations %s * stake %s / total self stake %s) = %s; entries now: %s; before the transaction: %s", s.NameOf(p), e.Chain, e.DelegateTotal.Amount, md.TotalDelegations.Amount, e.Stake.Amount, sumStake, wantDT, c07DescribeEntries(es), c07DescribeSnap(prev))
			}
			minStake := s.K.Spec.GetMinStake(ctx, e.Chain).Amount
			if prev != nil {
				if before, ok := prev.total[e.Chain]; ok && before.GTE(minStake) && e.TotalStake().LT(minStake) {
					r.Probe("c07_fell_below_min_stake")
					r.OracleEvals++
					if !e.IsFrozen() {
						fail("c07-below-min-not-frozen", "provider %s entry on %s: total stake fell from %s to %s, below the spec minimum %s, but the entry is not frozen (StakeAppliedBlock=%d)", s.NameOf(p), e.Chain, before, e.TotalStake(), minStake, e.StakeAppliedBlock)
					}
				}
			}
		}
	}
	sigOverride = ""
	m.prev = cur
}

func c07DescribeEntries(es []epochstoragetypes.StakeEntry) string {
	var sb strings.Builder
	for _, e := range es {
		sb.WriteString(e.Chain + ":stake=" + e.Stake.Amount.String() + ",delegateTotal=" + e.DelegateTotal.Amount.String())
		if e.IsFrozen() {
			sb.WriteString(",frozen")
		}
		sb.WriteString(" ")
	}
	return sb.String()
}

func c07DescribeSnap(p *c07ProvSnap) string {
	if p == nil {
		return "(no entries)"
	}
	chains := make([]string, 0, len(p.stakes))
	for c := range p.stakes {
		chains = append(chains, c)
	}
	sort.Strings(chains)
	var sb strings.Builder
	for _, c := range chains {
		sb.WriteString(c + ":stake=" + p.stakes[c].String() + ",total=" + p.total[c].String())
		if p.frozen[c] {
			sb.WriteString(",frozen")
		}
		sb.WriteString(" ")
	}
	sb.WriteString("delegations=" + p.delegs)
	return sb.String()
}

func c07Changed(prev, cur *c07ProvSnap) bool {
	if prev == nil {
		return true // the provider appeared through this transaction
	}
	if prev.delegs != cur.delegs || len(prev.stakes) != len(cur.stakes) {
		return true
	}
	for c, v := range cur.stakes {
		pv, ok := prev.stakes[c]
		if !ok || !pv.Equal(v) {
			return true
		}
	}
	return false
}

// ---------- the property ----------

func c07Weights() map[string]int {
	w := c06Weights()
	w["stake"] = 10
	w["c07_modify"] = 7
	w["c07_unstake"] = 4
	w["c07_movestake"] = 5
	w["freeze"] = 2
	w["c06_slash"] = 3
	w["c06_cancel_unbond"] = 1
	w["c06_val_create"] = 0
	w["c06_unjail"] = 0
	return w
}

func runC07(r *simrt.Run) {
	cfg := mkCfg(r, c07Weights(), 90, 400)
	// several chains per provider matter here
	if cfg.NSpecs < 3 && r.Chance("cfg", 2, 3) {
		cfg.NSpecs = 3
	}
	if cfg.NProv > 5 && r.Chance("cfg", 1, 2) {
		cfg.NProv = 3 + r.Draw("cfg", 3) // fewer providers => more chains per provider
	}
	s := NewSim(r, cfg)
	defer c06Release(s)
	s.c06Prepare(0)
	newC07Mon(s)
	s.RunHistory()
}

func c07NonTrivial(r *simrt.Run) bool {
	deleg := r.Ops["delegate:ok"] + r.Ops["c06_delegate:ok"] + r.Ops["c06_unbond:ok"] + r.Ops["c06_redelegate:ok"]
	return r.OKOps() >= 12 && r.Ops["stake:ok"] >= 2 && deleg >= 2 && r.Probes["c07_provider_changed_by_tx"] >= 4
}

func init() {
	AddOp("c07_modify", (*Sim).opC07Modify)
	AddOp("c07_unstake", (*Sim).opC07Unstake)
	AddOp("c07_movestake", (*Sim).opC07MoveStake)
	simrt.Register("C07", &simrt.PropSpec{Fn: runC07, NonTrivial: c07NonTrivial,
		Rule: "tape-generated histories of provider stake / modify (increase, decrease, to and below the spec minimum, commission) / move-stake / unstake by vault and by provider address over up to 3 chains, dual-staking delegate / redelegate / unbond by vaults and other delegators, staking-module operations, validator slashes at block start, freeze/unfreeze, relay payments and clock jumps. After every transaction and every block, from GetAllMetadata / GetAllStakeEntriesCurrent / GetProviderDelegators / GetDelegation: metadata chains == chains with a current entry; metadata iff >= 1 entry; sum of entries' Stake == vault's delegation; TotalDelegations == sum of non-vault delegations. After a successful transaction that changed a provider's entry stakes or delegation set: every entry's DelegateTotal == floor(TotalDelegations*Stake/sum Stake) and an entry whose Stake+DelegateTotal went from >= spec min stake to below it is frozen. Non-trivial = >=12 accepted operations incl. >=2 stakes, >=2 delegation changes and >=4 provider-changing transactions",
		Real: chainReal, Stubbed: chainStub, Assume: chainAssume})
	_ = sdk.ZeroInt
}
