package chainsim

// C11 — monthly subscription payouts are bounded and proportional.
//
// The monthly payout of a subscription month runs in EndBlock when its cu-tracker timer expires.
// The monitor takes a snapshot at every observation point (after each transaction and block): the
// pending payout timers, the tracked CU of the timers due at the current height, the per
// (provider, chain) base-pay totals recorded by the rewards module (= the share handed to a
// provider before validator / community / contributor participation), balances. After the next
// block it knows exactly which timers fired in between and compares.

import (
	"fmt"
	"os"
	"sort"

	"cosmossdk.io/math"
	sdk "github.com/cosmos/cosmos-sdk/types"
	testkeeper "github.com/lavanet/lava/v5/testutil/keeper"
	pairingtypes "github.com/lavanet/lava/v5/x/pairing/types"
	planstypes "github.com/lavanet/lava/v5/x/plans/types"
	subscriptionkeeper "github.com/lavanet/lava/v5/x/subscription/keeper"
	subscriptiontypes "github.com/lavanet/lava/v5/x/subscription/types"
	"github.com/lavanet/lava/v5/zz_verif/simrt"
)

type c11Tracked struct {
	Provider, Chain string
	Cu              uint64
}

type c11Snap struct {
	height   uint64
	timers   []c10CuTimer
	tracked  map[string][]c11Tracked // "consumer|subBlock" -> tracked CU (only for timers due at this height)
	basePay  map[string]math.Int     // "provider|chain" -> BasePay.Total
	subBal   math.Int
	payerBal map[string]math.Int
	curSub   map[string]*subscriptiontypes.Subscription // consumer -> entry in force at this height
	iprpcID  uint64
}

type c11Mon struct {
	s      *Sim
	snap   *c11Snap
	payers []*Account
	paid   map[string]bool // "consumer|subBlock" already paid out with tracked CU
}

func c11Key(consumer string, block uint64) string { return fmt.Sprintf("%s|%d", consumer, block) }

func (m *c11Mon) take() {
	s := m.s
	sn := &c11Snap{height: s.Height(), tracked: map[string][]c11Tracked{}, basePay: map[string]math.Int{}, payerBal: map[string]math.Int{}, curSub: map[string]*subscriptiontypes.Subscription{}}
	sn.timers = s.c10CuTimers()
	for _, t := range sn.timers {
		if t.Expiry > sn.height {
			continue
		}
		list, _ := s.K.Subscription.GetSubTrackedCuInfo(s.Ctx, t.Consumer, t.Data.Block)
		var tl []c11Tracked
		for _, e := range list {
			tl = append(tl, c11Tracked{Provider: e.Provider, Chain: e.ChainID, Cu: e.TrackedCu})
		}
		sn.tracked[c11Key(t.Consumer, t.Data.Block)] = tl
		sn.curSub[t.Consumer] = s.c13Current(t.Consumer)
	}
	for _, bp := range s.K.Rewards.GetAllBasePay(s.Ctx) {
		sn.basePay[bp.Provider+"|"+bp.ChainId] = bp.BasePay.Total
	}
	sn.subBal = s.ModuleBalance(subscriptiontypes.ModuleName)
	for _, p := range m.payers {
		sn.payerBal[p.Addr] = s.Balance(p.Account.Addr)
	}
	sn.iprpcID = s.K.Rewards.GetIprpcRewardsCurrentId(s.Ctx)
	m.snap = sn
}

// afterBlock: judge the payouts of the EndBlock that just ran (block m.snap.height).
func (m *c11Mon) afterBlock() {
	s, r := m.s, m.s.R
	sn := m.snap
	defer m.take()
	if sn == nil {
		return
	}
	limit := sdk.NewIntFromUint64(subscriptionkeeper.LIMIT_TOKEN_PER_CU)
	var fired []c10CuTimer
	for _, t := range sn.timers {
		if t.Expiry <= sn.height {
			fired = append(fired, t)
		}
	}
	if len(fired) == 0 {
		return
	}
	if len(fired) > 1 {
		r.Probe("c11_several_payouts_in_one_block")
	}
	now := uint64(s.Now().Unix())
	credits := math.ZeroInt()
	zeroGone := math.ZeroInt()        // credit of zero-CU months whose subscription is gone: goes to the validators pool
	paidUpper := math.ZeroInt()       // upper bound of what CU-bearing months may pay out
	returned := map[string]math.Int{} // consumer -> credit that must come back to the live subscription
	lo, hi := map[string]math.Int{}, map[string]math.Int{}
	add := func(mp map[string]math.Int, k string, v math.Int) {
		if cur, ok := mp[k]; ok {
			mp[k] = cur.Add(v)
		} else {
			mp[k] = v
		}
	}
	sig := "endblock"
	for _, t := range fired {
		credit := t.Data.Credit.Amount
		credits = credits.Add(credit)
		key := c11Key(t.Consumer, t.Data.Block)
		tl := sn.tracked[key]
		total := math.ZeroInt()
		for _, e := range tl {
			total = total.Add(sdk.NewIntFromUint64(e.Cu))
		}
		r.Logf("   payout at end of block %d: %s month@%d credit=%s tracked=%v", sn.height, s.NameOf(t.Consumer), t.Data.Block, credit, c11TrackedStr(s, tl))
		if len(tl) == 0 || total.IsZero() {
			if sn.curSub[t.Consumer] != nil {
				add(returned, t.Consumer, credit)
				r.Probe("c11_zero_cu_month_credit_returned")
			} else {
				zeroGone = zeroGone.Add(credit)
				r.Probe("c11_zero_cu_month_subscription_gone")
			}
			continue
		}
		r.Probe("c11_payout_with_cu")
		if len(tl) > 1 {
			r.Probe("c11_payout_several_providers")
		}
		// tracked CU is paid out at most once
		if left, leftTotal := s.K.Subscription.GetSubTrackedCuInfo(s.Ctx, t.Consumer, t.Data.Block); len(left) > 0 && leftTotal > 0 {
			r.Probe("c11_tracked_cu_still_listed_after_payout")
		} else {
			r.Probe("c11_tracked_cu_gone_after_payout")
		}
		r.Check(!m.paid[key], "tracked-cu-paid-twice", "same-month", "month@%d of %s is paid out a second time at the end of block %d (tracked %v)", t.Data.Block, s.NameOf(t.Consumer), sn.height, c11TrackedStr(s, tl))
		m.paid[key] = true
		// credit capped at the per-CU limit: the statement can be read with or without rounding of
		// credit/totalCU, both readings are accepted
		capLo, capHi := limit.Mul(total), limit.AddRaw(1).Mul(total)
		baseLo, baseHi := math.MinInt(credit, capLo), math.MinInt(credit, capHi)
		if credit.GT(capLo) {
			r.Probe("c11_cap_applies")
			if credit.LT(capHi) {
				r.Probe("c11_cap_ambiguous_zone")
			}
		}
		if total.GT(sdk.NewIntFromUint64(^uint64(0))) {
			// the tracked CU of this month do not fit a uint64 (only reachable through CU credits near
			// 2^64): a distinct signature, the expectations stay the exact-arithmetic ones
			sig = "endblock-tracked-cu-sum-exceeds-uint64"
			r.Probe("c11_tracked_cu_sum_exceeds_uint64")
		}
		if total.GT(sdk.NewIntFromUint64(^uint64(0)).Quo(limit)) {
			r.Probe("c11_limit_times_cu_exceeds_uint64")
			if c11DebugHuge {
				r.Fail("debug-huge-tracked-cu", "payout", "tracked CU total %s of %s month@%d: %v", total, s.NameOf(t.Consumer), t.Data.Block, c11TrackedStr(s, tl))
			}
		}
		for _, e := range tl {
			cu := sdk.NewIntFromUint64(e.Cu)
			k := e.Provider + "|" + e.Chain
			add(lo, k, baseLo.Mul(cu).Quo(total))
			shareHi := baseHi.Mul(cu).Quo(total)
			add(hi, k, shareHi)
			paidUpper = paidUpper.Add(shareHi)
		}
	}
	// --- bounded: what left the subscription module in that EndBlock ---
	renewals := math.ZeroInt() // auto-renewals of the following BeginBlock flow into the module
	for _, p := range m.payers {
		d := sn.payerBal[p.Addr].Sub(s.Balance(p.Account.Addr))
		if d.IsPositive() {
			renewals = renewals.Add(d)
		}
	}
	outflow := sn.subBal.Sub(s.ModuleBalance(subscriptiontypes.ModuleName)).Add(renewals)
	r.Check(outflow.LTE(credits), "payout-exceeds-credit", sig, "payouts at the end of block %d moved %s out of the subscription module, the month credits of the %d payout(s) sum to %s", sn.height, outflow, len(fired), credits)
	r.Check(outflow.GTE(zeroGone) && outflow.LTE(zeroGone.Add(paidUpper)), "payout-flow-mismatch", sig, "payouts at the end of block %d moved %s out of the subscription module; expected between %s (zero-CU months of removed subscriptions, to the validators pool) and %s (plus the provider shares)", sn.height, outflow, zeroGone, zeroGone.Add(paidUpper))
	// --- proportional: base pay recorded per provider and chain (= share before participation) ---
	rolled := s.K.Rewards.GetIprpcRewardsCurrentId(s.Ctx) != sn.iprpcID
	if rolled {
		r.Probe("c11_rewards_month_rolled_in_payout_block") // base pay was wiped in the same EndBlock: not comparable
	} else {
		after := map[string]math.Int{}
		for _, bp := range s.K.Rewards.GetAllBasePay(s.Ctx) {
			after[bp.Provider+"|"+bp.ChainId] = bp.BasePay.Total
		}
		keys := map[string]bool{}
		for k := range after {
			keys[k] = true
		}
		for k := range sn.basePay {
			keys[k] = true
		}
		for k := range hi {
			keys[k] = true
		}
		sorted := make([]string, 0, len(keys))
		for k := range keys {
			sorted = append(sorted, k)
		}
		sort.Strings(sorted)
		for _, k := range sorted {
			b, a := sn.basePay[k], after[k]
			if b.IsNil() {
				b = math.ZeroInt()
			}
			if a.IsNil() {
				a = math.ZeroInt()
			}
			l, h := lo[k], hi[k]
			if l.IsNil() {
				l, h = math.ZeroInt(), math.ZeroInt()
			}
			got := a.Sub(b)
			r.Check(got.GTE(l) && got.LTE(h), "provider-share-mismatch", sig, "at the end of block %d the share of %s is %s, expected floor(min(credit, limit x totalCU) x cu / totalCU) summed over the payouts = %s (.. %s with the rounded cap)", sn.height, k, got, l, h)
		}
	}
	// --- zero-CU months give the credit back to the live subscription ---
	cons := make([]string, 0, len(returned))
	for c := range returned {
		cons = append(cons, c)
	}
	sort.Strings(cons)
	for _, c := range cons {
		before := sn.curSub[c]
		if before.MonthExpiryTime <= now {
			continue // its month boundary was processed in the following BeginBlock: the entry was rewritten
		}
		after, _, found := s.K.Subscription.GetSubscriptionForBlock(s.Ctx, c, sn.height)
		ok := found && after.Credit.Amount.Equal(before.Credit.Amount.Add(returned[c]))
		r.Check(ok, "zero-cu-credit-not-returned", "live-subscription", "month of %s without tracked CU paid out at the end of block %d: credit %s should be back in the subscription (credit before %s), found=%v credit after %s", s.NameOf(c), sn.height, returned[c], before.Credit.Amount, found, after.Credit.Amount)
	}
}

// c11DebugHuge (C11_DEBUG_HUGE=1) turns the observation of a tracked-CU total beyond 2^64/LIMIT into
// a failure so that its history can be minimised (investigation aid, not an oracle).
var c11DebugHuge = os.Getenv("C11_DEBUG_HUGE") == "1"

func c11TrackedStr(s *Sim, tl []c11Tracked) string {
	out := "["
	for i, e := range tl {
		if i > 0 {
			out += " "
		}
		out += fmt.Sprintf("%s/%s:%d", s.NameOf(e.Provider), e.Chain, e.Cu)
	}
	return out + "]"
}

// opC11Relays: one consumer uses several of its paired providers in one go, with tiny, normal or
// large CU sums (tiny sums make the per-CU cap bite).
func (s *Sim) opC11Relays() {
	r := s.R
	c := s.pickCons()
	signer := s.signerFor(c)
	spec := s.pickSpec()
	paired := s.pairedProvidersFor(signer, spec.Index)
	if len(paired) == 0 {
		r.Op("c11_relays", "skip")
		r.Logf("relays %s(%s) %s: no pairing", c.Acc.Name, signer.Name, spec.Index)
		return
	}
	n := 1 + r.Draw("ops", 3)
	mode := r.Draw("ops", 3)
	for i := 0; i < n; i++ {
		p := paired[r.Draw("ops", len(paired))]
		var cu uint64
		if c11Huge && c11HugeLeft > 0 && r.Draw("c11huge", 3) == 1 {
			// a CU sum near the uint64 range (the run's plan0 allows it): 2^62 .. 2^63+. At most one such
			// relay per run, so that the month's tracked total stays BELOW 2^64: lava accepts a relay in
			// full while any monthly CU is left, so several of them in one month make the tracked total
			// itself exceed uint64 (GetSubTrackedCuInfo sums in uint64 and wraps: payout above the
			// credit, negative coin panic in EndBlock) — that needs plan limits near 2^64 AND more CU in
			// a month than the plan allows, recorded in DESIGN.md as an observation, not generated.
			c11HugeLeft--
			cu = []uint64{1 << 62, 1 << 63, 1<<63 + 12345, 3 << 61, 1<<62 + 7}[r.Draw("c11huge", 5)]
			r.Probe("c11_relay_with_cu_near_uint64_range")
		} else {
			switch mode {
			case 0:
				cu = uint64(1 + r.Draw("ops", 4))
			case 1:
				cu = uint64(1 + r.Draw("ops", 2000))
			default:
				cu = uint64(1 + r.Draw("ops", 60))
			}
		}
		s.sessionSeq++
		rs := RelaySpec{Consumer: c, Signer: signer, Provider: p, Spec: spec.Index, Epoch: int64(s.EpochStart()), Session: s.sessionSeq, CuSum: cu, RelayNum: 1}
		if r.Chance("ops", 1, 4) {
			rs.Qos = s.randQos("ops")
		}
		rel := s.BuildRelay(rs)
		res := s.SendRelayPayment("relay", p, []*pairingtypes.RelaySession{rel})
		r.Logf("relay %s<-%s(%s) %s epoch=%d session=%d cu=%d qos=%v: %s", p.Acc.Name, c.Acc.Name, signer.Name, spec.Index, rs.Epoch, rs.Session, cu, rs.Qos != nil, short(res.Err))
	}
}

func c11Weights() map[string]int {
	w := c13Weights()
	w["relay"] = 14
	w["c11_relays"] = 16
	w["c13_plan_mod"] = 3
	w["c13_plan_del"] = 1
	w["unstake"] = 2
	w["delegate"] = 4
	return w
}

// c11Huge: the current run's plan0 allows CU near the uint64 range (see runC11)
var c11Huge bool
var c11HugeLeft int

func runC11(r *simrt.Run) {
	c13Reset()
	cfg := mkCfg(r, c11Weights(), 70, 400)
	cfg.NPlans = 2 + r.Draw("cfg", 3)
	s := NewSim(r, cfg)
	// one run in three (new stream: old tapes read 0 = off): plan0 is modified in place at genesis to
	// allow CU sums up to the uint64 range, and some relays then carry 2^62..2^63+ CU
	c11Huge = false
	if r.Draw("c11huge", 3) == 1 {
		if p, found := s.K.Plans.FindPlan(s.Ctx, "plan0", s.Height()); found {
			p.PlanPolicy.TotalCuLimit = ^uint64(0)
			p.PlanPolicy.EpochCuLimit = ^uint64(0)
			if err := testkeeper.SimulatePlansAddProposal(s.Ctx, s.K.Plans, []planstypes.Plan{p}, true); err == nil {
				c11Huge = true
				c11HugeLeft = 1
				r.Probe("c11_plan_allows_cu_near_uint64_range")
			} else {
				r.Logf("huge plan0 refused: %v", err)
			}
		}
	}
	defer func() { c11Huge = false }()
	s.c13AddPoor(1 + r.Draw("cfg", 2))
	m := &c11Mon{s: s, paid: map[string]bool{}}
	for _, c := range s.Consumers {
		m.payers = append(m.payers, c.Acc)
	}
	m.payers = append(m.payers, c13ext(s).Poor...)
	m.take()
	s.AfterTx = append(s.AfterTx, func(w *World, tx *TxResult) { m.take() })
	s.AfterBlock = append(s.AfterBlock, func(w *World) { m.afterBlock() })
	s.c13AttachProbes()
	c13AfterBuy = append(c13AfterBuy, func(_ *Sim, info *c13BuyInfo) {
		if info.Err != nil {
			return
		}
		for _, t := range s.c10CuTimers() {
			if t.Consumer == info.Msg.Consumer {
				r.Probe("c11_buy_" + info.Kind + "_inside_payout_window")
			}
		}
	})
	s.c13Warmup()
	for i := 0; i < cfg.Steps; i++ {
		s.StepOp()
	}
	// the payouts of the last months are due one stale period after their month boundary
	r.Step()
	s.opC13Months()
	s.opC13Months()
}

func c11NonTrivial(r *simrt.Run) bool {
	return r.OKOps() >= 10 && r.Probes["c11_payout_with_cu"] >= 1
}

func init() {
	AddOp("c11_relays", (*Sim).opC11Relays)
	simrt.Register("C11", &simrt.PropSpec{Fn: runC11, NonTrivial: c11NonTrivial,
		Rule: "tape-generated histories over months of slow blocks: subscriptions of every kind (upgrades between tracking and payout, advance purchases, auto-renewals with and without funds, expiries before the payout), governance plan changes, relay payments spread over several paired providers and chains with tiny (1..4), small and normal CU sums and QoS reports, provider stake/unstake/freeze, delegations. At every block whose EndBlock fired cu-tracker payout timers (known exactly from the timer export taken at the last observation point before it): outflow of the subscription module <= sum of the month credits, and between the zero-CU credits of removed subscriptions and that plus the provider shares; per (provider, chain) the base pay recorded by the rewards module (share before validator/community/contributor participation) grows by floor(min(credit, LIMIT x totalCU) x cu / totalCU) summed over the payouts (both roundings of the cap accepted); no (subscription, month) with tracked CU is paid twice; a zero-CU month returns exactly its credit to the live subscription. LIMIT is read from the subscription keeper's exported constant at run time. Non-trivial = >=10 accepted operations and >=1 payout with tracked CU",
		Real: chainReal, Stubbed: chainStub, Assume: append([]string{"consecutive blocks are at most 12 h apart", "only consumers and the poor buyers pay into the subscription module during BeginBlock (auto-renewal); their balance decrease is subtracted when the module outflow of the preceding EndBlock is computed"}, chainAssume...)})
}
