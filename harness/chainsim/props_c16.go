package chainsim

import (
	"fmt"
	"sort"
	"strconv"
	"strings"

	sdk "github.com/cosmos/cosmos-sdk/types"
	testkeeper "github.com/lavanet/lava/v5/testutil/keeper"
	epochstoragetypes "github.com/lavanet/lava/v5/x/epochstorage/types"
	"github.com/lavanet/lava/v5/zz_verif/simrt"
)

// ---------- C16: epoch boundaries are consistent under parameter changes ----------
//
// The harness keeps one independent fact only: the set of blocks at which epoch-start processing
// was seen to run (EpochDetails.StartBlock moved to the block during its BeginBlock) together with
// the blocks-to-save window that the chain itself reported as in force at that epoch (read through
// BlocksToSave(ctx, epochStart) at that very block). Everything else is read back through the
// keeper's query functions for every block still in memory.

type c16State struct {
	s *Sim
	// observed epoch starts, ascending
	starts []uint64
	// window (blocks to save) in force at an observed epoch start, as reported at that block
	window map[uint64]uint64
	// epoch blocks reported in force at an observed epoch start (for probes/logs only)
	epochBlocks map[uint64]uint64
	earliest    uint64
	// bookkeeping for probes
	changesSinceEpoch int
	pendingChange     bool // a param change tx was accepted since the last sweep
	lastLatestChange  uint64
	acceptedChanges   int
}

func (st *c16State) isStart(b uint64) bool {
	i := sort.Search(len(st.starts), func(i int) bool { return st.starts[i] >= b })
	return i < len(st.starts) && st.starts[i] == b
}

// greatestStartLE returns the greatest observed start <= b.
func (st *c16State) greatestStartLE(b uint64) (uint64, bool) {
	i := sort.Search(len(st.starts), func(i int) bool { return st.starts[i] > b })
	if i == 0 {
		return 0, false
	}
	return st.starts[i-1], true
}

// c16Arm initialises the observation from the parameter-change-free prehistory built by NewSim
// (default parameters, regular grid): the epoch starts still in memory are taken from the chain.
func c16Arm(s *Sim) *c16State {
	st := &c16State{s: s, window: map[uint64]uint64{}, epochBlocks: map[uint64]uint64{}}
	k := s.K.Epochstorage
	st.earliest = k.GetEarliestEpochStart(s.Ctx)
	for b := st.earliest; b <= s.Height(); b++ {
		es, _, err := k.GetEpochStartForBlock(s.Ctx, b)
		if err == nil && es == b {
			st.starts = append(st.starts, b)
			w, _ := k.BlocksToSave(s.Ctx, b)
			st.window[b] = w
			eb, _ := k.EpochBlocks(s.Ctx, b)
			st.epochBlocks[b] = eb
		}
	}
	st.lastLatestChange = k.LatestParamChange(s.Ctx)
	s.R.Logf("c16 armed: h=%d earliest=%d starts=%v", s.Height(), st.earliest, st.starts)
	return st
}

func (st *c16State) afterBlock(w *World) {
	r := w.R
	k := w.K.Epochstorage
	h := w.Height()
	ctx := w.Ctx

	// (1) did epoch-start processing run in this block?
	processed := k.GetEpochStart(ctx) == h
	reported := k.IsEpochStart(ctx)
	r.Check(processed == reported, "c16-epochstart-report-mismatch", fmt.Sprintf("processed=%v", processed),
		"block %d: epoch-start processing ran=%v but IsEpochStart reports %v", h, processed, reported)
	if processed {
		bts, err := k.BlocksToSave(ctx, h)
		r.Check(err == nil, "c16-no-params-for-block", "current", "block %d is an epoch start but BlocksToSave fails: %v", h, err)
		eb, _ := k.EpochBlocks(ctx, h)
		if n := len(st.starts); n > 0 {
			prev := st.starts[n-1]
			if eb > st.epochBlocks[prev] {
				r.Probe("c16_epoch_grew")
			} else if eb < st.epochBlocks[prev] {
				r.Probe("c16_epoch_shrank")
			}
			if bts > st.window[prev] {
				r.Probe("c16_window_grew")
			} else if bts < st.window[prev] {
				r.Probe("c16_window_shrank")
			}
		}
		st.starts = append(st.starts, h)
		st.window[h] = bts
		st.epochBlocks[h] = eb
		if st.changesSinceEpoch >= 2 {
			r.Probe("c16_two_changes_one_epoch")
		}
		st.changesSinceEpoch = 0
		r.Logf("   epoch start h=%d epochBlocks=%d window=%d", h, eb, bts)
	}
	lc := k.LatestParamChange(ctx)
	if lc == 0 && st.lastLatestChange != 0 {
		r.Probe("c16_latest_change_forgotten")
	}
	st.lastLatestChange = lc

	// (2) earliest epoch start: monotone, is an epoch, and only drops epochs older than their window
	e := k.GetEarliestEpochStart(ctx)
	r.Check(e >= st.earliest, "c16-earliest-moved-back", "", "block %d: earliest epoch start went from %d back to %d", h, st.earliest, e)
	if e > st.earliest {
		r.Probe("c16_earliest_advanced")
		r.Check(st.isStart(e), "c16-earliest-not-an-epoch", "", "block %d: earliest epoch start %d is not a block where epoch-start processing ran (observed %v)", h, e, st.tail(12))
		dropped := 0
		firstWin := st.window[st.earliest]
		for _, sb := range st.starts {
			if sb < st.earliest || sb >= e {
				continue
			}
			dropped++
			age := h - sb
			win := st.window[sb]
			// signature: which epoch of this advance, and how its own window relates to the window of
			// the first epoch dropped by the same advance
			sig := "first-epoch-of-advance"
			if sb != st.earliest {
				sig = "later-epoch-of-advance"
				switch {
				case win > firstWin:
					sig += ",window-larger-than-first"
				case win < firstWin:
					sig += ",window-smaller-than-first"
				}
			}
			r.Check(age >= win, "c16-dropped-young-epoch", sig, "block %d: epoch %d dropped from memory at age %d blocks, younger than the %d blocks-to-save window in force at that epoch (earliest %d -> %d, window at %d was %d)", h, sb, age, win, st.earliest, e, st.earliest, firstWin)
		}
		if dropped >= 2 {
			r.Probe("c16_multi_drop")
		}
		r.Logf("   earliest %d -> %d at h=%d (dropped %d)", st.earliest, e, h, dropped)
		st.earliest = e
		// forget observations that left memory (keep maps small)
		i := sort.Search(len(st.starts), func(i int) bool { return st.starts[i] >= e })
		for _, sb := range st.starts[:i] {
			delete(st.window, sb)
			delete(st.epochBlocks, sb)
		}
		st.starts = append([]uint64(nil), st.starts[i:]...)
	}

	// (3) every block in memory maps to the greatest observed epoch start <= itself
	switch {
	case processed || st.pendingChange:
		st.sweep(w, e, h, h-e <= 128)
	case h%8 == 0:
		st.sweep(w, e, h, false)
	default:
		st.sweep(w, h, h, true) // the current block only
	}
	st.pendingChange = false
}

func (st *c16State) tail(n int) []uint64 {
	if len(st.starts) <= n {
		return st.starts
	}
	return st.starts[len(st.starts)-n:]
}

func (st *c16State) sweep(w *World, e, h uint64, full bool) {
	r := w.R
	k := w.K.Epochstorage
	ctx := w.Ctx
	step := uint64(1)
	if !full {
		step = (h-e)/48 + 2 + h%3 // thin sample; epoch starts and their neighbours are added below
	}
	checkBlock := func(b uint64) {
		es, bie, err := k.GetEpochStartForBlock(ctx, b)
		r.Check(err == nil, "c16-no-epoch-for-block", "", "at height %d block %d (in memory since %d) has no epoch start: %v", h, b, e, err)
		r.Check(es <= b, "c16-epoch-start-after-block", "", "at height %d GetEpochStartForBlock(%d)=%d is later than the block", h, b, es)
		want, ok := st.greatestStartLE(b)
		r.Check(ok && es == want, "c16-epoch-start-not-observed", "", "at height %d GetEpochStartForBlock(%d)=%d (offset %d) but the latest block <= %d where epoch-start processing ran is %d (observed %v)", h, b, es, bie, b, want, st.tail(12))
		next, err := k.GetNextEpoch(ctx, b)
		r.Check(err == nil && next > b, "c16-next-epoch-not-later", "", "at height %d GetNextEpoch(%d)=%d err=%v", h, b, next, err)
		rep := k.IsEpochStart(ctx.WithBlockHeight(int64(b)))
		r.Check(rep == st.isStart(b), "c16-epochstart-report-mismatch", fmt.Sprintf("past processed=%v", st.isStart(b)),
			"at height %d IsEpochStart(%d)=%v but epoch-start processing ran there=%v", h, b, rep, st.isStart(b))
	}
	if e > h {
		return
	}
	for b := e; b <= h; b += step {
		checkBlock(b)
	}
	if !full {
		for _, sb := range st.starts {
			if sb > e {
				checkBlock(sb - 1)
			}
			checkBlock(sb)
		}
		checkBlock(h)
	}
	if n := len(w.K.Epochstorage.GetAllFixatedParams(ctx)); n >= 5 {
		r.Probe("c16_three_fixations_in_memory") // 2 keys at genesis + >=3 pushed
	}
}

// c16Cur is the monitor of the run in progress (runs are sequential within a worker process).
var c16Cur *c16State

func c16Subspace() string { return epochstoragetypes.ModuleName }

// opC16Param: a governance parameter-change proposal for EpochBlocks and/or EpochsToSave passes at
// the current block (any block, usually off the epoch grid).
func (s *Sim) opC16Param() {
	r := s.R
	st := c16Cur
	if st != nil && st.s != s {
		st = nil
	}
	type ch struct{ key, val string }
	var changes []ch
	mk := func() ch {
		if r.Chance("ops", 1, 3) {
			v := 1 + r.Draw("ops", 8)
			return ch{string(epochstoragetypes.KeyEpochsToSave), strconv.Itoa(v)}
		}
		v := 2 + r.Draw("ops", 39)
		if r.Chance("ops", 1, 3) {
			v = 2 + r.Draw("ops", 6) // short epochs: many boundaries
		}
		if r.Chance("ops", 1, 25) {
			v = 0 // invalid: rejected by the parameter validator, nothing may change
		}
		return ch{string(epochstoragetypes.KeyEpochBlocks), strconv.Itoa(v)}
	}
	changes = append(changes, mk())
	if r.Chance("ops", 1, 4) {
		changes = append(changes, mk())
	}
	offGrid := !s.K.Epochstorage.IsEpochStart(s.Ctx)
	r.Logf("paramchange proposal h=%d %v", s.Height(), changes)
	res := s.Tx("c16param", nil, func(ctx sdk.Context) error {
		for _, c := range changes {
			if err := testkeeper.SimulateParamChange(ctx, s.K.ParamsKeeper, c16Subspace(), c.key, "\""+c.val+"\""); err != nil {
				return err
			}
		}
		return nil
	})
	out := "ok"
	if res.Err != nil {
		out = "rejected"
	}
	r.Op("c16param", out)
	if res.Err == nil {
		r.Fault("c16_param_change")
		if offGrid {
			r.Probe("c16_change_offgrid")
		}
		if st != nil {
			st.changesSinceEpoch++
			st.pendingChange = true
			st.acceptedChanges++
		}
	}
	r.Logf("   -> %s", short(res.Err))
}

// opC16Run advances many blocks quickly (epochs are short in this profile).
func (s *Sim) opC16Run() {
	r := s.R
	n := 1 + r.Draw("ops", 50)
	if r.Chance("ops", 1, 5) {
		n = 60 + r.Draw("ops", 140)
	}
	bt := s.BlockTimeDefault() / 2
	for i := 0; i < n; i++ {
		s.NextBlock(bt)
	}
	r.Op("c16run", "ok")
	r.Logf("run +%d -> h=%d epochStart=%d earliest=%d", n, s.Height(), s.EpochStart(), s.K.Epochstorage.GetEarliestEpochStart(s.Ctx))
}

func runC16(r *simrt.Run) {
	w := map[string]int{
		"blocks": 10, "c16run": 22, "c16param": 14,
		// a thin economy keeps the other modules' epoch hooks busy while parameters move
		"stake": 2, "buy": 1, "relay": 4, "addproject": 1, "keys": 1, "delegate": 1, "freeze": 1,
	}
	cfg := mkCfg(r, w, 70, 300)
	if cfg.Weights["c16param"] < 4 {
		cfg.Weights["c16param"] = 4
	}
	if cfg.Weights["c16run"] < 8 {
		cfg.Weights["c16run"] = 8
	}
	cfg.Faults["month_jump"] = false // slow-chain weeks add nothing here and cost many blocks
	s := NewSim(r, cfg)
	s.HaltSigPrefix = "x/epochstorage/" // a panic inside epoch-start processing itself is this property's subject
	st := c16Arm(s)
	// A halt of the chain is reported by C37 only, with one narrow exception that is this property's
	// own subject: epoch-start processing giving up because the earliest epoch in memory has no
	// parameters / no next epoch (the two panics of UpdateEarliestEpochstart).
	defer func() {
		p := recover()
		if p == nil {
			return
		}
		if simrt.IsSimPanic(p) && r.Violated() == nil && r.Probes["block_panic"] > 0 {
			lines := r.LogLines()
			for i := len(lines) - 1; i >= 0 && i >= len(lines)-5; i-- {
				if strings.Contains(lines[i], "panicked at height") && strings.Contains(lines[i], "failed to advance EarliestEpochstart") {
					r.Fail("c16-earliest-epoch-unmapped", "UpdateEarliestEpochstart", "epoch-start processing halted: %s", lines[i])
				}
			}
		}
		panic(p)
	}()
	c16Cur = st
	s.AfterBlock = append(s.AfterBlock, st.afterBlock)
	s.AfterTx = append(s.AfterTx, func(w *World, tx *TxResult) {
		if tx.Name != "c16param" {
			return
		}
		// a proposal (accepted or rejected) never moves epoch boundaries of blocks already in memory
		st.sweep(w, st.earliest, w.Height(), w.Height()-st.earliest <= 128)
	})
	s.RunHistory()
	// let the last changes take effect and memory roll over
	for i := 0; i < 3; i++ {
		r.Step()
		s.opC16Run()
	}
	r.Extra["c16_epoch_starts"] += int64(len(st.starts))
}

func c16NonTrivial(r *simrt.Run) bool {
	return r.Ops["c16param:ok"] >= 2 && r.Probes["c16_earliest_advanced"] >= 3 && r.Probes["c16_change_offgrid"] >= 1
}

func init() {
	AddOp("c16param", (*Sim).opC16Param)
	AddOp("c16run", (*Sim).opC16Run)
	simrt.Register("C16", &simrt.PropSpec{Fn: runC16, NonTrivial: c16NonTrivial,
		Rule: "tape-generated histories of governance parameter-change proposals (EpochBlocks 2..40, EpochsToSave 1..8, single and double changes, invalid values, several per epoch and per memory window, at arbitrary off-grid blocks) interleaved with runs of 1..200 blocks and a thin economy; the harness records the blocks where epoch-start processing ran and the chain-reported blocks-to-save window at each; after every block (at epoch starts and after each proposal: all blocks in memory when that is <=128 blocks, else a thin sample plus every epoch start and its predecessor; the current block always) GetEpochStartForBlock/IsEpochStart/GetNextEpoch/GetEarliestEpochStart are compared with those observations. Non-trivial = >=2 accepted changes, >=1 off-grid, earliest epoch advanced >=3 times; distinct = (op,outcome,fault) sequence hash",
		Real: chainReal, Stubbed: chainStub,
		Assume: append([]string{"parameter-change proposals are executed through the repo's HandleParameterChangeProposal directly (no voting period)", "EpochBlocks >= 2 and EpochsToSave >= 1 (plus the invalid value 0 for EpochBlocks, which must be rejected)", "the parameter-change-free prehistory built before the monitor is armed is trusted for its epoch starts"}, chainAssume...)})
}
