package chainsim

// C03 "a relay session is paid at most once" — and the relay-payment toolkit (c03Kit) that the
// C04, C05 and C18 files build on: every MsgRelayPayment of those properties goes through
// c03Kit.send, which resolves each relay against the pre-state through keeper/query APIs, runs
// the transaction atomically, and evaluates the oracles that the running property enabled.

import (
	"bytes"
	"fmt"
	"sort"
	"strconv"
	"strings"

	"github.com/cosmos/cosmos-sdk/codec"
	codectypes "github.com/cosmos/cosmos-sdk/codec/types"
	sdk "github.com/cosmos/cosmos-sdk/types"
	testkeeper "github.com/lavanet/lava/v5/testutil/keeper"
	"github.com/lavanet/lava/v5/utils/sigs"
	epochstoragetypes "github.com/lavanet/lava/v5/x/epochstorage/types"
	pairingmodule "github.com/lavanet/lava/v5/x/pairing"
	pairingtypes "github.com/lavanet/lava/v5/x/pairing/types"
	projectstypes "github.com/lavanet/lava/v5/x/projects/types"
	"github.com/lavanet/lava/v5/zz_verif/simrt"
)

// ---------- proofs, resolution, transaction record ----------

// c03Proof is one signed relay session as a provider holds it.
type c03Proof struct {
	Rel    *pairingtypes.RelaySession
	Prov   *ProviderActor // provider the proof was made out to
	Signer *Account       // key that signed the relay (badge user for badge relays)
	Cons   *ConsumerActor
	Honest bool   // validly signed by Signer and not modified afterwards
	Paid   bool   // part of an accepted transaction
	Built  uint64 // height when built
	Kind   string // how it was produced ("fresh", "resign_hi", "corrupt:cusum", ...)
	Badge  *c18Badge
	// MustReject != "" : the harness knows from the property statement alone that this relay
	// must not be paid (the string names the reason).
	MustReject string
}

// c03RelInfo is what the chain's own query APIs say about one relay on the pre-state.
type c03RelInfo struct {
	P          *c03Proof
	Idx        int
	SignerAddr string
	SigErr     error
	Client     string // address whose project pays (badge signer for badge relays)
	ViaBadge   *pairingtypes.Badge
	ProjOK     bool
	Project    projectstypes.Project
	EpochStart uint64
	EpochOK    bool
	SubFound   bool
	SubBlock   uint64
	Consumer   string
	Key        string   // epochStart|provider|project|chain|session ("" when unresolvable)
	Invalid    []string // statement preconditions (C05) that do not hold on the pre-state
	PairValid  bool
	AllowedCU  uint64
	Rewarded   uint64 // "rewardedCU.<idx>" event attribute (accepted transactions)
	HasEvent   bool
}

type c03Counter struct {
	name      string
	read      func(ctx sdk.Context) (uint64, bool)
	pre, post uint64
	preOK     bool
	want      uint64 // sum of signed CU of the relays of this transaction that feed the counter
	n         int    // number of relays feeding it
	exact     bool   // false: the expectation cannot be stated (mixed versions); only monotonicity
}

type c03TxInfo struct {
	Kind     string
	Creator  *ProviderActor
	Rels     []*c03RelInfo
	Res      *TxResult
	Height   uint64
	Earliest uint64
	Counters []*c03Counter
	OK       bool
}

// c03Kit holds the ledgers of one run.
type c03Kit struct {
	s      *Sim
	ledger map[string]uint64 // accepted session key -> signed CU
	pool   []*c03Proof
	epochs []uint64 // epoch starts seen (ascending)
	sess   uint64

	checkC03     bool // evaluate the C03 oracles (only in C03 runs; the ledger is kept in every run)
	wantDig      bool // C05: digest around every relay-payment transaction
	preHooks     []func(tx *c03TxInfo, q sdk.Context)
	postHooks    []func(tx *c03TxInfo)
	strangers    []*Account // keys that never belong to any project
	badgeUsers   []*Account
	badges       []*c18Badge
	disabledDevs map[*ConsumerActor]*Account // developer keys reserved for disabled projects (C05)
}

var c03Kits = map[*Sim]*c03Kit{}

func c03KitOf(s *Sim) *c03Kit {
	k := c03Kits[s]
	if k == nil {
		panic("relay toolkit used without c03NewKit")
	}
	return k
}

// c03NewKit must be called right after NewSim (it creates the extra, unfunded accounts).
func c03NewKit(s *Sim) *c03Kit {
	for old := range c03Kits { // one run at a time per process
		delete(c03Kits, old)
	}
	k := &c03Kit{s: s, ledger: map[string]uint64{}, sess: 1 << 32, checkC03: true}
	for i := 0; i < 2; i++ {
		k.strangers = append(k.strangers, s.NewAccount(fmt.Sprintf("stranger%d", i), 0))
	}
	for i := 0; i < 3; i++ {
		k.badgeUsers = append(k.badgeUsers, s.NewAccount(fmt.Sprintf("badgeuser%d", i), 0))
	}
	k.disabledDevs = map[*ConsumerActor]*Account{}
	for i, c := range s.Consumers {
		k.disabledDevs[c] = s.NewAccount(fmt.Sprintf("disdev%d", i), 0)
	}
	k.epochs = append(k.epochs, s.EpochStart())
	s.AfterBlock = append(s.AfterBlock, func(w *World) {
		e := w.EpochStart()
		if e != k.epochs[len(k.epochs)-1] {
			k.epochs = append(k.epochs, e)
			if len(k.epochs) > 64 {
				k.epochs = k.epochs[1:]
			}
		}
	})
	c03Kits[s] = k
	return k
}

// query returns a throw-away context: keeper queries may write (pairing relay cache), and a
// query must never change the chain.
func (k *c03Kit) query() sdk.Context {
	q, _ := k.s.Ctx.CacheContext()
	return q.WithEventManager(sdk.NewEventManager())
}

func (k *c03Kit) nextSession() uint64 { k.sess++; return k.sess }

func c03Key(epochStart uint64, provider, project, chain string, session uint64) string {
	return fmt.Sprintf("%d|%s|%s|%s|%d", epochStart, provider, project, chain, session)
}

// resolve reads, for one relay, what the chain itself derives from it (project of the signer at
// the relay's block, epoch start, subscription version) on the context q.
func (k *c03Kit) resolve(q sdk.Context, idx int, p *c03Proof, all []*c03Proof, creator *ProviderActor) *c03RelInfo {
	s := k.s
	rel := p.Rel
	ri := &c03RelInfo{P: p, Idx: idx}
	addr, err := sigs.ExtractSignerAddress(*rel)
	if err != nil {
		ri.SigErr = err
		ri.Invalid = append(ri.Invalid, "signature")
	} else {
		ri.SignerAddr = addr.String()
		ri.Client = ri.SignerAddr
		// a relay signed by the user of a badge carried by the transaction is a badge relay
		if rel.Epoch >= 0 {
			for _, o := range all {
				b := o.Rel.Badge
				if b == nil || b.Address != ri.SignerAddr || b.Epoch != uint64(rel.Epoch) {
					continue
				}
				baddr, berr := sigs.ExtractSignerAddress(*b)
				if berr != nil {
					continue
				}
				ri.ViaBadge = b
				ri.Client = baddr.String()
				break
			}
		}
	}
	if rel.Provider != creator.Acc.Addr {
		ri.Invalid = append(ri.Invalid, "provider_not_sender")
	}
	if rel.LavaChainId != q.BlockHeader().ChainID {
		ri.Invalid = append(ri.Invalid, "lava_chain_id")
	}
	if ri.ViaBadge != nil && ri.ViaBadge.LavaChainId != q.BlockHeader().ChainID {
		ri.Invalid = append(ri.Invalid, "badge_lava_chain_id")
	}
	if rel.Epoch < 0 || rel.Epoch > q.BlockHeight() {
		ri.Invalid = append(ri.Invalid, "epoch_in_future")
		return ri
	}
	earliest := s.K.Epochstorage.GetEarliestEpochStart(q)
	if uint64(rel.Epoch) < earliest {
		ri.Invalid = append(ri.Invalid, "epoch_out_of_memory")
	}
	if sp, found := s.K.Spec.GetSpec(q, rel.SpecId); !found || !sp.Enabled {
		ri.Invalid = append(ri.Invalid, "spec_disabled")
	}
	if es, _, err := s.K.Epochstorage.GetEpochStartForBlock(q, uint64(rel.Epoch)); err == nil {
		ri.EpochStart, ri.EpochOK = es, true
	}
	if ri.Client == "" {
		return ri
	}
	proj, err := s.K.Projects.GetProjectForDeveloper(q, ri.Client, uint64(rel.Epoch))
	if err != nil {
		ri.Invalid = append(ri.Invalid, "not_a_developer")
		return ri
	}
	ri.ProjOK, ri.Project = true, proj
	if !proj.Enabled {
		ri.Invalid = append(ri.Invalid, "project_disabled")
	}
	sub, entryBlock, found := s.K.Subscription.GetSubscriptionForBlock(q, proj.Subscription, uint64(rel.Epoch))
	if !found {
		ri.Invalid = append(ri.Invalid, "no_subscription")
	} else {
		ri.SubFound, ri.SubBlock, ri.Consumer = true, sub.Block, sub.Consumer
		_ = entryBlock
	}
	if ri.EpochOK {
		ri.Key = c03Key(ri.EpochStart, rel.Provider, proj.Index, rel.SpecId, rel.SessionId)
	}
	// pairing, as the chain's own query answers it for (client, provider, relay block)
	vq, _ := q.CacheContext()
	vres, verr := s.K.Pairing.VerifyPairing(sdk.WrapSDKContext(vq), &pairingtypes.QueryVerifyPairingRequest{ChainID: rel.SpecId, Client: ri.Client, Provider: rel.Provider, Block: uint64(rel.Epoch)})
	if verr == nil && vres != nil && vres.Valid {
		ri.PairValid, ri.AllowedCU = true, vres.CuPerEpoch
	} else {
		ri.Invalid = append(ri.Invalid, "provider_not_paired")
	}
	return ri
}

func (k *c03Kit) counter(tx *c03TxInfo, name string, cu uint64, exact bool, read func(ctx sdk.Context) (uint64, bool)) {
	for _, c := range tx.Counters {
		if c.name == name {
			c.want += cu
			c.n++
			c.exact = c.exact && exact
			return
		}
	}
	tx.Counters = append(tx.Counters, &c03Counter{name: name, read: read, want: cu, n: 1, exact: exact})
}

// send executes one MsgRelayPayment{Creator: creator, Relays: proofs} and evaluates the oracles.
func (k *c03Kit) send(kind string, creator *ProviderActor, proofs []*c03Proof) *c03TxInfo {
	s, r := k.s, k.s.R
	q := k.query()
	tx := &c03TxInfo{Kind: kind, Creator: creator, Height: s.Height(), Earliest: s.K.Epochstorage.GetEarliestEpochStart(q)}
	relays := make([]*pairingtypes.RelaySession, len(proofs))
	epochsOfProject := map[string]map[int64]bool{}
	for i, p := range proofs {
		relays[i] = p.Rel
		ri := k.resolve(q, i, p, proofs, creator)
		tx.Rels = append(tx.Rels, ri)
		if ri.ProjOK {
			if epochsOfProject[ri.Project.Index] == nil {
				epochsOfProject[ri.Project.Index] = map[int64]bool{}
			}
			epochsOfProject[ri.Project.Index][p.Rel.Epoch] = true
		}
	}
	// observable counters named by the property (observe_at), for every key this tx could touch
	for _, ri := range tx.Rels {
		rel := ri.P.Rel
		if !ri.EpochOK || !ri.ProjOK {
			continue
		}
		es, prov, chain, proj, blk := ri.EpochStart, rel.Provider, rel.SpecId, ri.Project.Index, uint64(rel.Epoch)
		k.counter(tx, fmt.Sprintf("ProviderEpochCu|%d|%s|%s", es, s.NameOf(prov), chain), rel.CuSum, true, func(ctx sdk.Context) (uint64, bool) {
			v, found := s.K.Pairing.GetProviderEpochCu(ctx, es, prov, chain)
			return v.ServicedCu, found
		})
		k.counter(tx, fmt.Sprintf("ProviderConsumerEpochCu|%d|%s|%s|%s", es, s.NameOf(prov), c03ProjName(s, proj), chain), rel.CuSum, true, func(ctx sdk.Context) (uint64, bool) {
			v, found := s.K.Pairing.GetProviderConsumerEpochCu(ctx, es, prov, proj, chain)
			return v.Cu, found
		})
		k.counter(tx, fmt.Sprintf("ProjectUsedCu|%s|%d", c03ProjName(s, proj), blk), rel.CuSum, len(epochsOfProject[proj]) == 1, func(ctx sdk.Context) (uint64, bool) {
			v, err := s.K.Projects.GetProjectForBlock(ctx, proj, blk)
			return v.UsedCu, err == nil
		})
		if ri.SubFound {
			cons, sblk := ri.Consumer, ri.SubBlock
			k.counter(tx, fmt.Sprintf("SubMonthCuLeft|%s|%d", s.NameOf(cons), sblk), rel.CuSum, true, func(ctx sdk.Context) (uint64, bool) {
				v, _, found := s.K.Subscription.GetSubscriptionForBlock(ctx, cons, blk)
				return v.MonthCuLeft, found && v.Block == sblk
			})
			k.counter(tx, fmt.Sprintf("TrackedCu|%s|%s|%s|%d", s.NameOf(cons), s.NameOf(prov), chain, sblk), rel.CuSum, true, func(ctx sdk.Context) (uint64, bool) {
				v, _, _ := s.K.Subscription.GetTrackedCu(ctx, cons, prov, chain, sblk)
				return v, true
			})
		}
	}
	for _, c := range tx.Counters {
		c.pre, c.preOK = c.read(q)
	}
	for _, h := range k.preHooks {
		h(tx, q)
	}

	s.WantDigest = k.wantDig
	tx.Res = s.SendRelayPayment(kind, creator, relays)
	s.WantDigest = false
	tx.OK = tx.Res.Err == nil

	post := k.query()
	for _, c := range tx.Counters {
		c.post, _ = c.read(post)
	}
	if tx.OK {
		k.parseEvents(tx)
	}
	var sb strings.Builder
	for i, ri := range tx.Rels {
		rel := ri.P.Rel
		if i > 0 {
			sb.WriteString(" ; ")
		}
		fmt.Fprintf(&sb, "%s sess=%d epoch=%d cu=%d signer=%s proj=%s %s", rel.SpecId, rel.SessionId, rel.Epoch, rel.CuSum, s.NameOf(ri.SignerAddr), c03ProjName(s, ri.Project.Index), ri.P.Kind)
		if ri.ViaBadge != nil {
			fmt.Fprintf(&sb, " badge(alloc=%d)", ri.ViaBadge.CuAllocation)
		}
		if len(ri.Invalid) > 0 {
			fmt.Fprintf(&sb, " invalid=%v", ri.Invalid)
		}
		if tx.OK {
			fmt.Fprintf(&sb, " rewarded=%d", ri.Rewarded)
		}
	}
	r.Logf("%s by %s h=%d [%s]: %s", kind, creator.Acc.Name, tx.Height, sb.String(), c03Short(tx.Res.Err))

	if k.checkC03 {
		k.oraclesC03(tx)
	}
	for _, h := range k.postHooks {
		h(tx)
	}
	// ledger: acknowledged operations only
	if tx.OK {
		for _, ri := range tx.Rels {
			if ri.Key != "" {
				k.ledger[ri.Key] = ri.P.Rel.CuSum
			}
			ri.P.Paid = true
		}
	}
	return tx
}

// c03Short renders an error for the schedule log without the attribute dump (whose order comes
// from a Go map inside lava's logger and would make the trace differ between processes).
func c03Short(err error) string {
	if err == nil {
		return "ok"
	}
	e := err.Error()
	if i := strings.Index(e, "{"); i >= 0 {
		e = e[:i]
	}
	if len(e) > 110 {
		e = e[:110]
	}
	return "ERR " + strings.TrimSpace(e)
}

func c03ProjName(s *Sim, index string) string {
	if i := strings.LastIndex(index, "-"); i > 0 {
		return s.NameOf(index[:i]) + index[i:]
	}
	return index
}

func (k *c03Kit) parseEvents(tx *c03TxInfo) {
	for _, ev := range tx.Res.Events {
		if ev.Type != "lava_"+pairingtypes.RelayPaymentEventName {
			continue
		}
		for _, a := range ev.Attributes {
			if !strings.HasPrefix(a.Key, "rewardedCU.") {
				continue
			}
			idx, err := strconv.Atoi(strings.TrimPrefix(a.Key, "rewardedCU."))
			v, err2 := strconv.ParseUint(a.Value, 10, 64)
			if err == nil && err2 == nil && idx >= 0 && idx < len(tx.Rels) {
				tx.Rels[idx].Rewarded, tx.Rels[idx].HasEvent = v, true
			}
		}
	}
}

// dryRun executes the message on a discarded cache context (and restores the mock bank): used
// for twins. It returns the error and the context it ran on (for reading counters).
func (k *c03Kit) dryRun(creator *ProviderActor, relays []*pairingtypes.RelaySession) (sdk.Context, error) {
	s := k.s
	snap := testkeeper.VerifBankSnapshot()
	cctx, _ := s.Ctx.CacheContext()
	cctx = cctx.WithEventManager(sdk.NewEventManager())
	msg := &pairingtypes.MsgRelayPayment{Creator: creator.Acc.Addr, Relays: relays, DescriptionString: "sim"}
	var err error
	func() {
		defer func() {
			if p := recover(); p != nil {
				if simrt.IsSimPanic(p) {
					panic(p)
				}
				err = fmt.Errorf("panic: %v", p)
			}
		}()
		_, err = s.S.PairingServer.RelayPayment(cctx, msg)
	}()
	testkeeper.VerifBankRestore(snap)
	return cctx, err
}

// ---------- C03 oracles ----------

func (k *c03Kit) oraclesC03(tx *c03TxInfo) {
	s, r := k.s, k.s.R
	if tx.OK {
		seen := map[string]int{}
		for _, ri := range tx.Rels {
			rel := ri.P.Rel
			// (1) an accepted transaction never contains an already-paid session
			if ri.Key == "" {
				// accepted although the chain's own queries could not resolve it: C05 territory; for
				// C03 it cannot be put in the ledger.
				r.Probe("c03_accepted_unresolvable")
				continue
			}
			_, dup := k.ledger[ri.Key]
			r.Check(!dup, "c03-session-paid-twice", "resubmitted:"+c03KindClass(ri.P.Kind),
				"session %s (epochStart|provider|project|chain|session) was accepted again at height %d in tx %s; first payment was for cu=%d, this one cu=%d", c03KeyName(s, ri.Key), tx.Height, tx.Kind, k.ledger[ri.Key], rel.CuSum)
			prev, again := seen[ri.Key]
			r.Check(!again, "c03-session-paid-twice", "same_tx",
				"session %s appears as relay #%d and #%d of one accepted transaction (height %d)", c03KeyName(s, ri.Key), prev, ri.Idx, tx.Height)
			seen[ri.Key] = ri.Idx
			// (2) after the epoch left chain memory it can no longer be credited
			r.Check(uint64(rel.Epoch) >= tx.Earliest, "c03-paid-out-of-memory", "epoch_lt_earliest",
				"relay for epoch %d accepted at height %d although GetEarliestEpochStart=%d", rel.Epoch, tx.Height, tx.Earliest)
			if ri.P.Built < tx.Height {
				r.Probe("c03_paid_in_later_block")
			}
			if ri.EpochStart < s.EpochStart() {
				r.Probe("c03_paid_in_later_epoch")
			}
		}
	}
	// (3) observable counters move by exactly the newly accepted sessions
	for _, c := range tx.Counters {
		kind := c.name[:strings.Index(c.name, "|")]
		if !tx.OK {
			r.Check(c.post == c.pre, "c03-counter-moved-by-rejected-tx", kind,
				"%s changed %d -> %d although tx %s was rejected (%v)", c.name, c.pre, c.post, tx.Kind, tx.Res.Err)
			continue
		}
		switch kind {
		case "ProviderEpochCu", "ProviderConsumerEpochCu":
			r.Check(c.post-c.pre == c.want && c.post >= c.pre, "c03-counter-mismatch", kind,
				"%s moved %d -> %d, accepted sessions of the tx sign %d CU in %d relays", c.name, c.pre, c.post, c.want, c.n)
		case "ProjectUsedCu":
			if c.exact {
				r.Check(c.post-c.pre == c.want && c.post >= c.pre, "c03-counter-mismatch", kind,
					"%s moved %d -> %d, accepted sessions of the tx sign %d CU in %d relays", c.name, c.pre, c.post, c.want, c.n)
			} else {
				r.Check(c.post >= c.pre && c.post-c.pre >= c.want, "c03-counter-mismatch", kind+"_mixed_epochs",
					"%s moved %d -> %d, accepted sessions of that version sign %d CU", c.name, c.pre, c.post, c.want)
			}
		case "SubMonthCuLeft":
			want := uint64(0)
			if c.pre > c.want {
				want = c.pre - c.want
			}
			r.Check(c.post == want, "c03-counter-mismatch", kind,
				"%s moved %d -> %d, accepted sessions of the tx sign %d CU (expected %d left)", c.name, c.pre, c.post, c.want, want)
		case "TrackedCu":
			// the amount credited per session is C04's business (credit <= signed CU), not C03's
		}
	}
	// (4) a session that is not in the ledger is not treated as paid: if the transaction was
	// refused, the same relays with brand-new session ids must be refused too (the session id has
	// no meaning other than identifying the session). Covers: rolled-back transactions do not
	// burn their sessions; the same session id under another project is another session.
	if !tx.OK {
		fresh := len(tx.Rels) > 0
		seen := map[string]bool{}
		for _, ri := range tx.Rels {
			if !ri.P.Honest || ri.P.Signer == nil || ri.Key == "" || seen[ri.Key] {
				fresh = false
				break
			}
			if _, paid := k.ledger[ri.Key]; paid {
				fresh = false
				break
			}
			seen[ri.Key] = true
		}
		if fresh {
			twins := make([]*pairingtypes.RelaySession, len(tx.Rels))
			for i, ri := range tx.Rels {
				cp := *ri.P.Rel
				cp.SessionId = k.nextSession()
				cp.Sig = nil
				sig, err := sigs.Sign(ri.P.Signer.SK, cp)
				if err != nil {
					panic(err)
				}
				cp.Sig = sig
				twins[i] = &cp
			}
			_, terr := k.dryRun(tx.Creator, twins)
			r.Check(terr != nil, "c03-unpaid-session-refused", c03KindClass(tx.Rels[0].P.Kind),
				"tx %s with never-paid sessions was refused (%v) but the identical relays with fresh session ids are accepted: an unpaid session is treated as paid (first: %s)", tx.Kind, tx.Res.Err, c03KeyName(s, tx.Rels[0].Key))
			r.Probe("c03_twin_checked")
		}
	}
}

// c03KindClass strips run-specific details from a proof kind for stable signatures.
func c03KindClass(kind string) string {
	if i := strings.Index(kind, "#"); i >= 0 {
		kind = kind[:i]
	}
	return kind
}

func c03KeyName(s *Sim, key string) string {
	parts := strings.Split(key, "|")
	if len(parts) != 5 {
		return key
	}
	return fmt.Sprintf("%s|%s|%s|%s|%s", parts[0], s.NameOf(parts[1]), c03ProjName(s, parts[2]), parts[3], parts[4])
}

// ---------- building proofs ----------

func (k *c03Kit) sign(rs RelaySpec) *pairingtypes.RelaySession { return k.s.BuildRelay(rs) }

func (k *c03Kit) build(c *ConsumerActor, signer *Account, p *ProviderActor, spec string, epoch int64, session, cu uint64, kind string) *c03Proof {
	rel := k.s.BuildRelay(RelaySpec{Consumer: c, Signer: signer, Provider: p, Spec: spec, Epoch: epoch, Session: session, CuSum: cu, RelayNum: 1})
	pr := &c03Proof{Rel: rel, Prov: p, Signer: signer, Cons: c, Honest: true, Built: k.s.Height(), Kind: kind}
	return pr
}

func (k *c03Kit) remember(p *c03Proof) {
	k.pool = append(k.pool, p)
	if len(k.pool) > 48 {
		k.pool = k.pool[1:]
	}
}

// resign makes a new validly signed relay from an existing one after edit() changed it.
func (k *c03Kit) resign(p *c03Proof, signer *Account, kind string, edit func(rel *pairingtypes.RelaySession)) *c03Proof {
	cp := *p.Rel
	cp.Sig = nil
	edit(&cp)
	sig, err := sigs.Sign(signer.SK, cp)
	if err != nil {
		panic(err)
	}
	cp.Sig = sig
	return &c03Proof{Rel: &cp, Prov: p.Prov, Signer: signer, Cons: p.Cons, Honest: true, Built: k.s.Height(), Kind: kind, Badge: p.Badge}
}

// payable picks (consumer, signer, spec, provider) such that the provider is in the signer's
// current pairing. ok=false when the tape's choice has no pairing right now.
func (k *c03Kit) payable() (c *ConsumerActor, signer *Account, spec string, p *ProviderActor, ok bool) {
	s := k.s
	for try := 0; try < 3; try++ {
		c = s.pickCons()
		signer = s.signerFor(c)
		spec = s.pickSpec().Index
		paired := s.pairedProvidersFor(signer, spec)
		if len(paired) > 0 {
			return c, signer, spec, paired[s.R.Draw("ops", len(paired))], true
		}
	}
	return c, signer, spec, s.pickProv(), false
}

func (k *c03Kit) drawCu() uint64 {
	r := k.s.R
	switch r.Draw("ops", 8) {
	case 7:
		return uint64(1 + r.Draw("ops", 200000))
	case 6:
		return uint64(1 + r.Draw("ops", 20))
	default:
		return uint64(1 + r.Draw("ops", 2000))
	}
}

func (k *c03Kit) fresh(kind string) *c03Proof {
	c, signer, spec, p, ok := k.payable()
	if !ok {
		k.s.R.Probe("c03_no_pairing_now")
	}
	return k.build(c, signer, p, spec, int64(k.s.EpochStart()), k.nextSession(), k.drawCu(), kind)
}

// abortingRelay returns a relay that makes any transaction containing it fail.
func (k *c03Kit) abortingRelay(p *ProviderActor) *c03Proof {
	s, r := k.s, k.s.R
	c := s.pickCons()
	spec := s.pickSpec().Index
	switch r.Draw("ops", 4) {
	case 0: // signed by a key that is nobody's developer
		pr := k.build(c, k.strangers[0], p, spec, int64(s.EpochStart()), k.nextSession(), k.drawCu(), "abort:stranger")
		pr.MustReject = "not_a_developer"
		return pr
	case 1: // wrong lava chain
		pr := k.build(c, s.signerFor(c), p, spec, int64(s.EpochStart()), k.nextSession(), k.drawCu(), "abort:lavachain")
		pr = k.resign(pr, pr.Signer, "abort:lavachain", func(rel *pairingtypes.RelaySession) { rel.LavaChainId = "lava-other" })
		pr.MustReject = "lava_chain_id"
		return pr
	case 2: // epoch in the future
		pr := k.build(c, s.signerFor(c), p, spec, int64(s.NextEpochBlock()), k.nextSession(), k.drawCu(), "abort:future")
		pr.MustReject = "epoch_in_future"
		return pr
	default: // an already paid proof of this provider, if any
		for i := len(k.pool) - 1; i >= 0; i-- {
			if k.pool[i].Paid && k.pool[i].Prov == p {
				cp := *k.pool[i]
				cp.Kind = "abort:paid_proof"
				return &cp
			}
		}
		pr := k.build(c, k.strangers[1], p, spec, int64(s.EpochStart()), k.nextSession(), k.drawCu(), "abort:stranger")
		pr.MustReject = "not_a_developer"
		return pr
	}
}

// ---------- operations ----------

// opC03Relay: honest and dishonest relay-payment behaviour of providers.
func (s *Sim) opC03Relay() {
	k := c03KitOf(s)
	r := s.R
	mode := r.Draw("ops", 16)
	switch {
	case mode <= 4: // honest: claim a fresh session (sometimes a batch of the same provider)
		a := k.fresh("fresh")
		batch := []*c03Proof{a}
		if r.Chance("ops", 1, 4) {
			n := 1 + r.Draw("ops", 2)
			for i := 0; i < n; i++ {
				c := s.pickCons()
				batch = append(batch, k.build(c, s.signerFor(c), a.Prov, s.pickSpec().Index, int64(s.EpochStart()), k.nextSession(), k.drawCu(), "fresh"))
			}
		}
		for _, p := range batch {
			k.remember(p)
		}
		k.send("relay", a.Prov, batch)
	case mode == 5: // serve now, claim later: proofs are kept by the provider
		n := 1 + r.Draw("ops", 3)
		for i := 0; i < n; i++ {
			k.remember(k.fresh("delayed"))
		}
		r.Logf("provider keeps %d proofs for later (epoch %d)", n, s.EpochStart())
		r.Op("keep_proofs", "ok")
	case mode == 6: // the same proof twice inside one transaction
		a := k.fresh("dup_same_tx")
		k.remember(a)
		r.Fault("c03_dup_same_tx")
		k.send("relay_dup_same_tx", a.Prov, []*c03Proof{a, a})
	case mode == 7: // a proof, and the same proof again in the same block
		a := k.fresh("fresh")
		k.remember(a)
		tx := k.send("relay", a.Prov, []*c03Proof{a})
		if tx.OK {
			r.Fault("c03_resubmit_same_block")
		}
		b := *a
		b.Kind = "resubmit_same_block"
		k.send("relay_resubmit", a.Prov, []*c03Proof{&b})
	case mode <= 10: // resubmission of a kept proof (paid or not) in a later block / epoch
		if len(k.pool) == 0 {
			s.OpBlocks()
			return
		}
		p := k.pool[r.Draw("ops", len(k.pool))]
		cp := *p
		if p.Paid {
			cp.Kind = "resubmit_paid"
			r.Fault("c03_resubmit_paid")
			if p.Rel.Epoch < int64(s.EpochStart()) {
				r.Fault("c03_resubmit_paid_later_epoch")
			}
		} else {
			cp.Kind = "late_claim"
		}
		if uint64(p.Rel.Epoch) < s.K.Epochstorage.GetEarliestEpochStart(s.Ctx) {
			r.Fault("c03_claim_out_of_memory")
		}
		tx := k.send("relay_kept", p.Prov, []*c03Proof{&cp})
		if tx.OK {
			p.Paid = true
		}
	case mode == 11: // re-signed with a different cumulative CU
		if len(k.pool) == 0 {
			s.OpBlocks()
			return
		}
		p := k.pool[r.Draw("ops", len(k.pool))]
		if p.Signer == nil {
			return
		}
		up := r.Chance("ops", 1, 2)
		kind := "resign_lower_cu"
		if up {
			kind = "resign_higher_cu"
		}
		np := k.resign(p, p.Signer, kind, func(rel *pairingtypes.RelaySession) {
			if up {
				rel.CuSum += uint64(1 + r.Draw("ops", 500))
			} else if rel.CuSum > 1 {
				rel.CuSum = 1 + uint64(r.Draw("ops", int(rel.CuSum-1)))
			} else {
				rel.CuSum++
			}
			rel.RelayNum++
		})
		if p.Paid {
			r.Fault("c03_resigned_cu_of_paid_session")
		}
		k.send("relay_resigned", p.Prov, []*c03Proof{np})
	case mode == 12: // the same session id signed by another key (same project / other project / other consumer)
		if len(k.pool) == 0 {
			s.OpBlocks()
			return
		}
		p := k.pool[r.Draw("ops", len(k.pool))]
		c := p.Cons
		if r.Chance("ops", 1, 3) {
			c = s.pickCons()
		}
		signer := s.signerFor(c)
		np := k.resign(p, signer, "same_id_other_key", func(rel *pairingtypes.RelaySession) {})
		np.Cons = c
		r.Fault("c03_same_session_id_other_key")
		k.remember(np)
		tx := k.send("relay_other_key", p.Prov, []*c03Proof{np})
		if tx.OK {
			r.Probe("c03_same_session_id_other_project_paid") // another project: another session
		} else if len(tx.Rels) == 1 && tx.Rels[0].Key != "" {
			if _, paid := k.ledger[tx.Rels[0].Key]; paid {
				r.Probe("c03_same_session_id_same_project_refused")
			}
		}
	case mode == 13: // a good relay in a transaction that aborts; afterwards it is claimed alone
		a := k.fresh("fresh_in_aborted_tx")
		k.remember(a)
		bad := k.abortingRelay(a.Prov)
		batch := []*c03Proof{a, bad}
		if r.Chance("ops", 1, 2) {
			batch = []*c03Proof{bad, a}
		}
		tx := k.send("relay_mixed_abort", a.Prov, batch)
		if !tx.OK {
			r.Fault("c03_tx_aborted_midway")
		}
		if r.Chance("ops", 2, 3) {
			b := *a
			b.Kind = "claim_after_abort"
			tx2 := k.send("relay_after_abort", a.Prov, []*c03Proof{&b})
			if tx2.OK {
				a.Paid = true
				r.Probe("c03_paid_after_aborted_tx")
			}
		}
	case mode == 14: // a fresh proof together with a kept one
		if len(k.pool) == 0 {
			s.OpBlocks()
			return
		}
		p := k.pool[r.Draw("ops", len(k.pool))]
		c := s.pickCons()
		a := k.build(c, s.signerFor(c), p.Prov, s.pickSpec().Index, int64(s.EpochStart()), k.nextSession(), k.drawCu(), "fresh_with_kept")
		k.remember(a)
		cp := *p
		cp.Kind = "kept_with_fresh"
		if p.Paid {
			cp.Kind = "paid_with_fresh"
			r.Fault("c03_paid_proof_mixed_with_fresh")
		}
		tx := k.send("relay_fresh_plus_kept", p.Prov, []*c03Proof{a, &cp})
		if tx.OK {
			p.Paid = true
		}
	default: // claim for a past epoch: any epoch start seen, in memory or not
		c, signer, spec, p, _ := k.payable()
		e := k.epochs[r.Draw("ops", len(k.epochs))]
		if e < s.K.Epochstorage.GetEarliestEpochStart(s.Ctx) {
			r.Fault("c03_claim_out_of_memory")
		}
		a := k.build(c, signer, p, spec, int64(e), k.nextSession(), k.drawCu(), "past_epoch")
		k.remember(a)
		k.send("relay_past_epoch", p, []*c03Proof{a})
	}
}

// opC03Epochs: long block progress so that epochs really leave memory.
func (s *Sim) opC03Epochs() {
	r := s.R
	n := 1 + r.Draw("ops", 5)
	if r.Chance("ops", 1, 4) {
		n += 8
	}
	bt := s.BlockTimeDefault()
	for i := 0; i < n; i++ {
		s.AdvanceToNextEpoch(bt / 2)
	}
	r.Logf("epochs +%d -> h=%d epochStart=%d earliest=%d", n, s.Height(), s.EpochStart(), s.K.Epochstorage.GetEarliestEpochStart(s.Ctx))
	r.Op("epochs", "ok")
}

// opC03Params: governance changes epochs-to-save / epoch-blocks while proofs are pending.
func (s *Sim) opC03Params() {
	r := s.R
	key, val := string(epochstoragetypes.KeyEpochsToSave), uint64(2+r.Draw("ops", 11))
	if r.Chance("ops", 1, 3) {
		key, val = string(epochstoragetypes.KeyEpochBlocks), []uint64{20, 10, 15, 30, 40}[r.Draw("ops", 5)]
	}
	res := s.Tx("gov_param", nil, func(ctx sdk.Context) error {
		return testkeeper.SimulateParamChange(ctx, s.K.ParamsKeeper, epochstoragetypes.ModuleName, key, "\""+strconv.FormatUint(val, 10)+"\"")
	})
	out := "ok"
	if res.Err != nil {
		out = "rejected"
	} else {
		r.Fault("gov_param_" + key)
	}
	r.Op("gov_param", out)
	r.Logf("gov param %s=%d at h=%d: %s", key, val, s.Height(), c03Short(res.Err))
}

// ---------- fault: crash / restart of the chain from an exported genesis ----------
//
// Between two blocks the chain is stopped, its state exported (ExportGenesis, serialised as the
// genesis JSON) and a new chain started from it (InitGenesis): only what the export carries
// survives. Here this is done for the pairing module, which owns the replay protection: its store
// is emptied and rebuilt from its own exported genesis. The history then simply continues: every
// proof the providers kept (paid or not) may come back afterwards, and the ledger of paid sessions
// is of course not reset. The restart itself must also be invisible in the state the property
// names (paid-session markers and the CU counters of observe_at).

var c03JSON = codec.NewProtoCodec(codectypes.NewInterfaceRegistry())

// c03HardPrefixes: the parts of the pairing store that the statement / observe_at name.
var c03HardPrefixes = []string{pairingtypes.UniqueEpochSessionPrefix, pairingtypes.ProviderEpochCuPrefix, pairingtypes.ProviderConsumerEpochCuPrefix}

func c03StorePrefix(key []byte) string {
	if i := bytes.IndexByte(key, '/'); i > 0 && i < 40 {
		return string(key[:i+1])
	}
	if len(key) > 12 {
		return fmt.Sprintf("%x", key[:12])
	}
	return fmt.Sprintf("%x", key)
}

type c03KV struct{ k, v []byte }

func (k *c03Kit) dumpStore(ctx sdk.Context, name string) ([]c03KV, bool) {
	key, ok := k.s.storeKey[name]
	if !ok {
		return nil, false
	}
	var out []c03KV
	it := ctx.KVStore(key).Iterator(nil, nil)
	for ; it.Valid(); it.Next() {
		out = append(out, c03KV{append([]byte(nil), it.Key()...), append([]byte(nil), it.Value()...)})
	}
	it.Close()
	return out, true
}

// armRestarts installs the fault: per run the tape (stream "c03gen", 0 = never) picks how often a
// block boundary is a restart.
func (k *c03Kit) armRestarts() {
	s, r := k.s, k.s.R
	den := []int{0, 64, 24, 8}[r.Draw("c03gen", 4)]
	if den == 0 {
		return
	}
	s.AfterBlock = append(s.AfterBlock, func(w *World) {
		if r.Draw("c03gen", den) == den-1 {
			k.genesisRestart()
		}
	})
}

func (k *c03Kit) genesisRestart() {
	s, r := k.s, k.s.R
	ctx := s.Ctx.WithEventManager(sdk.NewEventManager())
	before, ok := k.dumpStore(ctx, pairingtypes.StoreKey)
	if !ok {
		r.Probe("c03_genesis_no_store_access")
		return
	}
	exported := pairingmodule.ExportGenesis(ctx, s.K.Pairing)
	bz := c03JSON.MustMarshalJSON(exported)
	var imported pairingtypes.GenesisState
	c03JSON.MustUnmarshalJSON(bz, &imported)
	if err := imported.Validate(); err != nil {
		// `lavad validate-genesis` would complain; InitChain itself never validates. Not C03's business.
		r.Probe("c03_genesis_export_fails_validate")
	}
	store := ctx.KVStore(s.storeKey[pairingtypes.StoreKey])
	for _, kv := range before {
		store.Delete(kv.k)
	}
	pairingmodule.InitGenesis(ctx, s.K.Pairing, imported)
	after, _ := k.dumpStore(ctx, pairingtypes.StoreKey)
	r.Fault("c03_genesis_restart")
	nMarkers := 0
	for _, kv := range before {
		if bytes.HasPrefix(kv.k, []byte(pairingtypes.UniqueEpochSessionPrefix)) {
			nMarkers++
		}
	}
	if nMarkers > 0 {
		r.Fault("c03_genesis_restart_with_paid_sessions")
	}
	r.Logf("genesis restart of x/pairing at h=%d: %d store entries (%d paid-session markers) exported as %d bytes, %d entries after import", s.Height(), len(before), nMarkers, len(bz), len(after))

	// (a) nothing of the state the property names is lost, added or changed by the restart
	hard := func(pfx string) bool {
		for _, h := range c03HardPrefixes {
			if pfx == h {
				return true
			}
		}
		return false
	}
	report := func(what string, key, was, is []byte) {
		pfx := c03StorePrefix(key)
		if !hard(pfx) {
			r.Probe("c03_genesis_roundtrip_differs:" + what + ":" + pfx) // seen on the unchanged tree: only "added" bookkeeping keys that timer/fixation stores otherwise create lazily (next-timeout = max, version)
			r.Logf("   restart: store entry %s %q: %x -> %x", what, key, was, is)
			return
		}
		r.Fail("c03-restart-changed-paid-sessions", what+":"+pfx,
			"genesis export + import of x/pairing at height %d: store entry %q (%s) value %x -> %x; %d entries before, %d after", s.Height(), key, what, was, is, len(before), len(after))
	}
	i, j := 0, 0
	for i < len(before) || j < len(after) {
		switch {
		case j >= len(after) || (i < len(before) && bytes.Compare(before[i].k, after[j].k) < 0):
			report("lost", before[i].k, before[i].v, nil)
			i++
		case i >= len(before) || bytes.Compare(before[i].k, after[j].k) > 0:
			report("added", after[j].k, nil, after[j].v)
			j++
		default:
			if !bytes.Equal(before[i].v, after[j].v) {
				report("changed", before[i].k, before[i].v, after[j].v)
			}
			i++
			j++
		}
	}
	r.OracleEvals++
	// (b) the restarted chain exports what it was started from
	again := pairingmodule.ExportGenesis(ctx, s.K.Pairing)
	r.Check(len(again.UniqueEpochSessions) == len(exported.UniqueEpochSessions) && fmt.Sprint(again.UniqueEpochSessions) == fmt.Sprint(exported.UniqueEpochSessions),
		"c03-restart-changed-paid-sessions", "re-export:"+pairingtypes.UniqueEpochSessionPrefix,
		"genesis export -> import -> export of x/pairing at height %d: %d paid-session markers exported first, %d after the import", s.Height(), len(exported.UniqueEpochSessions), len(again.UniqueEpochSessions))
	if !bytes.Equal(c03JSON.MustMarshalJSON(again), bz) {
		r.Probe("c03_genesis_reexport_differs")
	}
}

// ---------- the property ----------

func c03Weights() map[string]int {
	w := baseWeights()
	w["relay"] = 0 // every relay payment goes through the toolkit
	w["c03relay"] = 40
	w["c03epochs"] = 4
	w["c03params"] = 2
	w["c18badge"] = 6 // mixed with badge relays
	return w
}

func runC03(r *simrt.Run) {
	cfg := mkCfg(r, c03Weights(), 80, 400)
	if cfg.Weights["c03relay"] < 20 {
		cfg.Weights["c03relay"] = 20
	}
	s := NewSim(r, cfg)
	k := c03NewKit(s)
	defer delete(c03Kits, s)
	c18Attach(k, false) // badge relays take part in the workload; C18's oracles are not evaluated here
	defer delete(c18States, k)
	k.armRestarts()
	s.RunHistory()
}

func c03NonTrivial(r *simrt.Run) bool {
	return r.Ops["relay:ok"] >= 2 && r.FaultsFired() >= 2 && r.OKOps() >= 10
}

func init() {
	AddOp("c03relay", (*Sim).opC03Relay)
	AddOp("c03epochs", (*Sim).opC03Epochs)
	AddOp("c03params", (*Sim).opC03Params)
	simrt.Register("C03", &simrt.PropSpec{Fn: runC03, NonTrivial: c03NonTrivial,
		Rule: "tape-generated multi-actor histories (stake/freeze/unstake, subscriptions, projects, keys, policies, delegations) in which every MsgRelayPayment is built by the harness: honest claims (single, batches, kept and claimed in later blocks/epochs, claims for past epochs) and dishonest ones (same proof twice in one tx, again in the same block, in later blocks and epochs, re-signed with higher/lower CuSum, same session id signed by another key of the same/another project, good relays inside a tx that aborts and claimed again afterwards, kept+fresh mixes), mixed with badge relays (several per tx, overuse attempts, forged badges), with multi-epoch block progress and governance changes of EpochsToSave/EpochBlocks while proofs are pending, and (fault, tape-chosen rate per run, at block boundaries) crash/restart of x/pairing from its own exported genesis (ExportGenesis -> JSON -> store emptied -> InitGenesis) after which kept and paid proofs keep coming back; the restart must leave the paid-session markers and the ProviderEpochCu / ProviderConsumerEpochCu counters byte-identical and re-export the same markers. Ledger = accepted (epochStart, provider, project, chain, session) as resolved by the chain's own project/epoch queries on the pre-state. Non-trivial = >=2 paid relay txs, >=2 fired duplicate/abort/param faults, >=10 accepted ops; distinct = (op,outcome,fault) sequence hash",
		Real: chainReal, Stubbed: chainStub, Assume: append([]string{"a MsgRelayPayment is rejected as a whole when any of its relays is rejected (current handler behaviour: rejectedRelaysNum != 0), so every relay of an accepted transaction is a paid relay", "a restart from exported genesis is modelled for the pairing module only (the other modules keep their stores) and at the start of a block (after BeginBlock, before any transaction; the per-block pairing relay cache is empty there); bookkeeping keys that timer/fixation stores create lazily may appear in the rebuilt store and are not judged"}, chainAssume...)})
}

var _ = sort.Strings
