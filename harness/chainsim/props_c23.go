package chainsim

// C23: delegation credit is a bounded time-weighted average.

import (
	"fmt"
	"sort"
	"time"

	"cosmossdk.io/math"
	sdk "github.com/cosmos/cosmos-sdk/types"
	dualstakingtypes "github.com/lavanet/lava/v5/x/dualstaking/types"
	"github.com/lavanet/lava/v5/zz_verif/simrt"
)

const c23Window = 30 * 24 * time.Hour

// ---------- time-structured delegation workload ----------

var c23Gaps = []time.Duration{
	10 * time.Minute, 59 * time.Minute, 61 * time.Minute, 3 * time.Hour, 24 * time.Hour, 5 * 24 * time.Hour,
	15 * 24 * time.Hour, 29 * 24 * time.Hour, 30*24*time.Hour - time.Hour, 30 * 24 * time.Hour, 30*24*time.Hour + time.Hour, 36 * 24 * time.Hour,
}

// c23Advance moves the chain clock forward by about d (short gaps: one block; long gaps: slow blocks).
func (s *Sim) c23Advance(d time.Duration) {
	if d <= MaxBlockGap {
		s.NextBlock(d)
		return
	}
	end := s.Now().Add(d)
	for guard := 0; guard < 2000; guard++ {
		left := end.Sub(s.Now())
		if left <= 0 {
			break
		}
		gap := time.Duration(6+s.R.Draw("ops", 7)) * time.Hour
		if gap > left {
			gap = left
		}
		s.NextBlock(gap)
	}
}

// opC23Pulse: one delegator changes one delegation several times with tape-chosen gaps (same hour,
// around one hour, days, around 30 days, more than 30 days).
func (s *Sim) opC23Pulse() {
	r := s.R
	d := s.pickDeleg()
	if r.Chance("ops", 1, 5) {
		d = s.pickProv().Vault
	}
	// a staked provider
	ents := s.c07Entries()
	if len(ents) == 0 {
		r.Op("c23_pulse", "none")
		return
	}
	prov := ents[r.Draw("ops", len(ents))].Address
	val := s.pickVal()
	n := 2 + r.Draw("ops", 4)
	r.Logf("c23_pulse: %s on %s via %s, %d changes", d.Name, s.NameOf(prov), val.Name, n)
	for i := 0; i < n; i++ {
		cur := math.ZeroInt()
		if dl, found := s.K.Dualstaking.GetDelegation(s.Ctx, prov, d.Addr); found {
			cur = dl.Amount.Amount
		}
		var res *TxResult
		var what string
		if cur.IsPositive() && r.Chance("ops", 1, 2) {
			// decrease: to a small remainder, by half, or everything
			var amount int64
			switch r.Draw("ops", 4) {
			case 0:
				amount = i64(cur) - int64(1+r.Draw("ops", 20))
			case 1:
				amount = i64(cur) / 2
			case 2:
				amount = i64(cur)
			default:
				amount = 1 + int64(r.Draw("ops", int(minI64(i64(cur), 1<<30))))
			}
			if amount < 1 {
				amount = 1
			}
			msg := &dualstakingtypes.MsgUnbond{Creator: d.Addr, Validator: c06Val(val).String(), Provider: prov, ChainID: "c", Amount: s.Coin(amount)}
			what = fmt.Sprintf("unbond %d of %s", amount, cur)
			res = s.c06Tx("c23_unbond", msg)
		} else {
			amount := int64(1 + r.Draw("ops", 100))
			if r.Chance("ops", 1, 2) {
				amount = int64(1000 * (1 + r.Draw("ops", 1000)))
			}
			msg := &dualstakingtypes.MsgDelegate{Creator: d.Addr, Validator: c06Val(val).String(), Provider: prov, ChainID: "c", Amount: s.Coin(amount)}
			what = fmt.Sprintf("delegate %d on top of %s", amount, cur)
			res = s.c06Tx("c23_delegate", msg)
		}
		gap := c23Gaps[r.Draw("ops", len(c23Gaps))]
		r.Logf("   c23_pulse %s: %s; then wait %s", what, short(res.Err), gap)
		s.c23Advance(gap)
		if gap > c23Window {
			r.Probe("c23_gap_over_30_days")
		} else if gap < time.Hour {
			r.Probe("c23_change_within_the_hour")
		}
	}
	r.Op("c23_pulse", "ok")
	r.Logf("   c23_pulse done -> h=%d t=%s", s.Height(), s.Now().Format(time.RFC3339))
}

// ---------- ledger + oracle ----------

type c23Event struct {
	T      int64 // unix seconds (block time of the observation that saw the change)
	Amount math.Int
}

type c23Track struct {
	events    []c23Event
	recordTS  int64 // Timestamp field of the record when last read
	lastTouch int64 // block time when the record was last seen changed in any way (amount or timestamp)
	// every moment the record was seen changed in any way (amount, Timestamp, created, removed), in
	// order; two neighbours 30 days or more apart delimit a period in which the delegation was left
	// unchanged for 30 days or more
	touches []int64
}

// touch records that the record was seen changed at block time `now`.
func (t *c23Track) touch(now int64) {
	t.lastTouch = now
	if n := len(t.touches); n == 0 || t.touches[n-1] != now {
		t.touches = append(t.touches, now)
	}
}

// freshFrom returns the index of the first ledger event that belongs to the "fresh" part of the
// history as seen from an evaluation at `at`: the amount that was in effect during the latest
// period of 30 days or more without any change of the record (the statement: such a delegation's
// credit equals its amount, whatever happened before), or the latest removal of the record,
// whichever is later; 0 when there is neither.
func (t *c23Track) freshFrom(at int64) int {
	win := int64(c23Window / time.Second)
	idleStart := int64(-1)
	for i := 0; i < len(t.touches) && t.touches[i] <= at; i++ {
		end := at
		if i+1 < len(t.touches) && t.touches[i+1] < at {
			end = t.touches[i+1]
		}
		if end-t.touches[i] >= win {
			idleStart = t.touches[i]
		}
	}
	idx := 0
	for i, e := range t.events {
		if e.T > at {
			break
		}
		if idleStart >= 0 && e.T <= idleStart {
			idx = i // the amount in effect when that period began
		}
		if e.Amount.IsZero() && i > idx {
			idx = i
		}
	}
	return idx
}

type c23Mon struct {
	s      *Sim
	tracks map[string]*c23Track
	blocks int
}

func newC23Mon(s *Sim) *c23Mon {
	m := &c23Mon{s: s, tracks: map[string]*c23Track{}}
	m.observe("arm", true)
	s.AfterTx = append(s.AfterTx, func(w *World, tx *TxResult) { m.observe("tx:"+tx.Name, true) })
	s.AfterBlock = append(s.AfterBlock, func(w *World) {
		m.blocks++
		m.observe("block", m.blocks%8 == 0)
	})
	return m
}

// maxHeld returns the largest amount in effect at some moment of [from, to] according to the
// ledger (closed interval: an amount replaced exactly at `from` still counts), extending the last
// amount to `to`.
func (t *c23Track) maxHeld(from, to int64) math.Int {
	max := math.ZeroInt()
	for i, e := range t.events {
		end := to
		if i+1 < len(t.events) {
			end = t.events[i+1].T
		}
		if e.T > to || end < from {
			continue
		}
		if e.Amount.GT(max) {
			max = e.Amount
		}
	}
	return max
}

func (m *c23Mon) observe(where string, future bool) {
	s := m.s
	r := s.R
	ctx := s.Ctx
	now := s.Now().UTC().Unix()
	all, err := s.K.Dualstaking.GetAllDelegations(ctx)
	if err != nil {
		r.Fail("c23-query-failed", "GetAllDelegations", "%v", err)
	}
	seen := map[string]bool{}
	for _, d := range all {
		if d.Provider == c06Empty {
			continue
		}
		key := d.Provider + "|" + d.Delegator
		seen[key] = true
		t := m.tracks[key]
		if t == nil {
			t = &c23Track{}
			m.tracks[key] = t
		}
		// feed the ledger from the record read back
		if t.recordTS != d.Timestamp && len(t.touches) >= 2 && now-t.lastTouch >= int64(c23Window/time.Second) {
			// a change that ends a period of 30 days or more without any change, with earlier history
			if fresh := t.freshFrom(now); fresh > 0 {
				r.Probe("c23_change_after_30_idle_days_with_earlier_history")
				for _, e := range t.events[:fresh] {
					if e.Amount.GT(t.events[fresh].Amount) && e.Amount.GT(d.Amount.Amount) {
						r.Probe("c23_change_after_30_idle_days_with_larger_amount_before")
						break
					}
				}
			}
		}
		if n := len(t.events); n == 0 || !t.events[n-1].Amount.Equal(d.Amount.Amount) {
			t.events = append(t.events, c23Event{now, d.Amount.Amount})
			t.touch(now)
		}
		if t.recordTS != d.Timestamp {
			t.recordTS = d.Timestamp
			t.touch(now)
		}
		m.check(where, d, t, now, false)
		if !future {
			continue
		}
		// evaluation times in the future, assuming the delegation stays as it is: hours, days,
		// around the 30-day mark after the last change, and beyond
		last := t.lastTouch
		times := []int64{now + 1800, now + 3600, now + 86400, now + 7*86400, last + 30*86400 - 3600, last + 30*86400 - 1, last + 30*86400, last + 30*86400 + 3600, now + 30*86400, now + 45*86400}
		sort.Slice(times, func(i, j int) bool { return times[i] < times[j] })
		prevCredit := s.K.Dualstaking.CalculateMonthlyCredit(ctx, d).Amount
		prevT := now
		noHigher := t.maxHeld(now-int64(c23Window/time.Second), now).LTE(d.Amount.Amount)
		for _, ft := range times {
			if ft <= now {
				continue
			}
			c := m.check(where, d, t, ft, true)
			// holding an unchanged delegation longer never lowers its credit (evaluated for
			// delegations that were not decreased during the last 30 days: after a decrease a 30-day
			// average has to come down to the new amount)
			if noHigher {
				r.OracleEvals++
				if c.LT(prevCredit) {
					sig := "unchanged delegation, later evaluation" + m.echo(t, now)
					r.Fail("c23-credit-decreases-while-unchanged", sig,
						"delegation %s -> %s amount=%s unchanged since %s: credit %s when evaluated at %s but %s when evaluated later at %s; ledger %s; record %s (observed at %s)",
						s.NameOf(d.Delegator), s.NameOf(d.Provider), d.Amount.Amount, c23Time(last), prevCredit, c23Time(prevT), c, c23Time(ft), t.render(), c23Record(d), where)
				}
			}
			prevCredit, prevT = c, ft
		}
	}
	// delegations that disappeared: amount 0 from now on
	keys := make([]string, 0, len(m.tracks))
	for k := range m.tracks {
		keys = append(keys, k)
	}
	sort.Strings(keys)
	for _, k := range keys {
		t := m.tracks[k]
		if !seen[k] {
			if n := len(t.events); n > 0 && !t.events[n-1].Amount.IsZero() {
				t.events = append(t.events, c23Event{now, math.ZeroInt()})
				t.touch(now)
				t.recordTS = 0
			}
		}
	}
}

// echo: does the ledger show a larger amount that was given up more than 30 days before `at`
// (only used to give a violation a specific signature)? Answers
//
//	""            no such amount,
//	c23EchoRecent such an amount was held during or after the latest period of 30 days or more in
//	              which the record did not change (resp. after the latest removal of the record),
//	c23EchoStale  such amounts were held only before that period / removal: the credit still
//	              carries what a delegation "left unchanged for 30 days or more" (credit == amount,
//	              whatever happened earlier) must have shed by then.
func (m *c23Mon) echo(t *c23Track, at int64) string {
	inWindow := t.maxHeld(at-int64(c23Window/time.Second), at)
	fresh := t.freshFrom(at)
	out := ""
	for i, e := range t.events {
		if e.T > at || !e.Amount.GT(inWindow) {
			continue
		}
		if i >= fresh {
			return c23EchoRecent
		}
		out = c23EchoStale
	}
	return out
}

const (
	c23EchoRecent = " (credit still carries an amount held more than 30 days ago)"
	c23EchoStale  = " (credit still carries an amount given up before a period of 30 days or more without any change)"
)

// check evaluates the credit of d at time `at` (>= now; the delegation is assumed unchanged in between).
func (m *c23Mon) check(where string, d dualstakingtypes.Delegation, t *c23Track, at int64, isFuture bool) math.Int {
	s := m.s
	r := s.R
	ectx := s.Ctx.WithBlockTime(time.Unix(at, 0).UTC())
	credit := s.K.Dualstaking.CalculateMonthlyCredit(ectx, d).Amount
	kind := "now"
	if isFuture {
		kind = "later"
	}
	r.OracleEvals++
	if credit.IsNegative() {
		r.Fail("c23-credit-negative", "evaluated "+kind, "delegation %s -> %s: credit %s at %s; ledger %s; record %s (observed at %s)", s.NameOf(d.Delegator), s.NameOf(d.Provider), credit, c23Time(at), t.render(), c23Record(d), where)
	}
	max := t.maxHeld(at-int64(c23Window/time.Second), at)
	r.OracleEvals++
	if credit.GT(max) {
		sig := "evaluated " + kind
		if e := m.echo(t, at); e != "" {
			sig += e
			r.Probe("c23_old_amount_echo")
			if e == c23EchoStale {
				r.Probe("c23_old_amount_echo_across_30_idle_days")
			}
		}
		r.Fail("c23-credit-exceeds-max-held", sig,
			"delegation %s -> %s: credit %s at %s exceeds the largest amount held during the 30 days before (%s); ledger %s; record %s (observed at %s)",
			s.NameOf(d.Delegator), s.NameOf(d.Provider), credit, c23Time(at), max, t.render(), c23Record(d), where)
	}
	if at-t.lastTouch >= int64(c23Window/time.Second) {
		r.Probe("c23_unchanged_30_days")
		if at-t.lastTouch > int64(c23Window/time.Second) && !isFuture {
			r.Probe("c23_evaluated_after_gap_over_30_days")
		}
		r.OracleEvals++
		if !credit.Equal(d.Amount.Amount) {
			r.Fail("c23-credit-not-amount-after-30-days", "evaluated "+kind,
				"delegation %s -> %s unchanged since %s (>= 30 days before %s): credit %s but amount %s; ledger %s; record %s (observed at %s)",
				s.NameOf(d.Delegator), s.NameOf(d.Provider), c23Time(t.lastTouch), c23Time(at), credit, d.Amount.Amount, t.render(), c23Record(d), where)
		}
	}
	if len(t.events) >= 3 {
		r.Probe("c23_three_or_more_changes")
	}
	return credit
}

func c23Time(u int64) string { return time.Unix(u, 0).UTC().Format("2006-01-02T15:04:05Z") }

func c23Record(d dualstakingtypes.Delegation) string {
	return fmt.Sprintf("{amount=%s timestamp=%s credit=%s creditTimestamp=%s}", d.Amount.Amount, c23Time(d.Timestamp), d.Credit.Amount, c23Time(d.CreditTimestamp))
}

func (t *c23Track) render() string {
	out := "["
	from := 0
	if len(t.events) > 8 {
		from = len(t.events) - 8
		out += "... "
	}
	for _, e := range t.events[from:] {
		out += fmt.Sprintf("%s:%s ", c23Time(e.T), e.Amount)
	}
	return out + "]"
}

// ---------- the property ----------

func c23Weights() map[string]int {
	w := c06Weights()
	w["blocks"] = 14
	w["relay"] = 3
	w["buy"] = 1
	w["delegate"] = 5
	w["c06_unbond"] = 7
	w["c06_redelegate"] = 5
	w["c06_val_undelegate"] = 4
	w["c06_val_redelegate"] = 2
	w["c06_multi"] = 2
	w["c06_slash"] = 2
	w["c06_cancel_unbond"] = 1
	w["c07_modify"] = 3
	w["c07_unstake"] = 1
	w["c07_movestake"] = 1
	w["c23_pulse"] = 5
	return w
}

func runC23(r *simrt.Run) {
	cfg := mkCfg(r, c23Weights(), 40, 160)
	cfg.Faults["month_jump"] = true
	if cfg.NProv > 5 {
		cfg.NProv = 5
	}
	s := NewSim(r, cfg)
	defer c06Release(s)
	s.c06Prepare(0)
	newC23Mon(s)
	s.RunHistory()
}

func c23NonTrivial(r *simrt.Run) bool {
	changes := r.Ops["c23_delegate:ok"] + r.Ops["c23_unbond:ok"] + r.Ops["delegate:ok"] + r.Ops["c06_delegate:ok"] + r.Ops["c06_unbond:ok"] + r.Ops["c06_redelegate:ok"]
	return changes >= 4 && r.Probes["c23_unchanged_30_days"] >= 1 && r.Probes["c23_three_or_more_changes"] >= 1
}

func init() {
	AddOp("c23_pulse", (*Sim).opC23Pulse)
	simrt.Register("C23", &simrt.PropSpec{Fn: runC23, NonTrivial: c23NonTrivial,
		Rule: "real dual-staking delegations driven through chain histories under the simulated block clock: series of delegate/unbond on one (delegator, provider) pair with tape-chosen gaps (10 min, 59/61 min, hours, days, 29 d, 30 d -1h/0/+1h, 36 d; long gaps are made of slow blocks), mixed with redelegations, staking-module operations, stake changes and validator slashes. A harness ledger of (block time, amount) per pair is fed by reading the delegation records back after every transaction and block. Oracle on CalculateMonthlyCredit at the current block time and (on a context whose block time is advanced, the record unchanged) at +30 min, +1 h, +1 d, +7 d, around 30 days after the last change, +30 d, +45 d: 0 <= credit <= largest ledger amount in effect during the 30 days before the evaluation time (closed interval); no change of the record for >= 30 days => credit == amount; for a delegation with no larger amount in the last 30 days the credit is non-decreasing over the later evaluation times. The ledger also keeps every moment a record was seen changed; a violation of the upper bound is signed according to where the ledger shows the larger, given-up amount: held during or after the latest period of >= 30 days without any change of the record (the listed echo of CalculateCredit), or only before such a period / before a removal of the record (by the statement a delegation left unchanged for >= 30 days has credit == amount whatever happened earlier, so nothing older may weigh on later credits). Non-trivial = >=4 accepted delegation changes, a pair with >=3 ledger changes and an evaluation >= 30 days after the last change",
		Real: chainReal, Stubbed: chainStub,
		Assume: append(append([]string{}, chainAssume...), "the empty-provider placeholder records are not evaluated (no rewards are computed from them)", "'unchanged' means: neither the amount nor the Timestamp of the delegation record changed, as read back from the keeper")})
	_ = sdk.ZeroInt
}
