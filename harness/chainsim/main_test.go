package chainsim

import (
	"testing"

	"github.com/lavanet/lava/v5/zz_verif/simrt"
)

func TestSim(t *testing.T) {
	simrt.WorkerMain()
}
