package chainsim

import (
	"fmt"
	"os"
	"sort"
	"strings"

	sdk "github.com/cosmos/cosmos-sdk/types"
	pairingtypes "github.com/lavanet/lava/v5/x/pairing/types"
	"github.com/lavanet/lava/v5/zz_verif/simrt"
)

// C01: executing the same blocks and transactions from the same state gives the same application
// state and the same pairing lists whatever the Go map iteration order of the executing node.
//
// The chain code under x/ and utils/ is built from copies in which every `range` over a map goes
// through simrt.MapKeys (tools/maporder, type-driven). The same tape is executed by three replicas
// one after the other: map ranges in sorted key order, in reversed order, and in a freshly
// shuffled order per loop instance. After every transaction and at sampled blocks the digest of
// every KV store + bank, and at every epoch start the pairing of every (developer key, spec), are
// recorded and compared across replicas.

type c01Point struct {
	label  string
	digest string
}

type c01Trace struct {
	final  func()
	points []c01Point
	sites  []string // map-range sites that saw >1 keys since the previous point (diagnosis)
}

func c01RunReplica(r *simrt.Run, policy int, seed uint64, main bool) (tr *c01Trace) {
	simrt.SetMapOrder(policy, seed)
	defer simrt.SetMapOrder(simrt.MapOrderNative, 0)
	simrt.MapOrderSites()
	tr = &c01Trace{}
	// the history comes from a drawn theme (see props_basic.go): the generic generator, its rich
	// variant (C02's world: add-ons, extensions, Mixed requirements, selected providers, so that the
	// pairing filters and slot assignment have several keys to iterate over), or the generator of
	// another chain property (complaints and jailing, conflicts, governance, IPRPC, slashes ...)
	// whose own oracles are ignored here
	nThemes := len(themes) + 8 // the rich generic world gets 8 tickets: most map ranges with several keys live in the pairing filters
	ti := r.Draw("cfg", nThemes)
	if want := os.Getenv("VERIF_C01_THEME"); want != "" { // development aid: force one theme
		for i, t := range themes {
			if t.name == want {
				ti = i
			}
		}
		if want == "rich" {
			ti = len(themes)
		}
	}
	worldInitHooks = append(worldInitHooks, func(w *World) {
		add := func(label string) {
			tr.points = append(tr.points, c01Point{label, w.Digest()})
			sites := simrt.MapOrderSites()
			ks := make([]string, 0, len(sites))
			for k := range sites {
				ks = append(ks, k)
			}
			sort.Strings(ks)
			tr.sites = append(tr.sites, strings.Join(ks, ","))
		}
		tr.final = func() { add("final") }
		lastEpoch := uint64(0)
		txs := 0
		w.AfterTx = append(w.AfterTx, func(w *World, tx *TxResult) {
			out := "ok"
			if tx.Err != nil {
				out = "rejected"
			}
			// the outcome of every transaction is compared; the (expensive) state digest only after
			// every 4th one: a diverged state stays diverged, so sampling costs localisation, not detection
			txs++
			if txs%4 == 0 {
				add(fmt.Sprintf("h=%d tx %s %s", w.Height(), tx.Name, out))
			} else {
				tr.points = append(tr.points, c01Point{fmt.Sprintf("h=%d tx %s %s", w.Height(), tx.Name, out), ""})
				tr.sites = append(tr.sites, "")
			}
		})
		blocks := 0
		w.AfterBlock = append(w.AfterBlock, func(w *World) {
			blocks++
			ep := w.EpochStart()
			if ep != lastEpoch {
				lastEpoch = ep
				// pairing of every account (consumers, developer keys; others have none) for every spec, as sets
				var sb strings.Builder
				names := make([]string, 0, len(w.Accts))
				for n := range w.Accts {
					names = append(names, n)
				}
				sort.Strings(names)
				specs := w.K.Spec.GetAllSpec(w.Ctx)
				for _, n := range names {
					k := w.Accts[n]
					for _, sp := range specs {
						res, err := w.K.Pairing.GetPairing(sdk.WrapSDKContext(w.Ctx), &pairingtypes.QueryGetPairingRequest{ChainID: sp.Index, Client: k.Addr})
						if err != nil {
							continue
						}
						var ps []string
						for _, p := range res.Providers {
							ps = append(ps, w.NameOf(p.Address))
						}
						sort.Strings(ps)
						fmt.Fprintf(&sb, "%s/%s=%s;", n, sp.Index, strings.Join(ps, "+"))
						if main && len(ps) > 0 {
							r.Probe("pairing_compared")
						}
					}
				}
				add(fmt.Sprintf("h=%d epoch %d pairing {%s}", w.Height(), ep, sb.String()))
			} else if blocks%7 == 0 {
				add(fmt.Sprintf("h=%d block", w.Height()))
			}
		})
	})
	defer func() { worldInitHooks = nil }()
	defer func() {
		// a theme generator may stop early (its own oracle, a halted chain): the trace so far is
		// still compared, the replicas must stop at the same point
		if p := recover(); p != nil {
			r.Recover(p)
			tr.points = append(tr.points, c01Point{"generator stopped", ""})
			tr.sites = append(tr.sites, "")
		}
	}()
	if ti >= len(themes) || themes[ti].fn == nil {
		rich := ti >= len(themes)
		if main {
			if rich {
				r.Probe("theme_generic-rich")
			} else {
				r.Probe("theme_generic")
			}
		}
		w8 := baseWeights()
		if rich {
			for k, v := range map[string]int{"c02stake": 8, "c02policy": 10, "c02plan": 3, "c02freeze": 2, "c02epochs": 2, "c02complain": 4} {
				w8[k] = v
			}
		}
		cfg := mkCfg(r, w8, 50, 200)
		s := NewSim(r, cfg)
		if rich {
			spec := c02RichSpec(r)
			s.K.Spec.SetSpec(s.Ctx, spec)
			s.Specs = append(s.Specs, spec)
			for i := 0; i < 1+r.Draw("ops", 2); i++ {
				r.Step()
				s.opC02Plan()
			}
			for i := 0; i < 3+r.Draw("ops", 2*len(s.Providers)); i++ {
				r.Step()
				s.opC02Stake()
			}
			for i := 0; i < len(s.Consumers); i++ {
				r.Step()
				s.OpBuy()
				r.Step()
				s.opC02Policy()
			}
		}
		s.RunHistory()
	} else {
		if main {
			r.Probe("theme_" + themes[ti].name)
		}
		r.OnlyClasses = map[string]bool{"replicas-diverge": true}
		themes[ti].fn(r)
	}
	if tr.final != nil {
		tr.final()
	}
	return tr
}

func runC01(r *simrt.Run) {
	shuffleSeed := r.Draw64("cfg")
	base := c01RunReplica(r, simrt.MapOrderSorted, 0, true)
	for i, pol := range []int{simrt.MapOrderReversed, simrt.MapOrderShuffled} {
		rep := r.Replica()
		rep.Draw64("cfg") // consume the shuffle seed like the main run did
		other := c01RunReplica(rep, pol, shuffleSeed+uint64(i), false)
		name := []string{"reversed", "shuffled"}[i]
		n := len(base.points)
		if len(other.points) < n {
			n = len(other.points)
		}
		for j := 0; j < n; j++ {
			r.OracleEvals++
			a, b := base.points[j], other.points[j]
			if a.label != b.label || a.digest != b.digest {
				what := "state digest"
				if a.digest == b.digest {
					what = "observable result (transaction outcome / pairing list)"
				}
				r.Fail("replicas-diverge", what, "replica with %s map-range order diverges from the sorted-order replica at comparison point %d:\n  sorted:   %s  digest=%s\n  %s: %s  digest=%s\n  map-range sites with >1 keys since the previous point (sorted replica): %s\n  (%s replica): %s",
					name, j, a.label, a.digest, name, b.label, b.digest, base.sites[j], name, other.sites[j])
			}
		}
		if len(base.points) != len(other.points) {
			r.Fail("replicas-diverge", "history length", "replica with %s order produced %d comparison points, the sorted-order replica %d", name, len(other.points), len(base.points))
		}
	}
	r.Extra["comparison_points"] += int64(len(base.points))
	multi := 0
	for _, s := range base.sites {
		if s != "" {
			multi++
		}
	}
	if multi > 0 {
		r.Probe("map_range_with_several_keys")
	}
}

func init() {
	simrt.Register("C01", &simrt.PropSpec{Fn: runC01, RunWallS: 1500, // three replicas of a themed history of up to 400 operations, digests included
		NonTrivial: func(r *simrt.Run) bool {
			return r.OKOps() >= 8 && r.Probes["map_range_with_several_keys"] > 0 && r.Probes["pairing_compared"] > 0
		},
		Rule: "the same tape-generated chain history is executed by three replicas whose map ranges in x/ and utils/ (type-driven rewrite through the build overlay) run in sorted, reversed and per-loop shuffled key order; the history comes from a drawn theme: the generic generator (stakes, delegations, subscriptions, projects, policies, relay payments with QoS, epochs, months, clock faults), its rich variant (C02's world: add-ons, extensions, Mixed requirements, selected providers, complaints) or the generator of another chain property (C02-C08, C10-C13, C16-C24, C42; their own oracles are ignored); digests of all KV stores + bank after every transaction and at sampled blocks, and pairing sets of every account x spec at every epoch start, must be identical. Non-trivial = >=8 accepted operations, at least one map range with several keys executed and at least one non-empty pairing compared; distinct = (op,outcome,fault) sequence hash",
		Real: chainReal, Stubbed: chainStub,
		Assume: append([]string{"only map ranges inside the lava module's x/ and utils/ packages are permuted (cosmos-sdk and other dependencies are not instrumented)", "keepers spawn no goroutines on transaction/block paths (census by tools/maporder run: none in x/ outside generated gateways)"}, chainAssume...),
	})
}
