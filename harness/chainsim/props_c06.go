package chainsim

// C06: provider delegations mirror validator delegations.
//
// This file also holds the "realistic" staking operations (amounts picked from what the keepers
// say the actor really has), validator slashing/jailing at block level, cancel-unbonding,
// validator creation and multi-message transactions. They are shared with C07 and C23.

import (
	"fmt"
	"os"
	"sort"
	"strings"
	"time"

	"cosmossdk.io/math"
	sdk "github.com/cosmos/cosmos-sdk/types"
	slashingtypes "github.com/cosmos/cosmos-sdk/x/slashing/types"
	stakingtypes "github.com/cosmos/cosmos-sdk/x/staking/types"
	testkeeper "github.com/lavanet/lava/v5/testutil/keeper"
	commontypes "github.com/lavanet/lava/v5/utils/common/types"
	dualstakingtypes "github.com/lavanet/lava/v5/x/dualstaking/types"
	"github.com/lavanet/lava/v5/zz_verif/simrt"
)

const c06Empty = commontypes.EMPTY_PROVIDER

// debugHalt (VERIF_HALT=1, development only) reports Begin/EndBlock panics instead of ending the run quietly.
var debugHalt = os.Getenv("VERIF_HALT") == "1"

// ---------- per-run shared state of the staking operations ----------

type c06State struct {
	spareVals   []*Account          // funded accounts that may still create a validator
	blockTime   map[int64]time.Time // height -> block time (for picking infraction heights)
	pendingMsgs int                 // number of messages of the transaction being executed
	blockEvents map[string]int      // valoper -> number of share-moving events the next block start performs
	// diagnosis only (makes violation signatures specific): delegators of the validator slashed at
	// the start of the current block for which BalanceDelegator, tried on a cache context right
	// after the slash, returned an error (HandleSlashedValidators ignores such errors)
	slashBalErr map[string]string
	slashHeight int64 // height of the block whose start performed the slash
	// diagnosis only: delegators whose redelegation from the slashed validator was slashed (forced
	// unbond at the destination validator) while the hook-disable flag of the previous transaction
	// was still set
	slashRedelSuppressed map[string]bool
}

// c06SlashErrOf returns the diagnosis for a delegator if the current block started with a slash.
func (s *Sim) c06SlashErrOf(delegator string) string {
	st := s.c06St()
	if st.slashHeight != s.Ctx.BlockHeight() {
		return ""
	}
	return st.slashBalErr[delegator]
}

var c06States = map[*Sim]*c06State{}

func (s *Sim) c06St() *c06State {
	st := c06States[s]
	if st == nil {
		st = &c06State{blockTime: map[int64]time.Time{}, pendingMsgs: 1, blockEvents: map[string]int{}}
		c06States[s] = st
	}
	return st
}

// c06Prepare creates the spare accounts (before any monitor is armed) and records block times.
func (s *Sim) c06Prepare(nSpareVals int) *c06State {
	st := s.c06St()
	for i := 0; i < nSpareVals; i++ {
		st.spareVals = append(st.spareVals, s.NewAccount(fmt.Sprintf("nval%d", i), bigBalance))
	}
	st.blockTime[s.Ctx.BlockHeight()] = s.Now()
	s.AfterBlock = append(s.AfterBlock, func(w *World) { st.blockTime[w.Ctx.BlockHeight()] = w.Now() })
	return st
}

func c06Release(s *Sim) { delete(c06States, s) }

// ---------- queries used by generators and oracles ----------

func c06Val(a *Account) sdk.ValAddress { return sdk.ValAddress(a.Account.Addr) }

type c06Holding struct {
	Acc    *Account
	Val    sdk.ValAddress
	Shares sdk.Dec
	Tokens math.Int // truncated token value of the shares
}

// c06Holdings lists the staking-module delegations of known accounts (store order).
func (s *Sim) c06Holdings(only *Account) []c06Holding {
	var dels []stakingtypes.Delegation
	if only != nil {
		dels = s.K.StakingKeeper.GetAllDelegatorDelegations(s.Ctx, only.Account.Addr)
	} else {
		dels = s.K.StakingKeeper.GetAllDelegations(s.Ctx)
	}
	vals := map[string]stakingtypes.Validator{}
	var out []c06Holding
	for _, d := range dels {
		acc := s.ByAddr[d.DelegatorAddress]
		if acc == nil {
			continue
		}
		v, ok := vals[d.ValidatorAddress]
		if !ok {
			var found bool
			v, found = s.K.StakingKeeper.GetValidator(s.Ctx, d.GetValidatorAddr())
			if !found {
				continue
			}
			vals[d.ValidatorAddress] = v
		}
		if v.DelegatorShares.IsZero() {
			continue
		}
		out = append(out, c06Holding{Acc: acc, Val: d.GetValidatorAddr(), Shares: d.Shares, Tokens: v.TokensFromShares(d.Shares).TruncateInt()})
	}
	return out
}

// c06ProviderDelegations lists the dual-staking delegations of known accounts (store order:
// provider, delegator). withEmpty includes the empty-provider placeholder.
func (s *Sim) c06ProviderDelegations(withEmpty bool) []dualstakingtypes.Delegation {
	all, err := s.K.Dualstaking.GetAllDelegations(s.Ctx)
	if err != nil {
		return nil
	}
	var out []dualstakingtypes.Delegation
	for _, d := range all {
		if s.ByAddr[d.Delegator] == nil {
			continue
		}
		if !withEmpty && d.Provider == c06Empty {
			continue
		}
		out = append(out, d)
	}
	return out
}

func (s *Sim) c06ValName(v sdk.ValAddress) string { return s.NameOf(sdk.AccAddress(v).String()) }

func (s *Sim) c06ProvName(p string) string {
	if p == c06Empty {
		return "EMPTY"
	}
	return s.NameOf(p)
}

// c06Amount picks an amount relative to what is really available (0 = exactly all of it).
func (s *Sim) c06Amount(max int64) int64 {
	r := s.R
	if max < 1 {
		return 1
	}
	var a int64
	switch r.Draw("ops", 7) {
	case 0:
		a = max
	case 1:
		a = max / 2
	case 2:
		a = 1 + int64(r.Draw("ops", int(minI64(max, 1<<30))))
	case 3:
		a = max / 3
	case 4:
		a = 1
	case 5:
		a = max - 1
	default:
		a = max + 1 // slightly more than available
	}
	if a < 1 {
		a = 1
	}
	return a
}

func minI64(a, b int64) int64 {
	if a < b {
		return a
	}
	return b
}

func i64(x math.Int) int64 {
	if !x.IsInt64() {
		return 1 << 62
	}
	return x.Int64()
}

// c06AnyAccount: anybody may delegate (delegators, vaults, provider operators, validator
// operators, consumers).
func (s *Sim) c06AnyAccount() *Account {
	r := s.R
	switch r.Draw("ops", 8) {
	case 4:
		return s.pickProv().Vault
	case 5:
		return s.pickVal()
	case 6:
		return s.pickCons().Acc
	case 7:
		return s.pickProv().Acc
	default:
		return s.pickDeleg()
	}
}

// ---------- message dispatch (multi-message transactions) ----------

func (s *Sim) c06Exec(ctx sdk.Context, m sdk.Msg) error {
	var err error
	switch msg := m.(type) {
	case *stakingtypes.MsgDelegate:
		_, err = s.S.StakingServer.Delegate(ctx, msg)
	case *stakingtypes.MsgUndelegate:
		_, err = s.S.StakingServer.Undelegate(ctx, msg)
	case *stakingtypes.MsgBeginRedelegate:
		_, err = s.S.StakingServer.BeginRedelegate(ctx, msg)
	case *stakingtypes.MsgCancelUnbondingDelegation:
		_, err = s.S.StakingServer.CancelUnbondingDelegation(ctx, msg)
	case *stakingtypes.MsgCreateValidator:
		_, err = s.S.StakingServer.CreateValidator(ctx, msg)
	case *slashingtypes.MsgUnjail:
		_, err = s.S.SlashingServer.Unjail(ctx, msg)
	case *dualstakingtypes.MsgDelegate:
		_, err = s.S.DualstakingServer.Delegate(ctx, msg)
	case *dualstakingtypes.MsgRedelegate:
		_, err = s.S.DualstakingServer.Redelegate(ctx, msg)
	case *dualstakingtypes.MsgUnbond:
		_, err = s.S.DualstakingServer.Unbond(ctx, msg)
	case *dualstakingtypes.MsgClaimRewards:
		_, err = s.S.DualstakingServer.ClaimRewards(ctx, msg)
	default:
		err = fmt.Errorf("c06Exec: unsupported message %T", m)
	}
	return err
}

// c06Tx runs the messages as one atomic transaction.
func (s *Sim) c06Tx(kind string, msgs ...sdk.Msg) *TxResult {
	st := s.c06St()
	st.pendingMsgs = len(msgs)
	res := s.msgTx(kind, msgs, func(ctx sdk.Context) error {
		for i, m := range msgs {
			if err := s.c06Exec(ctx, m); err != nil {
				if i > 0 {
					s.R.Probe("c06_tx_aborted_halfway")
				}
				return err
			}
		}
		return nil
	})
	st.pendingMsgs = 1
	return res
}

// ---------- realistic dual-staking operations ----------

// opC06Unbond: a delegator unbonds from one of its providers an amount it really has.
func (s *Sim) opC06Unbond() {
	r := s.R
	cands := s.c06ProviderDelegations(false)
	if len(cands) == 0 {
		s.OpUnbond()
		return
	}
	d := cands[r.Draw("ops", len(cands))]
	acc := s.ByAddr[d.Delegator]
	hold := s.c06Holdings(acc)
	if len(hold) == 0 {
		s.OpUnbond()
		return
	}
	h := hold[r.Draw("ops", len(hold))]
	amount := s.c06Amount(minI64(i64(d.Amount.Amount), i64(h.Tokens)))
	msg := &dualstakingtypes.MsgUnbond{Creator: acc.Addr, Validator: h.Val.String(), Provider: d.Provider, ChainID: "chainID", Amount: s.Coin(amount)}
	r.Logf("c06_unbond: %s from %s via %s %d (has %s at provider, %s at validator) ...", acc.Name, s.c06ProvName(d.Provider), s.c06ValName(h.Val), amount, d.Amount.Amount, h.Tokens)
	res := s.c06Tx("c06_unbond", msg)
	if res.Err == nil {
		r.Probe("c06_provider_unbond_accepted")
	}
	r.Logf("   ... c06_unbond: %s", short(res.Err))
}

// opC06Redelegate: move an existing provider delegation (possibly from/to the empty provider).
func (s *Sim) opC06Redelegate() {
	r := s.R
	cands := s.c06ProviderDelegations(true)
	if len(cands) == 0 {
		s.OpRedelegate()
		return
	}
	d := cands[r.Draw("ops", len(cands))]
	acc := s.ByAddr[d.Delegator]
	to := s.pickProv().Acc.Addr
	if r.Chance("ops", 1, 6) {
		to = c06Empty
	}
	amount := s.c06Amount(i64(d.Amount.Amount))
	msg := &dualstakingtypes.MsgRedelegate{Creator: acc.Addr, FromProvider: d.Provider, ToProvider: to, FromChainID: "a", ToChainID: "b", Amount: s.Coin(amount)}
	r.Logf("c06_redelegate: %s %s->%s %d (has %s) ...", acc.Name, s.c06ProvName(d.Provider), s.c06ProvName(to), amount, d.Amount.Amount)
	res := s.c06Tx("c06_redelegate", msg)
	r.Logf("   ... c06_redelegate: %s", short(res.Err))
}

// opC06DelegateSpread: one delegator delegates to several providers in a row (so that later
// validator-side unbonds have to be spread over several providers).
func (s *Sim) opC06DelegateSpread() {
	r := s.R
	d := s.c06AnyAccount()
	n := 2 + r.Draw("ops", 3)
	for i := 0; i < n; i++ {
		p := s.pickProv()
		val := s.pickVal()
		amount := int64(1 + r.Draw("ops", 20000))
		msg := &dualstakingtypes.MsgDelegate{Creator: d.Addr, Validator: c06Val(val).String(), Provider: p.Acc.Addr, ChainID: "chainID", Amount: s.Coin(amount)}
		r.Logf("c06_delegate: %s -> %s via %s %d ...", d.Name, p.Acc.Name, val.Name, amount)
		res := s.c06Tx("c06_delegate", msg)
		r.Logf("   ... c06_delegate: %s", short(res.Err))
	}
}

// ---------- realistic staking-module operations ----------

func (s *Sim) c06ProviderCount(acc *Account) (nonEmpty int, empty math.Int) {
	empty = math.ZeroInt()
	provs, err := s.K.Dualstaking.GetDelegatorProviders(s.Ctx, acc.Addr)
	if err != nil {
		return 0, empty
	}
	for _, p := range provs {
		d, found := s.K.Dualstaking.GetDelegation(s.Ctx, p, acc.Addr)
		if !found {
			continue
		}
		if p == c06Empty {
			empty = d.Amount.Amount
		} else if d.Amount.Amount.IsPositive() {
			nonEmpty++
		}
	}
	return nonEmpty, empty
}

// opC06ValUndelegate: staking-module undelegation of an amount the delegator really has; the
// dual-staking hook has to take it from the empty provider first and then uniformly from the others.
func (s *Sim) opC06ValUndelegate() {
	r := s.R
	hold := s.c06Holdings(nil)
	if len(hold) == 0 {
		s.OpValUndelegate()
		return
	}
	h := hold[r.Draw("ops", len(hold))]
	np, empty := s.c06ProviderCount(h.Acc)
	amount := s.c06Amount(i64(h.Tokens))
	if r.Chance("ops", 1, 3) && empty.IsInt64() && empty.Int64()+1 < i64(h.Tokens) {
		// more than the placeholder holds: the rest must come out of real providers
		amount = empty.Int64() + 1 + int64(r.Draw("ops", int(minI64(i64(h.Tokens)-empty.Int64()-1, 1<<30))+1))
	}
	msg := stakingtypes.NewMsgUndelegate(h.Acc.Account.Addr, h.Val, s.Coin(amount))
	r.Logf("c06_val_undelegate: %s from %s %d (has %s; providers=%d empty=%s) ...", h.Acc.Name, s.c06ValName(h.Val), amount, h.Tokens, np, empty)
	res := s.c06Tx("c06_val_undelegate", msg)
	if res.Err == nil {
		if np >= 2 && empty.LT(math.NewInt(amount)) {
			r.Probe("c06_unbond_spread_over_providers")
		}
		if amount >= i64(h.Tokens) {
			r.Probe("c06_val_undelegate_all")
		}
	}
	r.Logf("   ... c06_val_undelegate: %s", short(res.Err))
}

// opC06ValRedelegate: staking-module redelegation (the dual-staking hooks are suppressed by the
// ante flagger for such a transaction).
func (s *Sim) opC06ValRedelegate() {
	r := s.R
	hold := s.c06Holdings(nil)
	if len(hold) == 0 || len(s.Validators) < 2 {
		s.OpValRedelegate()
		return
	}
	h := hold[r.Draw("ops", len(hold))]
	dst := s.pickVal()
	amount := s.c06Amount(i64(h.Tokens))
	msg := stakingtypes.NewMsgBeginRedelegate(h.Acc.Account.Addr, h.Val, c06Val(dst), s.Coin(amount))
	r.Logf("c06_val_redelegate: %s %s->%s %d (has %s) ...", h.Acc.Name, s.c06ValName(h.Val), dst.Name, amount, h.Tokens)
	res := s.c06Tx("c06_val_redelegate", msg)
	if res.Err == nil {
		r.Probe("c06_redelegate_hooks_suppressed")
	}
	r.Logf("   ... c06_val_redelegate: %s", short(res.Err))
}

// opC06CancelUnbond: staking-module MsgCancelUnbondingDelegation of a pending unbonding entry.
func (s *Sim) opC06CancelUnbond() {
	r := s.R
	type ent struct {
		acc    *Account
		val    sdk.ValAddress
		height int64
		bal    math.Int
	}
	var ents []ent
	s.K.StakingKeeper.IterateUnbondingDelegations(s.Ctx, func(_ int64, ubd stakingtypes.UnbondingDelegation) bool {
		acc := s.ByAddr[ubd.DelegatorAddress]
		if acc == nil {
			return false
		}
		va, err := sdk.ValAddressFromBech32(ubd.ValidatorAddress)
		if err != nil {
			return false
		}
		for _, e := range ubd.Entries {
			ents = append(ents, ent{acc, va, e.CreationHeight, e.Balance})
		}
		return false
	})
	if len(ents) == 0 {
		r.Op("c06_cancel_unbond", "none")
		r.Logf("c06_cancel_unbond: no unbonding delegation")
		return
	}
	e := ents[r.Draw("ops", len(ents))]
	amount := s.c06Amount(i64(e.bal))
	msg := stakingtypes.NewMsgCancelUnbondingDelegation(e.acc.Account.Addr, e.val, e.height, s.Coin(amount))
	r.Logf("c06_cancel_unbond: %s at %s height=%d %d (entry %s) ...", e.acc.Name, s.c06ValName(e.val), e.height, amount, e.bal)
	res := s.c06Tx("c06_cancel_unbond", msg)
	if res.Err == nil {
		r.Probe("c06_cancel_unbonding_accepted")
	}
	r.Logf("   ... c06_cancel_unbond: %s", short(res.Err))
}

// opC06ValCreate: a new validator appears during the history.
func (s *Sim) opC06ValCreate() {
	r := s.R
	st := s.c06St()
	if len(st.spareVals) == 0 {
		r.Op("c06_val_create", "none")
		return
	}
	v := st.spareVals[0]
	amount := int64(1_000_000 * (1 + r.Draw("ops", 2000)))
	msg, err := stakingtypes.NewMsgCreateValidator(c06Val(v), v.PubKey, s.Coin(amount), stakingtypes.Description{Moniker: v.Name},
		stakingtypes.NewCommissionRates(sdk.NewDecWithPrec(1, 1), sdk.NewDecWithPrec(2, 1), sdk.NewDecWithPrec(1, 2)), sdk.OneInt())
	if err != nil {
		panic(err)
	}
	res := s.c06Tx("c06_val_create", msg)
	if res.Err == nil {
		st.spareVals = st.spareVals[1:]
		s.Validators = append(s.Validators, v)
		r.Probe("c06_validator_created")
	}
	r.Logf("c06_val_create %s self=%d: %s", v.Name, amount, short(res.Err))
}

// opC06Unjail: the operator of a jailed validator sends MsgUnjail.
func (s *Sim) opC06Unjail() {
	r := s.R
	var jailed []*Account
	for _, v := range s.Validators {
		if val, found := s.K.StakingKeeper.GetValidator(s.Ctx, c06Val(v)); found && val.IsJailed() {
			jailed = append(jailed, v)
		}
	}
	if len(jailed) == 0 {
		r.Op("c06_unjail", "none")
		return
	}
	v := jailed[r.Draw("ops", len(jailed))]
	res := s.c06Tx("c06_unjail", slashingtypes.NewMsgUnjail(c06Val(v)))
	if res.Err == nil {
		r.Probe("c06_validator_unjailed")
	}
	r.Logf("c06_unjail %s: %s", v.Name, short(res.Err))
}

// opC06Multi: multi-message transactions.
func (s *Sim) opC06Multi() {
	r := s.R
	d := s.c06AnyAccount()
	v1, v2 := s.pickVal(), s.pickVal()
	p := s.pickProv()
	a1 := int64(1 + r.Draw("ops", 30000))
	a2 := int64(1 + r.Draw("ops", int(a1)))
	var msgs []sdk.Msg
	var what string
	switch r.Draw("ops", 6) {
	case 0:
		what = "dual delegate+unbond"
		msgs = []sdk.Msg{
			&dualstakingtypes.MsgDelegate{Creator: d.Addr, Validator: c06Val(v1).String(), Provider: p.Acc.Addr, ChainID: "c", Amount: s.Coin(a1)},
			&dualstakingtypes.MsgUnbond{Creator: d.Addr, Validator: c06Val(v1).String(), Provider: p.Acc.Addr, ChainID: "c", Amount: s.Coin(a2)},
		}
	case 1:
		what = "staking delegate+undelegate"
		msgs = []sdk.Msg{
			stakingtypes.NewMsgDelegate(d.Account.Addr, c06Val(v1), s.Coin(a1)),
			stakingtypes.NewMsgUndelegate(d.Account.Addr, c06Val(v1), s.Coin(a2)),
		}
	case 2:
		what = "staking delegate + dual redelegate from empty"
		msgs = []sdk.Msg{
			stakingtypes.NewMsgDelegate(d.Account.Addr, c06Val(v1), s.Coin(a1)),
			&dualstakingtypes.MsgRedelegate{Creator: d.Addr, FromProvider: c06Empty, ToProvider: p.Acc.Addr, FromChainID: "a", ToChainID: "b", Amount: s.Coin(a2)},
		}
	case 3:
		what = "begin-redelegate mixed with delegate (must be refused by the ante flagger)"
		msgs = []sdk.Msg{
			stakingtypes.NewMsgDelegate(d.Account.Addr, c06Val(v1), s.Coin(a1)),
			stakingtypes.NewMsgBeginRedelegate(d.Account.Addr, c06Val(v1), c06Val(v2), s.Coin(a2)),
		}
	case 4:
		what = "two begin-redelegates"
		hold := s.c06Holdings(d)
		if len(hold) > 0 {
			h := hold[r.Draw("ops", len(hold))]
			a1 = s.c06Amount(i64(h.Tokens) / 2)
			a2 = s.c06Amount(i64(h.Tokens) / 2)
			msgs = []sdk.Msg{
				stakingtypes.NewMsgBeginRedelegate(d.Account.Addr, h.Val, c06Val(v2), s.Coin(a1)),
				stakingtypes.NewMsgBeginRedelegate(d.Account.Addr, h.Val, c06Val(v1), s.Coin(a2)),
			}
		} else {
			msgs = []sdk.Msg{
				stakingtypes.NewMsgBeginRedelegate(d.Account.Addr, c06Val(v1), c06Val(v2), s.Coin(a1)),
				stakingtypes.NewMsgBeginRedelegate(d.Account.Addr, c06Val(v1), c06Val(v2), s.Coin(a2)),
			}
		}
	default:
		what = "dual delegate + unbond of more than available (second message fails)"
		msgs = []sdk.Msg{
			&dualstakingtypes.MsgDelegate{Creator: d.Addr, Validator: c06Val(v1).String(), Provider: p.Acc.Addr, ChainID: "c", Amount: s.Coin(a1)},
			&dualstakingtypes.MsgUnbond{Creator: d.Addr, Validator: c06Val(v1).String(), Provider: p.Acc.Addr, ChainID: "c", Amount: s.Coin(bigBalance)},
		}
	}
	mixed := false
	nRed := 0
	for _, m := range msgs {
		if _, ok := m.(*stakingtypes.MsgBeginRedelegate); ok {
			nRed++
		}
	}
	mixed = nRed > 0 && nRed < len(msgs)
	r.Logf("c06_multi: %s by %s v1=%s v2=%s prov=%s a1=%d a2=%d ...", what, d.Name, v1.Name, v2.Name, p.Acc.Name, a1, a2)
	res := s.c06Tx("c06_multi", msgs...)
	if mixed && res.Err != nil {
		r.Probe("c06_mixed_redelegate_batch_refused")
	}
	if res.Err == nil {
		r.Probe("c06_multi_message_tx_accepted")
	}
	if !mixed && nRed > 0 && res.Err == nil {
		r.Probe("c06_redelegate_hooks_suppressed")
	}
	r.Logf("   ... c06_multi: %s", short(res.Err))
}

// ---------- block-level validator slashing / jailing ----------

// c06BlockWith ends the current block and begins the next one dt later; pre runs at the very
// start of the new block's BeginBlock phase, i.e. where x/slashing and x/evidence run in the
// application's begin-blocker order (before dualstaking's BeginBlock).
func (s *Sim) c06BlockWith(dt time.Duration, pre func(ctx sdk.Context)) {
	w := s.World
	w.guarded("EndBlock", func() { testkeeper.EndBlock(w.Ctx, w.K) })
	ctx := testkeeper.UpdateBlockCtx(sdk.WrapSDKContext(w.Ctx), w.K, dt)
	hdr := ctx.BlockHeader()
	hdr.ChainID = LavaChainID
	hdr.Height = ctx.BlockHeight()
	hdr.Time = ctx.BlockTime()
	hash := ctx.HeaderHash()
	ctx = ctx.WithBlockHeader(hdr).WithHeaderHash(hash).WithEventManager(sdk.NewEventManager())
	w.Ctx = ctx
	w.guarded("BeginBlock", func() {
		pre(w.Ctx)
		testkeeper.NewBlock(w.Ctx, w.K)
	})
	w.R.SimSpan += int64(dt)
	for _, h := range w.AfterBlock {
		h(w)
	}
}

var c06Fractions = []string{"0.0001", "0.01", "0.05", "0.000001", "0.1", "0.333333333333333333", "0.5", "0.07", "0.9"}

// opC06Slash: a validator is slashed (and possibly jailed) at the start of the next block, as
// x/slashing (downtime) and x/evidence (double sign) do it.
func (s *Sim) opC06Slash() {
	r := s.R
	st := s.c06St()
	var directed *Account
	if r.Chance("fault", 1, 5) {
		// the last transaction of the ending block is a staking-module redelegation of everything a
		// delegator has at the validator that is slashed next
		if hold := s.c06Holdings(nil); len(hold) > 0 && len(s.Validators) >= 2 {
			h := hold[r.Draw("fault", len(hold))]
			dst := s.Validators[r.Draw("fault", len(s.Validators))]
			msg := stakingtypes.NewMsgBeginRedelegate(h.Acc.Account.Addr, h.Val, c06Val(dst), s.Coin(i64(h.Tokens)))
			r.Logf("c06_val_redelegate (all, right before a slash): %s %s->%s %s ...", h.Acc.Name, s.c06ValName(h.Val), dst.Name, h.Tokens)
			res := s.c06Tx("c06_val_redelegate", msg)
			r.Logf("   ... c06_val_redelegate: %s", short(res.Err))
			if res.Err == nil {
				r.Probe("c06_redelegate_hooks_suppressed")
				for _, cand := range s.Validators {
					if c06Val(cand).Equals(h.Val) {
						directed = cand
					}
				}
			}
		}
	}
	v := s.pickVal()
	if directed != nil {
		v = directed
	} else if r.Chance("fault", 1, 3) {
		// prefer a validator that is the source of a pending redelegation
		var srcs []*Account
		for _, cand := range s.Validators {
			if len(s.K.StakingKeeper.GetRedelegationsFromSrcValidator(s.Ctx, c06Val(cand))) > 0 {
				srcs = append(srcs, cand)
			}
		}
		if len(srcs) > 0 {
			v = srcs[r.Draw("fault", len(srcs))]
		}
	}
	val, found := s.K.StakingKeeper.GetValidator(s.Ctx, c06Val(v))
	if !found || val.IsUnbonded() || !val.Tokens.IsPositive() {
		r.Op("c06_slash", "none")
		r.Logf("c06_slash %s: not slashable (found=%v)", v.Name, found)
		return
	}
	frac := sdk.MustNewDecFromStr(c06Fractions[r.Draw("fault", len(c06Fractions))])
	jail := r.Chance("fault", 1, 3) && !val.IsJailed()
	newH := s.Ctx.BlockHeight() + 1
	// infraction height: current block, a few blocks back (downtime uses height-2), or older evidence
	back := []int64{0, 2, 1, 3, 5, 10, 30, 100}[r.Draw("fault", 8)]
	if directed != nil && back == 0 {
		back = 2
	}
	infr := newH - back
	if infr < 1 {
		infr = 1
	}
	// the contract of Slash: the infraction is not older than the unbonding period
	for infr < newH {
		t, ok := st.blockTime[infr]
		if ok && s.Now().Sub(t) < s.K.StakingKeeper.UnbondingTime(s.Ctx)-2*MaxBlockGap {
			break
		}
		infr = newH
	}
	consAddr, err := val.GetConsAddr()
	if err != nil {
		panic(err)
	}
	// the power the validator had (evidence carries the power at the infraction height; a validator
	// that is unbonding by now has no current consensus power)
	power := sdk.TokensToConsensusPower(val.Tokens, s.K.StakingKeeper.PowerReduction(s.Ctx))
	if r.Chance("fault", 1, 4) {
		power = power / int64(1+r.Draw("fault", 4))
	}
	// delegators that use the validator (for the vacuity probes), and the number of forced
	// unbonds per destination validator that redelegation slashing may perform
	users, providerUsers := 0, 0
	for _, d := range s.K.StakingKeeper.GetValidatorDelegations(s.Ctx, c06Val(v)) {
		if acc := s.ByAddr[d.DelegatorAddress]; acc != nil && acc != v {
			users++
			if np, _ := s.c06ProviderCount(acc); np > 0 {
				providerUsers++
			}
		}
	}
	// correlated faults: further, different validators slashed at the start of the same block
	// (correlated downtime, several pieces of double-sign evidence in one block). Drawn on their own
	// stream so that the choices of the first slash keep their meaning on recorded tapes.
	extras := s.c06PlanExtraSlashes(v, newH)
	st.blockEvents = map[string]int{c06Val(v).String(): 1}
	nRed := 0
	hookFlag := s.K.Dualstaking.GetDisableDualstakingHook(s.Ctx)
	st.slashRedelSuppressed = map[string]bool{}
	countRedelegations := func(who *Account, infr int64) {
		if infr >= newH {
			return
		}
		for _, red := range s.K.StakingKeeper.GetRedelegationsFromSrcValidator(s.Ctx, c06Val(who)) {
			for _, e := range red.Entries {
				if e.CreationHeight >= infr {
					st.blockEvents[red.ValidatorDstAddress]++
					nRed++
					if hookFlag {
						st.slashRedelSuppressed[red.DelegatorAddress] = true
					}
				}
			}
		}
	}
	countRedelegations(v, infr)
	for _, x := range extras {
		st.blockEvents[c06Val(x.v).String()]++
		countRedelegations(x.v, x.infr)
	}
	before := val.Tokens
	dt := s.BlockTimeDefault() / 2
	r.Logf("c06_slash %s begins: fraction=%s power=%d infraction=%d new height=%d jail=%v status=%s hookflag=%v", v.Name, frac, power, infr, newH, jail, val.Status, s.K.Dualstaking.GetDisableDualstakingHook(s.Ctx))
	for _, x := range extras {
		r.Logf("   in the same block also %s: fraction=%s power=%d infraction=%d jail=%v status=%s tokens=%s", x.v.Name, x.frac, x.power, x.infr, x.jail, x.val.Status, x.val.Tokens)
	}
	s.c06BlockWith(dt, func(ctx sdk.Context) {
		s.K.SlashingKeeper.Slash(ctx, consAddr, frac, power, infr)
		if jail {
			s.K.SlashingKeeper.Jail(ctx, consAddr)
		}
		for _, x := range extras {
			s.K.SlashingKeeper.Slash(ctx, x.consAddr, x.frac, x.power, x.infr)
			if x.jail {
				s.K.SlashingKeeper.Jail(ctx, x.consAddr)
			}
		}
		st.slashBalErr = map[string]string{}
		st.slashHeight = ctx.BlockHeight()
		slashed := []*Account{v}
		for _, x := range extras {
			slashed = append(slashed, x.v)
		}
		for _, sv := range slashed {
			for _, d := range s.K.StakingKeeper.GetValidatorDelegations(ctx, c06Val(sv)) {
				if _, done := st.slashBalErr[d.DelegatorAddress]; done {
					continue
				}
				cctx, _ := ctx.CacheContext()
				if _, berr := s.K.Dualstaking.BalanceDelegator(cctx, d.GetDelegatorAddr()); berr != nil {
					st.slashBalErr[d.DelegatorAddress] = c06ErrKind(berr)
					r.Probe("c06_slash_rebalance_error")
					r.Logf("   (diagnosis) BalanceDelegator(%s) right after the slash would fail: %s", s.NameOf(d.DelegatorAddress), c06ErrKind(berr))
					if debugOn {
						r.Logf("      [dbg] %v", berr)
					}
				}
			}
		}
	})
	after := math.ZeroInt()
	if v2, ok := s.K.StakingKeeper.GetValidator(s.Ctx, c06Val(v)); ok {
		after = v2.Tokens
	}
	r.Fault("validator_slash")
	if jail {
		r.Fault("validator_jail")
	}
	// vacuity probes of the several-validators-in-one-block dimension
	nLost := 0
	if after.LT(before) {
		nLost++
	}
	for _, x := range extras {
		r.Fault("validator_slash")
		if x.jail {
			r.Fault("validator_jail")
		}
		xa := math.ZeroInt()
		if v2, ok := s.K.StakingKeeper.GetValidator(s.Ctx, c06Val(x.v)); ok {
			xa = v2.Tokens
		}
		if xa.LT(x.val.Tokens) {
			nLost++
		}
		r.Logf("   same block: %s tokens %s->%s", x.v.Name, x.val.Tokens, xa)
	}
	if nLost >= 2 {
		r.Probe("c06_several_validators_slashed_in_one_block")
	}
	if after.LT(before) {
		if users > 0 {
			r.Probe("c06_slash_of_validator_with_delegators")
		}
		if providerUsers > 0 {
			r.Probe("c06_slash_of_validator_with_provider_delegators")
		}
	}
	if nRed > 0 {
		r.Probe("c06_slash_reaches_redelegations")
		if hookFlag {
			r.Probe("c06_slash_reaches_redelegations_with_hooks_suppressed")
		}
	}
	r.Op("c06_slash", "ok")
	r.Logf("c06_slash %s fraction=%s power=%d infraction=%d (new height %d) jail=%v tokens %s->%s users=%d providerUsers=%d redelegationEntries=%d", v.Name, frac, power, infr, newH, jail, before, after, users, providerUsers, nRed)
}

// c06ExtraSlash is one further validator slashed at the start of the same block as the first one.
type c06ExtraSlash struct {
	v        *Account
	val      stakingtypes.Validator
	consAddr sdk.ConsAddress
	frac     sdk.Dec
	power    int64
	infr     int64
	jail     bool
}

// c06PlanExtraSlashes draws (stream "slash2"; an exhausted tape means none) up to two further
// validators, different from the first and from each other, that are slashed in the same block.
func (s *Sim) c06PlanExtraSlashes(first *Account, newH int64) []c06ExtraSlash {
	r := s.R
	st := s.c06St()
	n := 0
	switch r.Draw("slash2", 6) {
	case 3, 4:
		n = 1
	case 5:
		n = 2
	}
	var out []c06ExtraSlash
	taken := map[*Account]bool{first: true}
	for i := 0; i < n; i++ {
		var cands []*Account
		for _, c := range s.Validators {
			if taken[c] {
				continue
			}
			if val, found := s.K.StakingKeeper.GetValidator(s.Ctx, c06Val(c)); found && !val.IsUnbonded() && val.Tokens.IsPositive() {
				cands = append(cands, c)
			}
		}
		if len(cands) == 0 {
			break
		}
		c := cands[r.Draw("slash2", len(cands))]
		taken[c] = true
		val, _ := s.K.StakingKeeper.GetValidator(s.Ctx, c06Val(c))
		x := c06ExtraSlash{v: c, val: val}
		x.frac = sdk.MustNewDecFromStr(c06Fractions[r.Draw("slash2", len(c06Fractions))])
		x.jail = r.Chance("slash2", 1, 3) && !val.IsJailed()
		back := []int64{0, 2, 1, 3, 5, 10, 30, 100}[r.Draw("slash2", 8)]
		x.infr = newH - back
		if x.infr < 1 {
			x.infr = 1
		}
		// the contract of Slash: the infraction is not older than the unbonding period
		for x.infr < newH {
			t, ok := st.blockTime[x.infr]
			if ok && s.Now().Sub(t) < s.K.StakingKeeper.UnbondingTime(s.Ctx)-2*MaxBlockGap {
				break
			}
			x.infr = newH
		}
		consAddr, err := val.GetConsAddr()
		if err != nil {
			panic(err)
		}
		x.consAddr = consAddr
		x.power = sdk.TokensToConsensusPower(val.Tokens, s.K.StakingKeeper.PowerReduction(s.Ctx))
		if r.Chance("slash2", 1, 4) {
			x.power = x.power / int64(1+r.Draw("slash2", 4))
		}
		out = append(out, x)
	}
	return out
}

// c06ErrKind maps an error of the balancing code to a stable short class.
func c06ErrKind(err error) string {
	if err == nil {
		return "ok"
	}
	e := err.Error()
	for _, k := range []string{"self delegation below minimum", "invalid coin amount", "balances are not balanced", "insufficient delegation", "delegation not found", "negative coin amount", "provider metadata", "not found"} {
		if strings.Contains(e, k) {
			return k
		}
	}
	return "other error"
}

// ---------- the mirror monitor ----------

type c06ValSnap struct {
	Tokens math.Int
	Shares sdk.Dec
}

type c06Mon struct {
	s        *Sim
	drift    map[string]int             // delegator -> share-moving events on its validators since it was last seen exactly balanced
	prevVals map[string]c06ValSnap      // valoper -> tokens/shares at the previous observation
	prevHeld map[string]map[string]bool // delegator -> validators it had a delegation with at the previous observation
	ever     map[string]bool
	poisoned map[string]bool // delegators hit by a listed known finding: not evaluated until seen balanced again
}

func newC06Mon(s *Sim) *c06Mon {
	m := &c06Mon{s: s, drift: map[string]int{}, prevVals: map[string]c06ValSnap{}, prevHeld: map[string]map[string]bool{}, ever: map[string]bool{}, poisoned: map[string]bool{}}
	m.observe("arm", nil)
	s.AfterTx = append(s.AfterTx, func(w *World, tx *TxResult) {
		n := s.c06St().pendingMsgs
		if n < 1 {
			n = 1
		}
		m.observe("tx:"+tx.Name, func(string) int { return n })
	})
	s.AfterBlock = append(s.AfterBlock, func(w *World) {
		ev := s.c06St().blockEvents
		s.c06St().blockEvents = map[string]int{}
		m.observe("block", func(v string) int {
			if n := ev[v]; n > 0 {
				return n
			}
			return 1
		})
	})
	return m
}

// observe evaluates the mirror relation for every delegator.
//
// Tolerance. Right after dual-staking balanced a delegator, its provider delegations P equal
// sum over its validators of ceil(value_v) where value_v = shares*tokens/totalShares is its
// (fractional, after a slash) token value; hence 0 <= P - V < nv with V = sum value_v and nv the
// number of validators it uses. Afterwards every operation that moves tokens or shares of one of
// its validators (by anybody: the truncation dust of an undelegation stays with the remaining
// delegators; the delegator's own undelegation is balanced by the hook before the validator's
// tokens are removed; a redelegation runs with the hooks suppressed) can move value_v by less than
// one base unit in either direction without dual-staking being told. So the relation checked is
//
//	|P - V| <= nv + drift
//
// where drift counts such events on the delegator's validators since it was last observed
// exactly balanced (P == sum ceil(value_v)).
func (m *c06Mon) observe(where string, weight func(valoper string) int) {
	s := m.s
	r := s.R
	ctx := s.Ctx
	// 1. which validators moved since the previous observation
	changed := map[string]int{}
	cur := map[string]c06ValSnap{}
	vals := map[string]stakingtypes.Validator{}
	for _, v := range s.K.StakingKeeper.GetAllValidators(ctx) {
		cur[v.OperatorAddress] = c06ValSnap{v.Tokens, v.DelegatorShares}
		vals[v.OperatorAddress] = v
		if p, ok := m.prevVals[v.OperatorAddress]; !ok || !p.Tokens.Equal(v.Tokens) || !p.Shares.Equal(v.DelegatorShares) {
			changed[v.OperatorAddress] = 1
			if weight != nil {
				changed[v.OperatorAddress] = weight(v.OperatorAddress)
			}
		}
	}
	for op := range m.prevVals {
		if _, ok := cur[op]; !ok {
			changed[op] = 1
		}
	}
	m.prevVals = cur

	// 2. both sides, grouped by delegator
	type side struct {
		P      math.Int
		V      sdk.Dec
		C      math.Int
		nv     int
		held   map[string]bool
		hasNeg bool
	}
	sides := map[string]*side{}
	get := func(d string) *side {
		x := sides[d]
		if x == nil {
			x = &side{P: math.ZeroInt(), V: sdk.ZeroDec(), C: math.ZeroInt(), held: map[string]bool{}}
			sides[d] = x
		}
		return x
	}
	all, err := s.K.Dualstaking.GetAllDelegations(ctx)
	if err != nil {
		r.Fail("c06-query-failed", "GetAllDelegations", "GetAllDelegations: %v", err)
	}
	for _, d := range all {
		r.OracleEvals++
		if d.Amount.Amount.IsNegative() {
			r.Fail("c06-negative-delegation", "after "+c06Kind(where), "provider delegation %s -> %s is negative: %s (at %s, height %d)", s.NameOf(d.Delegator), s.c06ProvName(d.Provider), d.Amount, where, s.Height())
		}
		x := get(d.Delegator)
		x.P = x.P.Add(d.Amount.Amount)
	}
	for _, d := range s.K.StakingKeeper.GetAllDelegations(ctx) {
		v, ok := vals[d.ValidatorAddress]
		if !ok || v.DelegatorShares.IsZero() {
			continue
		}
		x := get(d.DelegatorAddress)
		x.V = x.V.Add(v.TokensFromShares(d.Shares))
		x.C = x.C.Add(v.TokensFromSharesRoundUp(d.Shares).Ceil().TruncateInt())
		x.nv++
		x.held[d.ValidatorAddress] = true
	}
	for d := range m.prevHeld {
		get(d)
	}
	dels := make([]string, 0, len(sides))
	for d := range sides {
		dels = append(dels, d)
	}
	sort.Strings(dels)

	// 3. drift accounting + check
	for _, d := range dels {
		x := sides[d]
		m.ever[d] = true
		add := 0
		for v, n := range changed {
			if x.held[v] || m.prevHeld[d][v] {
				add += n
			}
		}
		m.drift[d] += add
		if len(x.held) > 0 {
			m.prevHeld[d] = x.held
		} else {
			delete(m.prevHeld, d)
		}
		tol := int64(x.nv + m.drift[d])
		gap := sdk.NewDecFromInt(x.P).Sub(x.V) // P - V
		if m.poisoned[d] {
			if x.P.Equal(x.C) {
				delete(m.poisoned, d)
				m.drift[d] = 0
			}
			continue
		}
		r.OracleEvals++
		if gap.Abs().GT(sdk.NewDec(tol)) {
			acc, _ := sdk.AccAddressFromBech32(d)
			sig := "after " + c06Kind(where)
			if kind := s.c06SlashErrOf(d); where == "block" && kind != "" {
				sig = "after block: rebalancing the delegator after a validator slash failed (" + kind + ") and the error was ignored"
			} else if st := s.c06St(); where == "block" && st.slashHeight == s.Ctx.BlockHeight() && st.slashRedelSuppressed[d] {
				sig = "after block: a slashed redelegation was unbonded at the destination validator while the hooks were still disabled by the previous transaction's redelegation flag"
			}
			lavaDiff, nprov, lerr := s.K.Dualstaking.VerifyDelegatorBalance(ctx, acc)
			// diagnostic only: what would balancing this delegator now answer?
			cctx, _ := ctx.CacheContext()
			_, berr := s.K.Dualstaking.BalanceDelegator(cctx, acc)
			r.Fail("c06-mirror-broken", sig,
				"delegator %s: provider delegations (incl. empty provider) = %s but tokens delegated to validators = %s (difference %s, tolerance %d = %d validators + %d share-moving events); VerifyDelegatorBalance says diff=%s providers=%d err=%v; BalanceDelegator now would return: %v; at %s, height %d",
				s.NameOf(d), x.P, x.V, gap, tol, x.nv, m.drift[d], lavaDiff, nprov, lerr, berr, where, s.Height())
			// only reached for a listed known finding: stop evaluating this delegator until it is balanced again
			m.poisoned[d] = true
			continue
		}
		// the chain's own verification function must agree with the independent computation up to rounding
		if acc, aerr := sdk.AccAddressFromBech32(d); aerr == nil {
			lavaDiff, _, lerr := s.K.Dualstaking.VerifyDelegatorBalance(ctx, acc)
			r.OracleEvals++
			if lerr != nil {
				r.Fail("c06-verify-error", "after "+c06Kind(where), "VerifyDelegatorBalance(%s) failed: %v", s.NameOf(d), lerr)
			}
			// lavaDiff = (some rounding of V) - P
			if sdk.NewDecFromInt(lavaDiff).Add(gap).Abs().GT(sdk.NewDec(int64(x.nv))) {
				r.Fail("c06-verify-disagrees", "after "+c06Kind(where), "VerifyDelegatorBalance(%s) = %s but validators-providers computed from the keepers = %s (nv=%d) at %s", s.NameOf(d), lavaDiff, gap.Neg(), x.nv, where)
			}
			if lavaDiff.IsZero() && x.P.Equal(x.C) {
				m.drift[d] = 0
			} else {
				r.Probe("c06_rounding_drift_seen")
			}
		}
	}
}

// c06Kind strips nothing seed-dependent: "tx:<op kind>" or "block".
func c06Kind(where string) string { return where }

// ---------- the property ----------

func c06Weights() map[string]int {
	w := baseWeights()
	// fewer consumer-side operations, more staking
	w["relay"] = 6
	w["buy"] = 2
	w["addproject"] = 1
	w["keys"] = 1
	w["setpolicy"] = 1
	w["autorenew"] = 1
	w["stake"] = 6
	w["unstake"] = 1
	w["movestake"] = 1
	w["delegate"] = 6
	w["redelegate"] = 1
	w["unbond"] = 1
	w["claim"] = 2
	w["val_delegate"] = 4
	w["val_undelegate"] = 1
	w["val_redelegate"] = 1
	w["c06_unbond"] = 5
	w["c06_redelegate"] = 4
	w["c06_delegate_spread"] = 3
	w["c06_val_undelegate"] = 6
	w["c06_val_redelegate"] = 5
	w["c06_cancel_unbond"] = 3
	w["c06_val_create"] = 1
	w["c06_unjail"] = 1
	w["c06_multi"] = 4
	w["c06_slash"] = 4
	w["c07_modify"] = 4
	w["c07_unstake"] = 3
	w["c07_movestake"] = 3
	return w
}

func runC06(r *simrt.Run) {
	cfg := mkCfg(r, c06Weights(), 90, 400)
	if cfg.NVal < 2 && r.Chance("cfg", 3, 4) {
		cfg.NVal = 2
	}
	s := NewSim(r, cfg)
	defer c06Release(s)
	s.c06Prepare(1 + r.Draw("cfg", 2))
	if debugHalt {
		s.HaltOnBlockPanic = true
	}
	newC06Mon(s)
	s.RunHistory()
	// let the unbonding period pass for some runs (matured unbondings, unbonded validators)
	if r.Chance("cfg", 1, 4) {
		s.SlowBlocks(22 * 24 * time.Hour)
		for i := 0; i < 6; i++ {
			s.StepOp()
		}
	}
}

func c06NonTrivial(r *simrt.Run) bool {
	staking := r.Ops["c06_val_undelegate:ok"] + r.Ops["c06_val_redelegate:ok"] + r.Ops["val_delegate:ok"] + r.Ops["val_undelegate:ok"] + r.Ops["val_redelegate:ok"] + r.Ops["c06_cancel_unbond:ok"]
	dual := r.Ops["delegate:ok"] + r.Ops["c06_delegate:ok"] + r.Ops["c06_unbond:ok"] + r.Ops["c06_redelegate:ok"] + r.Ops["unbond:ok"] + r.Ops["redelegate:ok"]
	return r.OKOps() >= 12 && staking >= 2 && dual >= 2 && r.Ops["stake:ok"] >= 1
}

func init() {
	AddOp("c06_unbond", (*Sim).opC06Unbond)
	AddOp("c06_redelegate", (*Sim).opC06Redelegate)
	AddOp("c06_delegate_spread", (*Sim).opC06DelegateSpread)
	AddOp("c06_val_undelegate", (*Sim).opC06ValUndelegate)
	AddOp("c06_val_redelegate", (*Sim).opC06ValRedelegate)
	AddOp("c06_cancel_unbond", (*Sim).opC06CancelUnbond)
	AddOp("c06_val_create", (*Sim).opC06ValCreate)
	AddOp("c06_unjail", (*Sim).opC06Unjail)
	AddOp("c06_multi", (*Sim).opC06Multi)
	AddOp("c06_slash", (*Sim).opC06Slash)
	simrt.Register("C06", &simrt.PropSpec{Fn: runC06, NonTrivial: c06NonTrivial,
		Rule: "tape-generated histories interleaving staking-module Delegate/Undelegate/BeginRedelegate/CancelUnbondingDelegation/CreateValidator/Unjail with dual-staking Delegate/Redelegate/Unbond/ClaimRewards and pairing Stake/Modify/MoveStake/Unstake (amounts mostly picked from what the actor really holds), multi-message transactions, and validator slashes (fraction, infraction height in the past, optional jail; in some blocks two or three different validators are slashed, as with correlated downtime or several pieces of evidence) executed at the start of a block before dualstaking's BeginBlock; every transaction first passes the real redelegation ante flagger. After every transaction and every block, for every account with a delegation on either side: |sum of provider delegations incl. empty provider - sum of token value of validator shares| <= (validators used + share-moving events on those validators since the delegator was last exactly balanced); no provider delegation negative; VerifyDelegatorBalance agrees with the independent computation up to rounding. Non-trivial = >=12 accepted operations incl. >=2 staking-module and >=2 dual-staking delegation changes and a provider stake",
		Real: chainReal, Stubbed: chainStub,
		Assume: append(append([]string{}, chainAssume...), "validator slashes/jails are injected by calling the real x/slashing keeper at the start of a block (the position of x/slashing and x/evidence in the app's begin-blocker order, before dualstaking); CometBFT evidence and missed-signature tracking are not simulated", "slash contract respected: validator not unbonded, infraction height within the unbonding period and not in the future")})
}
