package chainsim

import (
	"fmt"
	"strconv"
	"time"

	sdk "github.com/cosmos/cosmos-sdk/types"
	paramtypes "github.com/cosmos/cosmos-sdk/x/params/types"
	testkeeper "github.com/lavanet/lava/v5/testutil/keeper"
	downtimev1 "github.com/lavanet/lava/v5/x/downtime/v1"
	dualstakingtypes "github.com/lavanet/lava/v5/x/dualstaking/types"
	epochstoragetypes "github.com/lavanet/lava/v5/x/epochstorage/types"
	pairingtypes "github.com/lavanet/lava/v5/x/pairing/types"
	rewardstypes "github.com/lavanet/lava/v5/x/rewards/types"
)

// opGovParam: a governance parameter-change proposal for an arbitrary parameter of a lava module
// with an edge value of its type. The proposal goes through the real handler
// (spec.HandleParameterChangeProposal), so the parameter's own validation function decides whether
// it is accepted: every accepted value is a state reachable through a valid proposal.
// (EpochBlocks/EpochsToSave have their own, denser generator in the C16 theme.)
//
// Values are drawn from a plausible operating range (no zeros, nothing astronomically large): most
// parameter validation functions of the lava modules are "TODO implement validation" stubs, so
// e.g. EpochsToSave=0 is accepted and halts the chain in the timer store ("timer expiry block
// smaller than ctx block") — recorded in DESIGN.md as an observation about missing validation, not
// generated here. Sub-second durations stay in: fast chains have sub-second block times.
func (s *Sim) opGovParam() {
	r := s.R
	type mod struct {
		subspace string
		pairs    paramtypes.ParamSetPairs
	}
	ep, pp, dp, rp, sp := epochstoragetypes.DefaultParams(), pairingtypes.DefaultParams(), downtimev1.DefaultParams(), rewardstypes.DefaultParams(), dualstakingtypes.DefaultParams()
	mods := []mod{
		{epochstoragetypes.ModuleName, (&ep).ParamSetPairs()},
		{pairingtypes.ModuleName, (&pp).ParamSetPairs()},
		{"downtime", (&dp).ParamSetPairs()},
		{rewardstypes.ModuleName, (&rp).ParamSetPairs()},
		{dualstakingtypes.ModuleName, (&sp).ParamSetPairs()},
	}
	m := mods[r.Draw("ops", len(mods))]
	if len(m.pairs) == 0 {
		r.Op("gov_param", "skip")
		return
	}
	p := m.pairs[r.Draw("ops", len(m.pairs))]
	if string(p.Key) == "LatestParamChange" { // internal bookkeeping, not a governance knob
		r.Op("gov_param", "skip")
		return
	}
	q := func(v string) string { return "\"" + v + "\"" }
	var val string
	switch p.Value.(type) {
	case *uint64:
		val = q(strconv.FormatUint([]uint64{1, 2, 3, 5, 10, 20, 100, 1000}[r.Draw("ops", 8)], 10))
	case *int64:
		val = q(strconv.FormatInt([]int64{1, 2, 5, 10, 100, 1000}[r.Draw("ops", 6)], 10))
	case *time.Duration:
		ds := []time.Duration{200 * time.Millisecond, 500 * time.Millisecond, 999 * time.Millisecond, time.Second, 1500 * time.Millisecond, time.Minute, 5 * time.Minute, time.Hour, 24 * time.Hour}
		val = q(strconv.FormatInt(int64(ds[r.Draw("ops", len(ds))]), 10))
	case *sdk.Dec:
		val = q([]string{"0.01", "0.1", "0.5", "0.99", "1"}[r.Draw("ops", 5)])
	case *bool:
		val = []string{"true", "false"}[r.Draw("ops", 2)]
	default:
		r.Op("gov_param", "skip")
		r.Logf("gov_param %s/%s: type %T not generated", m.subspace, string(p.Key), p.Value)
		return
	}
	res := s.Tx("gov_param", nil, func(ctx sdk.Context) error {
		return testkeeper.SimulateParamChange(ctx, s.K.ParamsKeeper, m.subspace, string(p.Key), val)
	})
	out := "ok"
	if res.Err != nil {
		out = "rejected"
	}
	r.Op("gov_param", out)
	if res.Err == nil {
		r.Fault(fmt.Sprintf("gov_param:%s/%s", m.subspace, string(p.Key)))
	}
	r.Logf("gov_param %s/%s = %s: %s", m.subspace, string(p.Key), val, short(res.Err))
}

func init() {
	AddOp("gov_param", (*Sim).opGovParam)
}
