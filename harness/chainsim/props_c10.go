package chainsim

// C10 — escrowed obligations are always fully backed.
//
// After every block and every accepted transaction the three module accounts that hold other
// people's money are compared with the obligations recorded in state. The file also adds the
// IPRPC operations (governance SetIprpcData, FundIprpc) used by C10 and C11 (prefix c10).

import (
	"fmt"
	"strings"

	"cosmossdk.io/math"
	sdk "github.com/cosmos/cosmos-sdk/types"
	authtypes "github.com/cosmos/cosmos-sdk/x/auth/types"
	govtypes "github.com/cosmos/cosmos-sdk/x/gov/types"
	testkeeper "github.com/lavanet/lava/v5/testutil/keeper"
	dualstakingtypes "github.com/lavanet/lava/v5/x/dualstaking/types"
	rewardstypes "github.com/lavanet/lava/v5/x/rewards/types"
	subscriptiontypes "github.com/lavanet/lava/v5/x/subscription/types"
	"github.com/lavanet/lava/v5/zz_verif/simrt"
)

const c10OtherDenom = "uother"

type c10Ext struct {
	s       *Sim
	Funders []*Account
}

var c10Cur *c10Ext

func c10ext(s *Sim) *c10Ext {
	if c10Cur == nil || c10Cur.s != s {
		c10Cur = &c10Ext{s: s}
	}
	return c10Cur
}

// c10AddFunders creates IPRPC funders (setup-time funding: call right after NewSim).
func (s *Sim) c10AddFunders(n int) {
	x := c10ext(s)
	for i := 0; i < n; i++ {
		a := s.NewAccount(fmt.Sprintf("funder%d", i), 0)
		coins := sdk.NewCoins(s.Coin(int64(200_000+s.R.Draw("cfg", 2_000_000))), sdk.NewCoin(c10OtherDenom, sdk.NewInt(int64(s.R.Draw("cfg", 500_000)))))
		s.K.BankKeeper.SetBalance(s.Ctx, a.Account.Addr, coins)
		x.Funders = append(x.Funders, a)
	}
}

func c10GovAuthority() string { return authtypes.NewModuleAddress(govtypes.ModuleName).String() }

// opC10IprpcSetData: governance sets the minimum IPRPC cost and adds IPRPC-eligible subscriptions.
func (s *Sim) opC10IprpcSetData() {
	r := s.R
	cost := s.Coin(int64(100 * r.Draw("ops", 6)))
	var subs []string
	var names []string
	for _, c := range s.Consumers {
		if r.Chance("ops", 1, 2) {
			subs = append(subs, c.Acc.Addr)
			names = append(names, c.Acc.Name)
		}
	}
	msg := rewardstypes.NewMsgSetIprpcData(c10GovAuthority(), cost, subs)
	res := s.Tx("c10_iprpc_setdata", nil, func(ctx sdk.Context) error {
		if err := msg.ValidateBasic(); err != nil {
			return err
		}
		_, err := s.S.RewardsServer.SetIprpcData(ctx, msg)
		return err
	})
	out := "ok"
	if res.Err != nil {
		out = "rejected"
	}
	r.Op("c10_iprpc_setdata", out)
	r.Logf("gov iprpc set-data min_cost=%s eligible=%v: %s", cost.Amount, names, short(res.Err))
}

// opC10IprpcFund: somebody funds the IPRPC pool for a spec for some months.
func (s *Sim) opC10IprpcFund() {
	r := s.R
	x := c10ext(s)
	if len(x.Funders) == 0 {
		s.opC10IprpcSetData()
		return
	}
	f := x.Funders[r.Draw("ops", len(x.Funders))]
	spec := s.pickSpec().Index
	if r.Chance("ops", 1, 12) {
		spec = "NOSPEC"
	}
	duration := uint64(1 + r.Draw("ops", 4))
	if r.Chance("ops", 1, 10) {
		duration = 12
	}
	minCost := math.ZeroInt()
	func() {
		defer func() { _ = recover() }() // min cost not set yet
		minCost = s.K.Rewards.GetMinIprpcCost(s.Ctx).Amount
	}()
	if minCost.IsNil() {
		minCost = math.ZeroInt()
	}
	amount := minCost.AddRaw(int64(r.Draw("ops", 5000)))
	if r.Chance("ops", 1, 10) && minCost.IsPositive() {
		amount = minCost.SubRaw(1) // below the minimum
	}
	coins := sdk.NewCoins(sdk.NewCoin(s.Denom, amount))
	if r.Chance("ops", 1, 3) {
		coins = coins.Add(sdk.NewCoin(c10OtherDenom, sdk.NewInt(int64(1+r.Draw("ops", 3000)))))
	}
	msg := rewardstypes.NewMsgFundIprpc(f.Addr, spec, duration, coins)
	res := s.msgTx("c10_iprpc_fund", []sdk.Msg{msg}, func(ctx sdk.Context) error {
		_, err := s.S.RewardsServer.FundIprpc(ctx, msg)
		return err
	})
	r.Logf("iprpc fund by=%s spec=%s months=%d per-month=%s (min %s): %s", f.Name, spec, duration, coins, minCost, short(res.Err))
}

// ---------------------------------------------------------------------------------------------
// obligations
// ---------------------------------------------------------------------------------------------

func (s *Sim) c10Balances(module string) sdk.Coins {
	return s.K.BankKeeper.GetAllBalances(s.Ctx, testkeeper.GetModuleAddress(module))
}

// c10CuTimers returns the pending monthly payout timers (consumer, expiry block, data).
type c10CuTimer struct {
	Consumer string
	Expiry   uint64
	Data     subscriptiontypes.CuTrackerTimerData
}

func (s *Sim) c10CuTimers() []c10CuTimer {
	var out []c10CuTimer
	gs := s.K.Subscription.ExportCuTrackerTimers(s.Ctx)
	for _, e := range gs.BlockEntries {
		var d subscriptiontypes.CuTrackerTimerData
		if err := d.Unmarshal(e.Data); err != nil {
			continue
		}
		out = append(out, c10CuTimer{Consumer: e.Key, Expiry: e.Value, Data: d})
	}
	return out
}

type c10Oblig struct {
	DelegatorRewards sdk.Coins
	IprpcFunds       sdk.Coins
	SubCredit        math.Int // live subscriptions
	FutureCredit     math.Int // advance purchases
	TimerCredit      math.Int // pending monthly payouts
}

func (s *Sim) c10Obligations() c10Oblig {
	o := c10Oblig{DelegatorRewards: sdk.NewCoins(), IprpcFunds: sdk.NewCoins(), SubCredit: math.ZeroInt(), FutureCredit: math.ZeroInt(), TimerCredit: math.ZeroInt()}
	for _, dr := range s.K.Dualstaking.GetAllDelegatorReward(s.Ctx) {
		o.DelegatorRewards = o.DelegatorRewards.Add(dr.Amount...)
	}
	cur := s.K.Rewards.GetIprpcRewardsCurrentId(s.Ctx)
	for _, ir := range s.K.Rewards.GetAllIprpcReward(s.Ctx) {
		if ir.Id < cur {
			continue
		}
		for _, sf := range ir.SpecFunds {
			o.IprpcFunds = o.IprpcFunds.Add(sf.Fund...)
		}
	}
	for _, consumer := range s.K.Subscription.GetAllSubscriptionsIndices(s.Ctx) {
		// the entry that is (or at the next epoch becomes) the current one carries what is still owed
		if sb := s.c13Newest(consumer); sb != nil {
			if sb.Credit.Denom == s.Denom {
				o.SubCredit = o.SubCredit.Add(sb.Credit.Amount)
			}
			if f := sb.FutureSubscription; f != nil && f.Credit.Denom == s.Denom {
				o.FutureCredit = o.FutureCredit.Add(f.Credit.Amount)
			}
		}
	}
	for _, t := range s.c10CuTimers() {
		o.TimerCredit = o.TimerCredit.Add(t.Data.Credit.Amount)
	}
	return o
}

type c10Mon struct {
	s          *Sim
	lastIprpc  uint64
	lastPool   sdk.Coins
	lastFunded sdk.Coins // funds recorded for the current month at the last observation
}

func (m *c10Mon) check(where string) {
	s, r := m.s, m.s.R
	o := s.c10Obligations()
	ds := s.c10Balances(dualstakingtypes.ModuleName)
	r.Check(ds.IsAllGTE(o.DelegatorRewards), "escrow-underfunded", "dualstaking", "%s at height %d: dual-staking module holds %s but claimable delegator rewards sum to %s", where, s.Height(), ds, o.DelegatorRewards)
	pool := s.c10Balances(string(rewardstypes.IprpcPoolName))
	r.Check(pool.IsAllGTE(o.IprpcFunds), "escrow-underfunded", "iprpc-pool", "%s at height %d: IPRPC pool holds %s but current+future IPRPC months are promised %s", where, s.Height(), pool, o.IprpcFunds)
	sub := s.ModuleBalance(subscriptiontypes.ModuleName)
	owed := o.SubCredit.Add(o.FutureCredit).Add(o.TimerCredit)
	r.Check(sub.GTE(owed), "escrow-underfunded", "subscription", "%s at height %d: subscription module holds %s but owes %s (live credit %s + advance purchases %s + pending monthly payouts %s)", where, s.Height(), sub, owed, o.SubCredit, o.FutureCredit, o.TimerCredit)
	if !o.DelegatorRewards.IsZero() {
		r.Probe("c10_delegator_rewards_outstanding")
	}
	if !o.IprpcFunds.IsZero() {
		r.Probe("c10_iprpc_funds_outstanding")
	}
	if o.FutureCredit.IsPositive() {
		r.Probe("c10_advance_credit_outstanding")
	}
	if o.TimerCredit.IsPositive() {
		r.Probe("c10_payout_timer_pending")
	}
}

func (m *c10Mon) currentMonthFunds() sdk.Coins {
	s := m.s
	out := sdk.NewCoins()
	if ir, ok := s.K.Rewards.GetIprpcReward(s.Ctx, s.K.Rewards.GetIprpcRewardsCurrentId(s.Ctx)); ok {
		for _, sf := range ir.SpecFunds {
			out = out.Add(sf.Fund...)
		}
	}
	return out
}

func (m *c10Mon) afterBlock() {
	s, r := m.s, m.s.R
	m.check("block")
	id := s.K.Rewards.GetIprpcRewardsCurrentId(s.Ctx)
	pool := s.c10Balances(string(rewardstypes.IprpcPoolName))
	if id != m.lastIprpc {
		r.Probe("c10_iprpc_month_rolled")
		if !m.lastFunded.IsZero() {
			if pool.IsEqual(m.lastPool) {
				r.Probe("c10_iprpc_month_nobody_serviced") // the month's funds were carried over
			} else {
				r.Probe("c10_iprpc_month_paid")
			}
		}
	}
	m.lastIprpc, m.lastPool, m.lastFunded = id, pool, m.currentMonthFunds()
}

func (m *c10Mon) afterTx(tx *TxResult) {
	r := m.s.R
	if tx.Name == "claim" || tx.Name == "c10_claim_all" {
		bad := tx.Panic != nil
		if tx.Err != nil {
			e := tx.Err.Error()
			bad = bad || strings.Contains(e, "not enough coins") || strings.Contains(e, "insufficient")
		}
		r.Check(!bad, "claim-failed", "insufficient-funds", "claim of recorded delegator rewards failed: %v", tx.Err)
	}
	if tx.Err == nil {
		m.check("tx:" + tx.Name)
		m.lastPool, m.lastFunded = m.s.c10Balances(string(rewardstypes.IprpcPoolName)), m.currentMonthFunds()
	}
}

// c10ClaimAll: every vault and delegator claims everything; each claim must succeed.
func (s *Sim) c10ClaimAll() {
	var who []*Account
	for _, p := range s.Providers {
		who = append(who, p.Vault)
	}
	who = append(who, s.Delegators...)
	for _, a := range who {
		msg := &dualstakingtypes.MsgClaimRewards{Creator: a.Addr, Provider: ""}
		before := s.Balance(a.Account.Addr)
		res := s.msgTx("c10_claim_all", []sdk.Msg{msg}, func(ctx sdk.Context) error {
			_, err := s.S.DualstakingServer.ClaimRewards(ctx, msg)
			return err
		})
		got := s.Balance(a.Account.Addr).Sub(before)
		if res.Err == nil && got.IsPositive() {
			s.R.Probe("c10_claim_paid")
		}
		s.R.Logf("claim-all %s got=%s: %s", a.Name, got, short(res.Err))
	}
}

func c10Weights() map[string]int {
	w := c13Weights()
	w["c10_iprpc_setdata"] = 2
	w["c10_iprpc_fund"] = 6
	w["claim"] = 5
	w["relay"] = 24
	w["delegate"] = 5
	return w
}

func runC10(r *simrt.Run) {
	c13Reset()
	c10Cur = nil
	cfg := mkCfg(r, c10Weights(), 70, 400)
	cfg.NPlans = 2 + r.Draw("cfg", 3)
	s := NewSim(r, cfg)
	s.c13AddPoor(1 + r.Draw("cfg", 2))
	s.c10AddFunders(1 + r.Draw("cfg", 2))
	m := &c10Mon{s: s, lastPool: sdk.NewCoins(), lastFunded: sdk.NewCoins()}
	s.AfterTx = append(s.AfterTx, func(w *World, tx *TxResult) { m.afterTx(tx) })
	s.AfterBlock = append(s.AfterBlock, func(w *World) { m.afterBlock() })
	s.c13AttachProbes()
	c13AfterBuy = append(c13AfterBuy, func(_ *Sim, info *c13BuyInfo) {
		if info.Err != nil {
			return
		}
		for _, t := range s.c10CuTimers() {
			if t.Consumer == info.Msg.Consumer {
				r.Probe("c10_buy_" + info.Kind + "_inside_payout_window")
			}
		}
	})
	r.Step()
	s.opC10IprpcSetData()
	s.c13Warmup()
	for i := 0; i < cfg.Steps; i++ {
		s.StepOp()
	}
	// let pending payouts happen, then everybody claims
	r.Step()
	s.opC13Months()
	s.c10ClaimAll()
	s.NextBlock(s.BlockTimeDefault())
}

func c10NonTrivial(r *simrt.Run) bool {
	return r.OKOps() >= 10 && r.Ops["relay:ok"] >= 1 && r.Probes["c10_payout_timer_pending"] >= 1 && r.Probes["c10_delegator_rewards_outstanding"] >= 1
}

func init() {
	AddOp("c10_iprpc_setdata", (*Sim).opC10IprpcSetData)
	AddOp("c10_iprpc_fund", (*Sim).opC10IprpcFund)
	simrt.Register("C10", &simrt.PropSpec{Fn: runC10, NonTrivial: c10NonTrivial,
		Rule: "tape-generated histories over months of slow blocks: subscription purchases of every kind (incl. advance purchases replaced before activation, upgrades inside the payout window, auto-renewal with and without funds), governance plan changes, relay payments (also by IPRPC-eligible subscriptions), governance SetIprpcData and FundIprpc in one or two denoms for 1..12 months (months nobody serviced are carried over), dual-staking delegations/unbonds/claims, provider stake changes. After every block and accepted transaction: balance(dualstaking) >= sum of DelegatorReward amounts (per denom); balance(iprpc_pool) >= sum of IprpcReward funds with id >= current id (per denom); balance(subscription) >= sum over live subscriptions (entry in force from the next epoch) of Credit + FutureSubscription.Credit + sum of pending CuTrackerTimerData.Credit; reward claims never fail for lack of funds (also a final claim-all). Non-trivial = >=10 accepted operations incl. a paid relay, a pending monthly payout and outstanding delegator rewards were observed",
		Real: chainReal, Stubbed: chainStub, Assume: append([]string{"insufficient-funds errors that lava only logs inside Begin/EndBlock are not observed directly; they show up as an unbacked recorded obligation in the next comparison", "consecutive blocks are at most 12 h apart"}, chainAssume...)})
}
