package chainsim

// C12 — subscriptions live exactly as long as paid for.
//
// A small ledger per consumer (months left, next month boundary, advance purchase) is written from
// the property statement and fed by acknowledged purchases only. It is compared with the
// subscription after every transaction and every block; the creator's balance is compared around
// every purchase and around every block in which an auto-renewal could have happened.

import (
	"sort"
	"time"

	"cosmossdk.io/math"
	sdk "github.com/cosmos/cosmos-sdk/types"
	planstypes "github.com/lavanet/lava/v5/x/plans/types"
	subscriptiontypes "github.com/lavanet/lava/v5/x/subscription/types"
	"github.com/lavanet/lava/v5/zz_verif/simrt"
)

// c12NextMonth: "the same day next month (UTC); days after the 28th count as the 28th".
func c12NextMonth(t time.Time) time.Time {
	t = t.UTC()
	y, m, d := t.Date()
	if d > 28 {
		d = 28
	}
	m++
	if m > 12 {
		m = 1
		y++
	}
	return time.Date(y, m, d, t.Hour(), t.Minute(), t.Second(), 0, time.UTC)
}

// c12Price: plan price times months, minus the annual discount for purchases of a year or more.
func c12Price(p planstypes.Plan, months uint64) math.Int {
	full := p.Price.Amount.MulRaw(int64(months))
	if months >= 12 && p.AnnualDiscountPercentage > 0 {
		full = full.MulRaw(int64(100 - p.AnnualDiscountPercentage)).QuoRaw(100)
	}
	return full
}

type c12Model struct {
	left     uint64 // months paid for and not yet consumed
	expiry   uint64 // unix time of the next month boundary
	removeAt uint64 // >0: the paid time is over; from this height on the subscription must be gone
	// advance purchase
	hasFuture     bool
	futureMonths  uint64
	futurePaid    math.Int
	futurePlan    string
	futureBlock   uint64
	projectsAtEnd map[string]bool // projects that existed when the last paid month ended
	cuTainted     bool            // a (muted, known) CU-total finding was already reported for this subscription
}

type c12Mon struct {
	s            *Sim
	model        map[string]*c12Model                       // consumer address -> ledger
	prev         map[string]*subscriptiontypes.Subscription // newest entry seen at the last observation point
	bal          map[string]math.Int                        // payer balances at the last observation point
	payers       []*Account
	prevProjects map[string][]string // consumer -> project ids at the last observation point
}

func newC12Mon(s *Sim) *c12Mon {
	m := &c12Mon{s: s, model: map[string]*c12Model{}, prev: map[string]*subscriptiontypes.Subscription{}, bal: map[string]math.Int{}, prevProjects: map[string][]string{}}
	for _, c := range s.Consumers {
		m.payers = append(m.payers, c.Acc)
	}
	m.payers = append(m.payers, c13ext(s).Poor...)
	m.snapshot()
	return m
}

func (m *c12Mon) snapshot() {
	s := m.s
	for _, p := range m.payers {
		m.bal[p.Addr] = s.Balance(p.Account.Addr)
	}
	for _, c := range s.Consumers {
		m.prev[c.Acc.Addr] = s.c13Newest(c.Acc.Addr)
		m.prevProjects[c.Acc.Addr] = s.K.Projects.GetAllProjectsForSubscription(s.Ctx, c.Acc.Addr)
	}
}

// compare checks the ledger of one consumer against the chain (newest entry = the entry that is,
// or at the next epoch becomes, the current one).
func (m *c12Mon) compare(where string, c *ConsumerActor) {
	s, r := m.s, m.s.R
	addr := c.Acc.Addr
	md := m.model[addr]
	newest := s.c13Newest(addr)
	cur := s.c13Current(addr)
	for _, sb := range []*subscriptiontypes.Subscription{cur, newest} {
		if sb != nil {
			r.Check(sb.MonthCuLeft <= sb.MonthCuTotal, "month-cu-out-of-range", "left>total", "%s: %s has MonthCuLeft %d > MonthCuTotal %d at height %d", where, c.Acc.Name, sb.MonthCuLeft, sb.MonthCuTotal, s.Height())
		}
	}
	if md == nil {
		return
	}
	if md.removeAt > 0 {
		if s.Height() >= md.removeAt {
			projects := s.K.Projects.GetAllProjectsForSubscription(s.Ctx, addr)
			r.Check(cur == nil && newest == nil, "subscription-outlives-payment", "still-active", "%s: all paid months of %s are consumed (removal due at height %d) but at height %d the subscription is still there: %s", where, c.Acc.Name, md.removeAt, s.Height(), c13SubStr(cur))
			sig := "projects-remain"
			for _, p := range projects {
				if !md.projectsAtEnd[p] {
					// created by an AddProject transaction accepted between the last month boundary and the
					// epoch at which the removal takes effect
					sig = "project-added-after-last-month-remains"
				}
			}
			r.Check(len(projects) == 0, "subscription-outlives-payment", sig, "%s: subscription of %s is gone at height %d but its projects remain: %v", where, c.Acc.Name, s.Height(), projects)
			delete(m.model, addr)
			r.Probe("c12_removed_with_projects")
		}
		return
	}
	if !c13Check(r, newest != nil, "subscription-vanished-early", where0(where), "%s: %s paid for %d more month(s) (next boundary %s) but has no subscription at height %d (current view: %s)", where, c.Acc.Name, md.left, c12T(md.expiry), s.Height(), c13SubStr(cur)) {
		return
	}
	r.Check(newest.DurationLeft == md.left, "months-left-mismatch", where0(where), "%s: %s should have %d month(s) left, the chain says %d at height %d: %s", where, c.Acc.Name, md.left, newest.DurationLeft, s.Height(), c13SubStr(newest))
	r.Check(newest.MonthExpiryTime == md.expiry, "month-boundary-mismatch", where0(where), "%s: next month boundary of %s should be %s, the chain says %s at height %d: %s", where, c.Acc.Name, c12T(md.expiry), c12T(newest.MonthExpiryTime), s.Height(), c13SubStr(newest))
	f := newest.FutureSubscription
	r.Check((f != nil) == md.hasFuture, "advance-purchase-mismatch", where0(where), "%s: %s advance purchase expected=%v on chain=%v at height %d: %s", where, c.Acc.Name, md.hasFuture, f != nil, s.Height(), c13SubStr(newest))
	if f != nil && md.hasFuture {
		r.Check(f.DurationBought == md.futureMonths && f.PlanIndex == md.futurePlan && f.PlanBlock == md.futureBlock, "advance-purchase-mismatch", where0(where), "%s: %s advance purchase should be %s@%d x%d: %s", where, c.Acc.Name, md.futurePlan, md.futureBlock, md.futureMonths, c13SubStr(newest))
	}
}

func c12T(u uint64) string { return time.Unix(int64(u), 0).UTC().Format("2006-01-02T15:04:05") }

// where0 turns "tx:buy" / "block" into a stable signature part
func where0(w string) string {
	if len(w) > 3 && w[:3] == "tx:" {
		return "after-tx"
	}
	return w
}

// afterBuy: the charge and the ledger update of one acknowledged purchase.
func (m *c12Mon) afterBuy(info *c13BuyInfo) {
	s, r := m.s, m.s.R
	if info.Err != nil {
		return
	}
	msg := info.Msg
	addr := msg.Consumer
	paid := info.CreatorBefore.Sub(info.CreatorAfter)
	full := c12Price(info.Plan, msg.Duration)
	md := m.model[addr]
	if md != nil && md.removeAt > 0 && info.PrevSub == nil {
		md = nil // the old subscription is over; this is a new one
	}
	if msg.Duration >= 12 && info.Plan.AnnualDiscountPercentage > 0 {
		r.Probe("c12_annual_discount")
	}
	switch {
	case msg.AdvancePurchase:
		if md == nil {
			r.Fail("purchase-without-subscription", "advance", "advance purchase for %s accepted although the ledger has no live subscription", s.NameOf(addr))
		}
		want := full
		sig := "advance"
		if md.hasFuture {
			want = full.Sub(md.futurePaid)
			sig = "advance-replace"
			r.Probe("c12_advance_replaced")
		}
		r.Check(paid.Equal(want), "purchase-charge", sig, "advance purchase %s x%d (price %s, discount %d%%) for %s charged %s to %s, expected %s (full %s, previous advance purchase %s)", msg.Index, msg.Duration, info.Plan.Price.Amount, info.Plan.AnnualDiscountPercentage, s.NameOf(addr), paid, s.NameOf(msg.Creator), want, full, md.futurePaid)
		md.hasFuture, md.futureMonths, md.futurePaid, md.futurePlan, md.futureBlock = true, msg.Duration, full, info.Plan.Index, info.Plan.Block
	case md == nil:
		r.Check(paid.Equal(full), "purchase-charge", "new", "new subscription %s x%d (price %s, discount %d%%) for %s charged %s to %s, expected %s", msg.Index, msg.Duration, info.Plan.Price.Amount, info.Plan.AnnualDiscountPercentage, s.NameOf(addr), paid, s.NameOf(msg.Creator), full)
		m.model[addr] = &c12Model{left: msg.Duration, expiry: uint64(c12NextMonth(info.Time).Unix()), futurePaid: math.ZeroInt()}
	case info.PrevSub != nil && info.PrevSub.PlanIndex == msg.Index:
		r.Check(paid.Equal(full), "purchase-charge", "extend", "extension %s x%d (price %s, discount %d%%) for %s charged %s to %s, expected %s", msg.Index, msg.Duration, info.Plan.Price.Amount, info.Plan.AnnualDiscountPercentage, s.NameOf(addr), paid, s.NameOf(msg.Creator), full)
		md.left += msg.Duration
		r.Probe("c12_extended")
	default:
		r.Check(paid.Equal(full), "purchase-charge", "upgrade", "upgrade to %s x%d (price %s, discount %d%%) for %s charged %s to %s, expected %s", msg.Index, msg.Duration, info.Plan.Price.Amount, info.Plan.AnnualDiscountPercentage, s.NameOf(addr), paid, s.NameOf(msg.Creator), full)
		md.left = msg.Duration
		md.expiry = uint64(c12NextMonth(info.Time).Unix())
		r.Probe("c12_upgraded")
	}
	for _, c := range s.Consumers {
		m.compare("tx:buy", c)
	}
	m.snapshot()
}

func (m *c12Mon) afterTx(tx *TxResult) {
	s := m.s
	// purchases are compared in afterBuy, once the ledger has been updated by the acknowledgement
	if tx.Err == nil && tx.Name != "buy" {
		for _, c := range s.Consumers {
			m.compare("tx:"+tx.Name, c)
		}
	}
	m.snapshot()
}

// afterBlock: month boundaries that this block crossed.
func (m *c12Mon) afterBlock() {
	s, r := m.s, m.s.R
	now := uint64(s.Now().Unix())
	nextEpoch := s.NextEpochBlock()
	expectCharge := map[string]math.Int{}
	for _, c := range s.Consumers {
		addr := c.Acc.Addr
		md := m.model[addr]
		if md == nil || md.removeAt > 0 || md.expiry > now {
			continue
		}
		// a month boundary of this subscription passed in this block
		r.Probe("c12_month_boundary")
		before := m.prev[addr]
		md.left--
		boundary := "month-boundary"
		newest := s.c13Newest(addr)
		switch {
		case md.left > 0:
			md.expiry = uint64(c12NextMonth(s.Now()).Unix())
		case md.hasFuture:
			md.left = md.futureMonths
			md.hasFuture = false
			md.expiry = uint64(c12NextMonth(s.Now()).Unix())
			r.Probe("c12_advance_activated")
			boundary = "advance-purchase-activation"
			if newest != nil {
				r.Check(newest.PlanIndex == md.futurePlan && newest.PlanBlock == md.futureBlock && newest.Credit.Amount.Equal(md.futurePaid), "advance-purchase-mismatch", "activation", "advance purchase %s@%d x%d (paid %s) of %s activated as: %s", md.futurePlan, md.futureBlock, md.futureMonths, md.futurePaid, c.Acc.Name, c13SubStr(newest))
			}
			md.futurePaid = math.ZeroInt()
		case before != nil && before.AutoRenewalNextPlan != subscriptiontypes.AUTO_RENEWAL_PLAN_NONE && newest != nil:
			// still alive after its last paid month: only a successful auto-renewal allows that, and
			// it costs the creator one month of the renewal plan's current price
			plan, ok := s.c13LatestPlan(before.AutoRenewalNextPlan)
			if !c13Check(r, ok, "renewal-without-plan", "auto-renewal", "%s was auto-renewed onto %q which has no available version at height %d", c.Acc.Name, before.AutoRenewalNextPlan, s.Height()) {
				plan.Price = s.Coin(0)
			}
			md.left = 1
			md.expiry = uint64(c12NextMonth(s.Now()).Unix())
			e, seen := expectCharge[before.Creator]
			if !seen {
				e = math.ZeroInt()
			}
			expectCharge[before.Creator] = e.Add(plan.Price.Amount)
			r.Probe("c12_auto_renewed")
			boundary = "auto-renewal-same-plan-version"
			if plan.Index != before.PlanIndex || plan.Block != before.PlanBlock {
				r.Probe("c12_auto_renewed_other_version")
				boundary = "auto-renewal-other-plan-version"
			}
		default:
			// paid time is over
			md.removeAt = nextEpoch
			md.projectsAtEnd = map[string]bool{}
			if before != nil {
				for _, p := range m.prevProjects[addr] {
					md.projectsAtEnd[p] = true
				}
			}
			if before != nil && before.AutoRenewalNextPlan != subscriptiontypes.AUTO_RENEWAL_PLAN_NONE {
				r.Probe("c12_auto_renewal_failed")
				if plan, ok := s.c13LatestPlan(before.AutoRenewalNextPlan); ok {
					if a, known := s.ByAddr[before.Creator]; known && m.bal[a.Addr].LT(plan.Price.Amount) {
						r.Probe("c12_auto_renewal_without_funds")
					}
				} else {
					r.Probe("c12_auto_renewal_plan_gone")
				}
			} else {
				r.Probe("c12_expired")
			}
			r.Check(newest == nil, "subscription-outlives-payment", "after-last-month", "%s consumed its last paid month at height %d (no advance purchase, no successful renewal) but a subscription entry remains for the next epoch: %s", c.Acc.Name, s.Height(), c13SubStr(newest))
		}
		if md.removeAt == 0 && newest != nil {
			// the new month starts with the full allowance of the plan version in force
			plan, ok := s.K.Plans.FindPlan(s.Ctx, newest.PlanIndex, newest.PlanBlock)
			if ok && !md.cuTainted {
				md.cuTainted = !c13Check(r, newest.MonthCuLeft == newest.MonthCuTotal && newest.MonthCuTotal == plan.PlanPolicy.TotalCuLimit, "month-cu-not-reset", boundary, "%s entered a new month at height %d with MonthCuLeft=%d MonthCuTotal=%d, plan %s@%d total=%d", c.Acc.Name, s.Height(), newest.MonthCuLeft, newest.MonthCuTotal, newest.PlanIndex, newest.PlanBlock, plan.PlanPolicy.TotalCuLimit)
				if before != nil && before.MonthCuLeft < before.MonthCuTotal {
					r.Probe("c12_reset_after_usage")
				}
			}
		}
	}
	// payers are charged in a block only by successful auto-renewals, exactly one month's price each
	addrs := make([]string, 0, len(m.bal))
	for a := range m.bal {
		addrs = append(addrs, a)
	}
	sort.Strings(addrs)
	for _, a := range addrs {
		acc := s.ByAddr[a]
		delta := m.bal[a].Sub(s.Balance(acc.Account.Addr))
		want, ok := expectCharge[a]
		if !ok {
			want = math.ZeroInt()
		}
		r.Check(delta.Equal(want), "renewal-charge", "block", "block %d charged %s to %s; auto-renewals that kept a subscription alive in this block account for %s", s.Height(), delta, acc.Name, want)
	}
	for _, c := range s.Consumers {
		m.compare("block", c)
	}
	m.snapshot()
}

func runC12(r *simrt.Run) {
	c13Reset()
	cfg := mkCfg(r, c13Weights(), 70, 400)
	cfg.NPlans = 2 + r.Draw("cfg", 3)
	s := NewSim(r, cfg)
	s.c13AddPoor(1 + r.Draw("cfg", 2))
	m := newC12Mon(s)
	c13AfterBuy = append(c13AfterBuy, func(_ *Sim, info *c13BuyInfo) { m.afterBuy(info) })
	s.AfterTx = append(s.AfterTx, func(w *World, tx *TxResult) { m.afterTx(tx) })
	s.AfterBlock = append(s.AfterBlock, func(w *World) { m.afterBlock() })
	s.c13Warmup()
	for i := 0; i < cfg.Steps; i++ {
		s.StepOp()
	}
	r.Step()
	s.opC13ToExpiry()
	s.AdvanceToNextEpoch(s.BlockTimeDefault() / 2)
}

func c12NonTrivial(r *simrt.Run) bool {
	return r.OKOps() >= 10 && r.Probes["c12_month_boundary"] >= 2 && r.Ops["buy:ok"] >= 2
}

var _ = sdk.NewInt

func init() {
	simrt.Register("C12", &simrt.PropSpec{Fn: runC12, NonTrivial: c12NonTrivial,
		Rule: "tape-generated histories over months of slow blocks (genesis dates incl. days 26-31, leap years; blocks <= 12 h apart): purchases of every kind chosen by looking at the state (new, extension of the same plan, upgrade to a pricier/cheaper plan, advance purchase and its pricier/cheaper replacement, 1..3 / 11 / 12 / 13 months, buyer != consumer, poor buyers), auto-renew toggles onto other or modified plans, governance plan versions and deletions, relay payments consuming CU. Ledger per consumer written from the statement (months left, next boundary = same day next month with days > 28 counted as 28, advance purchase), updated by acknowledged purchases only and compared with the newest subscription entry after every transaction and block; creator balance delta compared with price x months (annual discount from 12 months) or the difference to the replaced advance purchase; in every block payers may only be charged one month's current price per subscription that survived its last paid month through auto-renewal; at a boundary MonthCuLeft == MonthCuTotal == plan version total; after the last month the subscription and its projects must be gone from the next epoch on. Non-trivial = >=10 accepted operations, >=2 accepted purchases, >=2 month boundaries crossed",
		Real: chainReal, Stubbed: chainStub, Assume: append([]string{"consecutive blocks are at most 12 h apart (a month boundary is never crossed twice by one block)", "the subscription is observed through the keeper's GetSubscriptionForBlock(next epoch) (= QueryCurrent once the epoch starts): changes made by a month boundary or an upgrade are written for the next epoch"}, chainAssume...)})
}
