package chainsim

// C42 — IPRPC funds reach the providers that served IPRPC traffic.
//
// Observation points: IPRPC pool balance, IprpcReward records (all month ids), BasePay.IprpcCu,
// DelegatorReward records per provider, community pool (distribution FeePool) and validators pools —
// after every transaction, and bracketing every End/BeginBlock pair (the monthly distribution runs
// inside the refill callback in EndBlock).

import (
	"fmt"
	"sort"
	"strings"

	"cosmossdk.io/math"
	sdk "github.com/cosmos/cosmos-sdk/types"
	authtypes "github.com/cosmos/cosmos-sdk/x/auth/types"
	govtypes "github.com/cosmos/cosmos-sdk/x/gov/types"
	pairingtypes "github.com/lavanet/lava/v5/x/pairing/types"
	rewardstypes "github.com/lavanet/lava/v5/x/rewards/types"
	"github.com/lavanet/lava/v5/zz_verif/simrt"
)

var c42OtherDenoms = []string{"uibc", "uusd"}

type c42Pre struct {
	valid     bool
	curID     uint64
	rewards   map[uint64]map[string]sdk.Coins // month id -> spec -> fund
	basepays  []rewardstypes.BasePayWithIndex
	recs      map[string]sdk.Coins // provider|delegator -> claimable rewards
	community sdk.Coins
	anyTotal  bool // some BasePay carries subscription rewards: a bonus may be paid in the same callback
	contribs  int
}

type c42State struct {
	s        *Sim
	funders  []*Account
	eligible map[string]bool // acknowledged SetIprpcData
	pre      c42Pre
	// relay bracketing
	relayBP map[string]uint64 // provider|spec -> IprpcCu before the tx
	relayTC map[string]uint64 // consumer|subBlock|provider|spec -> tracked CU before the tx
	// IPRPC CU per provider|spec this month as seen through tracked-CU deltas of eligible subscriptions
	ledger      map[string]uint64
	rolledSpecs map[string]int // spec -> consecutive months rolled over
}

var c42Cur *c42State

func (st *c42State) rewardsByID() (map[uint64]map[string]sdk.Coins, sdk.Coins) {
	s := st.s
	out := map[uint64]map[string]sdk.Coins{}
	total := sdk.NewCoins()
	for _, rw := range s.K.Rewards.GetAllIprpcReward(s.Ctx) {
		m := map[string]sdk.Coins{}
		for _, sf := range rw.SpecFunds {
			m[sf.Spec] = m[sf.Spec].Add(sf.Fund...)
			total = total.Add(sf.Fund...)
		}
		out[rw.Id] = m
	}
	return out, total
}

func (st *c42State) community() sdk.Coins {
	c, _ := st.s.K.Distribution.GetFeePool(st.s.Ctx).CommunityPool.TruncateDecimal()
	return c
}

// checkPoolBacksRecords: the IPRPC pool holds exactly the funds of all IprpcReward records.
func (st *c42State) checkPoolBacksRecords(where string) {
	s, r := st.s, st.s.R
	_, total := st.rewardsByID()
	pool := s.K.Rewards.TotalPoolTokens(s.Ctx, rewardstypes.IprpcPoolName)
	d := c21Diff(pool, total)
	r.Check(len(d) == 0, "iprpc-pool-vs-records", where, "height %d after %s: IPRPC pool holds %s but the IprpcReward records of all months add up to %s (pool - records = %s)", s.Height(), where, pool, total, c21DiffStr(d))
}

func (st *c42State) capture() {
	s := st.s
	if s.c21TTR() > 0 {
		st.pre.valid = false
		return
	}
	p := c42Pre{valid: true, curID: s.K.Rewards.GetIprpcRewardsCurrentId(s.Ctx)}
	p.rewards, _ = st.rewardsByID()
	p.basepays = s.K.Rewards.GetAllBasePay(s.Ctx)
	for _, bp := range p.basepays {
		if bp.BasePay.Total.IsPositive() {
			p.anyTotal = true
		}
	}
	p.recs = s.c08Records(s.Ctx)
	p.community = st.community()
	p.contribs = len(s.c21Contributors())
	st.pre = p
}

func c42Key(a, b string) string { return a + "|" + b }

// provRecs sums the claimable reward records per provider.
func c42ProvRecs(recs map[string]sdk.Coins) map[string]sdk.Coins {
	out := map[string]sdk.Coins{}
	ks := make([]string, 0, len(recs))
	for k := range recs {
		ks = append(ks, k)
	}
	sort.Strings(ks)
	for _, k := range ks {
		for i := 0; i < len(k); i++ {
			if k[i] == '|' {
				out[k[:i]] = out[k[:i]].Add(recs[k]...)
				break
			}
		}
	}
	return out
}

// onInterval is called with the state before EndBlock(h) and after BeginBlock(h+1).
func (st *c42State) onInterval(pre, post c21Snap, refill bool) {
	s, r := st.s, st.s.R
	defer st.capture()
	st.checkPoolBacksRecords("block")
	if !refill {
		// nothing but the monthly distribution may take funds out of the IPRPC pool
		r.Check(!c21AnyNeg(c21Diff(post.Iprpc, pre.Iprpc)), "iprpc-pool-drained", "outside-distribution", "height %d: IPRPC pool changed by %s without a monthly distribution", pre.Height, c21DiffStr(c21Diff(post.Iprpc, pre.Iprpc)))
		return
	}
	p := st.pre
	// all BasePay entries are dropped at the refill: the month's CU ledger starts again
	ledger := st.ledger
	st.ledger = map[string]uint64{}
	if !p.valid {
		r.Probe("c42_refill_without_capture")
		return
	}
	r.Probe("c42_distribution")
	// a subscription payout in the same EndBlock also feeds the community pool; its outflow from the
	// subscription module can be hidden by an auto-renewal inflow in the same block, so the block's
	// events are consulted as well
	payout := c21AnyNeg(c21Diff(post.SubMod, pre.SubMod)) || s.BlockEmitted("lava_monthly_cu_tracker_provider_reward") || s.BlockEmitted("lava_subscription_payout")
	cur := p.rewards[p.curID]
	specs := make([]string, 0, len(cur))
	for sp := range cur {
		specs = append(specs, sp)
	}
	sort.Strings(specs)

	// IPRPC CU per spec and provider, as recorded (BasePay) for providers still staked on the spec
	type pc struct {
		prov string
		cu   uint64
	}
	cuBySpec := map[string][]pc{}
	totBySpec := map[string]uint64{}
	for _, bp := range p.basepays {
		k := c42Key(bp.Provider, bp.ChainId)
		// the records must agree with what the relay payments of eligible subscriptions added
		r.Check(bp.BasePay.IprpcCu == ledger[k], "iprpc-cu-ledger", "basepay!=served", "at the distribution of month %d BasePay.IprpcCu of %s on %s is %d, relay payments of IPRPC-eligible subscriptions added %d this month", p.curID, s.NameOf(bp.Provider), bp.ChainId, bp.BasePay.IprpcCu, ledger[k])
		if bp.BasePay.IprpcCu == 0 {
			continue
		}
		if _, staked := s.K.Epochstorage.GetStakeEntryCurrent(s.Ctx, bp.ChainId, bp.Provider); !staked {
			// left the spec before the distribution: cannot be paid (no stake entry to reward)
			r.Probe("c42_served_provider_unstaked")
			continue
		}
		cuBySpec[bp.ChainId] = append(cuBySpec[bp.ChainId], pc{bp.Provider, bp.BasePay.IprpcCu})
		totBySpec[bp.ChainId] += bp.BasePay.IprpcCu
	}
	// note: the stake entries are read after the block; unstaking is a transaction, so the set of
	// staked providers is the same before and after End/BeginBlock (unless an unstake proposal or
	// jail-unstake ran in the block itself, which these histories do not contain)

	expectProv := map[string]sdk.Coins{} // provider -> expected IPRPC reward (provider + delegators)
	expectCommunity := sdk.NewCoins()
	expectValidators := sdk.NewCoins()
	expectOut := sdk.NewCoins() // leaves the pool
	rolled := map[string]sdk.Coins{}
	served := 0
	for _, sp := range specs {
		fund := cur[sp]
		if fund.IsZero() {
			continue
		}
		if totBySpec[sp] == 0 {
			rolled[sp] = fund
			st.rolledSpecs[sp]++
			r.Probe("c42_spec_rolled_over")
			if st.rolledSpecs[sp] >= 2 {
				r.Probe("c42_spec_rolled_over_twice_in_a_row")
			}
			continue
		}
		st.rolledSpecs[sp] = 0
		served++
		r.Probe("c42_spec_served")
		if len(cuBySpec[sp]) >= 2 {
			r.Probe("c42_spec_served_by_several_providers")
		}
		expectOut = expectOut.Add(fund...)
		for _, coin := range fund {
			v, c, err := s.K.Rewards.CalculateValidatorsAndCommunityParticipationRewards(s.Ctx, coin)
			if err != nil {
				r.Probe("c42_participation_error")
				return
			}
			after := coin.Amount.Sub(v.AmountOf(coin.Denom)).Sub(c.AmountOf(coin.Denom))
			expectValidators = expectValidators.Add(sdk.NewCoin(coin.Denom, v.AmountOf(coin.Denom)))
			expectCommunity = expectCommunity.Add(sdk.NewCoin(coin.Denom, c.AmountOf(coin.Denom)))
			used := math.ZeroInt()
			for _, x := range cuBySpec[sp] {
				share := after.Mul(math.NewIntFromUint64(x.cu)).Quo(math.NewIntFromUint64(totBySpec[sp]))
				used = used.Add(share)
				expectProv[x.prov] = expectProv[x.prov].Add(sdk.NewCoin(coin.Denom, share))
			}
			left := after.Sub(used)
			if left.IsPositive() {
				r.Probe("c42_rounding_leftover")
			}
			expectCommunity = expectCommunity.Add(sdk.NewCoin(coin.Denom, left))
		}
	}
	if len(specs) >= 2 {
		r.Probe("c42_several_specs_funded")
	}
	if len(specs) > 0 && served == 0 {
		r.Probe("c42_month_nobody_served")
	}
	if len(specs) == 0 {
		r.Probe("c42_month_without_funds")
	}
	if served > 0 && len(rolled) > 0 {
		r.Probe("c42_month_mixed_served_and_rolled")
	}
	r.Logf("iprpc distribution month %d at height %d: funds=%v served=%d rolled=%d cu=%v expectProviders=%v expectCommunity=%s expectValidators=%s payoutSameBlock=%v bonusPossible=%v",
		p.curID, pre.Height, c42Map(cur), served, len(rolled), totBySpec, c42NameMap(s, expectProv), expectCommunity, expectValidators, payout, p.anyTotal)

	// ---- the pool loses exactly the funds of the served specs
	wantPool := c21Diff(pre.Iprpc, expectOut) // pre - out
	gotPool := c21Diff(post.Iprpc, sdk.NewCoins())
	r.Check(c21DiffStr(wantPool) == c21DiffStr(gotPool), "iprpc-pool-after-distribution", "pool!=before-served", "month %d: IPRPC pool %s -> %s, expected to lose exactly the funds of the served specs %s", p.curID, pre.Iprpc, post.Iprpc, expectOut)

	// ---- records: the month is consumed, unserved funds move to the next month, nothing else changes
	now, _ := st.rewardsByID()
	r.Check(s.K.Rewards.GetIprpcRewardsCurrentId(s.Ctx) == p.curID+1, "iprpc-records", "current-id", "month id %d -> %d after a distribution", p.curID, s.K.Rewards.GetIprpcRewardsCurrentId(s.Ctx))
	_, stillThere := now[p.curID]
	r.Check(!stillThere, "iprpc-records", "month-not-consumed", "IprpcReward %d still exists after its distribution (could be paid twice)", p.curID)
	ids := map[uint64]bool{}
	for id := range p.rewards {
		ids[id] = true
	}
	for id := range now {
		ids[id] = true
	}
	idl := make([]uint64, 0, len(ids))
	for id := range ids {
		idl = append(idl, id)
	}
	sort.Slice(idl, func(i, j int) bool { return idl[i] < idl[j] })
	for _, id := range idl {
		if id == p.curID {
			continue
		}
		want := map[string]sdk.Coins{}
		for sp, f := range p.rewards[id] {
			want[sp] = f
		}
		if id == p.curID+1 {
			for sp, f := range rolled {
				want[sp] = want[sp].Add(f...)
			}
		}
		r.Check(c42Map(want) == c42Map(now[id]), "iprpc-records", "rollover", "after the distribution of month %d the IprpcReward of month %d is %s, expected %s (before: %s, rolled over from unserved specs: %s)", p.curID, id, c42Map(now[id]), c42Map(want), c42Map(p.rewards[id]), c42Map(rolled))
	}

	// ---- community pool: participation + rounding leftovers
	gotComm := c21Diff(st.community(), p.community)
	wantComm := c21Diff(expectCommunity, sdk.NewCoins())
	for _, den := range c42Denoms(gotComm, wantComm) {
		g, w := c42Get(gotComm, den), c42Get(wantComm, den)
		if den == s.Denom && payout {
			// subscription payouts of the same EndBlock also contribute (bond denom only)
			r.Check(g.GTE(w), "iprpc-community", "less-than-expected", "month %d: community pool grew by %s%s, IPRPC participation + rounding leftovers alone are %s", p.curID, g, den, w)
			continue
		}
		r.Check(g.Equal(w), "iprpc-community", "participation+leftovers", "month %d: community pool grew by %s%s, expected %s (community participation + rounding leftovers of the served specs)", p.curID, g, den, w)
	}

	// ---- validators: participation (non-bond denoms are not touched by burn/quota/payouts)
	gotVal := c21Diff(post.ValDist.Add(post.ValLeft...).Add(post.FeeColl...), pre.ValDist.Add(pre.ValLeft...).Add(pre.FeeColl...))
	wantVal := c21Diff(expectValidators, sdk.NewCoins())
	for _, den := range c42Denoms(gotVal, wantVal) {
		if den == s.Denom {
			continue
		}
		r.Check(c42Get(gotVal, den).Equal(c42Get(wantVal, den)), "iprpc-validators", "participation", "month %d: validators pools (+fee collector) grew by %s%s, expected the validators participation %s", p.curID, c42Get(gotVal, den), den, c42Get(wantVal, den))
	}

	// ---- providers (with their delegators): floor(fund after participation * CU_p / total CU)
	if p.contribs > 0 || len(s.c21Contributors()) > 0 {
		r.Probe("c42_contributors_present_skip_provider_check")
		return
	}
	before, after := c42ProvRecs(p.recs), c42ProvRecs(s.c08Records(s.Ctx))
	provs := map[string]bool{}
	for k := range before {
		provs[k] = true
	}
	for k := range after {
		provs[k] = true
	}
	for k := range expectProv {
		provs[k] = true
	}
	pl := make([]string, 0, len(provs))
	for k := range provs {
		pl = append(pl, k)
	}
	sort.Strings(pl)
	paidTotal := sdk.NewCoins()
	for _, pv := range pl {
		got := c21Diff(after[pv], before[pv])
		want := c21Diff(expectProv[pv], sdk.NewCoins())
		for _, den := range c42Denoms(got, want) {
			g, w := c42Get(got, den), c42Get(want, den)
			if den == s.Denom && (payout || p.anyTotal) {
				// bonus rewards / subscription payouts of the same EndBlock add to the same records
				r.Check(g.GTE(w), "iprpc-provider-share", "less-than-share", "month %d: rewards of %s (with delegators) grew by %s%s, its IPRPC share alone is %s", p.curID, s.NameOf(pv), g, den, w)
				if g.GT(w) {
					r.Probe("c42_bond_share_mixed_with_bonus")
				}
				continue
			}
			if w.IsPositive() {
				r.Probe("c42_provider_share_exact")
			}
			r.Check(g.Equal(w), "iprpc-provider-share", "floor(fund*cu/total)", "month %d: rewards of %s (with delegators) grew by %s%s, expected %s = floor(spec fund after participation * its IPRPC CU / total IPRPC CU)", p.curID, s.NameOf(pv), g, den, w)
		}
		paidTotal = paidTotal.Add(expectProv[pv]...)
	}
	// nothing lost, nothing paid twice: paid + participation + leftovers == funds of the served specs
	sum := paidTotal.Add(expectCommunity...).Add(expectValidators...)
	r.Check(sum.IsEqual(expectOut), "iprpc-conservation", "paid+participation+leftovers!=funded", "month %d: %s paid + community %s + validators %s != served funds %s", p.curID, paidTotal, expectCommunity, expectValidators, expectOut)
}

func c42Get(m map[string]math.Int, den string) math.Int {
	if v, ok := m[den]; ok {
		return v
	}
	return math.ZeroInt()
}

func c42Denoms(ms ...map[string]math.Int) []string {
	seen := map[string]bool{}
	var out []string
	for _, m := range ms {
		for d := range m {
			if !seen[d] {
				seen[d] = true
				out = append(out, d)
			}
		}
	}
	sort.Strings(out)
	return out
}

func c42Map(m map[string]sdk.Coins) string {
	ks := make([]string, 0, len(m))
	for k, v := range m {
		if !v.IsZero() {
			ks = append(ks, k)
		}
	}
	sort.Strings(ks)
	out := "{"
	for _, k := range ks {
		out += k + ":" + m[k].String() + " "
	}
	return out + "}"
}

func c42NameMap(s *Sim, m map[string]sdk.Coins) string {
	n := map[string]sdk.Coins{}
	for k, v := range m {
		n[s.NameOf(k)] = v
	}
	return c42Map(n)
}

// ---------- relay bracketing: eligible traffic, and only it, is counted as IPRPC CU ----------

func (st *c42State) trackedAll() map[string]uint64 {
	s := st.s
	out := map[string]uint64{}
	epoch := s.EpochStart()
	for _, c := range s.Consumers {
		// The CU of a relay is tracked under the block of the subscription version its epoch belongs
		// to. All relays of these histories carry the current epoch, so the candidates are the
		// version at the epoch start and the latest one. (Older versions are not consulted: after
		// their payout the store still answers with the stale entry.)
		var blocks []uint64
		if sub, _, found := s.K.Subscription.GetSubscriptionForBlock(s.Ctx, c.Acc.Addr, epoch); found {
			blocks = append(blocks, sub.Block)
		}
		if sub, found := s.K.Subscription.GetSubscription(s.Ctx, c.Acc.Addr); found && (len(blocks) == 0 || blocks[0] != sub.Block) {
			blocks = append(blocks, sub.Block)
		}
		for _, b := range blocks {
			list, _ := s.K.Subscription.GetSubTrackedCuInfo(s.Ctx, c.Acc.Addr, b)
			for _, t := range list {
				out[fmt.Sprintf("%s|%d|%s|%s", c.Acc.Addr, b, t.Provider, t.ChainID)] += t.TrackedCu
				if debugOn {
					s.R.Logf("      [dbg] tracked %s block=%d %s %s cu=%d (h=%d)", c.Acc.Name, b, s.NameOf(t.Provider), t.ChainID, t.TrackedCu, s.Height())
				}
			}
		}
	}
	return out
}

func (st *c42State) iprpcCuAll() map[string]uint64 {
	out := map[string]uint64{}
	for _, bp := range st.s.K.Rewards.GetAllBasePay(st.s.Ctx) {
		out[c42Key(bp.Provider, bp.ChainId)] = bp.BasePay.IprpcCu
	}
	return out
}

func (st *c42State) beforeTx(name string) {
	st.relayBP = st.iprpcCuAll()
	st.relayTC = st.trackedAll()
}

func (st *c42State) afterTx(tx *TxResult) {
	r := st.s.R
	st.checkPoolBacksRecords("tx:" + tx.Name)
	bp := st.iprpcCuAll()
	tc := st.trackedAll()
	// tracked CU added by this transaction, per provider|spec, split by eligibility of the subscription
	elig, other := map[string]uint64{}, map[string]uint64{}
	for k, v := range tc {
		if v <= st.relayTC[k] {
			continue
		}
		// key = consumer|subBlock|provider|spec
		parts := strings.SplitN(k, "|", 3)
		cons, rest := parts[0], parts[2]
		if st.eligible[cons] {
			elig[rest] += v - st.relayTC[k]
		} else {
			other[rest] += v - st.relayTC[k]
		}
	}
	keys := map[string]bool{}
	for k := range bp {
		keys[k] = true
	}
	for k := range st.relayBP {
		keys[k] = true
	}
	for k := range elig {
		keys[k] = true
	}
	kl := make([]string, 0, len(keys))
	for k := range keys {
		kl = append(kl, k)
	}
	sort.Strings(kl)
	for _, k := range kl {
		added := int64(bp[k]) - int64(st.relayBP[k])
		r.Check(added == int64(elig[k]), "iprpc-cu-counting", "tx:"+tx.Name, "tx %s: IPRPC CU of %s grew by %d, but CU tracked for IPRPC-eligible subscriptions grew by %d (non-eligible: %d)", tx.Name, k, added, elig[k], other[k])
		if elig[k] > 0 {
			r.Probe("c42_eligible_cu_counted")
			st.ledger[k] += elig[k]
		}
	}
	for k, v := range other {
		if v > 0 && elig[k] == 0 {
			r.Probe("c42_non_eligible_cu_not_counted")
		}
	}
	st.capture()
}

// ---------- operations ----------

func c42GovAuthority() string { return authtypes.NewModuleAddress(govtypes.ModuleName).String() }

func (s *Sim) opC42SetData() {
	r := s.R
	st := c42Cur
	if st == nil {
		return
	}
	cost := s.Coin(int64(50 * r.Draw("ops", 8)))
	var subs, names []string
	for i, c := range s.Consumers {
		if i == 0 && len(st.eligible) == 0 || r.Chance("ops", 1, 3) {
			subs = append(subs, c.Acc.Addr)
			names = append(names, c.Acc.Name)
		}
	}
	msg := rewardstypes.NewMsgSetIprpcData(c42GovAuthority(), cost, subs)
	res := s.Tx("c42_setdata", nil, func(ctx sdk.Context) error {
		if err := msg.ValidateBasic(); err != nil {
			return err
		}
		_, err := s.S.RewardsServer.SetIprpcData(ctx, msg)
		return err
	})
	if res.Err == nil {
		for _, a := range subs {
			st.eligible[a] = true
		}
	}
	r.Op("c42_setdata", c21Outcome(res))
	r.Logf("gov: iprpc data min_cost=%s eligible+=%v: %s", cost, names, c21Short(res.Err))
}

func (s *Sim) opC42Fund() {
	r := s.R
	st := c42Cur
	if st == nil || len(st.funders) == 0 {
		return
	}
	f := st.funders[r.Draw("ops", len(st.funders))]
	spec := s.pickSpec().Index
	duration := uint64(1 + r.Draw("ops", 4))
	if r.Chance("ops", 1, 12) {
		duration = 12
	}
	minCost := s.K.Rewards.GetMinIprpcCost(s.Ctx).Amount
	var extra int64
	switch r.Draw("ops", 4) {
	case 0:
		extra = int64(r.Draw("ops", 40)) // tiny funds: rounding leftovers dominate
	case 1:
		extra = int64(r.Draw("ops", 5000))
	default:
		extra = int64(r.Draw("ops", 3_000_000))
	}
	amount := minCost.AddRaw(extra)
	if r.Chance("ops", 1, 12) && minCost.IsPositive() {
		amount = minCost.SubRaw(1)
	}
	coins := sdk.NewCoins(sdk.NewCoin(s.Denom, amount))
	for _, den := range c42OtherDenoms {
		if r.Chance("ops", 1, 2) {
			coins = coins.Add(sdk.NewCoin(den, sdk.NewInt(int64(1+r.Draw("ops", 100_000)))))
		}
	}
	msg := rewardstypes.NewMsgFundIprpc(f.Addr, spec, duration, coins)
	res := s.msgTx("c42_fund", []sdk.Msg{msg}, func(ctx sdk.Context) error {
		_, err := s.S.RewardsServer.FundIprpc(ctx, msg)
		return err
	})
	r.Logf("iprpc fund by=%s spec=%s months=%d per-month=%s (min cost %s): %s", f.Name, spec, duration, coins, minCost, c21Short(res.Err))
}

// opC42Relay: a paired provider claims a fresh session of an IPRPC-eligible (mostly) subscription.
func (s *Sim) opC42Relay() {
	r := s.R
	st := c42Cur
	c := s.pickCons()
	if st != nil && len(st.eligible) > 0 && !r.Chance("ops", 1, 4) {
		for i := 0; i < len(s.Consumers); i++ {
			cand := s.Consumers[(r.Draw("ops", len(s.Consumers))+i)%len(s.Consumers)]
			if st.eligible[cand.Acc.Addr] {
				c = cand
				break
			}
		}
	}
	spec := s.pickSpec()
	signer := c.Acc
	paired := s.pairedProvidersFor(signer, spec.Index)
	if len(paired) == 0 {
		r.Op("c42_relay", "nopairing")
		return
	}
	p := paired[r.Draw("ops", len(paired))]
	s.sessionSeq++
	rs := RelaySpec{Consumer: c, Signer: signer, Provider: p, Spec: spec.Index, Epoch: int64(s.EpochStart()), Session: s.sessionSeq,
		CuSum: uint64(1 + r.Draw("ops", 300)), RelayNum: 1}
	rel := s.BuildRelay(rs)
	res := s.SendRelayPayment("relay", p, []*pairingtypes.RelaySession{rel})
	elig := st != nil && st.eligible[c.Acc.Addr]
	r.Logf("c42 relay %s<-%s %s cu=%d eligible=%v: %s", p.Acc.Name, c.Acc.Name, spec.Index, rs.CuSum, elig, c21Short(res.Err))
}

func runC42(r *simrt.Run) {
	w := baseWeights()
	w["c42_setdata"] = 2
	w["c42_fund"] = 12
	w["c42_relay"] = 30
	w["relay"] = 10
	w["buy"] = 12
	w["c21_params"] = 1
	w["unstake"] = 3
	cfg := mkCfg(r, w, 60, 170)
	months := c21Months(r)
	s := NewSim(r, cfg)
	st := &c42State{s: s, eligible: map[string]bool{}, ledger: map[string]uint64{}, rolledSpecs: map[string]int{}}
	c42Cur = st
	for i := 0; i < 2; i++ {
		f := s.NewAccount(fmt.Sprintf("funder%d", i), 0)
		s.K.BankKeeper.SetBalance(s.Ctx, f.Account.Addr, sdk.NewCoins(sdk.NewCoin(s.Denom, sdk.NewInt(bigBalance)), sdk.NewCoin("uibc", sdk.NewInt(bigBalance)), sdk.NewCoin("uusd", sdk.NewInt(bigBalance))))
		st.funders = append(st.funders, f)
	}
	m := newC21Mon(s, false)
	m.OnInterval = st.onInterval
	s.BeforeTx = append(s.BeforeTx, func(w *World, name string) { st.beforeTx(name) })
	s.AfterTx = append(s.AfterTx, func(w *World, tx *TxResult) { st.afterTx(tx) })
	s.Warmup()
	r.Step()
	s.opC42SetData()
	r.Step()
	s.opC42Fund()
	per := cfg.Steps / months
	if per < 5 {
		per = 5
	}
	for i := 0; i < months; i++ {
		steps := per
		if i > 0 && r.Chance("cfg", 1, 4) {
			steps = 0 // a quiet month: nobody serves
			r.Probe("c42_quiet_month")
		}
		s.c21Month(m, steps)
	}
	r.Extra["c42_distributions"] += int64(m.Refills)
}

func init() {
	AddOp("c42_setdata", (*Sim).opC42SetData)
	AddOp("c42_fund", (*Sim).opC42Fund)
	AddOp("c42_relay", (*Sim).opC42Relay)
	simrt.Register("C42", &simrt.PropSpec{Fn: runC42,
		NonTrivial: func(r *simrt.Run) bool {
			return r.Probes["c42_distribution"] >= 3 && r.Ops["c42_fund:ok"] >= 1 && r.Probes["c42_eligible_cu_counted"] >= 1
		},
		Rule: "tape-generated multi-actor histories over >=3 (quick) / >=14 (thorough) simulated months: governance SetIprpcData (min cost, eligible subscriptions), FundIprpc by two funders (1-12 months, several specs, bond + two other denoms, tiny to large amounts, below-min-cost attempts), relay payments of eligible and regular subscriptions across specs, provider unstake/restake, quiet months. Oracles after every tx (IPRPC pool == sum of IprpcReward records; IPRPC CU grows exactly by the CU tracked for eligible subscriptions) and at every monthly distribution (pool, records roll-over, community pool, validators pools, per-provider reward records). Non-trivial = >=3 distributions, >=1 accepted funding, >=1 eligible relay counted",
		Real: chainReal, Stubbed: chainStub,
		Assume: append(append([]string{}, chainAssume...),
			"a provider that served IPRPC CU but holds no stake entry on the spec at the distribution cannot be rewarded and is left out of the proportional split (probe c42_served_provider_unstaked)",
			"bond-denom provider shares are checked exactly only in months without bonus rewards / same-block subscription payouts (they are added to the same DelegatorReward records); otherwise as a lower bound. Other denoms are always exact",
			"the C42 histories configure no spec contributors (their cut of each provider reward is C08's subject)")})
}
