// Package chainsim runs all real lava keepers (the repo's own testutil/keeper wiring: real
// staking, slashing, distribution and every lava module on an IAVL multistore; mock bank/account)
// in one process as a simulated multi-party chain: a seeded scheduler of actors, a simulated
// block clock, per-transaction atomicity and a fault injector, with oracles evaluated after every
// transaction and block.
package chainsim

import (
	"crypto/sha256"
	"encoding/binary"
	"encoding/hex"
	"fmt"
	"sort"
	"strings"
	"testing"
	"time"

	"cosmossdk.io/math"
	abci "github.com/cometbft/cometbft/abci/types"
	storetypes "github.com/cosmos/cosmos-sdk/store/types"
	sdk "github.com/cosmos/cosmos-sdk/types"
	testkeeper "github.com/lavanet/lava/v5/testutil/keeper"
	"github.com/lavanet/lava/v5/utils/sigs"
	dualstakingante "github.com/lavanet/lava/v5/x/dualstaking/ante"
	"github.com/lavanet/lava/v5/zz_verif/simrt"
)

// fakeTB satisfies testing.TB for testutil/keeper.InitAllKeepers (which only uses require.*).
type fakeTB struct{ testing.TB }

func (fakeTB) Helper() {}
func (fakeTB) Errorf(format string, args ...interface{}) {
	panic(fmt.Sprintf("InitAllKeepers: "+format, args...))
}
func (fakeTB) FailNow()                                { panic("InitAllKeepers: FailNow") }
func (fakeTB) Logf(format string, args ...interface{}) {}
func (fakeTB) Name() string                            { return "chainsim" }
func (fakeTB) Cleanup(func())                          {}

const LavaChainID = "lava-sim"

type Account struct {
	Name string
	sigs.Account
	Addr string // bech32
}

// BlockPanic is recorded when Begin/EndBlock panics (chain halt).
type BlockPanic struct {
	Phase string
	Val   interface{}
	Stack string
}

type World struct {
	R     *simrt.Run
	Ctx   sdk.Context
	K     *testkeeper.Keepers
	S     *testkeeper.Servers
	Denom string
	rf    dualstakingante.RedelegationFlager

	Accts    map[string]*Account // by name
	ByAddr   map[string]*Account
	acctSeq  []string
	StartT   time.Time
	storeKey map[string]storetypes.StoreKey

	// hooks for oracles
	AfterTx     []func(w *World, tx *TxResult)
	AfterBlock  []func(w *World)
	BeforeTx    []func(w *World, name string)
	BeforeBlock []func(w *World) // before the EndBlock of the current block

	HaltOnBlockPanic bool   // C37: report instead of aborting quietly
	HaltSigPrefix    string // report only Begin/EndBlock panics raised inside this lava package (a property's own mechanism)
	WantDigest       bool   // compute TxResult.DigestBefore/After (expensive)
	LastTxEvents     sdk.Events
	EndBlockEvents   sdk.Events // events emitted by the last EndBlock / BeginBlock (see NextBlock)
	BeginBlockEvents sdk.Events
	txSeq            int
}

type TxResult struct {
	Name         string
	Err          error
	Events       sdk.Events
	Panic        interface{}
	DigestBefore string // after the ante step, before the messages (only with WantDigest)
	DigestAfter  string
}

// NewWorld builds a fresh chain. Every bit of nondeterminism is pinned from the tape.
func NewWorld(r *simrt.Run) *World {
	// With the map-order seam built in (engine chainsim_mo) every chain check runs under a FIXED
	// (sorted) order unless the property chose one itself: whether results depend on the map
	// iteration order is C01's question; everywhere else such a dependence would only make runs
	// irreproducible. (Without the seam the call is a no-op.)
	if simrt.MapOrderPolicy() == simrt.MapOrderNative {
		simrt.SetMapOrder(simrt.MapOrderSorted, 0)
	}
	// genesis date: chosen by the tape, includes month ends and leap years
	year := 2023 + r.Draw("cfg", 3)
	month := time.Month(1 + r.Draw("cfg", 12))
	day := 1 + r.Draw("cfg", 31)
	if r.Chance("cfg", 1, 3) {
		day = 26 + r.Draw("cfg", 6) // month ends
	}
	hour := r.Draw("cfg", 24)
	start := time.Date(year, month, 1, hour, r.Draw("cfg", 60), r.Draw("cfg", 60), 0, time.UTC).AddDate(0, 0, day-1)
	testkeeper.VerifSetFixedDate(start)
	ss, ks, goCtx := testkeeper.InitAllKeepers(fakeTB{})
	testkeeper.Randomizer = sigs.NewZeroReader(int64(r.Seed>>1) + 1)
	ctx := sdk.UnwrapSDKContext(goCtx)
	hdr := ctx.BlockHeader()
	hdr.ChainID = LavaChainID
	hdr.Time = ctx.BlockTime()
	ctx = ctx.WithBlockHeader(hdr).WithEventManager(sdk.NewEventManager())
	w := &World{R: r, Ctx: ctx, K: ks, S: ss, Accts: map[string]*Account{}, ByAddr: map[string]*Account{}, StartT: start}
	w.Denom = ks.StakingKeeper.BondDenom(ctx)
	w.rf = dualstakingante.NewRedelegationFlager(ks.Dualstaking)
	if sk, ok := ctx.MultiStore().(interface {
		StoreKeysByName() map[string]storetypes.StoreKey
	}); ok {
		w.storeKey = sk.StoreKeysByName()
	}
	r.Logf("genesis %s height=%d", start.Format(time.RFC3339), ctx.BlockHeight())
	for _, h := range worldInitHooks {
		h(w)
	}
	return w
}

// worldInitHooks run on every World created while they are installed: properties that are decided
// on the histories of another property's generator (C09, C37) attach their monitors this way.
var worldInitHooks []func(w *World)

// ---------- accounts ----------

func (w *World) NewAccount(name string, balance int64) *Account {
	acc := sigs.GenerateDeterministicFloatingKey(testkeeper.Randomizer)
	testkeeper.Randomizer.Inc()
	a := &Account{Name: name, Account: acc, Addr: acc.Addr.String()}
	if balance > 0 {
		w.K.BankKeeper.SetBalance(w.Ctx, acc.Addr, sdk.NewCoins(sdk.NewCoin(w.Denom, sdk.NewInt(balance))))
	}
	w.Accts[name] = a
	w.ByAddr[a.Addr] = a
	w.acctSeq = append(w.acctSeq, name)
	return a
}

func (w *World) NameOf(addr string) string {
	if a, ok := w.ByAddr[addr]; ok {
		return a.Name
	}
	if len(addr) > 12 {
		return addr[:12]
	}
	return addr
}

func (w *World) Coin(amount int64) sdk.Coin { return sdk.NewCoin(w.Denom, sdk.NewInt(amount)) }

func (w *World) Balance(addr sdk.AccAddress) math.Int {
	return w.K.BankKeeper.GetBalance(w.Ctx, addr, w.Denom).Amount
}

func (w *World) ModuleBalance(module string) math.Int {
	return w.Balance(testkeeper.GetModuleAddress(module))
}

func (w *World) Supply() math.Int { return w.K.BankKeeper.GetSupply(w.Ctx, w.Denom).Amount }

// ---------- clock / blocks ----------

func (w *World) Height() uint64     { return uint64(w.Ctx.BlockHeight()) }
func (w *World) Now() time.Time     { return w.Ctx.BlockTime() }
func (w *World) GoCtx() sdk.Context { return w.Ctx }

func (w *World) BlockTimeDefault() time.Duration {
	return w.K.Downtime.GetParams(w.Ctx).DowntimeDuration
}

func (w *World) guarded(phase string, f func()) {
	defer func() {
		if p := recover(); p != nil {
			if simrt.IsSimPanic(p) {
				panic(p)
			}
			// a panic in Begin/EndBlock is a chain halt
			st := simrt.StackOf()
			w.R.Probe("block_panic")
			w.R.Logf("!! %s panicked at height %d: %v", phase, w.Ctx.BlockHeight(), p)
			if sig := simrt.PanicSig(fmt.Sprint(p), st); w.HaltOnBlockPanic || (w.HaltSigPrefix != "" && strings.HasPrefix(sig, w.HaltSigPrefix)) {
				w.R.Fail("block-panic", sig, "%s panicked at height %d time %s: %v\n%s", phase, w.Ctx.BlockHeight(), w.Ctx.BlockTime().Format(time.RFC3339), p, simrt.TrimStack(st))
			}
			// for other properties a halted chain simply ends the run
			w.R.Abort()
		}
	}()
	f()
}

// NextBlock ends the current block and begins the next one dt later.
func (w *World) NextBlock(dt time.Duration) {
	for _, h := range w.BeforeBlock {
		h(w)
	}
	nBefore := len(w.Ctx.EventManager().Events())
	w.guarded("EndBlock", func() { testkeeper.EndBlock(w.Ctx, w.K) })
	if evs := w.Ctx.EventManager().Events(); len(evs) >= nBefore {
		w.EndBlockEvents = append(sdk.Events(nil), evs[nBefore:]...)
	}
	ctx := testkeeper.UpdateBlockCtx(sdk.WrapSDKContext(w.Ctx), w.K, dt)
	hdr := ctx.BlockHeader()
	hdr.ChainID = LavaChainID
	hdr.Height = ctx.BlockHeight()
	hdr.Time = ctx.BlockTime()
	hash := ctx.HeaderHash()
	ctx = ctx.WithBlockHeader(hdr).WithHeaderHash(hash).WithEventManager(sdk.NewEventManager())
	w.Ctx = ctx
	w.guarded("BeginBlock", func() { testkeeper.NewBlock(w.Ctx, w.K) })
	w.BeginBlockEvents = w.Ctx.EventManager().Events()
	w.R.SimSpan += int64(dt)
	for _, h := range w.AfterBlock {
		h(w)
	}
}

func (w *World) EpochStart() uint64 { return w.K.Epochstorage.GetEpochStart(w.Ctx) }

func (w *World) NextEpochBlock() uint64 {
	n, err := w.K.Epochstorage.GetNextEpoch(w.Ctx, w.Height())
	if err != nil {
		return w.Height() + 1
	}
	return n
}

// AdvanceToNextEpoch advances blocks until the next epoch start.
func (w *World) AdvanceToNextEpoch(dt time.Duration) {
	target := w.NextEpochBlock()
	for guard := 0; w.Height() < target && guard < 400; guard++ {
		w.NextBlock(dt)
	}
}

// ---------- transactions ----------

// Tx executes fn atomically like baseapp: on error (or panic) neither the stores nor the mock
// bank keep any write. msgs are what the redelegation ante flagger sees.
func (w *World) Tx(name string, msgs []sdk.Msg, fn func(ctx sdk.Context) error) *TxResult {
	for _, h := range w.BeforeTx {
		h(w, name)
	}
	w.txSeq++
	snap := testkeeper.VerifBankSnapshot()
	cctx, write := w.Ctx.CacheContext()
	res := &TxResult{Name: name}
	func() {
		defer func() {
			if p := recover(); p != nil {
				if simrt.IsSimPanic(p) {
					panic(p)
				}
				res.Panic = p
				res.Err = fmt.Errorf("panic in tx: %v", p)
				w.R.Probe("tx_panic")
				w.R.Probe("tx_panic:" + name + ":" + simrt.PanicSig(fmt.Sprint(p), simrt.StackOf()))
				w.R.Logf("   tx %s panicked (tx fails, state rolled back): %.200v", name, p)
			}
		}()
		// baseapp commits the ante handler's writes before the messages run (and keeps them
		// even when a message fails), so the flagger runs on the block context itself.
		if err := w.rf.DisableRedelegationHooks(w.Ctx, msgs); err != nil {
			res.Err = err
			return
		}
		if w.WantDigest {
			res.DigestBefore = w.Digest()
		}
		cctx, write = w.Ctx.CacheContext()
		res.Err = fn(cctx)
	}()
	if res.Err == nil {
		res.Events = cctx.EventManager().Events()
		write()
	} else {
		testkeeper.VerifBankRestore(snap)
	}
	if w.WantDigest {
		res.DigestAfter = w.Digest()
	}
	w.LastTxEvents = res.Events
	for _, h := range w.AfterTx {
		h(w, res)
	}
	return res
}

// ---------- state digest ----------

// Digest hashes every KV store (IAVL and memory) and the mock bank.
func (w *World) Digest() string {
	h := sha256.New()
	names := make([]string, 0, len(w.storeKey))
	for n := range w.storeKey {
		names = append(names, n)
	}
	sort.Strings(names)
	var lb [8]byte
	put := func(b []byte) {
		binary.BigEndian.PutUint64(lb[:], uint64(len(b)))
		h.Write(lb[:])
		h.Write(b)
	}
	for _, n := range names {
		key := w.storeKey[n]
		if _, ok := key.(*storetypes.KVStoreKey); !ok {
			if _, ok2 := key.(*storetypes.MemoryStoreKey); !ok2 {
				continue
			}
		}
		put([]byte(n))
		it := w.Ctx.KVStore(key).Iterator(nil, nil)
		for ; it.Valid(); it.Next() {
			put(it.Key())
			put(it.Value())
		}
		it.Close()
	}
	for _, a := range testkeeper.VerifBankAddrs() {
		c := testkeeper.VerifBankGet(a)
		if c.IsZero() {
			continue
		}
		put([]byte(a))
		put([]byte(c.String()))
	}
	return hex.EncodeToString(h.Sum(nil))[:24]
}

// StoreDigests returns one digest per store (for locating a divergence).
func (w *World) StoreDigests() map[string]string {
	out := map[string]string{}
	for n, key := range w.storeKey {
		if _, ok := key.(*storetypes.KVStoreKey); !ok {
			if _, ok2 := key.(*storetypes.MemoryStoreKey); !ok2 {
				continue
			}
		}
		h := sha256.New()
		it := w.Ctx.KVStore(key).Iterator(nil, nil)
		for ; it.Valid(); it.Next() {
			h.Write(it.Key())
			h.Write([]byte{0})
			h.Write(it.Value())
			h.Write([]byte{1})
		}
		it.Close()
		out[n] = hex.EncodeToString(h.Sum(nil))[:16]
	}
	h := sha256.New()
	for _, a := range testkeeper.VerifBankAddrs() {
		c := testkeeper.VerifBankGet(a)
		if c.IsZero() {
			continue
		}
		h.Write([]byte(a + "=" + c.String() + ";"))
	}
	out["~bank"] = hex.EncodeToString(h.Sum(nil))[:16]
	return out
}

func errClass(err error) string {
	if err == nil {
		return "ok"
	}
	s := err.Error()
	if i := strings.Index(s, ":"); i > 0 && i < 40 {
		s = s[:i]
	}
	if len(s) > 40 {
		s = s[:40]
	}
	return "err"
}

var _ = abci.RequestBeginBlock{}

// BlockEmitted tells whether the last EndBlock or BeginBlock emitted an event of that type.
func (w *World) BlockEmitted(eventType string) bool {
	for _, evs := range []sdk.Events{w.EndBlockEvents, w.BeginBlockEvents} {
		for _, e := range evs {
			if e.Type == eventType {
				return true
			}
		}
	}
	return false
}
