package relaypolicy

import (
	"context"
	"fmt"
	"io"
	"net/http"
	"os"
	"path/filepath"
	"strconv"
	"strings"
	"sync"
	"time"

	"github.com/lavanet/lava/v5/protocol/chainlib"
	"github.com/lavanet/lava/v5/protocol/chainlib/extensionslib"
	"github.com/lavanet/lava/v5/protocol/common"
	"github.com/lavanet/lava/v5/protocol/lavaprotocol"
	"github.com/lavanet/lava/v5/protocol/lavasession"
	"github.com/lavanet/lava/v5/protocol/relaycore"
	"github.com/lavanet/lava/v5/utils"
	specutils "github.com/lavanet/lava/v5/utils/keeper"
	pairingtypes "github.com/lavanet/lava/v5/x/pairing/types"
	spectypes "github.com/lavanet/lava/v5/x/spec/types"
	"github.com/lavanet/lava/v5/zz_verif/simrt"
	"github.com/rs/zerolog"
	zerologlog "github.com/rs/zerolog/log"
)

// C34: for any sequence of send failures, provider results and timer ticks the consumer's relay
// state machine emits exactly one final instruction and then stops; it never starts a new attempt
// after a successful result, never resends a stateful / cross-validation request whose send
// succeeded, never retries after a non-retryable node or protocol error, and makes no more
// attempts than the configured maximum plus the allowed send-failure retries.
//
// Lives in package relaypolicy because relaypolicy imports relaycore (an in-package relaycore test
// cannot import the real Policy). Real: relaycore.UnifiedRelayStateMachine, relaypolicy.Policy,
// relaycore.RelayProcessor (profile "proc"), lavasession.UsedProviders, LAV1 REST chain messages.
// The harness plays RPCConsumerServer.ProcessRelaySend / sendRelayToProvider.

var c34Once sync.Once
var c34Parser chainlib.ChainParser
var c34ParserErr error

// c34StrictLetterBound turns the literal reading "total send instructions <= MaxRetries +
// SendRelayAttempts" into an oracle. Off: the code resets the send-failure allowance after every
// successful send and the ticker keeps proposing attempts while sends fail, so the literal total is
// not what the code promises (reported as a probe instead).
var c34StrictLetterBound = false

func c34Setup() {
	c34Once.Do(func() {
		utils.SetGlobalLoggingLevel("fatal")
		zerologlog.Logger = zerolog.New(io.Discard).Level(zerolog.Disabled)
		root := os.Getenv("VERIF_REPO")
		if root == "" {
			root = "/repo"
		}
		spec, err := specutils.GetASpec("LAV1", strings.TrimRight(root, "/")+"/", nil, nil)
		if err != nil {
			c34ParserErr = err
			return
		}
		p, err := chainlib.NewChainParser(spectypes.APIInterfaceRest)
		if err != nil {
			c34ParserErr = err
			return
		}
		p.SetSpec(spec)
		c34Parser = p
	})
}

const (
	c34GetURL  = "/cosmos/base/tendermint/v1beta1/blocks/17"
	c34PostURL = "/cosmos/tx/v1beta1/txs"
)

type c34Metrics struct{}

func (c34Metrics) SetRelayNodeErrorMetric(chainId string, apiInterface string, providerAddress string, method string) {
}
func (c34Metrics) GetChainIdAndApiInterface() (string, string) { return "LAV1", "rest" }

// ---- RelaySenderInf stub ----
type c34Sender struct {
	w          *c34World
	processing time.Duration
	relay      time.Duration
}

func (s *c34Sender) GetProcessingTimeout(chainMessage chainlib.ChainMessage) (time.Duration, time.Duration) {
	return s.processing, s.relay
}
func (s *c34Sender) GetChainIdAndApiInterface() (string, string) { return "LAV1", "rest" }
func (s *c34Sender) ParseRelay(ctx context.Context, url string, req string, connectionType string, dappID string, consumerIp string, metadata []pairingtypes.Metadata) (chainlib.ProtocolMessage, error) {
	w := s.w
	w.r.Probe("parse_relay_called")
	if w.parseFails {
		w.r.Fault("parse_relay_failed")
		return nil, fmt.Errorf("c34: cannot re-parse")
	}
	var exts []string
	for _, md := range metadata {
		if md.Name == common.EXTENSION_OVERRIDE_HEADER_NAME && md.Value != "" {
			exts = strings.Split(md.Value, ",")
		}
	}
	return w.buildMessage(exts)
}

// ---- recording wrapper around the real Policy ----
type c34Policy struct {
	w      *c34World
	inner  *Policy
	consec int
	nDec   int
	nSend  int
}

func c34SummaryString(s relaycore.ResultsSummary) string {
	return fmt.Sprintf("{ok=%d nodeErr=%d special=%d protoErr=%d nonRetryable=%v unsupported=%v permanent=%v epochMismatch=%v hashErr=%v}",
		s.SuccessCount, s.NodeErrors, s.SpecialNodeErrors, s.ProtocolErrors, s.HasNonRetryableNodeError, s.HasUnsupportedMethod, s.HasPermanentProtocolError, s.HasEpochMismatch, s.HashErr != nil)
}

func (p *c34Policy) Decide(in relaycore.DecisionInput) relaycore.DecisionOutput {
	out := p.inner.Decide(in)
	w, r := p.w, p.w.r
	p.nDec++
	r.Logf("  policy.Decide#%d mode=%d attempt=%d ticker=%v nodeErrors=%d summary=%s -> action=%d reason=%s", p.nDec, in.Selection, in.AttemptNumber, in.IsTickerHedge, in.NodeErrors, c34SummaryString(in.Summary), out.Action, out.Reason)
	if in.IsTickerHedge {
		r.Probe("decide_on_ticker")
	} else {
		r.Probe("decide_on_results")
	}
	nonRetryable := in.Summary.HasNonRetryableNodeError || in.Summary.HasPermanentProtocolError
	if out.Action != relaycore.ActionRetry {
		r.Probe("decide_stop:" + out.Reason)
		if nonRetryable {
			w.nonRetryableProcessed = true
		}
		return out
	}
	r.Probe("decide_retry:" + out.Reason)
	if w.finalSeen {
		return out
	}
	// ---- a new attempt is being started ----
	r.OracleEvals += 3
	switch {
	case in.Selection == relaycore.Stateless && in.Summary.SuccessCount >= 1:
		where := "on-results"
		if in.IsTickerHedge {
			where = "ticker-hedge"
		}
		w.violation("attempt-after-success", "decide:success-in-summary:"+where, fmt.Sprintf("the machine decided to start attempt #%d although the results summary it had just read already contained %d successful result(s) (decision input: ticker=%v summary=%s, reason %q)", in.AttemptNumber+1, in.Summary.SuccessCount, in.IsTickerHedge, c34SummaryString(in.Summary), out.Reason))
	case w.successReported:
		// the success was reported to the machine's reader while this decision (whose input was
		// assembled earlier) was in flight: not a violation, the decision input did not contain it
		r.Probe("decide_retry_raced_with_success_report")
	}
	if nonRetryable || w.nonRetryableProcessed {
		w.violation("retry-after-non-retryable-error", "decide", fmt.Sprintf("the machine decided to retry although the summary shows a non-retryable node error / permanent protocol error: %s (reason %q)", c34SummaryString(in.Summary), out.Reason))
	}
	if in.AttemptNumber >= w.cfg.MaxRetries {
		w.violation("too-many-attempts", "decide:at-max", fmt.Sprintf("the machine decided a new attempt with %d attempts already sent, MaxRetries=%d", in.AttemptNumber, w.cfg.MaxRetries))
	}
	return out
}

func (p *c34Policy) OnSendRelayResult(err error, isPairingListEmpty bool) relaycore.SendResult {
	res := p.inner.OnSendRelayResult(err, isPairingListEmpty)
	w, r := p.w, p.w.r
	p.nSend++
	if err == nil {
		p.consec = 0
	} else {
		p.consec++
	}
	r.Logf("  policy.OnSendRelayResult#%d err=%v pairingEmpty=%v consecutive=%d -> %d", p.nSend, err != nil, isPairingListEmpty, p.consec, res)
	switch res {
	case relaycore.SendStop:
		r.Probe("send_stop")
		if isPairingListEmpty && w.cfg.EnableCircuitBreaker {
			r.Probe("circuit_breaker_considered")
		}
	case relaycore.SendRetry:
		r.Probe("send_retry")
		if w.finalSeen {
			return res
		}
		r.OracleEvals += 3
		if w.successReported {
			// the main loop had not consumed the reader's success signal yet (it handles one event
			// at a time): reported, not judged
			r.Probe("send_retry_raced_with_success_report")
		}
		if w.nonRetryableProcessed {
			// the failed send belongs to an attempt that was already in flight when the machine
			// decided to stop (new attempts can only come from Decide, which is judged above); the
			// statement allows send-failure retries, so this is reported, not judged
			r.Probe("send_retry_after_non_retryable_stop_decision")
		}
		if p.consec > w.cfg.SendRelayAttempts {
			w.violation("too-many-attempts", "send-retry:beyond-limit", fmt.Sprintf("send retry after %d consecutive send failures, SendRelayAttempts=%d", p.consec, w.cfg.SendRelayAttempts))
		}
	}
	return res
}

func (p *c34Policy) GetConsecutiveBatchErrors() int { return p.inner.GetConsecutiveBatchErrors() }

// ---- recording wrapper around the results checker (real RelayProcessor or script) ----
type c34Checker struct {
	w     *c34World
	inner relaycore.ResultsCheckerInf
}

func (c *c34Checker) WaitForResults(ctx context.Context) error { return c.inner.WaitForResults(ctx) }
func (c *c34Checker) HasRequiredNodeResults(tries int) (bool, int) {
	ok, ne := c.inner.HasRequiredNodeResults(tries)
	c.w.r.Logf("  checker.HasRequiredNodeResults(tries=%d) -> %v nodeErrors=%d", tries, ok, ne)
	if ok {
		c.w.successReported = true
		c.w.r.Probe("success_reported_to_machine")
	}
	return ok, ne
}
func (c *c34Checker) GetCrossValidationParams() *common.CrossValidationParams {
	return c.inner.GetCrossValidationParams()
}
func (c *c34Checker) GetResultsSummary() relaycore.ResultsSummary { return c.inner.GetResultsSummary() }

// scripted checker (profile "script"): every delivered result is queued; WaitForResults takes one,
// books it (only then it shows up in the summary, as with the real processor) and returns
type c34Script struct {
	w        *c34World
	ev       chan int
	ok       int
	nodeErr  int
	protoErr int
	nonRetry bool
	perm     bool
	epoch    bool
}

func (c *c34Script) WaitForResults(ctx context.Context) error {
	i, box := simrt.Select("harness:c34-script-wait", false, simrt.RecvCase(c.ev), simrt.RecvCase(ctx.Done()))
	if i != 0 {
		return ctx.Err()
	}
	kind := <-simrt.Relay(c.ev, box)
	switch kind {
	case c34ResOK:
		c.ok++
	case c34ResNodeErr:
		c.nodeErr++
	case c34ResNodeErrNonRetryable:
		c.nodeErr++
		c.nonRetry = true
	case c34ResProtoErr:
		c.protoErr++
	case c34ResProtoErrPermanent:
		c.protoErr++
		c.perm = true
	case c34ResEpochMismatch:
		c.protoErr++
		c.epoch = true
	}
	return nil
}
func (c *c34Script) required() bool {
	if c.w.mode == relaycore.CrossValidation {
		return c.ok >= c.w.cv.AgreementThreshold
	}
	return c.ok >= 1
}
func (c *c34Script) HasRequiredNodeResults(tries int) (bool, int) { return c.required(), c.nodeErr }
func (c *c34Script) GetCrossValidationParams() *common.CrossValidationParams {
	return c.w.cvParams()
}
func (c *c34Script) GetResultsSummary() relaycore.ResultsSummary {
	return relaycore.ResultsSummary{SuccessCount: c.ok, NodeErrors: c.nodeErr, ProtocolErrors: c.protoErr,
		HasNonRetryableNodeError: c.nonRetry, HasPermanentProtocolError: c.perm, HasEpochMismatch: c.epoch}
}

const (
	c34ResOK = iota
	c34ResNodeErr
	c34ResNodeErrNonRetryable
	c34ResProtoErr
	c34ResProtoErrPermanent
	c34ResEpochMismatch
)

var c34ResNames = []string{"success", "node-error", "node-error-non-retryable", "protocol-error", "protocol-error-permanent", "epoch-mismatch"}

type c34World struct {
	r      *simrt.Run
	s      *simrt.Sched
	mode   relaycore.Selection
	cv     common.CrossValidationParams
	cfg    relaycore.StateMachineConfig
	pcfg   PolicyConfig
	up     *lavasession.UsedProviders
	sm     relaycore.RelayStateMachine
	rp     *relaycore.RelayProcessor
	script *c34Script
	policy *c34Policy
	pool   []string
	cancel context.CancelFunc
	ch     chan relaycore.RelayStateSendInstructions
	ctx    context.Context

	processing, relayTimeout, maxSendLat time.Duration
	parseFails                           bool
	permanentErr                         error

	// machine-side knowledge
	successReported       bool
	nonRetryableProcessed bool
	// stream
	instr, attempts, sendOK, sendFail, finals int
	finalSeen                                 bool
	respSeq                                   int
	successDelivered                          bool
	attemptsAfterSuccessDelivered             int
}

func (w *c34World) cvParams() *common.CrossValidationParams {
	if w.mode == relaycore.CrossValidation {
		cv := w.cv
		return &cv
	}
	return nil
}

func (w *c34World) violation(class, sig, detail string) {
	w.r.SetViolation(class, sig, detail)
}

func (w *c34World) buildMessage(extensions []string) (chainlib.ProtocolMessage, error) {
	url, method := c34GetURL, http.MethodGet
	var data []byte
	if w.mode == relaycore.Stateful {
		url, method = c34PostURL, http.MethodPost
		data = []byte(`{"tx_bytes":"AA==","mode":"BROADCAST_MODE_SYNC"}`)
	}
	chainMsg, err := c34Parser.ParseMsg(url, data, method, nil, extensionslib.ExtensionInfo{LatestBlock: 0})
	if err != nil {
		return nil, err
	}
	var headers map[string]string
	if w.mode == relaycore.CrossValidation {
		headers = map[string]string{
			common.CROSS_VALIDATION_HEADER_MAX_PARTICIPANTS:    strconv.Itoa(w.cv.MaxParticipants),
			common.CROSS_VALIDATION_HEADER_AGREEMENT_THRESHOLD: strconv.Itoa(w.cv.AgreementThreshold),
		}
	}
	relayData := &pairingtypes.RelayPrivateData{ConnectionType: method, ApiUrl: url, Data: data, RequestBlock: -2, ApiInterface: "rest", Extensions: extensions}
	return chainlib.NewProtocolMessage(chainMsg, headers, relayData, "dapp", "10.0.0.1"), nil
}

// respond plays one provider of one batch
func (w *c34World) respond(name, provider string, kind int, latency time.Duration, variant int) {
	r := w.r
	simrt.Yield("harness:c34-respond")
	if latency > 0 {
		time.Sleep(latency)
		simrt.Resume("harness:c34-respond")
	}
	var err error
	switch kind {
	case c34ResProtoErr:
		err = fmt.Errorf("provider %s failed the relay", provider)
	case c34ResProtoErrPermanent:
		err = w.permanentErr
	case c34ResEpochMismatch:
		err = lavasession.EpochMismatchError.Wrapf("provider lava block %d, consumer lava block %d", 200, 100)
	}
	w.up.RemoveUsed(provider, lavasession.NewRouterKey(nil), err)
	w.respSeq++
	r.Logf("%s: result #%d from %s: %s (after %v)", name, w.respSeq, provider, c34ResNames[kind], latency)
	r.Op("result", c34ResNames[kind])
	if kind != c34ResOK {
		r.Fault("result_" + c34ResNames[kind])
	}
	if w.finalSeen {
		r.Probe("result_after_final")
	}
	if w.script != nil {
		w.script.ev <- kind
	} else {
		res := common.RelayResult{
			Request:      &pairingtypes.RelayRequest{RelaySession: &pairingtypes.RelaySession{}, RelayData: &pairingtypes.RelayPrivateData{}},
			ProviderInfo: common.ProviderInfo{ProviderAddress: provider},
			StatusCode:   200,
		}
		switch kind {
		case c34ResOK:
			res.Reply = &pairingtypes.RelayReply{Data: []byte(`{"block":"` + string(rune('A'+variant)) + `"}`), LatestBlock: 0}
		case c34ResNodeErr, c34ResNodeErrNonRetryable:
			res.StatusCode = 500
			res.IsNodeError = true
			res.IsNonRetryable = kind == c34ResNodeErrNonRetryable
			res.Reply = &pairingtypes.RelayReply{Data: []byte(`{"message":"bad","code":123}`)}
		default:
			res.StatusCode = 0
		}
		w.rp.SetResponse(&relaycore.RelayResponse{RelayResult: res, Err: err})
	}
	if kind == c34ResOK && (w.mode != relaycore.CrossValidation) {
		w.successDelivered = true
	}
}

// send plays sendRelayToProvider for one instruction; returns the error given to UpdateBatch
func (w *c34World) send(task relaycore.RelayStateSendInstructions, n int) error {
	r := w.r
	r.Step()
	lat := time.Duration(0)
	if r.Chance("ops", 1, 3) {
		lat = time.Duration(1+r.Draw("ops", int(w.maxSendLat/time.Millisecond))) * time.Millisecond
	}
	fail := r.Draw("fault", 5)
	// GetSessions: lock the selection, (take time), AddUsed(sessions, err)
	if err := w.up.TryLockSelection(w.ctx); err != nil {
		r.Logf("send#%d: TryLockSelection failed: %v", n, err)
		r.Fault("send_failed_lock")
		return err
	}
	if lat > 0 {
		simrt.Yield("harness:c34-getsessions")
		time.Sleep(lat)
		simrt.Resume("harness:c34-getsessions")
	}
	unwanted := w.up.GetUnwantedProvidersToSend(lavasession.NewRouterKey(nil))
	var chosen []string
	for _, p := range w.pool {
		if _, bad := unwanted[p]; !bad && len(chosen) < task.NumOfProviders {
			chosen = append(chosen, p)
		}
	}
	var err error
	switch {
	case fail == 1:
		err = fmt.Errorf("c34: failed getting sessions")
		r.Fault("send_failed_generic")
	case fail == 2 || len(chosen) == 0:
		err = lavasession.PairingListEmptyError
		r.Fault("send_failed_pairing_list_empty")
	}
	if err != nil {
		w.up.AddUsed(nil, err)
		r.Logf("send#%d: numProviders=%d FAILED (%s) after %v", n, task.NumOfProviders, c34Short(err), lat)
		return err
	}
	sessions := lavasession.ConsumerSessionsMap{}
	for _, p := range chosen {
		sessions[p] = &lavasession.SessionInfo{}
	}
	w.up.AddUsed(sessions, nil)
	r.Logf("send#%d: numProviders=%d sent to %v after %v (batch %d)", n, task.NumOfProviders, chosen, lat, w.up.BatchNumber())
	for i, p := range chosen {
		kind := 0
		switch k := r.Draw("ops", 12); {
		case k <= 4:
			kind = c34ResOK
		case k <= 6:
			kind = c34ResNodeErr
		case k == 7:
			kind = c34ResNodeErrNonRetryable
		case k <= 9:
			kind = c34ResProtoErr
		case k == 10:
			kind = c34ResProtoErrPermanent
		default:
			kind = c34ResEpochMismatch
		}
		var latency time.Duration
		switch r.Draw("ops", 6) {
		case 0:
			latency = time.Duration(r.Draw("ops", 5)) * time.Millisecond
		case 1, 2:
			latency = time.Duration(r.Draw("ops", int(w.relayTimeout/time.Millisecond)+1)) * time.Millisecond
		case 3:
			// a multiple of the ticker period: lands on a tick
			latency = w.relayTimeout * time.Duration(1+r.Draw("ops", 3))
		case 4:
			latency = time.Duration(r.Draw("ops", int(3*w.relayTimeout/time.Millisecond)+1)) * time.Millisecond
		default:
			latency = time.Duration(r.Draw("ops", int(w.processing/time.Millisecond)+int(w.processing/time.Millisecond)/4+1)) * time.Millisecond
		}
		variant := 0
		if w.mode == relaycore.CrossValidation && r.Chance("ops", 1, 3) {
			variant = 1 + r.Draw("ops", 2)
		}
		name := fmt.Sprintf("R%d.%d", n, i)
		p, kind2, latency2, variant2 := p, kind, latency, variant
		w.s.Go(name, true, func() { w.respond(name, p, kind2, latency2, variant2) })
	}
	return nil
}

func c34Short(err error) string {
	if err == nil {
		return "ok"
	}
	s := err.Error()
	if len(s) > 50 {
		s = s[:50]
	}
	return s
}

func (w *c34World) consumer() {
	r := w.r
	var ch chan relaycore.RelayStateSendInstructions
	var err error
	if w.rp != nil {
		ch, err = w.rp.GetRelayTaskChannel()
	} else {
		ch, err = w.sm.GetRelayTaskChannel()
	}
	w.ch = ch
	if err != nil {
		w.violation("harness-setup", "channel", err.Error())
		return
	}
	start := time.Now()
	slack := 10*w.maxSendLat + 200*time.Millisecond
	bound := w.processing + slack
	timer := time.NewTimer(bound)
	defer timer.Stop()
	for {
		i, box := simrt.Select("harness:c34-consumer-recv", false, simrt.RecvCase(ch), simrt.RecvCase(timer.C))
		if i != 0 {
			r.OracleEvals++
			w.violation("no-final-instruction", "within-processing-timeout", fmt.Sprintf("no final instruction %v after the relay started (processing timeout %v + %v allowance for the consumer's own sends); %d instructions so far", bound, w.processing, slack, w.instr))
			w.cancel()
			return
		}
		task, ok := <-simrt.Relay(ch, box)
		if !ok {
			w.violation("no-final-instruction", "channel-closed", "the relay task channel was closed")
			w.cancel()
			return
		}
		w.instr++
		if task.IsDone() {
			w.finals++
			w.finalSeen = true
			r.SimSpan = int64(time.Since(start))
			r.Logf("consumer: FINAL instruction done=%v err=%s after %v (attempts=%d sendOK=%d sendFail=%d)", task.Done, c34Short(task.Err), time.Since(start), w.attempts, w.sendOK, w.sendFail)
			if task.Err != nil {
				r.Op("final", "error")
			} else {
				r.Op("final", "ok")
			}
			// ProcessRelaySend returns: its deferred cancel() ends every child context
			w.cancel()
			break
		}
		w.attempts++
		r.Logf("consumer: instruction #%d: send to %d provider(s) at +%v", w.instr, task.NumOfProviders, time.Since(start))
		r.OracleEvals += 2
		if (w.mode == relaycore.Stateful || w.mode == relaycore.CrossValidation) && w.sendOK > 0 {
			w.violation("resend-after-successful-send", map[relaycore.Selection]string{relaycore.Stateful: "stateful", relaycore.CrossValidation: "cross-validation"}[w.mode], fmt.Sprintf("instruction #%d asks for another send although the request was already sent successfully (%d successful sends)", w.instr, w.sendOK))
			return
		}
		if w.sendOK > w.cfg.MaxRetries+3 {
			w.violation("too-many-attempts", "stream", fmt.Sprintf("%d attempts were already sent out successfully and another one is requested; MaxRetries=%d", w.sendOK, w.cfg.MaxRetries))
			return
		}
		if w.successDelivered {
			w.attemptsAfterSuccessDelivered++
		}
		errSend := w.send(task, w.attempts)
		if errSend == nil {
			w.sendOK++
			r.Op("send", "ok")
		} else {
			w.sendFail++
			r.Op("send", "failed")
		}
		if w.rp != nil {
			w.rp.UpdateBatch(errSend)
		} else {
			w.sm.UpdateBatch(errSend)
		}
	}
	// the consumer is gone; anything the machine still emits is a violation. Wait a little
	// (validateReturnCondition sleeps 15 ms, tickers may still be armed) and look at the channel.
	simrt.Yield("harness:c34-linger")
	time.Sleep(w.relayTimeout + 50*time.Millisecond)
	simrt.Resume("harness:c34-linger")
	w.drainAfterFinal(ch)
}

func (w *c34World) drainAfterFinal(ch chan relaycore.RelayStateSendInstructions) {
	r := w.r
	r.OracleEvals++
	for len(ch) > 0 {
		x := <-ch
		if x.IsDone() {
			w.violation("instruction-after-final", "second-final", fmt.Sprintf("a second final instruction (done=%v err=%s) was emitted after the first one", x.Done, c34Short(x.Err)))
		} else {
			w.violation("instruction-after-final", "send", fmt.Sprintf("a send instruction (%d providers) was emitted after the final instruction", x.NumOfProviders))
		}
		return
	}
}

// consumerStuckInUpdateBatch recognises the hang where the machine has emitted its final
// instruction and returned, and the consumer blocks forever in UpdateBatch because nobody drains
// batchUpdate any more.
// c34MachineLines locates, in the tree under test, the line span of UpdateBatch and the line of the
// go statement that starts the machine's main loop (leftover tasks are reported as file:line).
var c34Lines struct {
	once           sync.Once
	lo, hi, goLine int
}

func c34MachineLines() (lo, hi, goLine int) {
	c34Lines.once.Do(func() {
		b, err := os.ReadFile(filepath.Join(os.Getenv("VERIF_REPO"), "protocol/relaycore/unified_relay_state_machine.go"))
		if err != nil {
			return
		}
		inGet := false
		for i, line := range strings.Split(string(b), "\n") {
			n := i + 1
			switch {
			case strings.HasPrefix(line, "func (sm *UnifiedRelayStateMachine) UpdateBatch("):
				c34Lines.lo = n
			case c34Lines.lo != 0 && c34Lines.hi == 0 && line == "}":
				c34Lines.hi = n
			case strings.HasPrefix(line, "func (sm *UnifiedRelayStateMachine) GetRelayTaskChannel("):
				inGet = true
			case inGet && c34Lines.goLine == 0 && strings.TrimSpace(line) == "go func() {":
				c34Lines.goLine = n
			}
		}
	})
	return c34Lines.lo, c34Lines.hi, c34Lines.goLine
}

func (w *c34World) consumerStuckInUpdateBatch(s *simrt.Sched) bool {
	stuck := false
	mainAlive := false
	for _, l := range s.Leftover() {
		lo, hi, goLine := c34MachineLines()
		if strings.Contains(l, ":consumer:") {
			for n := lo; n <= hi; n++ {
				if strings.HasSuffix(l, fmt.Sprintf("unified_relay_state_machine.go:%d", n)) {
					stuck = true
				}
			}
		}
		if strings.Contains(l, fmt.Sprintf("unified_relay_state_machine.go:%d:", goLine)) {
			mainAlive = true
		}
	}
	if !stuck || mainAlive {
		return false
	}
	pending := "none"
	if w.ch != nil && len(w.ch) > 0 {
		x := <-w.ch
		pending = fmt.Sprintf("done=%v err=%s", x.Done, c34Short(x.Err))
	}
	w.violation("consumer-stuck-in-UpdateBatch", "after-machine-stopped", fmt.Sprintf("the machine's main loop has returned (pending instruction in the relay task channel: %s) and the consumer is blocked forever in UpdateBatch: batchUpdate (capacity MaxRetries=%d) is full and nobody reads it any more; %d send instructions, %d sends ok, %d failed", pending, w.cfg.MaxRetries, w.attempts, w.sendOK, w.sendFail))
	return true
}

func runC34(r *simrt.Run) {
	c34Setup()
	if c34ParserErr != nil || c34Parser == nil {
		r.Fail("harness-setup", "spec", "cannot load LAV1 spec: %v", c34ParserErr)
	}
	simrt.SetMapOrder(1+r.Draw("cfg", 3), r.Draw64("cfg"))
	defer simrt.SetMapOrder(simrt.MapOrderNative, 0)
	inBubble(r, func(s *simrt.Sched) {
		w := &c34World{r: r, s: s}
		switch r.Draw("cfg", 4) {
		case 0, 1:
			w.mode = relaycore.Stateless
		case 2:
			w.mode = relaycore.Stateful
		default:
			w.mode = relaycore.CrossValidation
			w.cv.MaxParticipants = 1 + r.Draw("cfg", 4)
			w.cv.AgreementThreshold = 1 + r.Draw("cfg", w.cv.MaxParticipants)
		}
		// batchUpdate's capacity is MaxRetries: with MaxRetries <= 3 the consumer's UpdateBatch can
		// block forever once the main loop has returned (finding kept under profile "lowmax", not
		// reachable with the consumer's constant 10); the default profiles stay above that
		maxRetries := 4 + r.Draw("cfg", 7)
		if r.Profile == "lowmax" {
			maxRetries = 1 + r.Draw("cfg", 3)
		}
		w.cfg = relaycore.StateMachineConfig{
			MaxRetries:            maxRetries,
			SendRelayAttempts:     r.Draw("cfg", 4),
			EnableTimeoutPriority: r.Chance("cfg", 1, 2),
		}
		if r.Chance("cfg", 1, 3) {
			w.cfg.EnableCircuitBreaker = true
			w.cfg.CircuitBreakerThreshold = 1 + r.Draw("cfg", 3)
		}
		// one source for both configs, as rpcconsumer's ConsumerStateMachineConfig/ConsumerPolicyConfig
		w.pcfg = PolicyConfig{
			MaxRetries:              w.cfg.MaxRetries,
			RelayRetryLimit:         r.Draw("cfg", 5),
			DisableBatchRetry:       r.Chance("cfg", 1, 2),
			EnableCircuitBreaker:    w.cfg.EnableCircuitBreaker,
			CircuitBreakerThreshold: w.cfg.CircuitBreakerThreshold,
			SendRelayAttempts:       w.cfg.SendRelayAttempts,
		}
		w.relayTimeout = time.Duration(10+r.Draw("cfg", 190)) * time.Millisecond
		w.processing = w.relayTimeout*time.Duration(1+r.Draw("cfg", 16)) + time.Duration(r.Draw("cfg", 50))*time.Millisecond
		w.maxSendLat = time.Duration(1+r.Draw("cfg", 2*int(w.relayTimeout/time.Millisecond))) * time.Millisecond
		w.parseFails = r.Chance("cfg", 1, 4)
		nPool := 1 + r.Draw("cfg", 8)
		for i := 0; i < nPool; i++ {
			w.pool = append(w.pool, fmt.Sprintf("lava@p%d", i))
		}
		// a protocol error the code itself classifies as permanent
		w.permanentErr = fmt.Errorf("rpc error: method not found")
		if chainlib.ShouldRetryError(w.permanentErr) && !chainlib.IsUnsupportedMethodError(w.permanentErr) {
			r.Fail("harness-setup", "permanent-error", "the harness' permanent protocol error is classified as retryable by chainlib")
		}
		if !chainlib.ShouldRetryError(fmt.Errorf("provider lava@p0 failed the relay")) {
			r.Fail("harness-setup", "retryable-error", "the harness' retryable protocol error is classified as permanent by chainlib")
		}

		w.ctx, w.cancel = context.WithCancel(context.Background())
		defer w.cancel()
		protocolMessage, err := w.buildMessage(nil)
		if err != nil {
			r.Fail("harness-setup", "parse", "ParseMsg: %v", err)
		}
		w.up = lavasession.NewUsedProviders(protocolMessage)
		w.up.SetChainID("LAV1")
		w.up.SetEligibilityFunc(DecideEligibility)
		w.policy = &c34Policy{w: w, inner: NewPolicy(w.pcfg)}
		sender := &c34Sender{w: w, processing: w.processing, relay: w.relayTimeout}
		sm, err := relaycore.NewUnifiedRelayStateMachine(w.ctx, w.up, sender, protocolMessage, nil, false, w.cfg, w.policy)
		if err != nil {
			r.Fail("harness-setup", "sm", "NewUnifiedRelayStateMachine: %v", err)
		}
		if sm.GetSelection() != w.mode {
			r.Fail("harness-setup", "selection", "selection is %v, wanted %v", sm.GetSelection(), w.mode)
		}
		w.sm = sm
		rrm := &lavaprotocol.RelayRetriesManager{}
		if r.Profile == "script" {
			w.script = &c34Script{w: w, ev: make(chan int, 4096)}
			sm.SetResultsChecker(&c34Checker{w: w, inner: w.script})
			sm.SetRelayRetriesManager(rrm)
		} else {
			w.rp = relaycore.NewRelayProcessor(w.ctx, sm.GetCrossValidationParams(), nil, c34Metrics{}, c34Metrics{}, rrm, sm)
			// the processor registered itself as the results checker; put the recorder in between
			sm.SetResultsChecker(&c34Checker{w: w, inner: w.rp})
		}
		r.Logf("cfg: profile=%s mode=%d cv=%+v sm=%+v relayRetryLimit=%d processing=%v relayTimeout=%v maxSendLat=%v pool=%d parseFails=%v", r.Profile, w.mode, w.cv, w.cfg, w.pcfg.RelayRetryLimit, w.processing, w.relayTimeout, w.maxSendLat, nPool, w.parseFails)

		s.Go("consumer", true, w.consumer)
		s.Run(3*w.processing+time.Minute, 60000)
		if r.Violated() != nil {
			return
		}
		if !s.Quiescent {
			r.Probe("not_quiescent")
			r.Logf("run ended without quiescence: horizon=%v steps=%v leftover=%v", s.HorizonHit, s.StepsHit, s.Leftover())
			if !w.finalSeen && w.consumerStuckInUpdateBatch(s) {
				return
			}
			if !w.finalSeen {
				w.violation("no-final-instruction", "not-quiescent", fmt.Sprintf("the run ended (horizon=%v steps=%v) without a final instruction", s.HorizonHit, s.StepsHit))
			}
			return
		}
		// let the machine's helper goroutines notice the cancelled context
		s.Drain(500*time.Millisecond, 5000)
		if r.Violated() != nil {
			return
		}
		r.OracleEvals++
		if w.finals != 1 {
			w.violation("no-final-instruction", "count", fmt.Sprintf("%d final instructions", w.finals))
			return
		}
		// leak report
		for _, l := range s.Leftover() {
			parts := strings.SplitN(l, ":", 2)
			if len(parts) < 2 || !strings.Contains(parts[1], "unified_relay_state_machine.go") {
				continue
			}
			name := parts[1]
			if i := strings.Index(name, ".go:"); i >= 0 {
				j := i + 4
				for j < len(name) && name[j] >= '0' && name[j] <= '9' {
					j++
				}
				name = name[:j]
			}
			r.Logf("leftover state-machine goroutine after the final instruction: %s", l)
			r.Probe("leak:" + name)
			r.Extra["sm_goroutines_left"]++
			if os.Getenv("C34_LEAK_IS_VIOLATION") == "1" && !strings.HasSuffix(name, "unified_relay_state_machine.go:239") {
				// diagnostic switch (off in checks): get a minimised schedule for a helper-goroutine leak
				w.violation("state-machine-goroutine-leak", name[strings.LastIndex(name, ":")+1:], "a helper goroutine of the state machine is still alive 500 ms (fake) after the final instruction and context cancellation: "+l)
				return
			}
			if strings.HasSuffix(name, "unified_relay_state_machine.go:239") {
				w.violation("state-machine-still-running-after-final", "main-loop", "the state machine's main loop goroutine is still alive 500 ms (fake) after the final instruction and context cancellation: "+l)
				return
			}
		}
		if w.attemptsAfterSuccessDelivered > 0 {
			r.Probe("attempt_requested_after_success_delivery")
		}
		if w.attempts > w.cfg.MaxRetries+w.cfg.SendRelayAttempts {
			r.Probe("attempts_exceed_maxretries_plus_sendattempts")
			if c34StrictLetterBound {
				w.violation("too-many-attempts", "letter-bound", fmt.Sprintf("%d send instructions; MaxRetries=%d SendRelayAttempts=%d", w.attempts, w.cfg.MaxRetries, w.cfg.SendRelayAttempts))
			}
		}
		if w.sendOK >= w.cfg.MaxRetries {
			r.Probe("max_retries_reached")
		}
	})
}

func init() {
	simrt.Register("C34", &simrt.PropSpec{Fn: runC34, Profiles: []string{"proc", "script"},
		NonTrivial: func(r *simrt.Run) bool {
			return (r.Ops["final:ok"]+r.Ops["final:error"]) == 1 && (r.Ops["send:ok"]+r.Ops["send:failed"]) >= 1 && r.Switches >= 30
		},
		Rule:    "one relay per run: the harness plays RPCConsumerServer.ProcessRelaySend (reads the relay task channel; per send instruction plays sendRelayToProvider: TryLockSelection, tape-chosen GetSessions latency, then AddUsed+UpdateBatch(nil) or a generic / pairing-list-empty failure + UpdateBatch(err); cancels the context after the final instruction) and the providers (one task per session: after a tape-chosen latency - ms, around the ticker period, exact multiples of it, or beyond the processing timeout - RemoveUsed and a result: success, node error retryable / non-retryable, protocol error retryable / permanent (unsupported method) / epoch mismatch). Modes Stateless / Stateful (POST /cosmos/tx/v1beta1/txs) / CrossValidation (headers, 1-4 participants); per-run config MaxRetries 4-10 (1-3 only under the extra profile lowmax), SendRelayAttempts 0-3, circuit breaker on/off + threshold, timeout priority on/off, RelayRetryLimit 0-4, ticker 10-200 ms, processing timeout 1-17 ticker periods, provider pool 1-8 (exhaustion gives PairingListEmptyError), ParseRelay (archive upgrade) succeeding or failing. Profile proc: real RelayProcessor as results checker; profile script: scripted checker (each result wakes WaitForResults once). Every lock/atomic/channel/select/sleep/go of relaycore, relaypolicy and UsedProviders is a tape-driven scheduling point; selects with several ready cases are resolved from the tape. Non-trivial = exactly one final instruction, >=1 send and >=30 context switches; distinct = (op,outcome,fault) sequence x context-switch sequence",
		Real:    []string{"protocol/relaycore UnifiedRelayStateMachine (main loop, reader, validateReturnCondition goroutines), RelayState / archive mutation, RelayProcessor + ResultsManager (profile proc) (instrumented copies through the build overlay)", "protocol/relaypolicy Policy (Decide, OnSendRelayResult) behind a pass-through recorder", "protocol/lavasession UsedProviders (instrumented)", "protocol/chainlib REST chain parser + LAV1 spec, chainlib.ShouldRetryError / IsUnsupportedMethodError classification, cross-validation header parsing"},
		Stubbed: []string{"RPCConsumerServer.ProcessRelaySend / sendRelayToProvider and ConsumerSessionManager.GetSessions (harness task following their call order)", "providers and transport (result tasks)", "RelaySenderInf: timeouts from the tape, ParseRelay rebuilding the message with the requested extensions or failing", "ResultsCheckerInf scripted in profile script", "RelayRetriesManager with a nil ristretto cache (consumer side only writes)", "consistency nil, metrics no-op, analytics nil", "clock: synctest fake time"},
		Assume:  []string{"code between two instrumented synchronisation points is atomic in the simulation (every simulated schedule is a real schedule, not vice versa)", "the consumer handles one instruction at a time and calls UpdateBatch after each, as ProcessRelaySend does", "\"after a successful result\" is judged from the machine's own inputs: the results summary handed to Policy.Decide, or HasRequiredNodeResults having returned true to the machine's reader; \"after a non-retryable error\" from a previous Decide that saw the flag; results still queued in the processor's channel do not count", "attempt limits: a Decide may start an attempt only while the batch number it reads is below MaxRetries; a send-failure retry only while the consecutive failures it was told about are <= SendRelayAttempts; the literal total MaxRetries+SendRelayAttempts is reported as a probe only", "the final instruction must arrive within processing timeout + 10 x the harness' maximum send latency + 200 ms of fake time"},
	})
}
