package relaypolicy

// In-package simulation harness (added through a build overlay only). The package's own test files
// are hidden by the overlay, so this TestSim is the only test in the binary.

import (
	"fmt"
	"strings"
	"testing"
	"testing/synctest"

	"github.com/lavanet/lava/v5/zz_verif/simrt"
)

var simT *testing.T

func TestSim(t *testing.T) {
	simT = t
	simrt.WorkerMain()
}

// inBubble runs body inside a fresh synctest bubble (fake clock, quiescence detection) with a
// token-passing scheduler. Panics of the root are converted into the run's verdict; the
// end-of-bubble complaint about leftover goroutines is swallowed (reported separately as a leak
// list where a property needs it).
func inBubble(r *simrt.Run, body func(s *simrt.Sched)) {
	defer func() {
		if p := recover(); p != nil {
			msg := fmt.Sprint(p)
			if strings.Contains(msg, "blocked goroutines remain") || strings.Contains(msg, "deadlock") {
				r.Probe("bubble_leftover_goroutines")
				return
			}
			r.Recover(p)
		}
	}()
	synctest.Test(simT, func(t *testing.T) {
		s := simrt.NewSched(r, synctest.Wait)
		defer s.Close()
		defer func() { r.Recover(recover()) }()
		body(s)
	})
}
