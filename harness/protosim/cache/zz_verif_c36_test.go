package cache

import (
	"bytes"
	"context"
	"fmt"
	"io"
	"os"
	"strings"
	"sync"
	"time"

	"github.com/dgraph-io/ristretto/v2"
	"github.com/lavanet/lava/v5/protocol/chainlib"
	"github.com/lavanet/lava/v5/protocol/common"
	"github.com/lavanet/lava/v5/utils"
	pairingtypes "github.com/lavanet/lava/v5/x/pairing/types"
	spectypes "github.com/lavanet/lava/v5/x/spec/types"
	"github.com/lavanet/lava/v5/zz_verif/simrt"
	"github.com/rs/zerolog"
	zerologlog "github.com/rs/zerolog/log"
)

// C36: the relay cache never serves the wrong or corrupted reply.
//
// Real: RelayerCacheServer.SetRelay/GetRelay (instrumented: its goroutines are scheduled tasks),
// CacheServer.InitCache with three ristretto caches on the synctest fake clock,
// chainlib.HashCacheRequest + ecosystem/cache/format, common.CompressData/DecompressData.
// Simulated: consumer/provider clients (tasks), the wire (proto Marshal/Unmarshal of every message).

// ---- request descriptors: a family = everything the statement says must match ----

type c36Desc struct {
	chain, iface, conn, url string
	method, params          string // JSON-RPC interfaces: body is built from id+method+params
	batch                   bool
	addon                   string
	exts                    []string
	meta                    []pairingtypes.Metadata
	block                   int64
	// dimensions the statement says are ignored
	id         string
	salt       []byte
	seen       int64
	reqID      string
	task, txid string
}

func (d *c36Desc) jsonrpc() bool {
	return d.iface == spectypes.APIInterfaceJsonRPC || d.iface == spectypes.APIInterfaceTendermintRPC
}

func (d *c36Desc) data() []byte {
	if !d.jsonrpc() {
		return []byte(d.method + "?" + d.params)
	}
	one := func(id, m string) string {
		return fmt.Sprintf(`{"jsonrpc":"2.0","id":%s,"method":"%s","params":%s}`, id, m, d.params)
	}
	if d.batch {
		return []byte("[" + one(d.id, d.method) + "," + one(d.id, d.method+"_second") + "]")
	}
	return []byte(one(d.id, d.method))
}

// the non-ignored dimensions except the requested block
func (d *c36Desc) dims() [][2]string {
	var mt []string
	for _, m := range d.meta {
		mt = append(mt, fmt.Sprintf("%q=%q", m.Name, m.Value))
	}
	return [][2]string{
		{"chain", d.chain}, {"api_interface", d.iface}, {"connection_type", d.conn}, {"api_url", d.url},
		{"method", d.method}, {"params", d.params}, {"batch", fmt.Sprint(d.batch)}, {"addon", d.addon},
		{"extensions", fmt.Sprintf("%q", d.exts)}, {"metadata", strings.Join(mt, "&")},
	}
}

func (d *c36Desc) family() string { return fmt.Sprint(d.dims()) }

func c36DiffDims(a, b *c36Desc) string {
	var out []string
	da, db := a.dims(), b.dims()
	for i := range da {
		if da[i][1] != db[i][1] {
			out = append(out, da[i][0])
		}
	}
	return strings.Join(out, "+")
}

func (d *c36Desc) build() *pairingtypes.RelayPrivateData {
	p := &pairingtypes.RelayPrivateData{
		ConnectionType: d.conn, ApiUrl: d.url, Data: d.data(), RequestBlock: d.block, ApiInterface: d.iface,
		Salt: append([]byte(nil), d.salt...), Metadata: append([]pairingtypes.Metadata(nil), d.meta...), Addon: d.addon,
		Extensions: append([]string(nil), d.exts...), SeenBlock: d.seen, RequestId: d.reqID,
	}
	if d.task != "" {
		p.XTaskId = &pairingtypes.RelayPrivateData_TaskId{TaskId: d.task}
	}
	if d.txid != "" {
		p.XTxId = &pairingtypes.RelayPrivateData_TxId{TxId: d.txid}
	}
	return p
}

type c36Entry struct {
	name     string
	desc     c36Desc
	obj      *pairingtypes.RelayPrivateData // shared by every client task and the watcher
	pristine []byte
	varies   string // the one dimension in which it differs from its base ("" = base)
}

// ---- stored replies ----

type c36Rec struct {
	serial    int
	desc      *c36Desc
	entry     string
	block     int64 // block the entry was stored under
	finalized bool
	hash      []byte
	size      int
	kind      int // 0 compressible JSON, 1 incompressible bytes
	latest    int64
	meta      []pairingtypes.Metadata
	fbh       []byte
}

func c36Payload(serial, size, kind int) []byte {
	var prefix, suffix string
	if kind == 0 {
		prefix, suffix = fmt.Sprintf(`{"jsonrpc":"2.0","id":1,"result":"#S%d#`, serial), `"}`
	} else {
		prefix = fmt.Sprintf("#S%d#", serial)
	}
	fill := size - len(prefix) - len(suffix)
	if fill < 0 {
		fill = 0
	}
	out := make([]byte, 0, len(prefix)+fill+len(suffix)+8)
	out = append(out, prefix...)
	if kind == 0 {
		pat := fmt.Sprintf("0x%08x,block-data-%d;", serial*2654435761, serial)
		for len(out) < len(prefix)+fill {
			out = append(out, pat...)
		}
		out = out[:len(prefix)+fill]
	} else {
		x := uint64(serial)*0x9E3779B97F4A7C15 + 1
		for i := 0; i < fill; i += 8 {
			x ^= x << 13
			x ^= x >> 7
			x ^= x << 17
			out = append(out, byte(x), byte(x>>8), byte(x>>16), byte(x>>24), byte(x>>32), byte(x>>40), byte(x>>48), byte(x>>56))
		}
		out = out[:len(prefix)+fill]
	}
	return append(out, suffix...)
}

func c36Serial(data []byte) (int, bool) {
	i := bytes.Index(data, []byte("#S"))
	if i < 0 {
		return 0, false
	}
	n, j := 0, i+2
	for ; j < len(data) && data[j] >= '0' && data[j] <= '9'; j++ {
		n = n*10 + int(data[j]-'0')
	}
	if j == i+2 || j >= len(data) || data[j] != '#' {
		return 0, false
	}
	return n, true
}

type c36World struct {
	r       *simrt.Run
	srv     *RelayerCacheServer
	pool    []*c36Entry
	recs    map[int]*c36Rec
	serial  int
	latest  map[string]int64 // what the clients believe the chain's latest block is
	bigLeft int
	done    bool
}

func (w *c36World) viol(class, sig, format string, a ...interface{}) {
	w.r.SetViolation(class, sig, fmt.Sprintf(format, a...))
}

func c36Marshal(p *pairingtypes.RelayPrivateData) []byte {
	b, err := p.Marshal()
	if err != nil {
		panic(err)
	}
	return b
}

func c36ChangedField(a, b []byte) string {
	var x, y pairingtypes.RelayPrivateData
	if x.Unmarshal(a) != nil || y.Unmarshal(b) != nil {
		return "unparsable"
	}
	var out []string
	add := func(name string, diff bool) {
		if diff {
			out = append(out, name)
		}
	}
	add("data", !bytes.Equal(x.Data, y.Data))
	add("salt", !bytes.Equal(x.Salt, y.Salt))
	add("request_block", x.RequestBlock != y.RequestBlock)
	add("seen_block", x.SeenBlock != y.SeenBlock)
	add("request_id", x.RequestId != y.RequestId)
	add("task_id", x.GetTaskId() != y.GetTaskId() || (x.XTaskId == nil) != (y.XTaskId == nil))
	add("tx_id", x.GetTxId() != y.GetTxId() || (x.XTxId == nil) != (y.XTxId == nil))
	add("other", len(out) == 0)
	return strings.Join(out, "+")
}

// key computes the cache key with the real chainlib.HashCacheRequest on the SHARED request object
// and checks that the object is byte-for-byte what it was
func (w *c36World) key(e *c36Entry, who string) []byte {
	r := w.r
	before := c36Marshal(e.obj)
	h, _, err := chainlib.HashCacheRequest(e.obj, e.desc.chain)
	after := c36Marshal(e.obj)
	r.OracleEvals++
	if !bytes.Equal(before, after) || !bytes.Equal(after, e.pristine) {
		w.viol("request-changed-by-key-computation", c36ChangedField(e.pristine, after), "%s: request %s marshals to %d bytes before and %d bytes after HashCacheRequest (pristine %d); changed: %s", who, e.name, len(before), len(after), len(e.pristine), c36ChangedField(e.pristine, after))
		return nil
	}
	if err != nil {
		r.Op("hash", "err")
		return nil
	}
	return h
}

func (w *c36World) watcher() {
	r := w.r
	for pass := 0; !w.done && r.Violated() == nil; pass++ {
		// mostly short naps (to land between the steps of a client), long ones once clients sleep
		d := time.Duration(1+r.Draw("watch", 40)) * time.Millisecond
		if pass > 60 {
			d = time.Duration(1+r.Draw("watch", 20)) * time.Minute
		} else if pass > 30 {
			d = time.Duration(1+r.Draw("watch", 10)) * time.Second
		}
		simrt.Yield("harness:watcher-sleep")
		time.Sleep(d)
		simrt.Resume("harness:watcher-sleep")
		for _, e := range w.pool {
			now := c36Marshal(e.obj)
			r.OracleEvals++
			if !bytes.Equal(now, e.pristine) {
				w.viol("request-changed-by-key-computation", "seen-by-concurrent-reader:"+c36ChangedField(e.pristine, now), "a task reading the shared request %s sees it changed: %s", e.name, c36ChangedField(e.pristine, now))
				return
			}
		}
		r.Probe("watcher_pass")
	}
}

func c36BlockHash(chain string, block int64, fork int) []byte {
	if fork == 0 {
		return nil
	}
	return []byte(fmt.Sprintf("bh-%s-%d-fork%d", chain, block, fork))
}

func (w *c36World) waitCaches() {
	simrt.Yield("harness:ristretto-wait")
	w.srv.CacheServer.tempCache.Wait()
	w.srv.CacheServer.finalizedCache.Wait()
	w.srv.CacheServer.blocksHashesToHeightsCache.Wait()
	simrt.Resume("harness:ristretto-wait")
}

func (w *c36World) doSet(who string, e *c36Entry, h []byte) {
	r := w.r
	d := &e.desc
	w.serial++
	rec := &c36Rec{serial: w.serial, desc: d, entry: e.name}
	rec.block = d.block
	if rec.block < 0 {
		rec.block = w.latest[d.chain] // what the consumer does for "latest" requests
	}
	rec.finalized = r.Chance("ops", 1, 2)
	rec.hash = c36BlockHash(d.chain, rec.block, r.Draw("ops", 3))
	rec.kind = 0
	if r.Chance("ops", 1, 5) {
		rec.kind = 1
	}
	th := common.CompressionThreshold
	switch sz := r.Draw("ops", 12); {
	case sz <= 7:
		rec.size = 30 + r.Draw("ops", 600)
	case sz <= 9:
		rec.size = 4096 + r.Draw("ops", 60000)
	default:
		if w.bigLeft > 0 {
			w.bigLeft--
			rec.size = []int{th - 1, th, th + 1, th + 2 + r.Draw("ops", 5000), th + th/2 + r.Draw("ops", 999), 2*th + r.Draw("ops", 77777), 3 * th}[r.Draw("ops", 7)]
		} else {
			rec.size = 700 + r.Draw("ops", 3000)
		}
	}
	rec.latest = w.latest[d.chain]
	if r.Chance("ops", 1, 3) {
		rec.meta = []pairingtypes.Metadata{{Name: "x-reply-header", Value: fmt.Sprintf("v%d", rec.serial)}}
	}
	if r.Chance("ops", 1, 4) {
		rec.fbh = []byte(fmt.Sprintf(`{"%d":"fin%d"}`, rec.block, rec.serial))
	}
	w.recs[rec.serial] = rec
	payload := c36Payload(rec.serial, rec.size, rec.kind)
	set := &pairingtypes.RelayCacheSet{
		RequestHash: h, BlockHash: rec.hash, ChainId: d.chain, Finalized: rec.finalized, RequestedBlock: rec.block,
		Response:         &pairingtypes.RelayReply{Data: payload, Sig: []byte("provider-signature"), LatestBlock: rec.latest, Metadata: rec.meta, FinalizedBlocksHashes: rec.fbh},
		SeenBlock:        rec.latest - int64(r.Draw("ops", 3)),
		AverageBlockTime: int64(time.Duration(1+r.Draw("ops", 15)) * time.Second),
		IsNodeError:      r.Chance("ops", 1, 10),
	}
	if r.Chance("ops", 1, 4) {
		set.SharedStateId = "user-1"
	}
	if r.Chance("ops", 1, 4) {
		set.OptionalMetadata = []pairingtypes.Metadata{{Name: "lava-ignored", Value: "yes"}}
		set.BlocksHashesToHeights = []*pairingtypes.BlockHashToHeight{{Hash: fmt.Sprintf("0xhash%d", rec.block), Height: rec.block}}
	}
	wire, err := set.Marshal()
	if err != nil {
		panic(err)
	}
	var onServer pairingtypes.RelayCacheSet
	if err := onServer.Unmarshal(wire); err != nil {
		panic(err)
	}
	r.Logf("%s: SET #%d %s block=%d finalized=%v blockHash=%q size=%d kind=%d nodeErr=%v shared=%q", who, rec.serial, e.name, rec.block, rec.finalized, rec.hash, len(payload), rec.kind, set.IsNodeError, set.SharedStateId)
	_, err = w.srv.SetRelay(context.Background(), &onServer)
	if err != nil {
		r.Op("set", "err")
		r.Logf("%s:   set #%d rejected: %v", who, rec.serial, err)
		return
	}
	r.Op("set", "ok")
	if rec.size > th {
		r.Probe("set_above_threshold")
	}
	w.waitCaches()
}

func (w *c36World) doGet(who string, e *c36Entry, h []byte) {
	r := w.r
	d := &e.desc
	get := &pairingtypes.RelayCacheGet{
		RequestHash: h, RequestedBlock: d.block, ChainId: d.chain, Finalized: r.Chance("ops", 1, 2), SeenBlock: d.seen,
	}
	blk := d.block
	if blk < 0 {
		blk = w.latest[d.chain]
	}
	get.BlockHash = c36BlockHash(d.chain, blk, r.Draw("ops", 3))
	if r.Chance("ops", 1, 5) {
		get.SharedStateId = "user-1"
	}
	if r.Chance("ops", 1, 5) {
		get.BlocksHashesToHeights = []*pairingtypes.BlockHashToHeight{{Hash: fmt.Sprintf("0xhash%d", blk)}}
	}
	wire, err := get.Marshal()
	if err != nil {
		panic(err)
	}
	var onServer pairingtypes.RelayCacheGet
	if err := onServer.Unmarshal(wire); err != nil {
		panic(err)
	}
	reply, err := w.srv.GetRelay(context.Background(), &onServer)
	if err != nil || reply == nil {
		r.Op("get", "err")
		r.Logf("%s: GET %s -> error %v", who, e.name, err)
		return
	}
	back, err := reply.Marshal()
	if err != nil {
		panic(err)
	}
	var got pairingtypes.CacheRelayReply
	if err := got.Unmarshal(back); err != nil {
		panic(err)
	}
	if got.Reply == nil {
		r.Op("get", "miss")
		r.Logf("%s: GET %s block=%d finalized=%v blockHash=%q seen=%d -> miss", who, e.name, d.block, get.Finalized, get.BlockHash, d.seen)
		return
	}
	// ---- a hit: attribute it to exactly one Set ----
	r.Op("get", "hit")
	serial, ok := c36Serial(got.Reply.Data)
	r.Logf("%s: GET %s block=%d finalized=%v blockHash=%q seen=%d -> HIT #%d (%d bytes)", who, e.name, d.block, get.Finalized, get.BlockHash, d.seen, serial, len(got.Reply.Data))
	rec := w.recs[serial]
	r.OracleEvals++
	if !ok || rec == nil {
		w.viol("reply-bytes-differ-from-stored", "unattributable", "GET %s returned %d bytes that are no reply ever stored (head %q)", e.name, len(got.Reply.Data), c36Head(got.Reply.Data))
		return
	}
	r.OracleEvals++
	if diff := c36DiffDims(d, rec.desc); diff != "" {
		w.viol("hit-for-a-different-request", diff, "GET %s returned reply #%d stored for %s: the requests differ in %s", e.name, serial, rec.entry, diff)
		return
	}
	r.OracleEvals++
	if d.block >= 0 && rec.block != d.block {
		w.viol("hit-for-a-different-request", "requested_block", "GET %s at requested block %d returned reply #%d stored at block %d (%s)", e.name, d.block, serial, rec.block, rec.entry)
		return
	}
	r.OracleEvals++
	if !rec.finalized && len(rec.hash) > 0 && !bytes.Equal(rec.hash, get.BlockHash) {
		sig := "get-with-other-hash"
		if len(get.BlockHash) == 0 {
			sig = "get-without-hash"
		}
		w.viol("nonfinalized-entry-served-despite-block-hash", sig, "GET %s with block hash %q returned non-finalized reply #%d stored with block hash %q", e.name, get.BlockHash, serial, rec.hash)
		return
	}
	want := c36Payload(rec.serial, rec.size, rec.kind)
	cls := "below-threshold"
	if rec.size > common.CompressionThreshold {
		cls = "above-threshold"
	}
	r.OracleEvals++
	if !bytes.Equal(got.Reply.Data, want) {
		at := 0
		for at < len(want) && at < len(got.Reply.Data) && want[at] == got.Reply.Data[at] {
			at++
		}
		w.viol("reply-bytes-differ-from-stored", cls, "GET %s returned reply #%d with %d bytes, stored %d bytes; first difference at offset %d (got head %q)", e.name, serial, len(got.Reply.Data), len(want), at, c36Head(got.Reply.Data))
		return
	}
	r.OracleEvals++
	if got.Reply.LatestBlock != rec.latest || !bytes.Equal(got.Reply.FinalizedBlocksHashes, rec.fbh) || fmt.Sprint(got.Reply.Metadata) != fmt.Sprint(rec.meta) {
		w.viol("reply-bytes-differ-from-stored", "reply-fields", "GET %s returned reply #%d with latest_block %d finalized_blocks_hashes %q metadata %v; stored %d %q %v", e.name, serial, got.Reply.LatestBlock, got.Reply.FinalizedBlocksHashes, got.Reply.Metadata, rec.latest, rec.fbh, rec.meta)
		return
	}
	if rec.size > common.CompressionThreshold {
		if rec.kind == 0 {
			r.Probe("hit_compressed_payload")
		} else {
			r.Probe("hit_large_incompressible_payload")
		}
	}
	if rec.finalized {
		r.Probe("hit_finalized")
	} else if len(rec.hash) > 0 {
		r.Probe("hit_nonfinalized_with_hash")
	} else {
		r.Probe("hit_nonfinalized_without_hash")
	}
	if rec.desc != d {
		a, b := rec.desc, d
		if a.id != b.id {
			r.Probe("hit_across_jsonrpc_id")
		}
		if !bytes.Equal(a.salt, b.salt) {
			r.Probe("hit_across_salt")
		}
		if a.seen != b.seen {
			r.Probe("hit_across_seen_block")
		}
		if a.reqID != b.reqID || a.task != b.task || a.txid != b.txid {
			r.Probe("hit_across_request_task_tx_id")
		}
	}
	if d.block < 0 {
		r.Probe("hit_latest_request")
	}
}

func c36Head(b []byte) string {
	if len(b) > 48 {
		b = b[:48]
	}
	return string(b)
}

func (w *c36World) client(name string, n int) {
	r := w.r
	for i := 0; i < n && r.Violated() == nil; i++ {
		simrt.Yield("harness:client-loop")
		r.Step()
		// a client mostly works on one base request and its one-dimension variants
		var e *c36Entry
		if r.Chance("ops", 3, 4) {
			fam := r.Draw("ops", 3)
			var cands []*c36Entry
			for _, c := range w.pool {
				if strings.HasPrefix(c.name, fmt.Sprintf("B%d", fam)) {
					cands = append(cands, c)
				}
			}
			if len(cands) > 0 {
				e = cands[r.Draw("ops", len(cands))]
			}
		}
		if e == nil {
			e = w.pool[r.Draw("ops", len(w.pool))]
		}
		switch r.Draw("ops", 12) {
		case 0:
			// time passes: TTLs of non-finalized / node-error / finalized entries
			d := []time.Duration{300 * time.Millisecond, 600 * time.Millisecond, 3 * time.Second, 20 * time.Second, 61 * time.Minute}[r.Draw("ops", 5)]
			r.Logf("%s: sleeps %v", name, d)
			simrt.Yield("harness:client-sleep")
			time.Sleep(d)
			simrt.Resume("harness:client-sleep")
			r.Op("sleep", "ok")
			continue
		case 1:
			c := e.desc.chain
			w.latest[c] += int64(1 + r.Draw("ops", 2))
			r.Logf("%s: chain %s latest -> %d", name, c, w.latest[c])
			r.Op("newblock", "ok")
			continue
		}
		h := w.key(e, name)
		if h == nil {
			continue
		}
		if r.Chance("ops", 2, 5) {
			w.doSet(name, e, h)
		} else {
			w.doGet(name, e, h)
		}
	}
}

// ---- pool: base requests and their one-dimension variants ----

func (w *c36World) buildPool() {
	r := w.r
	bases := []c36Desc{
		{chain: "ETH1", iface: spectypes.APIInterfaceJsonRPC, conn: "POST", url: "", method: "eth_getBlockByNumber", params: `["0x64",false]`, block: 100, id: "1", salt: []byte{1, 2}, seen: 0, reqID: "req-1"},
		{chain: "LAV1", iface: spectypes.APIInterfaceRest, conn: "GET", url: "/cosmos/base/tendermint/v1beta1/blocks/100", method: "", params: "", block: 100, id: "1", salt: []byte{9}, seen: 90, meta: []pairingtypes.Metadata{{Name: "x-cosmos-block-height", Value: "100"}}},
		{chain: "LAV1", iface: spectypes.APIInterfaceTendermintRPC, conn: "", url: "", method: "block", params: `{"height":"100"}`, block: 100, id: `"abc"`, salt: nil, seen: 100, exts: []string{"archive"}},
		{chain: "ETH1", iface: spectypes.APIInterfaceJsonRPC, conn: "POST", method: "eth_call", params: `[{"to":"0xabc","id":9},"latest"]`, block: spectypes.LATEST_BLOCK, id: "7", batch: true, addon: "debug", seen: 99},
	}
	nb := 1 + r.Draw("cfg", 3)
	first := r.Draw("cfg", len(bases))
	for bi := 0; bi < nb; bi++ {
		b := bases[(first+bi)%len(bases)]
		add := func(varies string, mod func(d *c36Desc)) {
			d := b
			d.exts = append([]string(nil), b.exts...)
			d.meta = append([]pairingtypes.Metadata(nil), b.meta...)
			if mod != nil {
				mod(&d)
			}
			name := fmt.Sprintf("B%d", bi)
			if varies != "" {
				name += "~" + varies
			}
			e := &c36Entry{name: name, desc: d, varies: varies}
			e.obj = e.desc.build()
			e.pristine = c36Marshal(e.obj)
			w.pool = append(w.pool, e)
		}
		add("", nil)
		// dimensions that must separate
		add("method", func(d *c36Desc) {
			if d.jsonrpc() {
				d.method += "X"
			} else {
				d.method = "other"
			}
		})
		add("params", func(d *c36Desc) {
			if d.jsonrpc() {
				d.params = strings.Replace(d.params, "9", "10", 1)
				if d.params == b.params {
					d.params = strings.Replace(d.params, "0", "1", 1)
				}
			} else {
				d.params = "pagination.limit=1"
			}
		})
		add("api_url", func(d *c36Desc) { d.url += "/x" })
		add("chain", func(d *c36Desc) {
			if d.chain == "ETH1" {
				d.chain = "ETH1T"
			} else {
				d.chain = "LAV1T"
			}
		})
		add("block+1", func(d *c36Desc) {
			if d.block >= 0 {
				d.block++
			} else {
				d.block = 101
			}
		})
		add("block-latest", func(d *c36Desc) {
			if d.block >= 0 {
				d.block = spectypes.LATEST_BLOCK
			} else {
				d.block = 100
			}
		})
		add("api_interface", func(d *c36Desc) {
			switch d.iface {
			case spectypes.APIInterfaceJsonRPC:
				d.iface = spectypes.APIInterfaceTendermintRPC
			case spectypes.APIInterfaceTendermintRPC:
				d.iface = spectypes.APIInterfaceJsonRPC
			default:
				d.iface = spectypes.APIInterfaceGrpc
			}
		})
		add("connection_type", func(d *c36Desc) { d.conn += "X" })
		add("addon", func(d *c36Desc) { d.addon += "trace" })
		add("extensions", func(d *c36Desc) { d.exts = append(d.exts, "archive2") })
		add("header-value", func(d *c36Desc) {
			if len(d.meta) == 0 {
				d.meta = []pairingtypes.Metadata{{Name: "x-h", Value: "1"}}
			} else {
				d.meta[0].Value += "1"
			}
		})
		add("header-name", func(d *c36Desc) {
			if len(d.meta) == 0 {
				d.meta = []pairingtypes.Metadata{{Name: "x-g", Value: ""}}
			} else {
				d.meta[0].Name += "1"
			}
		})
		// dimensions that must NOT separate
		add("id", func(d *c36Desc) {
			if d.jsonrpc() {
				d.id = []string{"2", `"req-99"`, "null", "123456789"}[r.Draw("cfg", 4)]
			} else {
				d.id = "2"
			}
		})
		add("salt", func(d *c36Desc) { d.salt = []byte{7, 7, 7, byte(bi)} })
		add("seen", func(d *c36Desc) { d.seen = []int64{0, 95, 100, 104, 5000}[r.Draw("cfg", 5)] })
		add("ids", func(d *c36Desc) { d.reqID, d.task, d.txid = "req-2", "task-2", "tx-2" })
	}
}

var c36Once sync.Once

func runC36(r *simrt.Run) {
	c36Once.Do(func() {
		utils.SetGlobalLoggingLevel("fatal")
		zerologlog.Logger = zerolog.New(io.Discard).Level(zerolog.Disabled)
	})
	inBubble(r, func(s *simrt.Sched) {
		w := &c36World{r: r, recs: map[int]*c36Rec{}, latest: map[string]int64{"ETH1": 100, "ETH1T": 100, "LAV1": 100, "LAV1T": 100}}
		if r.Chance("cfg", 1, 4) {
			w.bigLeft = 1 + r.Draw("cfg", 2)
			if r.Tier == "thorough" {
				w.bigLeft += 3
			}
		}
		w.buildPool()
		ctx, cancel := context.WithCancel(context.Background())
		cancel() // the periodic cache-size metric loop is not part of the property: it exits at once
		cs := &CacheServer{CacheMaxCost: 2 * 1024 * 1024 * 1024}
		expFin := []time.Duration{DefaultExpirationTimeFinalized, 10 * time.Second}[r.Draw("cfg", 2)]
		expNon := []time.Duration{DefaultExpirationForNonFinalized, 2 * time.Second}[r.Draw("cfg", 2)]
		c36InitCache(cs, ctx, expFin, expNon)
		w.srv = &RelayerCacheServer{CacheServer: cs}
		defer func() {
			cs.tempCache.Close()
			cs.finalizedCache.Close()
			cs.blocksHashesToHeightsCache.Close()
		}()
		nClients := 1 + r.Draw("cfg", 4)
		per := 8 + r.Draw("cfg", 16)
		if r.Tier == "thorough" {
			per = 20 + r.Draw("cfg", 60)
		}
		r.Logf("config: %d requests in the pool (%d bases), %d clients x %d ops, large payloads allowed %d, ttl finalized %v non-finalized %v", len(w.pool), len(w.pool)/17, nClients, per, w.bigLeft, expFin, expNon)
		var left int
		for i := 0; i < nClients; i++ {
			name := fmt.Sprintf("C%d", i)
			left++
			s.Go(name, true, func() {
				defer func() {
					left--
					if left == 0 {
						w.done = true
					}
				}()
				w.client(name, per)
			})
		}
		s.Go("watcher", true, w.watcher)
		start := time.Now()
		s.Run(12*time.Hour, 300000)
		r.SimSpan = int64(time.Since(start))
		if r.Violated() != nil {
			return
		}
		if !s.Quiescent {
			r.Probe("not_quiescent")
			r.Logf("run ended without quiescence: horizon=%v steps=%v leftover=%v", s.HorizonHit, s.StepsHit, s.Leftover())
			return
		}
		s.Drain(100*time.Millisecond, 5000)
		// every pooled request object is still pristine
		for _, e := range w.pool {
			r.OracleEvals++
			if now := c36Marshal(e.obj); !bytes.Equal(now, e.pristine) {
				w.viol("request-changed-by-key-computation", c36ChangedField(e.pristine, now), "at the end request %s differs from its original bytes: %s", e.name, c36ChangedField(e.pristine, now))
				return
			}
		}
	})
}

func init() {
	simrt.Register("C36", &simrt.PropSpec{Fn: runC36,
		NonTrivial: func(r *simrt.Run) bool {
			return r.Ops["get:hit"] >= 2 && r.Ops["set:ok"] >= 3 && r.Ops["get:miss"] >= 1 && r.Switches >= 20
		},
		Rule:    "1-4 client tasks issue SetRelay/GetRelay against the real RelayerCacheServer (three ristretto caches, fake clock) for a pool of 17-51 request objects: 1-3 base requests (JSON-RPC single and batch, REST, Tendermint-RPC) and, per base, one variant per dimension - method, params, api url, chain id, requested block (+1 and latest), api interface, connection type, addon, extensions, header name, header value (must separate) and JSON-RPC id, salt, seen block, request/task/tx ids (must not matter). Keys come from the real chainlib.HashCacheRequest on request objects shared by all tasks and a watcher task; every message crosses a proto Marshal/Unmarshal. Sets are finalized / non-finalized with one of two block hashes or none, node-error or not, with shared-state id or not; every stored reply is unique (serial number inside), compressible JSON or incompressible bytes, 30 B - 64 KB mostly, in a quarter of the runs up to 2 (thorough 5) payloads at threshold-1, threshold, threshold+1 ... 3 MB. Clients also sleep 300 ms - 61 min of fake time (TTL expiry) and advance the chain's latest block. Non-trivial = >=2 hits, >=3 sets, >=1 miss, >=20 context switches; distinct = (op,outcome) sequence x context-switch sequence",
		Real:    []string{"ecosystem/cache RelayerCacheServer SetRelay/GetRelay/getRelayInner/findInAllCaches/formatHashKey/formatCacheValue/CacheValue.ToCacheReply, latest-block and shared-state bookkeeping incl. its validation goroutines (instrumented copies through the build overlay)", "github.com/dgraph-io/ristretto/v2 caches (own goroutines, TTL on the synctest fake clock)", "protocol/chainlib HashCacheRequest + ecosystem/cache/format JSON-RPC id formatter", "protocol/common CompressData/DecompressData (gzip)", "gogoproto Marshal/Unmarshal of RelayCacheSet/RelayCacheGet/CacheRelayReply"},
		Stubbed: []string{"gRPC transport and listener (messages are marshalled and unmarshalled instead)", "consumer/provider clients (tape-driven tasks)", "prometheus metrics (disabled option), periodic cache-size loop (cancelled at start)", "ristretto frequency-sketch size reduced (NumCounters 2e4 instead of 1e8; the rest of InitCache's configuration is copied)"},
		Assume:  []string{"code between two instrumented synchronisation points is atomic in the simulation: HashCacheRequest contains none, so its temporary in-place edits of the shared request are never observed half-way (the statement only claims the request is unchanged afterwards)", "a miss is always legal; expiry times are not checked", "requests with a negative requested block (latest) may be answered from any block the cache resolves latest to", "ristretto MaxCost is large enough that nothing is evicted (eviction sampling is random)"},
	})
}

// c36InitCache is CacheServer.InitCache with a smaller TinyLFU sketch (NumCounters is a constant of
// 1e8 in server.go: ~1.1 GB of counters per server, too much for one server per run) and without
// the prometheus registration.
func c36InitCache(cs *CacheServer, ctx context.Context, expiration, expirationNonFinalized time.Duration) {
	if useRealInit {
		cs.InitCache(ctx, expiration, expirationNonFinalized, DefaultExpirationNodeErrors, DefaultExpirationBlocksHashesToHeights, DisabledFlagOption, DefaultExpirationTimeFinalizedMultiplier, DefaultExpirationTimeNonFinalizedMultiplier)
		return
	}
	cs.ExpirationFinalized = time.Duration(float64(expiration) * DefaultExpirationTimeFinalizedMultiplier)
	cs.ExpirationNonFinalized = time.Duration(float64(expirationNonFinalized) * DefaultExpirationTimeNonFinalizedMultiplier)
	cs.ExpirationNodeErrors = DefaultExpirationNodeErrors
	cs.ExpirationBlocksHashesToHeights = DefaultExpirationBlocksHashesToHeights
	cs.CacheMetrics = NewCacheMetricsServer(DisabledFlagOption)
	cs.tempCache = c36NewRistretto(cs)
	cs.finalizedCache = c36NewRistretto(cs)
	cs.blocksHashesToHeightsCache = c36NewRistretto(cs)
}

var useRealInit = os.Getenv("VERIF_C36_REAL_INIT") == "1"

func c36NewRistretto(cs *CacheServer) *ristretto.Cache[string, any] {
	c, err := ristretto.NewCache(&ristretto.Config[string, any]{
		NumCounters: 20000,
		MaxCost:     cs.CacheMaxCost,
		BufferItems: 64,
		Metrics:     true,
		OnEvict:     func(item *ristretto.Item[any]) { cs.CacheMetrics.AddExpired() },
	})
	if err != nil {
		panic(err)
	}
	return c
}
