package lavasession

import (
	"context"
	cryptorand "crypto/rand"
	"fmt"
	"io"
	"sort"
	"strings"
	"sync"
	"sync/atomic"
	"time"

	sdkerrors "cosmossdk.io/errors"
	sdkmath "cosmossdk.io/math"
	sdk "github.com/cosmos/cosmos-sdk/types"
	"github.com/lavanet/lava/v5/protocol/common"
	"github.com/lavanet/lava/v5/protocol/provideroptimizer"
	"github.com/lavanet/lava/v5/utils"
	lavarand "github.com/lavanet/lava/v5/utils/rand"
	pairingtypes "github.com/lavanet/lava/v5/x/pairing/types"
	spectypes "github.com/lavanet/lava/v5/x/spec/types"
	"github.com/lavanet/lava/v5/zz_verif/simrt"
	"github.com/rs/zerolog"
	zerologlog "github.com/rs/zerolog/log"
	"google.golang.org/grpc"
	"google.golang.org/grpc/codes"
	"google.golang.org/grpc/credentials/insecure"
	"google.golang.org/grpc/status"
)

// C28: consumer sessions account CU exactly and are never shared, under any concurrent schedule of
// GetSessions / OnSessionDone / OnSessionFailure / OnSessionDoneIncreaseCUOnly / UpdateAllProviders
// with random relay errors (block-provider, report-and-block, session out of sync, generic).
//
// Real (instrumented: every lock, atomic, TryLock, channel op, sleep and `go` is a scheduling
// point): ConsumerSessionManager, ConsumerSessionsWithProvider, SingleConsumerSession,
// UsedProviders, ReportedProviders (+ its reconnect loop), the real provider optimizer.
// Simulated: providers (a stub RelayerClient in pre-populated endpoint connections: no socket),
// the pairing feed, the virtual epoch, relay outcomes, the clock (synctest).

// ---------------------------------------------------------------------------------------------
// environment pinning

var c28Once sync.Once

// c28Rand is a deterministic byte stream installed as crypto/rand.Reader for the duration of a
// run: lava's utils/rand (session ids, GUIDs, the probe scatter sleep) reads crypto/rand.Reader.
type c28Rand struct{ s uint64 }

func (p *c28Rand) next() uint64 {
	p.s += 0x9E3779B97F4A7C15
	z := p.s
	z = (z ^ (z >> 30)) * 0xBF58476D1CE4E5B9
	z = (z ^ (z >> 27)) * 0x94D049BB133111EB
	return z ^ (z >> 31)
}

func (p *c28Rand) Read(b []byte) (int, error) {
	var v uint64
	for i := range b {
		if i%8 == 0 {
			v = p.next()
		}
		b[i] = byte(v)
		v >>= 8
	}
	return len(b), nil
}

// ---------------------------------------------------------------------------------------------
// simulated provider endpoint

type c28Client struct {
	w    *c28World
	addr string
}

func (c *c28Client) Relay(ctx context.Context, in *pairingtypes.RelayRequest, opts ...grpc.CallOption) (*pairingtypes.RelayReply, error) {
	return nil, fmt.Errorf("sim: relay transport is not part of this harness")
}

func (c *c28Client) RelaySubscribe(ctx context.Context, in *pairingtypes.RelayRequest, opts ...grpc.CallOption) (pairingtypes.Relayer_RelaySubscribeClient, error) {
	return nil, fmt.Errorf("sim: relay transport is not part of this harness")
}

func (c *c28Client) Probe(ctx context.Context, in *pairingtypes.ProbeRequest, opts ...grpc.CallOption) (*pairingtypes.ProbeReply, error) {
	r := c.w.r
	lat := time.Duration(1+r.Draw("cb", 40)) * time.Millisecond
	fail := r.Draw("cb", 10) == 9
	simrt.Yield("harness:probe-latency")
	time.Sleep(lat)
	simrt.Resume("harness:probe-latency")
	if fail {
		r.Fault("probe_failed")
		return nil, fmt.Errorf("sim: probe failed")
	}
	return &pairingtypes.ProbeReply{Guid: in.GetGuid(), LatestBlock: 1, FinalizedBlocksHashes: []byte{}, LavaEpoch: 1, LavaLatestBlock: 1}, nil
}

// ---------------------------------------------------------------------------------------------
// harness model

// c28Prov is one ConsumerSessionsWithProvider object (= provider x pairing epoch).
type c28Prov struct {
	id      int
	addr    string
	epoch   uint64
	cswp    *ConsumerSessionsWithProvider
	maxCU   uint64
	healthy bool // every endpoint enabled from the start (never dialled, never disabled)
	archive bool // endpoints support the "archive" extension
	// ledger (only acknowledged harness events)
	completed uint64 // CU of relays completed (done / done-increase-CU-only)
	inflight  uint64 // reservations handed out by GetSessions and not settled yet
	veSeen    uint64 // largest virtual epoch passed by any GetSessions call that may have touched it
	lastDone  time.Time
	doneCount int
}

type c28Sess struct {
	id           int
	prov         *c28Prov
	owner        string // relay currently holding the session ("" = free)
	completed    uint64 // sum CU of the completed relays of this session
	lastRelayNum uint64 // relay number of the latest relay that used the session
	finishing    int    // done/failure calls in progress
}

type c28Instant struct {
	eligible []string // unblocked providers that could have served the request at the instant
}

// c28Call is one GetSessions call in progress.
type c28Call struct {
	relay        string
	cu           uint64
	ve           uint64
	updGen       int
	inUpdate     int
	validAtStart map[string]*ConsumerSessionsWithProvider
	failGen      map[string]int
	inFail       map[string]int
	initUnwanted map[string]struct{}
	considered   map[string]*c28Instant // blocked providers considered by the blocked-list path
	order        []string
	ext          bool   // the request asks for the "archive" extension
	extKey       string // router key of the request inside UsedProviders
	overlap      bool   // exchanges of an earlier batch of the same request still run: its UsedProviders is in motion
}

// c28Used wraps the real UsedProviders only to observe AddUnwantedAddresses, which the manager
// calls (under its read lock) exactly when it considers a provider of the blocked list.
type c28Used struct {
	*UsedProviders
	w    *c28World
	call *c28Call
}

func (u *c28Used) AddUnwantedAddresses(address string, routerKey RouterKey) {
	u.w.onBlockedConsidered(u, address)
	u.UsedProviders.AddUnwantedAddresses(address, routerKey)
}

// c28Opt wraps the real provider optimizer only to observe the selection instant of the regular
// path: the manager calls Choose* under its read lock with its candidate list.
type c28Opt struct {
	ProviderOptimizer
	w *c28World
}

func (o *c28Opt) ChooseProviderWithStats(ctx context.Context, all []string, ignored map[string]struct{}, cu uint64, requestedBlock int64) ([]string, *provideroptimizer.SelectionStats) {
	res, st := o.ProviderOptimizer.ChooseProviderWithStats(ctx, all, ignored, cu, requestedBlock)
	o.w.onRegularChoice(ctx, all, ignored, cu, res)
	return res, st
}

func (o *c28Opt) ChooseProvider(ctx context.Context, all []string, ignored map[string]struct{}, cu uint64, requestedBlock int64) []string {
	res := o.ProviderOptimizer.ChooseProvider(ctx, all, ignored, cu, requestedBlock)
	o.w.onRegularChoice(ctx, all, ignored, cu, res)
	return res
}

func (o *c28Opt) ChooseBestProviderWithStats(ctx context.Context, all []string, ignored map[string]struct{}, cu uint64, requestedBlock int64) ([]string, *provideroptimizer.SelectionStats) {
	res, st := o.ProviderOptimizer.ChooseBestProviderWithStats(ctx, all, ignored, cu, requestedBlock)
	o.w.onRegularChoice(ctx, all, ignored, cu, res)
	return res, st
}

func (o *c28Opt) ChooseBestProvider(ctx context.Context, all []string, ignored map[string]struct{}, cu uint64, requestedBlock int64) []string {
	res := o.ProviderOptimizer.ChooseBestProvider(ctx, all, ignored, cu, requestedBlock)
	o.w.onRegularChoice(ctx, all, ignored, cu, res)
	return res
}

type c28Directive struct{ addrs []string }

func (d c28Directive) GetBlockedProviders() []string { return d.addrs }

type c28World struct {
	r   *simrt.Run
	s   *simrt.Sched
	csm *ConsumerSessionManager

	addrs    []string // provider universe
	provs    []*c28Prov
	provOf   map[*ConsumerSessionsWithProvider]*c28Prov
	sesss    []*c28Sess
	sessOf   map[*SingleConsumerSession]*c28Sess
	curEpoch uint64
	curList  []string
	virtEp   uint64
	updGen   int
	inUpdate int
	failGen  map[string]int
	inFail   map[string]int
	calls    map[*c28Call]bool
	byGuid   map[uint64]*c28Call
	apiBusy  int
	nRelay   int
	cuMax    uint64
	maxSess  int
	concDone bool
	overlap  bool
	guid     uint64
	// second chance bookkeeping (vacuity probe only)
	scAt  map[string]time.Time
	scGen map[string]int
}

func c28Short(err error) string {
	if err == nil {
		return "ok"
	}
	s := err.Error()
	if i := strings.Index(s, "\n"); i >= 0 {
		s = s[:i]
	}
	if len(s) > 70 {
		s = s[:70]
	}
	return s
}

func (w *c28World) viol(class, sig, detail string) {
	w.r.SetViolation(class, sig, detail)
}

// --- pairing lists -----------------------------------------------------------------------------

func (w *c28World) newProvider(addr string, epoch uint64, maxCU uint64, healthy bool, archive bool, nEndpoints int) *ConsumerSessionsWithProvider {
	eps := make([]*Endpoint, 0, nEndpoints)
	for i := 0; i < nEndpoints; i++ {
		conn, err := grpc.NewClient("passthrough:///sim", grpc.WithTransportCredentials(insecure.NewCredentials()))
		if err != nil {
			panic(err)
		}
		ep := &Endpoint{
			NetworkAddress: fmt.Sprintf("sim-%s-%d:1", addr, i),
			Enabled:        healthy,
			Geolocation:    1,
			Connections:    []*EndpointConnection{{Client: &c28Client{w: w, addr: addr}, connection: conn}},
		}
		if archive {
			ep.Extensions = map[string]struct{}{"archive": {}}
		}
		eps = append(eps, ep)
	}
	cswp := NewConsumerSessionWithProvider(addr, eps, maxCU, epoch, sdk.NewCoin("ulava", sdkmath.NewInt(int64(1000+100*len(w.provs)%700))))
	p := &c28Prov{id: len(w.provs), addr: addr, epoch: epoch, cswp: cswp, maxCU: maxCU, healthy: healthy, archive: archive}
	// a GetSessions call already in progress may pick this object after the update
	for c := range w.calls {
		if c.ve > p.veSeen {
			p.veSeen = c.ve
		}
	}
	w.provs = append(w.provs, p)
	w.provOf[cswp] = p
	return cswp
}

// buildPairing draws the provider set of an epoch (overlapping with the previous one).
func (w *c28World) buildPairing(stream string, epoch uint64) (map[uint64]*ConsumerSessionsWithProvider, []string) {
	r := w.r
	n := len(w.addrs)
	var chosen []string
	for i, a := range w.addrs {
		// 0 = keep the provider (benign)
		if r.Draw(stream, 4) != 3 || (i == n-1 && len(chosen) == 0) {
			chosen = append(chosen, a)
		}
	}
	list := map[uint64]*ConsumerSessionsWithProvider{}
	for i, a := range chosen {
		maxCU := w.cuMax * uint64(2+r.Draw(stream, 12))
		healthy := r.Draw(stream, 8) != 7
		if !healthy {
			r.Fault("provider_endpoints_disabled")
		}
		archive := r.Draw(stream, 2) == 1
		list[uint64(i)] = w.newProvider(a, epoch, maxCU, healthy, archive, 1+r.Draw(stream, 2))
	}
	return list, chosen
}

// --- direct state reads (never through instrumented accessors) ---------------------------------

func (w *c28World) used(p *c28Prov) uint64 { return atomic.LoadUint64(&p.cswp.UsedComputeUnits) }

func (w *c28World) epochNow() uint64 { return atomic.LoadUint64(&w.csm.currentEpoch) }

func c28Contains(l []string, a string) bool {
	for _, x := range l {
		if x == a {
			return true
		}
	}
	return false
}

func (w *c28World) sessCounts(cswp *ConsumerSessionsWithProvider) (total, blocked int) {
	for _, s := range cswp.Sessions {
		total++
		if s.BlockListed {
			blocked++
		}
	}
	return
}

// --- oracles -----------------------------------------------------------------------------------

// (b) upper bound: at any instant used CU <= max CU x (virtual epoch + 1)
func (w *c28World) checkBounds(where string) {
	r := w.r
	for _, p := range w.provs {
		u := w.used(p)
		r.OracleEvals++
		if u > p.maxCU*(p.veSeen+1) {
			w.viol("used-cu-exceeds-max", where, fmt.Sprintf("provider %s (epoch %d): UsedComputeUnits=%d > MaxComputeUnits %d x (virtual epoch %d + 1) = %d", p.addr, p.epoch, u, p.maxCU, p.veSeen, p.maxCU*(p.veSeen+1)))
			return
		}
	}
}

// (b) exact accounting whenever no session-manager call of a relay is in progress
func (w *c28World) checkLedger(where string) {
	r := w.r
	r.Probe("api_quiescent_check")
	for _, p := range w.provs {
		u := w.used(p)
		r.OracleEvals++
		if u != p.completed+p.inflight {
			w.viol("used-cu-differs-from-ledger", where, fmt.Sprintf("provider %s (epoch %d): UsedComputeUnits=%d but completed relays sum to %d CU and in-flight reservations to %d CU (no GetSessions/OnSession* call in progress)", p.addr, p.epoch, u, p.completed, p.inflight))
			return
		}
	}
}

func (w *c28World) apiEnter() { w.apiBusy++ }

func (w *c28World) apiLeave(where string) {
	w.apiBusy--
	if w.r.Violated() != nil {
		return
	}
	w.checkBounds(where)
	if w.apiBusy == 0 && w.r.Violated() == nil {
		w.checkLedger(where)
	}
}

// (d) regular path: called under the manager's read lock right after the optimizer chose from the
// manager's own candidate list. A provider that is on the blocked list at this instant may only
// be chosen if no candidate that is not blocked (and not ignored, with CU room) exists.
func (w *c28World) onRegularChoice(ctx context.Context, all []string, ignored map[string]struct{}, cu uint64, chosen []string) {
	guid, ok := utils.GetUniqueIdentifier(ctx)
	if !ok {
		return
	}
	c := w.byGuid[guid]
	if c == nil {
		return
	}
	csm := w.csm
	blockedNow := csm.currentlyBlockedProviderAddresses
	for _, pa := range chosen {
		w.r.OracleEvals++
		if !c28Contains(blockedNow, pa) {
			continue
		}
		var alt []string
		for _, q := range all {
			if q == pa || c28Contains(blockedNow, q) {
				continue
			}
			if _, ig := ignored[q]; ig {
				continue
			}
			p := w.provOf[csm.pairing[q]]
			if p == nil || w.used(p)+cu > p.maxCU*(c.ve+1) {
				continue
			}
			alt = append(alt, q)
		}
		if len(alt) > 0 {
			sort.Strings(alt)
			w.viol("blocked-provider-chosen-while-unblocked-available", "regular-selection", fmt.Sprintf("relay %s: provider %s is on the blocked list of the current epoch but was in the candidate list of the regular selection and was chosen, although candidate(s) %v are not blocked, not ignored and have CU room", c.relay, pa, alt))
			return
		}
	}
}

// (d) called under the manager's read lock when the blocked-list path considers `address`
func (w *c28World) onBlockedConsidered(u *c28Used, address string) {
	c := u.call
	if c == nil {
		return
	}
	if _, seen := c.considered[address]; seen {
		return
	}
	inst := &c28Instant{}
	c.considered[address] = inst
	c.order = append(c.order, address)
	csm := w.csm
	if w.updGen != c.updGen || c.inUpdate != 0 || w.inUpdate != 0 || c.overlap {
		return // a pairing update (or the request's own earlier exchanges) overlapped the call: no claim
	}
	uu := u.UsedProviders.uniqueUsedProviders[c.extKey]
	for _, q := range csm.validAddresses {
		cswp := csm.pairing[q]
		p := w.provOf[cswp]
		if p == nil || !p.healthy {
			continue
		}
		if c.ext && !p.archive {
			continue
		}
		if c.validAtStart[q] != cswp {
			continue // not unblocked at the start of the call
		}
		if w.failGen[q] != c.failGen[q] || c.inFail[q] != 0 || w.inFail[q] != 0 {
			continue // a failure report on q overlapped the call: it may have been blocked meanwhile
		}
		if _, ok := c.initUnwanted[q]; ok {
			continue
		}
		if uu != nil {
			if _, ok := uu.providers[q]; ok {
				continue
			}
			if _, ok := uu.unwantedProviders[q]; ok {
				continue
			}
		}
		// CU: even with every other relay holding a reservation, q had room during the whole call
		if p.completed+uint64(w.nRelay)*w.cuMax+c.cu > p.maxCU*(c.ve+1) {
			continue
		}
		total, blocked := w.sessCounts(cswp)
		if total > w.maxSess || blocked+1 >= w.maxSess/3 {
			continue
		}
		enabled := true
		for _, ep := range cswp.Endpoints {
			if !ep.Enabled {
				enabled = false
			}
		}
		if !enabled {
			continue
		}
		inst.eligible = append(inst.eligible, q)
	}
	sort.Strings(inst.eligible)
}

// --- relay task --------------------------------------------------------------------------------

type c28Held struct {
	addr       string
	info       *SessionInfo
	sess       *c28Sess
	cu         uint64
	outcome    int
	delay      time.Duration
	grpcStatus bool
}

const (
	c28Done = iota
	c28DoneCUOnly
	c28FailGeneric
	c28FailBlock
	c28FailReportBlock
	c28FailOutOfSync
)

func (w *c28World) snapshotCall(relay string, cu uint64, up *c28Used, exts []*spectypes.Extension) *c28Call {
	c := &c28Call{relay: relay, cu: cu, ve: w.virtEp, updGen: w.updGen, inUpdate: w.inUpdate, ext: len(exts) > 0, extKey: NewRouterKeyFromExtensions(exts).String(),
		validAtStart: map[string]*ConsumerSessionsWithProvider{}, failGen: map[string]int{}, inFail: map[string]int{},
		initUnwanted: map[string]struct{}{}, considered: map[string]*c28Instant{}}
	for _, q := range w.csm.validAddresses {
		c.validAtStart[q] = w.csm.pairing[q]
	}
	for _, a := range w.addrs {
		c.failGen[a] = w.failGen[a]
		c.inFail[a] = w.inFail[a]
	}
	if uu := up.UsedProviders.uniqueUsedProviders[c.extKey]; uu != nil {
		for a := range uu.providers {
			c.initUnwanted[a] = struct{}{}
		}
		for a := range uu.unwantedProviders {
			c.initUnwanted[a] = struct{}{}
		}
	} else {
		// a router key seen for the first time starts from the request's directive
		for a := range up.UsedProviders.originalUnwantedProviders {
			c.initUnwanted[a] = struct{}{}
		}
	}
	for _, p := range w.provs {
		if c.ve > p.veSeen {
			p.veSeen = c.ve
		}
	}
	return c
}

func (w *c28World) relayTask(name string, iters int) {
	r := w.r
	ops := "ops." + name
	flt := "fault." + name
	for it := 0; it < iters && r.Violated() == nil; it++ {
		simrt.Yield("harness:relay-loop")
		if r.Draw(ops, 3) == 2 {
			d := time.Duration(1+r.Draw(ops, 200)) * time.Millisecond
			if r.Draw(ops, 5) == 4 {
				d = time.Duration(60+r.Draw(ops, 340)) * time.Second // long pause: second-chance / reconnect timers fire
			}
			simrt.Yield("harness:relay-think")
			time.Sleep(d)
			simrt.Resume("harness:relay-think")
		}
		cu := uint64(1 + r.Draw(ops, int(w.cuMax)))
		wanted := 1 + r.Draw(ops, 3)
		stateful := uint32(common.NO_STATE)
		if r.Draw(ops, 8) == 7 {
			stateful = common.CONSISTENCY_SELECT_ALL_PROVIDERS
		}
		var directive BlockedProvidersInf
		if r.Draw(ops, 4) == 3 {
			d := c28Directive{}
			for k := 0; k < 1+r.Draw(ops, 2); k++ {
				d.addrs = append(d.addrs, w.addrs[r.Draw(ops, len(w.addrs))])
			}
			directive = d
			r.Fault("directive_blocked_providers")
		}
		var exts []*spectypes.Extension
		if r.Draw(ops, 5) == 4 {
			exts = []*spectypes.Extension{{Name: "archive"}}
			r.Fault("extension_request")
		}
		up := &c28Used{UsedProviders: NewUsedProviders(directive), w: w}
		batches := 1 + r.Draw(ops, 4)
		reqName := fmt.Sprintf("%s#%d", name, it)
		pending := 0
		done := make(chan struct{}, 64)
		waitAll := func() {
			for ; pending > 0; pending-- {
				simrt.Yield("harness:wait-exchange")
				<-done
				simrt.Resume("harness:wait-exchange")
			}
		}
		for b := 0; b < batches && r.Violated() == nil; b++ {
			w.guid++
			guid := w.guid
			ctx := utils.WithUniqueIdentifier(context.Background(), guid)
			call := w.snapshotCall(reqName, cu, up, exts)
			call.overlap = pending > 0
			up.call = call
			w.calls[call] = true
			w.byGuid[guid] = call
			w.apiEnter()
			sessions, err := w.csm.GetSessions(ctx, wanted, cu, up, 100, "", exts, stateful, call.ve, "", "")
			delete(w.calls, call)
			delete(w.byGuid, guid)
			up.call = nil
			if r.Violated() != nil {
				w.apiBusy--
				return
			}
			if err != nil {
				r.Op("get", "err")
				r.Logf("%s b%d GetSessions(want=%d cu=%d ve=%d st=%d ext=%v): error %s", reqName, b, wanted, cu, call.ve, stateful, call.ext, c28Short(err))
				w.apiLeave("getsessions-error")
				if len(exts) > 0 && PairingListEmptyError.Is(err) {
					exts = nil // rpcconsumer retries without the extension when nobody supports it
					continue
				}
				break
			}
			held := w.onSessionsReturned(reqName, b, call, sessions, wanted, stateful)
			w.apiLeave("getsessions")
			if r.Violated() != nil {
				return
			}
			// relay outcomes are drawn by the request before the exchanges start
			allFailed := true
			for _, h := range held {
				switch v := r.Draw(flt, 12); {
				case v <= 5:
					h.outcome = c28Done
				case v == 6:
					h.outcome = c28DoneCUOnly
				case v == 7 || v == 8:
					h.outcome = c28FailGeneric
				case v == 9:
					h.outcome = c28FailBlock
				case v == 10:
					h.outcome = c28FailReportBlock
				default:
					h.outcome = c28FailOutOfSync
					h.grpcStatus = r.Draw(flt, 2) == 1
				}
				if h.outcome <= c28DoneCUOnly {
					allFailed = false
				}
				if r.Draw(ops, 3) == 2 {
					h.delay = time.Duration(1+r.Draw(ops, 80)) * time.Millisecond
				}
			}
			if w.concDone && (len(held) > 1 || w.overlap) {
				for i, h := range held {
					h := h
					pending++
					w.s.Go(fmt.Sprintf("%s.b%d.x%d", reqName, b, i), true, func() {
						defer func() { done <- struct{}{} }()
						w.exchange(reqName, h)
					})
				}
				// hedging: the next batch may be requested while these exchanges still run
				if !(w.overlap && b+1 < batches && r.Draw(ops, 2) == 1) {
					waitAll()
				} else {
					r.Fault("batch_overlaps_previous_exchanges")
					continue
				}
			} else {
				for _, h := range held {
					w.exchange(reqName, h)
				}
			}
			if !allFailed && r.Draw(ops, 4) != 3 {
				break
			}
		}
		waitAll()
	}
}

func (w *c28World) onSessionsReturned(reqName string, b int, call *c28Call, sessions ConsumerSessionsMap, wanted int, stateful uint32) []*c28Held {
	r := w.r
	addrs := make([]string, 0, len(sessions))
	for a := range sessions {
		addrs = append(addrs, a)
	}
	sort.Strings(addrs)
	var held []*c28Held
	var desc []string
	for _, a := range addrs {
		info := sessions[a]
		s := info.Session
		p := w.provOf[s.Parent]
		if p == nil {
			w.viol("harness-unknown-provider-object", "getsessions", "session with a parent the harness never created: "+a)
			return nil
		}
		hs := w.sessOf[s]
		if hs == nil {
			hs = &c28Sess{id: len(w.sesss), prov: p}
			w.sesss = append(w.sesss, hs)
			w.sessOf[s] = hs
		}
		// (a) exclusive ownership
		r.OracleEvals++
		if hs.owner != "" {
			w.viol("session-held-by-two-relays", "getsessions", fmt.Sprintf("session #%d of provider %s (epoch %d) returned to relay %s while relay %s still holds it (not yet done/failed)", hs.id, p.addr, p.epoch, reqName, hs.owner))
			return nil
		}
		// (a) the session handed to the relay must be locked for it (same test as the manager's VerifyLock)
		r.OracleEvals++
		if s.lock.TryLock() {
			s.lock.Unlock()
			w.viol("session-returned-unlocked", "getsessions", fmt.Sprintf("session #%d of provider %s (epoch %d) was returned to relay %s without being locked: any other relay can take it", hs.id, p.addr, p.epoch, reqName))
			return nil
		}
		// (c) what the relay will sign: session CuSum + this relay's CU, and the relay number
		signed := s.CuSum + s.LatestRelayCu
		r.OracleEvals++
		if signed != hs.completed+call.cu {
			w.viol("signed-cu-sum-wrong", "getsessions", fmt.Sprintf("session #%d of provider %s: relay of %d CU would sign CuSum %d (session CuSum %d + LatestRelayCu %d) but the session's completed relays sum to %d CU", hs.id, p.addr, call.cu, signed, s.CuSum, s.LatestRelayCu, hs.completed))
			return nil
		}
		r.OracleEvals++
		if s.RelayNum <= hs.lastRelayNum {
			w.viol("relay-number-not-increasing", "getsessions", fmt.Sprintf("session #%d of provider %s: relay number %d after relay number %d", hs.id, p.addr, s.RelayNum, hs.lastRelayNum))
			return nil
		}
		hs.lastRelayNum = s.RelayNum
		hs.owner = reqName
		p.inflight += call.cu
		if p.epoch != w.curEpoch {
			r.Probe("session_on_previous_epoch_provider")
		}
		held = append(held, &c28Held{addr: a, info: info, sess: hs, cu: call.cu})
		desc = append(desc, fmt.Sprintf("%s/e%d:s#%d(cuSum=%d,n=%d,used=%d)", a, p.epoch, hs.id, s.CuSum, s.RelayNum, w.used(p)))
	}
	r.Op("get", "ok")
	r.Logf("%s b%d GetSessions(want=%d cu=%d ve=%d st=%d ext=%v) -> %s", reqName, b, wanted, call.cu, call.ve, stateful, call.ext, strings.Join(desc, " "))

	// (d) blocked providers only when no unblocked provider could serve the request
	for _, pa := range call.order {
		inst := call.considered[pa]
		if _, chosen := sessions[pa]; !chosen {
			continue
		}
		r.Probe("blocked_provider_reused")
		r.OracleEvals++
		if w.updGen != call.updGen || w.inUpdate != 0 {
			continue
		}
		var alt []string
		for _, q := range inst.eligible {
			if _, inResult := sessions[q]; !inResult {
				alt = append(alt, q)
			}
		}
		if len(alt) > 0 {
			w.viol("blocked-provider-chosen-while-unblocked-available", "getsessions", fmt.Sprintf("relay %s got blocked provider %s although unblocked provider(s) %v were valid during the whole call, not used/unwanted by the request, had CU and session capacity and were not part of the result", reqName, pa, alt))
			return nil
		}
	}
	// vacuity: exhaustion observed?
	for _, q := range w.csm.validAddresses {
		cswp := w.csm.pairing[q]
		if p := w.provOf[cswp]; p != nil {
			if w.used(p)+call.cu > p.maxCU*(call.ve+1) {
				r.Probe("cu_exhausted_on_valid_provider")
			}
			if total, _ := w.sessCounts(cswp); total > w.maxSess {
				r.Probe("max_sessions_reached")
			}
		}
	}
	if len(w.csm.currentlyBlockedProviderAddresses) > 0 {
		r.Probe("provider_blocked")
	}
	w.secondChanceProbe()
	return held
}

// secondChanceProbe (vacuity only): a provider that got a second chance is valid again although
// no relay succeeded on it, no reset happened and the retry period elapsed.
func (w *c28World) secondChanceProbe() {
	csm := w.csm
	for a := range csm.secondChanceGivenToAddresses {
		if _, ok := w.scAt[a]; !ok || w.scGen[a] != w.updGen {
			if c28Contains(csm.currentlyBlockedProviderAddresses, a) {
				w.scAt[a] = time.Now()
				w.scGen[a] = w.updGen
			}
		}
	}
	for _, a := range w.addrs {
		t0, ok := w.scAt[a]
		if !ok || w.scGen[a] != w.updGen {
			continue
		}
		if time.Since(t0) >= retrySecondChanceAfter && c28Contains(csm.validAddresses, a) && atomic.LoadUint64(&csm.numberOfResets) == 0 {
			p := w.provOf[csm.pairing[a]]
			if p != nil && (p.doneCount == 0 || p.lastDone.Before(t0)) {
				w.r.Probe("second_chance_timer_returned_provider")
			}
			delete(w.scAt, a)
		}
	}
}

func (w *c28World) exchange(reqName string, h *c28Held) {
	r := w.r
	simrt.Yield("harness:relay-exchange")
	if h.delay > 0 {
		simrt.Yield("harness:relay-latency")
		time.Sleep(h.delay)
		simrt.Resume("harness:relay-latency")
	}
	if r.Violated() != nil {
		return
	}
	s := h.info.Session
	hs := h.sess
	p := hs.prov
	// (a) still exclusively ours: nobody may have unlocked the session the relay holds
	r.OracleEvals++
	if s.lock.TryLock() {
		s.lock.Unlock()
		w.viol("held-session-found-unlocked", "exchange", fmt.Sprintf("session #%d of provider %s (epoch %d) held by relay %s is no longer locked before the relay reported its result: somebody else released it", hs.id, p.addr, p.epoch, reqName))
		return
	}
	// release in the model first: from here on the manager may hand the session to somebody else
	hs.owner = ""
	hs.finishing++
	p.inflight -= h.cu
	w.apiEnter()
	var err error
	kind := ""
	switch h.outcome {
	case c28Done:
		kind = "done"
		hs.completed += h.cu
		p.completed += h.cu
		p.doneCount++
		p.lastDone = time.Now()
		err = w.csm.OnSessionDone(s, 100, h.cu, 10*time.Millisecond, s.CalculateExpectedLatency(2*time.Second), 0, 1, uint64(len(w.curList)), false, nil)
	case c28DoneCUOnly:
		kind = "done_cu_only"
		hs.completed += h.cu
		p.completed += h.cu
		p.doneCount++
		p.lastDone = time.Now()
		err = w.csm.OnSessionDoneIncreaseCUOnly(s, 100)
	default:
		var cause error
		switch h.outcome {
		case c28FailGeneric:
			kind, cause = "fail_generic", fmt.Errorf("sim: relay failed")
		case c28FailBlock:
			kind, cause = "fail_block", sdkerrors.Wrap(BlockProviderError, "sim: bad reply")
		case c28FailReportBlock:
			kind, cause = "fail_report_block", sdkerrors.Wrap(ReportAndBlockProviderError, "sim: bad reply")
		default:
			kind, cause = "fail_out_of_sync", sdkerrors.Wrap(SessionOutOfSyncError, "sim: provider lost the session")
			if h.grpcStatus {
				cause = status.Error(codes.Code(SessionOutOfSyncError.ABCICode()), "sim: provider lost the session")
			}
		}
		r.Fault(kind)
		w.failGen[p.addr]++
		w.inFail[p.addr]++
		err = w.csm.OnSessionFailure(s, cause)
		w.inFail[p.addr]--
	}
	hs.finishing--
	outcome := "ok"
	if err != nil {
		outcome = "err"
	}
	r.Op(kind, outcome)
	r.Logf("%s   %s s#%d %s cu=%d: %s", reqName, kind, hs.id, p.addr, h.cu, c28Short(err))
	if r.Violated() != nil {
		w.apiBusy--
		return
	}
	// (c) session CuSum == CU of its completed relays (nobody else holds or finishes the session)
	if hs.owner == "" && hs.finishing == 0 {
		r.OracleEvals++
		if s.CuSum != hs.completed {
			w.viol("session-cu-sum-wrong", kind, fmt.Sprintf("session #%d of provider %s after %s of a %d CU relay: CuSum=%d but its completed relays sum to %d CU", hs.id, p.addr, kind, h.cu, s.CuSum, hs.completed))
		}
	}
	w.apiLeave(kind)
}

// --- pairing task ------------------------------------------------------------------------------

func (w *c28World) update(stream string, epoch uint64) {
	r := w.r
	list, chosen := w.buildPairing(stream, epoch)
	if len(chosen) < len(w.curList) {
		r.Probe("pairing_list_shrank")
	}
	for _, hs := range w.sesss {
		if hs.owner != "" {
			r.Probe("epoch_changed_with_sessions_in_flight")
			break
		}
	}
	same := epoch == w.curEpoch
	w.updGen++
	w.inUpdate++
	if !same {
		w.curEpoch = epoch
		w.virtEp = 0
	}
	w.curList = chosen
	err := w.csm.UpdateAllProviders(epoch, list, nil)
	w.inUpdate--
	w.updGen++
	r.Op("update", map[bool]string{true: "ok", false: "err"}[err == nil])
	r.Logf("pairing: UpdateAllProviders(epoch=%d same=%v) providers=%v: %s", epoch, same, chosen, c28Short(err))
}

func (w *c28World) pairingTask(n int) {
	r := w.r
	for i := 0; i < n && r.Violated() == nil; i++ {
		d := time.Duration(1+r.Draw("ops.pairing", 120)) * time.Millisecond
		if r.Draw("ops.pairing", 5) == 4 {
			d = time.Duration(10+r.Draw("ops.pairing", 200)) * time.Second
		}
		simrt.Yield("harness:pairing-sleep")
		time.Sleep(d)
		simrt.Resume("harness:pairing-sleep")
		switch v := r.Draw("ops.pairing", 6); {
		case v <= 2:
			w.update("ops.pairing", w.curEpoch+20)
			r.Fault("epoch_update_in_flight")
		case v <= 4:
			w.virtEp++
			r.Fault("virtual_epoch_bump")
			r.Logf("pairing: virtual epoch of %d -> %d", w.curEpoch, w.virtEp)
		default:
			w.update("ops.pairing", w.curEpoch)
			r.Fault("same_epoch_update")
		}
	}
}

// --- end of run --------------------------------------------------------------------------------

func (w *c28World) finalChecks() {
	r := w.r
	for _, p := range w.provs {
		u := w.used(p)
		r.OracleEvals++
		r.Logf("final: provider %s epoch %d used=%d completed=%d inflight=%d max=%d ve=%d sessions=%d", p.addr, p.epoch, u, p.completed, p.inflight, p.maxCU, p.veSeen, len(p.cswp.Sessions))
		if u != p.completed+p.inflight {
			w.viol("used-cu-differs-from-ledger", "quiescent", fmt.Sprintf("provider %s (epoch %d) at the end: UsedComputeUnits=%d but completed relays sum to %d CU (+%d in flight)", p.addr, p.epoch, u, p.completed, p.inflight))
			return
		}
	}
	for _, hs := range w.sesss {
		var s *SingleConsumerSession
		for k, v := range w.sessOf {
			if v == hs {
				s = k
			}
		}
		r.OracleEvals++
		if s != nil && s.CuSum != hs.completed {
			w.viol("session-cu-sum-wrong", "quiescent", fmt.Sprintf("session #%d of provider %s at the end: CuSum=%d but its completed relays sum to %d CU", hs.id, hs.prov.addr, s.CuSum, hs.completed))
			return
		}
	}
}

func runC28(r *simrt.Run) {
	c28Once.Do(func() {
		utils.SetGlobalLoggingLevel("fatal")
		zerologlog.Logger = zerolog.New(io.Discard).Level(zerolog.Disabled)
	})
	oldReader := cryptorand.Reader
	oldMaxSess := MaxSessionsAllowedPerProvider
	defer func() {
		cryptorand.Reader = oldReader
		MaxSessionsAllowedPerProvider = oldMaxSess
	}()
	cryptorand.Reader = &c28Rand{s: r.Draw64("cfg")}
	// Go map ranges of the instrumented lavasession code follow the simulator's order (swarm knob)
	simrt.SetMapOrder([]int{simrt.MapOrderSorted, simrt.MapOrderReversed, simrt.MapOrderShuffled}[r.Draw("cfg", 3)], r.Draw64("cfg"))
	defer simrt.SetMapOrder(simrt.MapOrderNative, 0)
	inBubble(r, func(s *simrt.Sched) {
		w := &c28World{r: r, s: s, provOf: map[*ConsumerSessionsWithProvider]*c28Prov{}, sessOf: map[*SingleConsumerSession]*c28Sess{},
			failGen: map[string]int{}, inFail: map[string]int{}, calls: map[*c28Call]bool{}, byGuid: map[uint64]*c28Call{}, scAt: map[string]time.Time{}, scGen: map[string]int{}}
		nProv := 2 + r.Draw("cfg", 4)
		for i := 0; i < nProv; i++ {
			w.addrs = append(w.addrs, fmt.Sprintf("lava@p%d", i))
		}
		w.cuMax = uint64(5 + r.Draw("cfg", 20))
		w.maxSess = 3 + r.Draw("cfg", 10)
		if r.Draw("cfg", 3) == 0 {
			w.maxSess = 1000
		}
		MaxSessionsAllowedPerProvider = w.maxSess
		w.concDone = r.Draw("cfg", 2) == 1
		w.overlap = w.concDone && r.Draw("cfg", 2) == 1
		w.nRelay = 2 + r.Draw("cfg", 4)
		iters := 2 + r.Draw("cfg", 6)
		if r.Tier == "thorough" {
			iters = 3 + r.Draw("cfg", 20)
		}
		nUpd := r.Draw("cfg", 5)
		if r.Tier == "thorough" {
			nUpd = r.Draw("cfg", 12)
		}

		lavarand.InitRandomSeed()
		optimizer := provideroptimizer.NewProviderOptimizer(provideroptimizer.StrategyBalanced, 10*time.Second, 1, nil, "LAV1")
		optimizer.SetDeterministicSeed(int64(r.Draw64("cfg") >> 1))
		w.csm = NewConsumerSessionManager(&RPCEndpoint{NetworkAddress: "stub", ChainID: "LAV1", ApiInterface: "rest", HealthCheckPath: "/", Geolocation: 1}, &c28Opt{ProviderOptimizer: optimizer, w: w}, nil, "lava@consumer", NewActiveSubscriptionProvidersStorage())

		w.update("cfg", 20)

		for i := 0; i < w.nRelay; i++ {
			name := fmt.Sprintf("R%d", i)
			s.Go(name, true, func() { w.relayTask(name, iters) })
		}
		if nUpd > 0 {
			s.Go("pairing", true, func() { w.pairingTask(nUpd) })
		}
		start := time.Now()
		s.Run(45*time.Minute, 80000)
		r.SimSpan = int64(time.Since(start))
		if r.Violated() != nil {
			return
		}
		if !s.Quiescent {
			r.Probe("not_quiescent")
			r.Logf("run ended without quiescence: horizon=%v steps=%v leftover=%v", s.HorizonHit, s.StepsHit, s.Leftover())
			return
		}
		// let background work (returning providers to the valid list, probes) finish; it must not move CU
		s.Drain(2*time.Second, 4000)
		if r.Violated() != nil {
			return
		}
		w.checkBounds("quiescent")
		w.finalChecks()
	})
}

func init() {
	simrt.Register("C28", &simrt.PropSpec{Fn: runC28,
		NonTrivial: func(r *simrt.Run) bool {
			return r.Ops["get:ok"] >= 3 && r.Ops["done:ok"] >= 2 && r.Switches >= 50 && r.FaultsFired() >= 1
		},
		Rule:    "2-5 concurrent relay tasks (each request: one UsedProviders, up to 4 GetSessions batches with 1-3 wanted providers, optionally stateful, with a blocked-providers directive or the archive extension; per returned session exactly one of OnSessionDone / OnSessionDoneIncreaseCUOnly / OnSessionFailure with a generic, block-provider, report-and-block or session-out-of-sync (sdk or gRPC status) error; exchanges of a batch sequential or as concurrent tasks, optionally overlapping the next batch) and a pairing task (new epochs with overlapping provider sets, changing max CU, disabled endpoints; same-epoch updates; virtual-epoch growth) drive the real ConsumerSessionManager inside a synctest bubble; a token-passing scheduler picks the next task from the tape at every lock/atomic/TryLock/channel/select/sleep/go of the instrumented lavasession code, map ranges follow a tape-chosen order. Few providers (2-5), small max CU and small MaxSessionsAllowedPerProvider make exhaustion, blocking and the blocked-list fallback frequent; long pauses let the second-chance (3 min) and reconnect (30 s) timers fire. Non-trivial = >=3 successful GetSessions, >=2 completed relays, >=50 context switches, >=1 fault; distinct = (op,outcome,fault) sequence x context-switch sequence",
		Real:    []string{"protocol/lavasession ConsumerSessionManager, ConsumerSessionsWithProvider, SingleConsumerSession, UsedProviders, ReportedProviders incl. its reconnect loop, probing (instrumented copies through the build overlay)", "protocol/provideroptimizer ProviderOptimizer (weighted selector seeded from the tape; ristretto score stores) and protocol/qos QoSManager; the optimizer and UsedProviders sit behind pass-through wrappers that only observe the selection instants"},
		Stubbed: []string{"providers: stub pairingtypes.RelayerClient inside pre-populated EndpointConnections (idle grpc.NewClient conn, no socket); Probe answers with the request guid after a tape-chosen latency or fails", "pairing feed / state tracker (epochs, provider sets, max CU, virtual epoch): tape-driven task", "relay exchange and its outcome: tape-driven", "crypto/rand.Reader (source of lava's utils/rand: session ids, GUIDs, probe scatter sleep): deterministic stream seeded from the tape", "metrics manager: nil (NoOp)", "clock: synctest fake time"},
		Assume:  []string{"code between two instrumented synchronisation points is atomic in the simulation (every simulated schedule is a real schedule, not vice versa)", "no backup providers, addons, stickiness or forced provider selection; endpoints are never dialled (no BlockEndpointError, <100 streams per connection)", "the blocked-provider rule is checked at the two selection instants the manager exposes: (regular path) the provider chosen from the manager's own candidate list is not on the blocked list while another candidate is unblocked, not ignored and has CU room; (blocked-list path) conservative: an alarm needs an unblocked provider that was valid from the start of the call to the decision instant with no failure report, pairing update or own earlier exchange overlapping, not used/unwanted by the request, supporting the extension, with CU room even if every other relay held a reservation, with session capacity and enabled endpoints; the window between the failed regular selection and the blocked-list selection (manager lock released) is not reported"},
	})
}
