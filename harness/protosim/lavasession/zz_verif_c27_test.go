package lavasession

import (
	"context"
	"fmt"
	"sort"
	"sync/atomic"
	"time"

	"github.com/lavanet/lava/v5/utils"
	"github.com/lavanet/lava/v5/zz_verif/simrt"
)

// C27: provider sessions enforce CU limits and replay protection under any concurrent schedule of
// GetSession / Register / PrepareSessionForUsage / OnSessionDone / OnSessionFailure /
// UpdateSessionCU / UpdateEpoch, including concurrent first use of the same new session id.
//
// Real: ProviderSessionManager, ProviderSessionsWithConsumerProject, SingleProviderSession
// (instrumented: every lock, atomic, sleep is a scheduling point). Simulated: the relay server's
// callers (tasks), the epoch feed, the reward server's "stored proof is higher" signal, the fake
// clock.

type c27Key struct {
	epoch   uint64
	project string
	session uint64
}

type c27Alt struct {
	cu       uint64
	starts   int
	inFlight bool
}

type c27World struct {
	r   *simrt.Run
	psm *ProviderSessionManager
	// harness-side monitors (only touched while holding the scheduler token)
	inProgress             map[c27Key]int
	lastDone               map[c27Key]uint64
	curEpoch               uint64
	virtEpoch              map[uint64]uint64
	maxCU                  uint64
	consumers              []string
	projectOf              map[string]string
	epochSize              uint64
	sessions               int
	cuSpec                 uint64
	objID                  map[*SingleProviderSession]int
	expected               map[c27Key]uint64 // ledger: CU sum each session must hold between relays
	noRollback             map[c27Key]c27Alt // failed relay: the CU sum if lava legitimately skipped the roll-back (epoch update overtook it)
	epochStarts, epochEnds int               // UpdateEpoch calls started / returned
}

func (w *c27World) relay(taskName string, n int) {
	r := w.r
	ctx := context.Background()
	for i := 0; i < n; i++ {
		simrt.Yield("harness:relay-loop")
		consumer := w.consumers[r.Draw("ops", len(w.consumers))]
		project := w.projectOf[consumer]
		epoch := w.curEpoch
		if r.Chance("ops", 1, 5) && epoch > w.epochSize {
			epoch -= w.epochSize * uint64(1+r.Draw("ops", 3)) // an older epoch (maybe no longer valid)
		}
		sid := uint64(1 + r.Draw("ops", w.sessions))
		key := c27Key{epoch, project, sid}
		relayNum := w.lastDone[key] + 1
		switch r.Draw("ops", 8) {
		case 0:
			if relayNum > 1 {
				relayNum-- // stale relay number (replay)
				r.Fault("stale_relay_num")
			}
		case 1:
			relayNum += uint64(r.Draw("ops", 3)) // skipping ahead is allowed
		}
		ctx2 := utils.WithUniqueIdentifier(ctx, uint64(1000*i+n))
		sess, err := w.psm.GetSession(ctx2, consumer, epoch, sid, relayNum)
		if err != nil && ConsumerNotRegisteredYet.Is(err) {
			sess, err = w.psm.RegisterProviderSessionWithConsumer(ctx2, consumer, epoch, sid, relayNum, w.maxCU, 3, project)
		}
		if err != nil {
			r.Op("relay", "rejected_get")
			r.Logf("%s relay c=%s e=%d s=%d n=%d: get rejected (%s)", taskName, consumer, epoch, sid, relayNum, errShort(err))
			continue
		}
		// the session is ours now (locked): its CU sum must be what the completed and rolled-back
		// relays of this session id left behind
		cuBefore := atomic.LoadUint64(&sess.CuSum)
		r.Logf("%s relay c=%s e=%d s=%d n=%d: session acquired (CuSum=%d, relays in progress in it: %d)", taskName, consumer, epoch, sid, relayNum, cuBefore, w.inProgress[key])
		if exp, seen := w.expected[key]; seen && w.inProgress[key] == 0 {
			r.OracleEvals++
			if alt, ok := w.noRollback[key]; ok && cuBefore != exp && cuBefore == alt.cu && (alt.inFlight || w.epochStarts > alt.starts) {
				// the failed relay was NOT rolled back because an epoch update overtook the failure
				// handling (OnSessionFailure re-checks the epoch's validity itself and then only unlocks):
				// legitimate, the session is about to be dropped with its epoch
				r.Probe("failure_not_rolled_back_epoch_update_overtook")
				exp = alt.cu
				w.expected[key] = alt.cu
			}
			delete(w.noRollback, key)
			if cuBefore != exp {
				r.SetViolation("session-cu-sum-wrong", "at-acquire", fmt.Sprintf("session (epoch %d, project %s, id %d) has CuSum=%d when acquired, but its accepted relays minus full roll-backs of failed ones give %d", epoch, project, sid, cuBefore, exp))
				return
			}
		}
		// consumer-signed cumulative CU for this relay
		cu := w.cuSpec
		total := sess.CuSum + cu
		switch r.Draw("ops", 10) {
		case 0:
			total += uint64(1 + r.Draw("ops", 30)) // consumer pays more
		case 1:
			if total > 3 {
				total -= uint64(1 + r.Draw("ops", 3)) // small mismatch (within/over threshold)
				r.Fault("cu_mismatch")
			}
		}
		ve := w.virtEpoch[epoch]
		err = sess.PrepareSessionForUsage(ctx2, cu, total, 0.1, ve)
		if err != nil {
			// rpcprovider_server.initRelay: DisbandSession on a failed prepare
			sess.DisbandSession()
			r.Op("relay", "rejected_prepare")
			r.Logf("%s relay c=%s e=%d s=%d n=%d total=%d: prepare rejected (%s)", taskName, consumer, epoch, sid, relayNum, total, errShort(err))
			continue
		}
		// ---- accepted ----
		// read directly (the package's accessor is instrumented and would be a scheduling point:
		// the value must be the one at the acceptance instant)
		used := atomic.LoadUint64(&sess.userSessionsParent.epochData.UsedComputeUnits)
		limit := w.maxCU * (ve + 1)
		if _, ok := w.objID[sess]; !ok {
			w.objID[sess] = len(w.objID) + 1
		}
		r.Logf("%s relay c=%s e=%d s=%d n=%d total=%d ve=%d: ACCEPTED cuSum=%d used=%d (session object #%d)", taskName, consumer, epoch, sid, relayNum, total, ve, sess.CuSum, used, w.objID[sess])
		r.OracleEvals++
		if used > limit {
			r.SetViolation("cu-limit-exceeded", "accept", fmt.Sprintf("after accepting relay c=%s e=%d s=%d cuSum=%d the project's used CU is %d > maxCU %d x (virtualEpoch %d + 1) = %d", consumer, epoch, sid, sess.CuSum, used, w.maxCU, ve, limit))
			return
		}
		w.inProgress[key]++
		r.OracleEvals++
		if w.inProgress[key] > 1 {
			r.SetViolation("two-relays-in-one-session", "accept", fmt.Sprintf("session (epoch %d, project %s, id %d) has %d relays in progress at once (relay n=%d by %s)", epoch, project, sid, w.inProgress[key], relayNum, taskName))
			return
		}
		r.OracleEvals++
		if relayNum <= w.lastDone[key] {
			r.SetViolation("relay-number-not-increasing", "accept", fmt.Sprintf("session (epoch %d, project %s, id %d): relay number %d accepted after %d was completed", epoch, project, sid, relayNum, w.lastDone[key]))
			return
		}
		// the relay "executes": other tasks run meanwhile
		simrt.Yield("harness:relay-exec")
		if r.Chance("ops", 1, 4) {
			simrt.Yield("harness:relay-sleep")
			time.Sleep(time.Duration(1+r.Draw("ops", 40)) * time.Millisecond)
			simrt.Resume("harness:relay-sleep")
		}
		afterAccept := atomic.LoadUint64(&sess.CuSum)
		cuToAdd := afterAccept - cuBefore // what this relay charged
		outcome := r.Draw("fault", 6)
		switch {
		case outcome == 1:
			// reward server holds a higher proof for this session: sync CU, then the relay fails
			newCU := atomic.LoadUint64(&sess.CuSum) + uint64(1+r.Draw("fault", 50))
			errU := w.psm.UpdateSessionCU(consumer, epoch, sid, newCU)
			if errU == nil {
				afterAccept = newCU
			}
			r.Fault("stored_proof_higher")
			r.Logf("%s   UpdateSessionCU s=%d -> %d: %s", taskName, sid, newCU, errShort(errU))
			fallthrough
		case outcome == 2:
			w.inProgress[key]--
			// a relay that fails while its epoch is still valid is rolled back in full
			starts0, inFlight0 := w.epochStarts, w.epochStarts != w.epochEnds
			if w.psm.IsValidEpoch(epoch) {
				w.expected[key] = afterAccept - cuToAdd
				// lava checks the validity again inside OnSessionFailure: if an epoch update gets in
				// between (or is in flight), the relay is legitimately not rolled back
				w.noRollback[key] = c27Alt{cu: afterAccept, starts: starts0, inFlight: inFlight0}
			} else {
				delete(w.expected, key) // the epoch's sessions are being dropped
			}
			errF := w.psm.OnSessionFailure(sess, relayNum)
			r.Fault("relay_failed_after_accept")
			r.Op("relay", "failed")
			r.Logf("%s   failure s=%d n=%d: %s", taskName, sid, relayNum, errShort(errF))
		default:
			w.inProgress[key]--
			if relayNum > w.lastDone[key] {
				w.lastDone[key] = relayNum
			}
			w.expected[key] = afterAccept
			errD := w.psm.OnSessionDone(sess, relayNum)
			r.Op("relay", "ok")
			r.Logf("%s   done s=%d n=%d: %s", taskName, sid, relayNum, errShort(errD))
		}
	}
}

func errShort(err error) string {
	if err == nil {
		return "ok"
	}
	s := err.Error()
	if len(s) > 60 {
		s = s[:60]
	}
	return s
}

func (w *c27World) epochTask(n int) {
	r := w.r
	for i := 0; i < n; i++ {
		simrt.Yield("harness:epoch-sleep")
		time.Sleep(time.Duration(5+r.Draw("ops", 60)) * time.Millisecond)
		simrt.Resume("harness:epoch-sleep")
		if r.Chance("ops", 1, 2) {
			// virtual epoch of the current epoch grows (emergency mode)
			w.virtEpoch[w.curEpoch]++
			r.Fault("virtual_epoch_bump")
			r.Logf("epoch-task: virtual epoch of %d -> %d", w.curEpoch, w.virtEpoch[w.curEpoch])
			continue
		}
		w.curEpoch += w.epochSize
		w.epochStarts++
		w.psm.UpdateEpoch(w.curEpoch)
		w.epochEnds++
		r.Fault("epoch_update_in_flight")
		r.Logf("epoch-task: UpdateEpoch(%d) blocked<=%d", w.curEpoch, w.psm.GetBlockedEpochHeight())
	}
}

// quiescent check: used CU == sum of session CU sums, for every epoch still valid
func (w *c27World) checkAccounting() {
	r := w.r
	psm := w.psm
	epochs := make([]uint64, 0)
	for e := range psm.sessionsWithAllConsumers {
		epochs = append(epochs, e)
	}
	sort.Slice(epochs, func(i, j int) bool { return epochs[i] < epochs[j] })
	for _, e := range epochs {
		if !psm.IsValidEpoch(e) {
			continue
		}
		sd := psm.sessionsWithAllConsumers[e]
		projects := make([]string, 0)
		for p := range sd.sessionMap {
			projects = append(projects, p)
		}
		sort.Strings(projects)
		for _, p := range projects {
			pswc := sd.sessionMap[p]
			var sum uint64
			ids := make([]uint64, 0)
			for id := range pswc.Sessions {
				ids = append(ids, id)
			}
			sort.Slice(ids, func(i, j int) bool { return ids[i] < ids[j] })
			for _, id := range ids {
				sum += pswc.Sessions[id].CuSum
				if exp, ok := w.expected[c27Key{e, p, id}]; ok {
					r.OracleEvals++
					if alt, ok := w.noRollback[c27Key{e, p, id}]; ok && pswc.Sessions[id].CuSum == alt.cu && (alt.inFlight || w.epochStarts > alt.starts) {
						exp = alt.cu // see at-acquire: roll-back legitimately skipped
					}
					if pswc.Sessions[id].CuSum != exp {
						r.SetViolation("session-cu-sum-wrong", "quiescent", fmt.Sprintf("session (epoch %d, project %s, id %d) ends with CuSum=%d, but its accepted relays minus full roll-backs of failed ones give %d", e, p, id, pswc.Sessions[id].CuSum, exp))
						return
					}
				}
			}
			used := pswc.epochData.UsedComputeUnits
			r.OracleEvals++
			r.Logf("final: epoch %d project %s used=%d sum(session CuSum)=%d sessions=%d", e, p, used, sum, len(ids))
			if used != sum {
				r.SetViolation("used-cu-differs-from-session-sums", "quiescent", fmt.Sprintf("epoch %d project %s: UsedComputeUnits=%d but the sessions' CuSum add up to %d (after all relays completed or were rolled back)", e, p, used, sum))
				return
			}
		}
	}
}

func runC27(r *simrt.Run) {
	inBubble(r, func(s *simrt.Sched) {
		w := &c27World{r: r, inProgress: map[c27Key]int{}, lastDone: map[c27Key]uint64{}, virtEpoch: map[uint64]uint64{}, projectOf: map[string]string{}, objID: map[*SingleProviderSession]int{}, expected: map[c27Key]uint64{}, noRollback: map[c27Key]c27Alt{}}
		w.epochSize = 10
		w.curEpoch = 100
		w.maxCU = uint64(20 * (1 + r.Draw("cfg", 30)))
		w.cuSpec = uint64(5 + r.Draw("cfg", 20))
		w.sessions = 1 + r.Draw("cfg", 3)
		keep := uint64(10 * (1 + r.Draw("cfg", 3)))
		w.psm = NewProviderSessionManager(&RPCProviderEndpoint{ChainID: "LAV1", ApiInterface: "rest"}, keep)
		w.psm.UpdateEpoch(w.curEpoch)
		nCons := 1 + r.Draw("cfg", 3)
		nProj := 1 + r.Draw("cfg", 2)
		for i := 0; i < nCons; i++ {
			c := fmt.Sprintf("cons%d", i)
			w.consumers = append(w.consumers, c)
			w.projectOf[c] = fmt.Sprintf("proj%d", i%nProj)
		}
		nTasks := 2 + r.Draw("cfg", 4)
		per := 3 + r.Draw("cfg", 8)
		if r.Tier == "thorough" {
			per = 5 + r.Draw("cfg", 25)
		}
		for i := 0; i < nTasks; i++ {
			name := fmt.Sprintf("T%d", i)
			s.Go(name, true, func() { w.relay(name, per) })
		}
		if r.Chance("cfg", 2, 3) {
			ne := 1 + r.Draw("cfg", 4)
			s.Go("epoch", true, func() { w.epochTask(ne) })
		}
		start := time.Now()
		s.Run(30*time.Second, 20000)
		r.SimSpan = int64(time.Since(start))
		if r.Violated() != nil {
			return
		}
		if !s.Quiescent {
			r.Probe("not_quiescent")
			r.Logf("run ended without quiescence: horizon=%v steps=%v leftover=%v", s.HorizonHit, s.StepsHit, s.Leftover())
			return
		}
		w.checkAccounting()
	})
}

func init() {
	simrt.Register("C27", &simrt.PropSpec{Fn: runC27,
		NonTrivial: func(r *simrt.Run) bool { return r.Ops["relay:ok"] >= 3 && r.Switches >= 20 && r.FaultsFired() >= 1 },
		Rule:       "2-5 concurrent relay tasks + an epoch/virtual-epoch task drive the real ProviderSessionManager inside a synctest bubble; a token-passing scheduler picks the next task from the tape at every lock, atomic, TryLock and sleep of the instrumented lavasession code (sticky / uniform / newest-first policies per run). Few session ids and shared projects make concurrent first use of the same new session id frequent. Faults: stale relay numbers, CU mismatches, relay failure after acceptance, stored-proof CU sync (UpdateSessionCU), epoch updates and virtual-epoch bumps in flight. Non-trivial = >=3 completed relays, >=20 context switches, >=1 fault; distinct = (op,outcome,fault) sequence x context-switch sequence",
		Real:       []string{"protocol/lavasession ProviderSessionManager, ProviderSessionsWithConsumerProject, SingleProviderSession (instrumented copies through the build overlay)"},
		Stubbed:    []string{"relay server callers (harness tasks following rpcprovider_server's call sequence)", "state tracker (epochs, virtual epoch, max CU) and reward server signal (tape-driven)", "clock (synctest fake time)"},
		Assume:     []string{"code between two instrumented synchronisation points is atomic in the simulation (every simulated schedule is a real schedule, not vice versa)", "the harness follows rpcprovider_server.go's call protocol: GetSession/Register -> PrepareSessionForUsage -> OnSessionDone|OnSessionFailure, DisbandSession on a failed prepare"},
	})
}
