package rpcprovider

import (
	"context"
	"fmt"
	"time"

	"github.com/lavanet/lava/v5/zz_verif/simrt"
)

// C41: under any concurrent load and timing the resource limiter never runs more heavy/normal
// requests at once than configured; every request is either run exactly once with its caller
// getting that run's result, or not run at all with its caller getting an error; queue slots and
// permits are all released once the load stops.
//
// Real: ResourceLimiter incl. its queue worker goroutine (instrumented), golang.org/x/sync/semaphore,
// context deadlines on the fake clock. Simulated: callers (tasks), execution times, cancellations.

type c41Result struct{ id int }

func (e c41Result) Error() string { return fmt.Sprintf("result-of-request-%d", e.id) }

var c41Seq int

type c41World struct {
	r          *simrt.Run
	rl         *ResourceLimiter
	ran        map[int]int // request id -> number of times execute() started
	finished   map[int]bool
	rejectedAt map[int]time.Time // request id -> fake time at which its caller got an error with the request not run
	inFlight   map[BucketType]int
	maxSeen    map[BucketType]int
	heavyMax   int64
	normalMax  int64
	queueSize  int
	returned   int
	nextReq    int
}

func (w *c41World) caller(name string, n int) {
	r := w.r
	for i := 0; i < n; i++ {
		simrt.Yield("harness:caller-loop")
		w.nextReq++
		id := w.nextReq
		heavy := r.Chance("ops", 1, 2)
		cu := uint64(1)
		method := "eth_call"
		bucket := BucketNormal
		if heavy {
			bucket = BucketHeavy
			switch r.Draw("ops", 3) {
			case 0:
				cu = 1000
			case 1:
				method = "debug_traceTransaction"
			default:
				method = "a&b"
			}
		}
		execTime := time.Duration(r.Draw("ops", 50)) * time.Millisecond
		if r.Chance("ops", 1, 4) {
			execTime = time.Duration(r.Draw("ops", 3000)) * time.Millisecond // long execution
		}
		ctx := context.Background()
		var cancel context.CancelFunc
		cancelAfter := time.Duration(-1)
		switch r.Draw("fault", 6) {
		case 1:
			// caller deadline
			d := time.Duration(1+r.Draw("fault", 400)) * time.Millisecond
			ctx, cancel = context.WithTimeout(ctx, d)
			r.Logf("%s req %d: caller deadline %v", name, id, d)
		case 2:
			// explicit cancellation by another task at a tape-chosen moment
			ctx, cancel = context.WithCancel(ctx)
			cancelAfter = time.Duration(r.Draw("fault", 300)) * time.Millisecond
			r.Logf("%s req %d: will be cancelled after %v", name, id, cancelAfter)
		}
		if cancelAfter >= 0 {
			c := cancel
			ca := cancelAfter
			simrt.Go("harness:canceller", func() {
				simrt.Yield("harness:cancel-sleep")
				time.Sleep(ca)
				simrt.Resume("harness:cancel-sleep")
				r.Fault("caller_cancelled")
				c()
			})
		}
		execute := func() error {
			// runs in the caller's goroutine (direct) or in the queue worker's
			w.ran[id]++
			r.OracleEvals++
			if t, left := w.rejectedAt[id]; left {
				// "not run at all with its caller getting an error": the caller was already answered with
				// an error. At the same fake instant this is the known hand-off race (the worker had
				// passed its expiry check when the caller left); strictly later it is a request that
				// stayed runnable after its caller was told it would not run.
				if time.Now().After(t) {
					r.SetViolation("ran-after-caller-got-error", bucket.String()+":execution-started-later", fmt.Sprintf("request %d (%s) started executing %v after its caller had been answered with an error without it having run", id, bucket, time.Since(t)))
				} else {
					r.SetViolation("ran-but-caller-got-other-result", bucket.String()+":caller-left-while-request-owned-by-worker", fmt.Sprintf("request %d (%s) started executing at the instant its caller was answered with an error", id, bucket))
				}
			}
			if w.ran[id] > 1 {
				r.SetViolation("executed-twice", bucket.String(), fmt.Sprintf("request %d (%s) was executed %d times", id, bucket, w.ran[id]))
			}
			w.inFlight[bucket]++
			if w.inFlight[bucket] > w.maxSeen[bucket] {
				w.maxSeen[bucket] = w.inFlight[bucket]
			}
			limit := w.normalMax
			if bucket == BucketHeavy {
				limit = w.heavyMax
			}
			r.OracleEvals++
			if int64(w.inFlight[bucket]) > limit {
				r.SetViolation("too-many-concurrent", bucket.String(), fmt.Sprintf("%d %s requests executing at once, limit %d (request %d)", w.inFlight[bucket], bucket, limit, id))
			}
			r.Logf("   exec start req %d (%s) inflight=%d", id, bucket, w.inFlight[bucket])
			simrt.Yield("harness:exec")
			if execTime > 0 {
				time.Sleep(execTime)
				simrt.Resume("harness:exec")
			}
			w.inFlight[bucket]--
			w.finished[id] = true
			r.Logf("   exec end   req %d", id)
			return c41Result{id}
		}
		r.Logf("%s req %d: Acquire bucket=%s exec=%v", name, id, bucket, execTime)
		err := w.rl.Acquire(ctx, cu, method, execute)
		w.returned++
		if cancel != nil {
			cancel()
		}
		ran := w.ran[id]
		res, isResult := err.(c41Result)
		r.Logf("%s req %d: returned %v (ran=%d finished=%v)", name, id, err, ran, w.finished[id])
		r.OracleEvals++
		switch {
		case ran == 0:
			if err == nil || isResult {
				r.SetViolation("not-run-but-no-error", bucket.String(), fmt.Sprintf("request %d was never executed but its caller got %v", id, err))
				return
			}
			w.rejectedAt[id] = time.Now()
			r.Op("acquire", "rejected")
		case ran == 1:
			if !isResult || res.id != id {
				known := r.SetViolation("ran-but-caller-got-other-result", bucket.String()+":caller-left-while-request-owned-by-worker", fmt.Sprintf("request %d (%s) was executed (finished=%v at the time Acquire returned) but its caller got %q instead of that run's result", id, bucket, w.finished[id], fmt.Sprint(err)))
				if !known {
					return
				}
				// a listed known finding: keep exploring (the execution goes on in the worker)
				r.Op("acquire", "known_finding")
				continue
			}
			r.Op("acquire", "ok")
		}
	}
}

func c41PhaseUnused(finished bool) string {
	if finished {
		return "after-execution"
	}
	return "during-execution"
}

func runC41(r *simrt.Run) {
	inBubble(r, func(s *simrt.Sched) {
		w := &c41World{r: r, ran: map[int]int{}, finished: map[int]bool{}, rejectedAt: map[int]time.Time{}, inFlight: map[BucketType]int{}, maxSeen: map[BucketType]int{}}
		w.heavyMax = int64(1 + r.Draw("cfg", 2))
		w.normalMax = int64(1 + r.Draw("cfg", 4))
		w.queueSize = 1 + r.Draw("cfg", 3)
		c41Seq++
		w.rl = NewResourceLimiter(true, fmt.Sprintf("sim-endpoint-%d-%d", r.Seed, c41Seq), 100, w.heavyMax, w.queueSize, w.normalMax)
		// per-run knob: queue timeout (the shipped value is 30 s; the harness shortens it in some
		// runs so that it expires while waiting / while executing)
		switch r.Draw("cfg", 3) {
		case 0:
			w.rl.config[BucketHeavy].Timeout = time.Duration(20+r.Draw("cfg", 500)) * time.Millisecond
		case 1:
			w.rl.config[BucketHeavy].Timeout = time.Duration(1+r.Draw("cfg", 4)) * time.Second
		}
		r.Logf("limiter heavyMax=%d normalMax=%d queue=%d queueTimeout=%v", w.heavyMax, w.normalMax, w.queueSize, w.rl.config[BucketHeavy].Timeout)
		nCallers := 2 + r.Draw("cfg", 5)
		per := 2 + r.Draw("cfg", 5)
		if r.Tier == "thorough" {
			per = 3 + r.Draw("cfg", 12)
		}
		for i := 0; i < nCallers; i++ {
			name := fmt.Sprintf("C%d", i)
			s.Go(name, true, func() { w.caller(name, per) })
		}
		start := time.Now()
		s.Run(10*time.Minute, 40000)
		r.SimSpan = int64(time.Since(start))
		if r.Violated() != nil {
			return
		}
		if !s.Quiescent {
			r.Probe("not_quiescent")
			r.Logf("run ended without quiescence: horizon=%v steps=%v leftover=%v", s.HorizonHit, s.StepsHit, s.Leftover())
			r.SetViolation("callers-never-returned", "", fmt.Sprintf("after 10 simulated minutes %d callers are still waiting: %v", len(s.Leftover()), s.Leftover()))
			return
		}
		// load stopped; let the queue worker finish what is left (skipping abandoned requests,
		// finishing executions that outlived their callers) for a minute of fake time
		s.Drain(time.Minute, 20000)
		if r.Violated() != nil {
			return
		}
		// everything must be released
		r.OracleEvals += 3
		if len(w.rl.heavyQueue) != 0 {
			r.SetViolation("queue-not-empty", "", fmt.Sprintf("%d requests left in the heavy queue after the load stopped", len(w.rl.heavyQueue)))
			return
		}
		if !w.rl.heavySemaphore.TryAcquire(w.heavyMax) {
			r.SetViolation("permits-leaked", "heavy", fmt.Sprintf("not all %d heavy permits are free after the load stopped", w.heavyMax))
			return
		}
		w.rl.heavySemaphore.Release(w.heavyMax)
		if !w.rl.normalSemaphore.TryAcquire(w.normalMax) {
			r.SetViolation("permits-leaked", "normal", fmt.Sprintf("not all %d normal permits are free after the load stopped", w.normalMax))
			return
		}
		w.rl.normalSemaphore.Release(w.normalMax)
		if int64(w.maxSeen[BucketHeavy]) == w.heavyMax {
			r.Probe("heavy_limit_reached")
		}
		if int64(w.maxSeen[BucketNormal]) == w.normalMax {
			r.Probe("normal_limit_reached")
		}
	})
}

func init() {
	simrt.Register("C41", &simrt.PropSpec{Fn: runC41,
		NonTrivial: func(r *simrt.Run) bool { return r.Ops["acquire:ok"] >= 3 && r.Switches >= 20 },
		Rule:       "2-6 caller tasks issue heavy (high CU / debug_ / batch) and normal requests against the real ResourceLimiter (its queue worker is a scheduled task too) inside a synctest bubble; limits 1-2 heavy / 1-4 normal, queue 1-3, queue timeout shipped (30 s) or shortened per run; execution times 0-3 s of fake time; faults: caller deadlines and explicit cancellations at tape-chosen instants (while queued, while waiting for a permit, while executing), queue-full and busy rejections. The token-passing scheduler decides every interleaving at select/channel/semaphore/lock points. Non-trivial = >=3 served requests and >=20 context switches; distinct = (op,outcome,fault) sequence x context-switch sequence",
		Real:       []string{"protocol/rpcprovider ResourceLimiter incl. processQueue worker (instrumented copy through the build overlay)", "golang.org/x/sync/semaphore", "context deadlines/timers on the synctest fake clock"},
		Stubbed:    []string{"callers and request execution (tape-driven tasks)", "prometheus registry (real, unique endpoint label per run)"},
		Assume:     []string{"code between two instrumented synchronisation points is atomic in the simulation", "the queue timeout knob is set through the limiter's own config map (in-package)"},
	})
}
