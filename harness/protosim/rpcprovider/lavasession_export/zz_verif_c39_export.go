package lavasession

// Read-only accessors for the C39 simulation harness (added to the package through the build
// overlay only; nothing in the repository is touched). They take no locks and contain no
// scheduling points: the harness calls them while it holds the scheduler token.

import (
	"sort"
	"sync/atomic"
)

type ZZVerifSession struct {
	ID            uint64
	CuSum         uint64
	RelayNum      uint64
	LatestRelayCu uint64
	PairingEpoch  uint64
	LockFree      bool
}

type ZZVerifProject struct {
	Epoch    uint64
	Project  string
	Used     uint64
	Missing  uint64
	Max      uint64
	Sessions []ZZVerifSession
}

type ZZVerifConsumer struct {
	Epoch    uint64
	Consumer string
	Project  string
}

func (psm *ProviderSessionManager) ZZVerifBlockedEpoch() uint64 {
	return atomic.LoadUint64(&psm.blockedEpochHeight)
}

// ZZVerifSnapshot lists every (epoch, project) entry with its sessions, sorted, plus the
// consumer -> project registrations.
func (psm *ProviderSessionManager) ZZVerifSnapshot() (projects []ZZVerifProject, consumers []ZZVerifConsumer) {
	epochs := make([]uint64, 0, len(psm.sessionsWithAllConsumers))
	for e := range psm.sessionsWithAllConsumers {
		epochs = append(epochs, e)
	}
	sort.Slice(epochs, func(i, j int) bool { return epochs[i] < epochs[j] })
	for _, e := range epochs {
		sd := psm.sessionsWithAllConsumers[e]
		names := make([]string, 0, len(sd.sessionMap))
		for p := range sd.sessionMap {
			names = append(names, p)
		}
		sort.Strings(names)
		for _, p := range names {
			pswc := sd.sessionMap[p]
			zp := ZZVerifProject{Epoch: e, Project: p,
				Used:    atomic.LoadUint64(&pswc.epochData.UsedComputeUnits),
				Missing: atomic.LoadUint64(&pswc.epochData.MissingComputeUnits),
				Max:     atomic.LoadUint64(&pswc.epochData.MaxComputeUnits)}
			ids := make([]uint64, 0, len(pswc.Sessions))
			for id := range pswc.Sessions {
				ids = append(ids, id)
			}
			sort.Slice(ids, func(i, j int) bool { return ids[i] < ids[j] })
			for _, id := range ids {
				s := pswc.Sessions[id]
				free := s.lock.TryLock()
				if free {
					s.lock.Unlock()
				}
				zp.Sessions = append(zp.Sessions, ZZVerifSession{ID: id, CuSum: atomic.LoadUint64(&s.CuSum), RelayNum: s.RelayNum,
					LatestRelayCu: s.LatestRelayCu, PairingEpoch: atomic.LoadUint64(&s.PairingEpoch), LockFree: free})
			}
			projects = append(projects, zp)
		}
	}
	cepochs := make([]uint64, 0, len(psm.consumerPairedWithProjectMap))
	for e := range psm.consumerPairedWithProjectMap {
		cepochs = append(cepochs, e)
	}
	sort.Slice(cepochs, func(i, j int) bool { return cepochs[i] < cepochs[j] })
	for _, e := range cepochs {
		m := psm.consumerPairedWithProjectMap[e].consumerToProjectMap
		cs := make([]string, 0, len(m))
		for c := range m {
			cs = append(cs, c)
		}
		sort.Strings(cs)
		for _, c := range cs {
			consumers = append(consumers, ZZVerifConsumer{Epoch: e, Consumer: c, Project: m[c]})
		}
	}
	return projects, consumers
}
