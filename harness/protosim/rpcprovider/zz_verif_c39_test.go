package rpcprovider

import (
	"bytes"
	"context"
	"encoding/binary"
	"errors"
	"fmt"
	"io"
	"os"
	"sort"
	"strings"
	"sync"
	"time"

	"github.com/lavanet/lava/v5/protocol/chainlib"
	"github.com/lavanet/lava/v5/protocol/chainlib/chainproxy/rpcclient"
	"github.com/lavanet/lava/v5/protocol/chainlib/extensionslib"
	"github.com/lavanet/lava/v5/protocol/chaintracker"
	"github.com/lavanet/lava/v5/protocol/common"
	"github.com/lavanet/lava/v5/protocol/lavaprotocol"
	"github.com/lavanet/lava/v5/protocol/lavasession"
	"github.com/lavanet/lava/v5/protocol/qos"
	"github.com/lavanet/lava/v5/utils"
	specutils "github.com/lavanet/lava/v5/utils/keeper"
	"github.com/lavanet/lava/v5/utils/sigs"
	pairingtypes "github.com/lavanet/lava/v5/x/pairing/types"
	spectypes "github.com/lavanet/lava/v5/x/spec/types"
	"github.com/lavanet/lava/v5/zz_verif/simrt"
	"github.com/rs/zerolog"
	zerologlog "github.com/rs/zerolog/log"
)

// C39: a provider serves a relay, and later claims payment for it, only if the request names this
// provider, its spec and its lava network, refers to a still-valid epoch, carries a content hash
// matching its data, and is signed by a consumer that the chain pairs with this provider for that
// epoch. Rejected requests leave the provider's session and CU state unchanged.
//
// Real: RPCProviderServer.Relay (initRelay, verifyRelaySession, verifyRelayRequestMetaData,
// getSingleProviderSession, TryRelayWithWrapper, finalizeSession, SendProof), ProviderStateMachine,
// lavasession.ProviderSessionManager and sessions, the ETH1 json-rpc chain parser built from the
// checked-in spec, lavaprotocol request/response builders, utils/sigs. Simulated: consumers (tasks),
// the transport (marshal -> one fault -> unmarshal), the lava chain (pairing, max CU, epochs), the
// node behind the chain router, the reward server (records proofs), the chain tracker.

const (
	c39Spec      = "ETH1"
	c39LavaChain = "lava"
)

var (
	c39Once     sync.Once
	c39SpecVal  spectypes.Spec
	c39SetupErr error
	c39Keys     []sigs.Account // 0 provider, 1 other provider, 2 stranger, 3.. consumers
)

func c39Setup() {
	c39Once.Do(func() {
		utils.SetGlobalLoggingLevel("fatal")
		zerologlog.Logger = zerolog.New(io.Discard).Level(zerolog.Disabled)
		root := os.Getenv("VERIF_REPO")
		if root == "" {
			root = "/repo"
		}
		c39SpecVal, c39SetupErr = specutils.GetASpec(c39Spec, strings.TrimRight(root, "/")+"/", nil, nil)
		rd := sigs.NewZeroReader(3939)
		for i := 0; i < 8; i++ {
			c39Keys = append(c39Keys, sigs.GenerateDeterministicFloatingKey(rd))
			rd.Inc()
		}
	})
}

func c39NewParser() chainlib.ChainParser {
	p, err := chainlib.NewChainParser(spectypes.APIInterfaceJsonRPC)
	if err != nil {
		panic(err)
	}
	p.SetSpec(c39SpecVal)
	// the services this provider / consumer supports: every add-on of the spec and the archive extension
	if sp, ok := p.(interface {
		SetPolicyFromAddonAndExtensionMap(map[string]struct{})
	}); ok {
		sp.SetPolicyFromAddonAndExtensionMap(map[string]struct{}{"": {}, "debug": {}, "trace": {}, "bundler": {}, "archive": {}})
	}
	return p
}

// ---------------------------------------------------------------------------------------------
// simulated environment

type c39CtxKey struct{}

type c39Consumer struct {
	idx        int
	acc        sigs.Account
	addr       string
	project    string
	pairedFrom uint64 // the chain pairs this consumer with the provider from this epoch on
	sessions   []*c39ConsSession
	served     []*c39Delivery
	nextSid    uint64
}

type c39ConsSession struct {
	epoch    uint64
	sid      uint64
	cuSum    uint64
	relayNum uint64
	qos      *qos.QoSManager
}

type c39Delivery struct {
	id     int
	task   string
	cons   *c39Consumer
	kind   string
	req    *pairingtypes.RelayRequest // as delivered
	sess   []byte                     // marshalled delivered session
	ownSid uint64
	// plan of environment faults for this delivery
	pairingErr, maxCuErr, nodeErr bool
	nodeDelay                     time.Duration
	// verdict from the statement
	signer                                                     string
	cProvider, cSpec, cChain, cEpoch, cHash, cPaired, asSigned bool
	// outcome
	served    bool
	returned  bool
	stage     string
	proofs    int
	nodeCalls int
}

func (d *c39Delivery) authentic() (bool, string) {
	switch {
	case !d.cProvider:
		return false, "wrong-provider"
	case !d.cSpec:
		return false, "wrong-spec"
	case !d.cChain:
		return false, "wrong-lava-chain"
	case !d.cEpoch:
		return false, "invalid-epoch"
	case !d.cHash:
		return false, "content-hash-mismatch"
	case !d.cPaired:
		return false, "signer-not-paired"
	}
	return true, ""
}

type c39World struct {
	r         *simrt.Run
	srv       *RPCProviderServer
	psm       *lavasession.ProviderSessionManager
	pparser   chainlib.ChainParser
	cparser   chainlib.ChainParser
	provider  sigs.Account
	other     sigs.Account
	stranger  sigs.Account
	consumers []*c39Consumer
	byAddr    map[string]*c39Consumer

	epochSize  uint64
	firstEpoch uint64
	curEpoch   uint64
	keep       uint64
	epochGen   int
	maxCU      uint64
	virtEpoch  uint64

	deliveries []*c39Delivery
	bySession  map[*pairingtypes.RelaySession]*c39Delivery
	inFlight   int
	activity   int
	credits    map[string]uint64 // "epoch/project" -> CU credited by served relays
	nextID     int
	cuPressure bool // profile "culimit": small CU allowance, many under-paying requests
}

// ---- lava chain (StateTrackerInf) ----

type c39Chain struct{ w *c39World }

func (c *c39Chain) LatestBlock() int64 { return int64(c.w.curEpoch) + 3 }

func (c *c39Chain) knownEpoch(epoch uint64) bool {
	w := c.w
	return epoch >= w.firstEpoch && epoch <= w.curEpoch && (epoch-w.firstEpoch)%w.epochSize == 0
}

// truth: does the chain pair this consumer with this provider for that epoch
func (c *c39Chain) paired(consumer string, epoch uint64) (bool, string) {
	cons := c.w.byAddr[consumer]
	if cons == nil || !c.knownEpoch(epoch) || epoch < cons.pairedFrom {
		return false, ""
	}
	return true, cons.project
}

func (c *c39Chain) VerifyPairing(ctx context.Context, consumerAddress, providerAddress string, epoch uint64, chainID string) (bool, int64, string, error) {
	w := c.w
	d, _ := ctx.Value(c39CtxKey{}).(*c39Delivery)
	simrt.Yield("harness:verify-pairing")
	if d != nil && d.pairingErr {
		w.r.Fault("pairing_lookup_error")
		// the values that come with an error are meaningless: make them look like a success
		return true, 3, "sim-error-project", errors.New("sim: pairing query failed")
	}
	if !c.knownEpoch(epoch) {
		w.r.Fault("pairing_unknown_epoch")
		return false, 0, "", errors.New("sim: epoch not found on chain")
	}
	if providerAddress != w.provider.Addr.String() || chainID != c39Spec {
		return false, 0, "", nil
	}
	ok, project := c.paired(consumerAddress, epoch)
	if !ok {
		w.r.Probe("verify_pairing_invalid")
		return false, 0, "", nil
	}
	w.r.Probe("verify_pairing_valid")
	return true, 3, project, nil
}

func (c *c39Chain) GetMaxCuForUser(ctx context.Context, consumerAddress, chainID string, epoch uint64) (uint64, error) {
	d, _ := ctx.Value(c39CtxKey{}).(*c39Delivery)
	simrt.Yield("harness:max-cu")
	if d != nil && d.maxCuErr {
		c.w.r.Fault("max_cu_lookup_error")
		return c.w.maxCU * 1000, errors.New("sim: max cu query failed")
	}
	return c.w.maxCU, nil
}

func (c *c39Chain) GetVirtualEpoch(epoch uint64) uint64 { return c.w.virtEpoch }

// ---- reward server ----

type c39Reward struct{ w *c39World }

func (rw *c39Reward) SendNewProof(ctx context.Context, proof *pairingtypes.RelaySession, epoch uint64, consumerAddr, apiInterface string) (uint64, bool) {
	w := rw.w
	r := w.r
	d := w.bySession[proof]
	r.OracleEvals++
	if d == nil {
		r.SetViolation("proof-for-unknown-session", "", fmt.Sprintf("SendNewProof was called with a relay session (id %d relay %d) that is not the session object of any delivered request", proof.SessionId, proof.RelayNum))
		return 0, true
	}
	d.proofs++
	b, _ := proof.Marshal()
	r.Logf("   proof: delivery #%d session=%d relay=%d cuSum=%d epoch=%d (count %d)", d.id, proof.SessionId, proof.RelayNum, proof.CuSum, epoch, d.proofs)
	r.OracleEvals += 4
	if ok, why := d.authentic(); !ok {
		r.SetViolation("payment-claimed-for-inauthentic-request", why, fmt.Sprintf("a payment proof was handed to the reward server for delivery #%d (%s) although the request is not authentic: %s", d.id, d.kind, why))
		return 0, true
	}
	if !bytes.Equal(b, d.sess) {
		r.SetViolation("proof-differs-from-delivered-session", d.kind, fmt.Sprintf("the proof recorded for delivery #%d is not the delivered relay session", d.id))
		return 0, true
	}
	if epoch != uint64(proof.Epoch) || consumerAddr != d.signer {
		r.SetViolation("proof-attributed-wrongly", d.kind, fmt.Sprintf("proof of delivery #%d recorded for epoch %d consumer %s, the session says epoch %d and is signed by %s", d.id, epoch, consumerAddr, proof.Epoch, d.signer))
		return 0, true
	}
	if d.proofs > 1 {
		r.SetViolation("proof-sent-twice", d.kind, fmt.Sprintf("delivery #%d reached the reward server %d times", d.id, d.proofs))
	}
	return 0, true
}
func (rw *c39Reward) SubscribeStarted(consumer string, epoch uint64, subscribeID string) {}
func (rw *c39Reward) SubscribeEnded(consumer string, epoch uint64, subscribeID string)   {}

// ---- node behind the chain router ----

type c39Router struct{ w *c39World }

func (ro *c39Router) SendNodeMsg(ctx context.Context, ch chan interface{}, chainMessage chainlib.ChainMessageForSend, extensions []string) (*chainlib.RelayReplyWrapper, string, *rpcclient.ClientSubscription, common.NodeUrl, string, error) {
	w := ro.w
	d, _ := ctx.Value(c39CtxKey{}).(*c39Delivery)
	simrt.Yield("harness:node")
	if d != nil {
		d.nodeCalls++
		if d.nodeDelay > 0 {
			time.Sleep(d.nodeDelay)
			simrt.Resume("harness:node")
		}
		if d.nodeErr {
			w.r.Fault("node_error")
			return nil, "", nil, common.NodeUrl{}, "", errors.New("sim: node unreachable")
		}
	}
	return &chainlib.RelayReplyWrapper{StatusCode: 200, RelayReply: &pairingtypes.RelayReply{Data: []byte(`{"jsonrpc":"2.0","id":1,"result":"0x1"}`)}}, "", nil, common.NodeUrl{}, c39Spec, nil
}

func (ro *c39Router) ExtensionsSupported(internalPath string, extensions []string) bool {
	for _, e := range extensions {
		if e != "archive" && e != "" {
			return false
		}
	}
	return true
}

type c39Retries struct{}

func (c39Retries) AddHashToCache(hash string)        {}
func (c39Retries) CheckHashInCache(hash string) bool { return false }
func (c39Retries) RemoveHashFromCache(hash string)   {}

// ---- chain tracker (as the package's own MockChainTracker) ----

type c39Tracker struct {
	*chaintracker.DummyChainTracker
	latest int64
	t0     time.Time
}

func (t *c39Tracker) GetLatestBlockData(fromBlock, toBlock, specificBlock int64) (int64, []*chaintracker.BlockStore, time.Time, error) {
	return t.latest, nil, t.t0, nil
}
func (t *c39Tracker) GetLatestBlockNum() (int64, time.Time) { return t.latest, t.t0 }
func (t *c39Tracker) GetAtomicLatestBlockNum() int64        { return t.latest }
func (t *c39Tracker) GetWireLatestBlock() int64             { return t.latest }
func (t *c39Tracker) IsDummy() bool                         { return false }

// ---------------------------------------------------------------------------------------------
// consumer side

var c39Methods = []struct {
	name   string
	data   string
	latest uint64 // the consumer's view of the node's latest block (decides the archive extension)
}{
	{"eth_blockNumber", `{"jsonrpc":"2.0","id":1,"method":"eth_blockNumber","params":[]}`, 1000},
	{"eth_getBalance", `{"jsonrpc":"2.0","id":2,"method":"eth_getBalance","params":["0x407d73d8a49eeb85d32cf465507dd71d507100c1","latest"]}`, 1000},
	{"rpc_modules", `{"jsonrpc":"2.0","id":3,"method":"rpc_modules","params":[]}`, 1000},
	{"eth_getLogs", `{"jsonrpc":"2.0","id":4,"method":"eth_getLogs","params":[{"fromBlock":"latest","toBlock":"latest"}]}`, 1000},
	{"eth_getBlockByNumber@0x20/archive", `{"jsonrpc":"2.0","id":5,"method":"eth_getBlockByNumber","params":["0x20",false]}`, 1000},
	{"eth_getBlockByNumber@0x20", `{"jsonrpc":"2.0","id":5,"method":"eth_getBlockByNumber","params":["0x20",false]}`, 40},
	{"debug_traceTransaction", `{"jsonrpc":"2.0","id":6,"method":"debug_traceTransaction","params":["0x88df016429689c079f3b2f6ad39fa052532c56795b733da78a91ebe6a713944b"]}`, 1000},
	{"batch", `[{"jsonrpc":"2.0","id":7,"method":"eth_blockNumber","params":[]},{"jsonrpc":"2.0","id":8,"method":"eth_chainId","params":[]}]`, 1000},
	{"eth_estimateGas", `{"jsonrpc":"2.0","id":9,"method":"eth_estimateGas","params":[{"to":"0xd46e8dd67c5d32be8058bb8eb970870f07244567"}]}`, 1000},
}

type c39Built struct {
	pd     *pairingtypes.RelayPrivateData
	cu     uint64
	method string
}

// consumer-side parse and private data, exactly as rpcconsumer_server.ParseRelay builds them
func (w *c39World) buildData(method int, data string, guid uint64) (*c39Built, error) {
	m := c39Methods[method]
	if data == "" {
		data = m.data
	}
	msg, err := chainlib.ParseAndValidateMessage(w.cparser, "", []byte(data), "POST", nil, extensionslib.ExtensionInfo{LatestBlock: m.latest})
	if err != nil {
		return nil, err
	}
	reqBlock, _ := msg.RequestedBlock()
	ctx := utils.WithUniqueIdentifier(context.Background(), guid)
	pd := lavaprotocol.NewRelayData(ctx, "POST", "", []byte(data), 0, reqBlock, spectypes.APIInterfaceJsonRPC, msg.GetRPCMessage().GetHeaders(), chainlib.GetAddon(msg), common.GetExtensionNames(msg.GetExtensions()))
	return &c39Built{pd: pd, cu: msg.GetApi().ComputeUnits, method: m.name}, nil
}

type c39SignParams struct {
	key      sigs.Account
	lava     string
	spec     string
	provider string
	epoch    int64
	sid      uint64
	cuSum    uint64 // total signed
	relayNum uint64
	qos      *qos.QoSManager
}

func (w *c39World) sign(pd *pairingtypes.RelayPrivateData, p c39SignParams) *pairingtypes.RelayRequest {
	q := p.qos
	if q == nil {
		q = qos.NewQoSManager()
	}
	scs := &lavasession.SingleConsumerSession{CuSum: p.cuSum, LatestRelayCu: 0, SessionId: int64(p.sid), RelayNum: p.relayNum, QoSManager: q}
	req, err := lavaprotocol.ConstructRelayRequest(context.Background(), p.key.SK, p.lava, p.spec, pd, p.provider, scs, p.epoch, nil)
	if err != nil {
		panic(err)
	}
	return req
}

func c39Clone(req *pairingtypes.RelayRequest) *pairingtypes.RelayRequest {
	b, err := req.Marshal()
	if err != nil {
		panic(err)
	}
	out := &pairingtypes.RelayRequest{}
	if err := out.Unmarshal(b); err != nil {
		panic(err)
	}
	return out
}

func c39ClonePD(p *pairingtypes.RelayPrivateData) *pairingtypes.RelayPrivateData {
	b, _ := p.Marshal()
	out := &pairingtypes.RelayPrivateData{}
	out.Unmarshal(b)
	return out
}

// canonical (length-prefixed) view of the hashed private-data fields, written from the statement
func c39CanonPD(p *pairingtypes.RelayPrivateData) string {
	var sb strings.Builder
	lp := func(n string, b []byte) { fmt.Fprintf(&sb, "%s[%d]=%x;", n, len(b), b) }
	lp("data", p.Data)
	lp("url", []byte(p.ApiUrl))
	lp("conn", []byte(p.ConnectionType))
	lp("iface", []byte(p.ApiInterface))
	lp("addon", []byte(p.Addon))
	for _, e := range p.Extensions {
		lp("ext", []byte(e))
	}
	for _, m := range p.Metadata {
		lp("mdname", []byte(m.Name))
		lp("mdvalue", []byte(m.Value))
	}
	fmt.Fprintf(&sb, "reqblock=%d;seen=%d;", p.RequestBlock, p.SeenBlock)
	lp("salt", p.Salt)
	return sb.String()
}

func (w *c39World) flip(b []byte) []byte {
	r := w.r
	if len(b) == 0 {
		return []byte{1}
	}
	out := append([]byte(nil), b...)
	i := r.Draw("ops", len(out))
	out[i] ^= 1 << uint(r.Draw("ops", 8))
	return out
}

func (w *c39World) mutStr(s string) string {
	switch w.r.Draw("ops", 3) {
	case 0:
		return s + "x"
	case 1:
		if len(s) > 0 {
			return s[:len(s)-1]
		}
		return "y"
	}
	return string(w.flip([]byte(s)))
}

func c39EncU64(v int64) []byte {
	b := make([]byte, 8)
	binary.LittleEndian.PutUint64(b, uint64(v))
	return b
}

// boundary shifts between adjacent hashed fields (property C26's known defect, seen here through
// the provider). Returns nil when the chosen shift does not apply to this private data.
func (w *c39World) shiftBoundary(p *pairingtypes.RelayPrivateData) (*pairingtypes.RelayPrivateData, string) {
	r := w.r
	v := c39ClonePD(p)
	kinds := []string{"extensions>metadata", "ext_split", "addon>extensions", "addon|api_interface", "api_interface|connection_type", "connection_type|api_url", "api_url|data", "data|request_block|seen_block|salt", "metadata_added_from_ext_prefix"}
	k := kinds[r.Draw("ops", len(kinds))]
	ok := false
	switch k {
	case "extensions>metadata":
		if len(v.Extensions) > 0 {
			j := strings.Join(v.Extensions, "")
			v.Metadata = append(v.Metadata, pairingtypes.Metadata{Name: j[:1], Value: j[1:]})
			v.Extensions = nil
			ok = true
		}
	case "metadata_added_from_ext_prefix":
		if len(v.Extensions) > 0 && len(v.Extensions[0]) > 2 {
			e := v.Extensions[0]
			v.Metadata = append(v.Metadata, pairingtypes.Metadata{Name: e[:2], Value: ""})
			v.Extensions[0] = e[2:]
			ok = true
		}
	case "ext_split":
		if len(v.Extensions) > 0 && len(v.Extensions[0]) >= 2 {
			e := v.Extensions[0]
			v.Extensions = append([]string{e[:1], e[1:]}, v.Extensions[1:]...)
			ok = true
		}
	case "addon>extensions":
		if v.Addon != "" {
			v.Extensions = append(v.Extensions, v.Addon)
			v.Addon = ""
			ok = true
		}
	case "addon|api_interface":
		if len(v.ApiInterface) > 1 {
			v.Addon += v.ApiInterface[:1]
			v.ApiInterface = v.ApiInterface[1:]
			ok = true
		}
	case "api_interface|connection_type":
		if len(v.ConnectionType) > 1 {
			v.ApiInterface += v.ConnectionType[:1]
			v.ConnectionType = v.ConnectionType[1:]
			ok = true
		}
	case "connection_type|api_url":
		if len(v.ConnectionType) > 1 {
			n := len(v.ConnectionType)
			v.ApiUrl = v.ConnectionType[n-1:] + v.ApiUrl
			v.ConnectionType = v.ConnectionType[:n-1]
			ok = true
		}
	case "api_url|data":
		if len(v.Data) > 1 {
			v.ApiUrl += string(v.Data[:1])
			v.Data = v.Data[1:]
			ok = true
		}
	case "data|request_block|seen_block|salt":
		if len(v.Salt) >= 1 {
			rb, sbk := c39EncU64(v.RequestBlock), c39EncU64(v.SeenBlock)
			v.Data = append(append([]byte(nil), v.Data...), rb[0])
			v.RequestBlock = int64(binary.LittleEndian.Uint64(append(append([]byte(nil), rb[1:]...), sbk[0])))
			v.SeenBlock = int64(binary.LittleEndian.Uint64(append(append([]byte(nil), sbk[1:]...), v.Salt[0])))
			v.Salt = v.Salt[1:]
			ok = true
		}
	}
	if !ok || !bytes.Equal(sigs.HashMsg(v.GetContentHashData()), sigs.HashMsg(p.GetContentHashData())) || c39CanonPD(v) == c39CanonPD(p) {
		return nil, k
	}
	return v, k
}

var c39Kinds = []string{
	// in flight, unsigned change of one session field
	"if_provider", "if_spec", "if_lavachain", "if_epoch", "if_session_id", "if_relay_num", "if_cu_sum", "if_content_hash", "if_sig", "if_badge", "if_qos", "if_unresponsive",
	// in flight, change of one private-data field after signing
	"pd_data_flip", "pd_data_swap", "pd_api_url", "pd_conn_type", "pd_api_iface", "pd_addon", "pd_ext", "pd_metadata", "pd_req_block", "pd_seen_block", "pd_salt", "pd_boundary", "pd_boundary", "wire_bitflip",
	// replays
	"replay_same", "replay_session_new_data",
	// signed by the consumer itself (isolates each provider-side check)
	"cs_provider", "cs_spec", "cs_lavachain", "cs_epoch_old", "cs_epoch_future", "cs_epoch_zero", "cs_epoch_unaligned", "cs_hash_other", "cs_relay_num_stale", "cs_cu_lower", "cs_cu_higher", "cs_stranger", "cs_stranger_pairing_error",
	"cs_addon_wrong", "cs_ext_unknown", "cs_seen_negative", "cs_subscribe", "cs_garbage_data",
	// environment
	"st_pairing_error", "st_maxcu_error", "st_node_error", "st_node_slow",
}

func (w *c39World) pickSession(c *c39Consumer) *c39ConsSession {
	r := w.r
	// epochs the provider still accepts
	blocked := w.psm.ZZVerifBlockedEpoch()
	var cand []*c39ConsSession
	for _, s := range c.sessions {
		if s.epoch > blocked {
			cand = append(cand, s)
		}
	}
	if len(cand) > 0 && (!r.Chance("ops", 1, 4) || (w.cuPressure && !r.Chance("ops", 1, 3))) {
		return cand[r.Draw("ops", len(cand))]
	}
	epoch := w.curEpoch
	if r.Chance("ops", 1, 4) && w.curEpoch-w.epochSize > blocked && w.curEpoch-w.epochSize >= w.firstEpoch {
		epoch = w.curEpoch - w.epochSize
	}
	c.nextSid++
	s := &c39ConsSession{epoch: epoch, sid: uint64(c.idx+1)*1000 + c.nextSid, qos: qos.NewQoSManager()}
	c.sessions = append(c.sessions, s)
	return s
}

// one exchange: build, corrupt exactly one thing, deliver, judge
func (w *c39World) exchange(task string, c *c39Consumer) {
	r := w.r
	r.Step()
	cs := w.pickSession(c)
	method := r.Draw("ops", len(c39Methods))
	guid := r.Draw64("ops") | 1
	kind := "none"
	if w.cuPressure {
		switch r.Draw("ops", 6) {
		case 3, 4:
			kind = "cs_cu_lower"
		case 5:
			kind = c39Kinds[r.Draw("ops", len(c39Kinds))]
		}
	} else if r.Draw("ops", 5) >= 2 {
		kind = c39Kinds[r.Draw("ops", len(c39Kinds))]
	}
	if ok, _ := w.chainTruth().paired(c.addr, cs.epoch); !ok && kind == "none" {
		kind = "cs_unpaired_at_epoch" // an honest request of a consumer the chain does not pair for that epoch
	}
	data := ""
	switch kind {
	case "cs_subscribe":
		data = `{"jsonrpc":"2.0","id":1,"method":"eth_subscribe","params":["newHeads"]}`
	}
	bd, err := w.buildData(method, data, guid)
	if err != nil {
		r.Fail("harness", "consumer-parse", "the consumer-side parse of a built-in valid request failed: %v", err)
	}
	if kind == "cs_garbage_data" {
		bd.pd.Data = []byte(`{"jsonrpc":"2.0","id":1,"method":`)
	}
	params := c39SignParams{key: c.acc, lava: c39LavaChain, spec: c39Spec, provider: w.provider.Addr.String(), epoch: int64(cs.epoch), sid: cs.sid, cuSum: cs.cuSum + bd.cu, relayNum: cs.relayNum + 1, qos: cs.qos}
	d := &c39Delivery{task: task, cons: c, kind: kind, ownSid: cs.sid}
	// ---- consumer-signed deviations ----
	blocked := w.psm.ZZVerifBlockedEpoch()
	switch kind {
	case "cs_provider":
		params.provider = w.other.Addr.String()
	case "cs_spec":
		params.spec = []string{"LAV1", "ETH2", ""}[r.Draw("ops", 3)]
	case "cs_lavachain":
		params.lava = []string{"lava-testnet-2", "", "lav"}[r.Draw("ops", 3)]
	case "cs_epoch_old":
		e := int64(blocked) - int64(w.epochSize)*int64(r.Draw("ops", 3))
		if e < int64(w.firstEpoch) {
			e = int64(w.firstEpoch)
		}
		if uint64(e) > blocked {
			kind, d.kind = "none", "none" // nothing is blocked yet
		} else {
			params.epoch = e
		}
	case "cs_epoch_future":
		params.epoch = int64(w.curEpoch + w.epochSize*uint64(1+r.Draw("ops", 2)))
	case "cs_epoch_zero":
		params.epoch = []int64{0, -1, -int64(w.epochSize)}[r.Draw("ops", 3)]
	case "cs_epoch_unaligned":
		params.epoch = int64(w.curEpoch) - int64(1+r.Draw("ops", int(w.epochSize)-1))
	case "cs_relay_num_stale":
		if cs.relayNum == 0 {
			params.relayNum = 0
		} else {
			params.relayNum = cs.relayNum - uint64(r.Draw("ops", int(min(cs.relayNum, 3))))
		}
	case "cs_cu_lower":
		dec := uint64(1 + r.Draw("ops", int(bd.cu)+4))
		if dec > params.cuSum {
			dec = params.cuSum
		}
		params.cuSum -= dec
	case "cs_cu_higher":
		params.cuSum += uint64(1 + r.Draw("ops", 40))
	case "cs_stranger":
		params.key = w.stranger
	case "cs_stranger_pairing_error":
		params.key = w.stranger
		d.pairingErr = true
	case "cs_addon_wrong":
		if bd.pd.Addon == "" {
			bd.pd.Addon = "debug"
		} else {
			bd.pd.Addon = ""
		}
	case "cs_ext_unknown":
		bd.pd.Extensions = append(bd.pd.Extensions, []string{"foo", "archive2", "debug"}[r.Draw("ops", 3)])
	case "cs_seen_negative":
		bd.pd.SeenBlock = -int64(1 + r.Draw("ops", 50))
	}
	signed := w.sign(bd.pd, params)
	if kind == "cs_hash_other" {
		other := c39ClonePD(bd.pd)
		other.Data = []byte(c39Methods[(method+1)%len(c39Methods)].data)
		signed.RelaySession.Sig = nil
		signed.RelaySession.ContentHash = sigs.HashMsg(other.GetContentHashData())
		sig, err := sigs.Sign(c.acc.SK, *signed.RelaySession)
		if err != nil {
			panic(err)
		}
		signed.RelaySession.Sig = sig
	}
	// ---- the wire ----
	wire, err := signed.Marshal()
	if err != nil {
		panic(err)
	}
	if kind == "wire_bitflip" {
		wire = w.flip(wire)
	}
	recv := &pairingtypes.RelayRequest{}
	if err := recv.Unmarshal(wire); err != nil || recv.RelaySession == nil || recv.RelayData == nil {
		if err == nil {
			// Relay() rejects nil parts itself: deliver it
			w.nextID++
			d.id = w.nextID
			d.req = recv
			w.deliverNilParts(d)
			return
		}
		r.Fault("wire_undecodable")
		r.Op("relay", "undecodable")
		r.Logf("%s: fault=%s -> undecodable on the wire", task, kind)
		return
	}
	s, pd := recv.RelaySession, recv.RelayData
	sub := ""
	switch kind {
	case "if_provider":
		s.Provider = []string{w.other.Addr.String(), w.mutStr(s.Provider)}[r.Draw("ops", 2)]
	case "if_spec":
		s.SpecId = []string{"LAV1", w.mutStr(s.SpecId)}[r.Draw("ops", 2)]
	case "if_lavachain":
		s.LavaChainId = w.mutStr(s.LavaChainId)
	case "if_epoch":
		s.Epoch = []int64{s.Epoch - int64(w.epochSize), s.Epoch + int64(w.epochSize), int64(blocked), 0, -1, s.Epoch + 1}[r.Draw("ops", 6)]
	case "if_session_id":
		s.SessionId ^= 1 << uint(r.Draw("ops", 40))
	case "if_relay_num":
		if r.Chance("ops", 1, 2) && s.RelayNum > 0 {
			s.RelayNum--
		} else {
			s.RelayNum++
		}
	case "if_cu_sum":
		if r.Chance("ops", 1, 2) && s.CuSum > 0 {
			s.CuSum -= uint64(1 + r.Draw("ops", int(min(s.CuSum, 30))))
		} else {
			s.CuSum += uint64(1 + r.Draw("ops", 1000))
		}
	case "if_content_hash":
		s.ContentHash = w.flip(s.ContentHash)
	case "if_sig":
		switch r.Draw("ops", 4) {
		case 0:
			s.Sig = w.flip(s.Sig)
		case 1:
			s.Sig = s.Sig[:len(s.Sig)/2]
			sub = "truncated"
		case 2:
			s.Sig = nil
			sub = "empty"
		default:
			s.Sig = append(append([]byte(nil), s.Sig...), 0)
			sub = "extended"
		}
	case "if_badge":
		s.Badge = &pairingtypes.Badge{CuAllocation: 1000000, Epoch: uint64(s.Epoch), Address: w.stranger.Addr.String(), LavaChainId: c39LavaChain}
	case "if_qos":
		s.QosReport = nil
		s.QosExcellenceReport = nil
		s.UnresponsiveProviders = append(s.UnresponsiveProviders, &pairingtypes.ReportedProvider{Address: w.other.Addr.String(), Errors: 1})
		sub = "reports"
	case "if_unresponsive":
		s.UnresponsiveProviders = append(s.UnresponsiveProviders, &pairingtypes.ReportedProvider{Address: w.provider.Addr.String(), Disconnections: 3})
	case "pd_data_flip":
		pd.Data = w.flip(pd.Data)
	case "pd_data_swap":
		pd.Data = []byte(c39Methods[(method+1+r.Draw("ops", len(c39Methods)-1))%len(c39Methods)].data)
	case "pd_api_url":
		pd.ApiUrl = w.mutStr(pd.ApiUrl)
	case "pd_conn_type":
		pd.ConnectionType = []string{"GET", w.mutStr(pd.ConnectionType)}[r.Draw("ops", 2)]
	case "pd_api_iface":
		pd.ApiInterface = []string{"rest", w.mutStr(pd.ApiInterface)}[r.Draw("ops", 2)]
	case "pd_addon":
		if pd.Addon == "" {
			pd.Addon = "debug"
		} else {
			pd.Addon = ""
		}
	case "pd_ext":
		if len(pd.Extensions) > 0 && r.Chance("ops", 1, 2) {
			pd.Extensions = pd.Extensions[1:]
		} else {
			pd.Extensions = append(pd.Extensions, "archive")
		}
	case "pd_metadata":
		pd.Metadata = append(pd.Metadata, pairingtypes.Metadata{Name: "x-h", Value: "v"})
	case "pd_req_block":
		pd.RequestBlock += int64(1 + r.Draw("ops", 3))
	case "pd_seen_block":
		pd.SeenBlock += int64(1 + r.Draw("ops", 300))
	case "pd_salt":
		pd.Salt = w.flip(pd.Salt)
	case "pd_boundary":
		v, k := w.shiftBoundary(pd)
		sub = k
		if v == nil {
			kind, d.kind = "none", "none"
			sub = ""
			r.Probe("boundary_shift_not_applicable")
		} else {
			recv.RelayData = v
		}
	case "replay_same":
		if len(c.served) == 0 {
			kind, d.kind = "none", "none"
		} else {
			old := c.served[r.Draw("ops", len(c.served))]
			recv = c39Clone(old.req)
			signed = c39Clone(old.req)
			d.ownSid = old.ownSid
		}
	case "replay_session_new_data":
		if len(c.served) == 0 {
			kind, d.kind = "none", "none"
		} else {
			old := c.served[r.Draw("ops", len(c.served))]
			o := c39Clone(old.req)
			recv.RelaySession = o.RelaySession
			signed = &pairingtypes.RelayRequest{RelaySession: c39Clone(old.req).RelaySession, RelayData: c39Clone(old.req).RelayData}
			d.ownSid = old.ownSid
		}
	case "st_pairing_error":
		d.pairingErr = true
	case "st_maxcu_error":
		d.maxCuErr = true
	case "st_node_error":
		d.nodeErr = true
	case "st_node_slow":
		d.nodeDelay = time.Duration(1+r.Draw("ops", 400)) * time.Millisecond
	}
	if kind != "none" && !strings.HasPrefix(kind, "st_") {
		r.Fault(kind)
	}
	if sub != "" {
		d.kind = kind + "/" + sub
	}
	if kind != "st_node_slow" && r.Chance("ops", 1, 3) {
		d.nodeDelay = time.Duration(1+r.Draw("ops", 30)) * time.Millisecond
	}
	w.nextID++
	d.id = w.nextID
	d.req = recv
	w.deliver(d, signed, bd, cs)
}

func (w *c39World) chainTruth() *c39Chain { return &c39Chain{w} }

func (w *c39World) deliverNilParts(d *c39Delivery) {
	r := w.r
	before := w.digest(nil)
	reply, err := w.srv.Relay(context.Background(), d.req)
	after := w.digest(nil)
	r.Fault("wire_bitflip_nil_part")
	r.Logf("%s #%d: fault=%s -> request with a nil part: served=%v", d.task, d.id, d.kind, err == nil && reply != nil)
	r.OracleEvals += 2
	if err == nil {
		r.SetViolation("served-inauthentic-request", "nil-parts", "a relay request without session or data was answered without error")
		return
	}
	if w.inFlight == 0 && before != after {
		r.SetViolation("rejected-request-changed-state", "nil-parts", fmt.Sprintf("before:\n%s\nafter:\n%s", before, after))
	}
	r.Op("relay", "rejected")
}

func c39Stage(err error) string {
	if err == nil {
		return "served"
	}
	s := err.Error()
	has := func(x string) bool { return strings.Contains(s, x) }
	switch {
	case has("provider lava block") || has("ReportingAnOldEpoch"):
		return "epoch"
	case has("wrong provider"):
		return "meta:provider"
	case has("wrong specID"):
		return "meta:spec"
	case has("wrong lava chain ID"):
		return "meta:lava-chain"
	case has("content hash mismatch"):
		return "meta:content-hash"
	case has("did not pass relay validation"):
		return "meta"
	case has("failed to extract signer"):
		return "signature"
	case has("Failed to VerifyPairing"):
		return "pairing-error"
	case has("not valid with this provider"):
		return "not-paired"
	case has("GetMaxCuForUser failed"):
		return "maxcu-error"
	case has("Failed to RegisterProviderSessionWithConsumer"):
		return "register"
	case has("Failed to get a provider session"):
		return "get-session"
	case has("Session Out of sync") || has("SessionOutOfSync") || has("out of sync"):
		return "prepare"
	case has("subscribe method is not supported"):
		return "subscribe"
	case has("sim: node unreachable") || has("Sending chainMsg failed"):
		return "node"
	case has("invalid seen block"):
		return "exec:seen-block"
	case has("invalid addon") || has("neither an addon or an extension") || has("extensions are unsupported"):
		return "exec:addon-extensions"
	case has("internal fields are nil"):
		return "nil-parts"
	}
	return "parse-or-other"
}

type c39SessLine struct {
	epoch   uint64
	project string
	s       lavasession.ZZVerifSession
}

// digest of the provider's session and CU state per the statement. Empty sessions (never
// accepted a relay) and projects without any used/missing CU and without non-empty sessions are
// equivalent to absent ones (GetSession creates such objects on first use; they carry no CU and
// no replay-protection state). own != nil restricts the digest to the session lines of those ids.
func (w *c39World) digest(own func(sid uint64) bool) string {
	projects, _ := w.psm.ZZVerifSnapshot()
	var sb strings.Builder
	for _, p := range projects {
		var lines []string
		for _, s := range p.Sessions {
			if s.CuSum == 0 && s.RelayNum == 0 && s.LatestRelayCu == 0 && s.LockFree {
				continue
			}
			if own != nil && !own(s.ID) {
				continue
			}
			lines = append(lines, fmt.Sprintf("  session %d: cuSum=%d relayNum=%d latestRelayCu=%d lockFree=%v\n", s.ID, s.CuSum, s.RelayNum, s.LatestRelayCu, s.LockFree))
		}
		if own != nil {
			for _, l := range lines {
				fmt.Fprintf(&sb, "epoch %d project %s%s", p.Epoch, p.Project, l)
			}
			continue
		}
		if p.Used == 0 && p.Missing == 0 && len(lines) == 0 {
			continue
		}
		fmt.Fprintf(&sb, "epoch %d project %s: used=%d missing=%d\n", p.Epoch, p.Project, p.Used, p.Missing)
		for _, l := range lines {
			sb.WriteString(l)
		}
	}
	return sb.String()
}

func (w *c39World) findSession(epoch uint64, project string, sid uint64) (lavasession.ZZVerifProject, lavasession.ZZVerifSession, bool, bool) {
	projects, _ := w.psm.ZZVerifSnapshot()
	for _, p := range projects {
		if p.Epoch == epoch && p.Project == project {
			for _, s := range p.Sessions {
				if s.ID == sid {
					return p, s, true, true
				}
			}
			return p, lavasession.ZZVerifSession{}, true, false
		}
	}
	return lavasession.ZZVerifProject{}, lavasession.ZZVerifSession{}, false, false
}

// c39DiffSig names what changed between two digests (stable across seeds): used-cu, missing-cu,
// session-cu-sum, session-relay-num, session-latest-cu, session-lock, session-added, session-removed.
func c39DiffSig(before, after string) string {
	parse := func(d string) map[string]map[string]string {
		out := map[string]map[string]string{}
		cur := ""
		for _, l := range strings.Split(d, "\n") {
			l = strings.TrimRight(l, "\n")
			if l == "" {
				continue
			}
			fields := map[string]string{}
			key := ""
			if strings.HasPrefix(l, "  session ") {
				head, rest, _ := strings.Cut(strings.TrimPrefix(l, "  "), ": ")
				key = cur + "/" + head
				for _, kv := range strings.Fields(rest) {
					k, v, _ := strings.Cut(kv, "=")
					fields[k] = v
				}
			} else if i := strings.Index(l, " session "); i > 0 && strings.HasPrefix(l, "epoch ") && !strings.Contains(l, "used=") {
				// own-session form: "epoch E project P  session N: ..."
				head, rest, _ := strings.Cut(l, ": ")
				key = head
				for _, kv := range strings.Fields(rest) {
					k, v, _ := strings.Cut(kv, "=")
					fields[k] = v
				}
			} else {
				head, rest, _ := strings.Cut(l, ": ")
				cur = head
				key = head
				for _, kv := range strings.Fields(rest) {
					k, v, _ := strings.Cut(kv, "=")
					fields[k] = v
				}
			}
			out[key] = fields
		}
		return out
	}
	name := map[string]string{"used": "used-cu", "missing": "missing-cu", "cuSum": "session-cu-sum", "relayNum": "session-relay-num", "latestRelayCu": "session-latest-cu", "lockFree": "session-lock"}
	b, a := parse(before), parse(after)
	kinds := map[string]bool{}
	for k, fa := range a {
		fb, ok := b[k]
		if !ok {
			if strings.Contains(k, "session") {
				kinds["session-added"] = true
			} else {
				kinds["project-added"] = true
			}
			continue
		}
		for f, v := range fa {
			if fb[f] != v {
				kinds[name[f]] = true
			}
		}
	}
	for k := range b {
		if _, ok := a[k]; !ok {
			if strings.Contains(k, "session") {
				kinds["session-removed"] = true
			} else {
				kinds["project-removed"] = true
			}
		}
	}
	var ks []string
	for k := range kinds {
		ks = append(ks, k)
	}
	sort.Strings(ks)
	return strings.Join(ks, "+")
}

func (w *c39World) deliver(d *c39Delivery, signed *pairingtypes.RelayRequest, bd *c39Built, cs *c39ConsSession) {
	r := w.r
	req := d.req
	s := req.RelaySession
	w.deliveries = append(w.deliveries, d)
	w.bySession[s] = d
	d.sess, _ = s.Marshal()
	// ---- the verdict the statement gives for this delivered request ----
	d.cProvider = s.Provider == w.provider.Addr.String()
	d.cSpec = s.SpecId == c39Spec
	d.cChain = s.LavaChainId == c39LavaChain
	blocked := w.psm.ZZVerifBlockedEpoch()
	d.cEpoch = s.Epoch > 0 && uint64(s.Epoch) > blocked
	d.cHash = bytes.Equal(s.ContentHash, sigs.HashMsg(req.RelayData.GetContentHashData()))
	d.asSigned = c39CanonPD(req.RelayData) == c39CanonPD(signed.RelayData)
	if addr, err := sigs.ExtractSignerAddress(*s); err == nil {
		d.signer = addr.String()
		d.cPaired, _ = w.chainTruth().paired(d.signer, uint64(s.Epoch))
	}
	authentic, why := d.authentic()
	// state of the session this delivery addresses, before
	signerCons := w.byAddr[d.signer]
	var prevCu, prevNum, prevUsed, prevMissing uint64
	projKey := ""
	if signerCons != nil {
		p, sl, pok, sok := w.findSession(uint64(s.Epoch), signerCons.project, s.SessionId)
		if pok {
			prevUsed, prevMissing = p.Used, p.Missing
		}
		if sok {
			prevCu, prevNum = sl.CuSum, sl.RelayNum
		}
		projKey = fmt.Sprintf("%d/%s", s.Epoch, signerCons.project)
	}
	own := func(sid uint64) bool { return sid/1000 == uint64(d.cons.idx+1) }
	beforeFull, beforeOwn := w.digest(nil), w.digest(own)
	_, consBefore := w.psm.ZZVerifSnapshot()
	gen0 := w.epochGen
	others0 := w.inFlight
	w.inFlight++
	w.activity++
	act0 := w.activity
	ctx := context.WithValue(context.Background(), c39CtxKey{}, d)
	var cancel context.CancelFunc
	ctx, cancel = context.WithTimeout(ctx, 10*time.Second)
	reply, err := w.srv.Relay(ctx, req)
	cancel()
	// epochGen is odd while an UpdateEpoch call is in progress
	epochStable := gen0%2 == 0 && w.epochGen == gen0
	alone := others0 == 0 && w.activity == act0 && epochStable
	if os.Getenv("VERIF_C39_DEBUG") != "" {
		fmt.Fprintf(os.Stderr, "deliver #%d returned: gen0=%d gen=%d others0=%d act0=%d act=%d cur=%d blocked=%d err=%v\n", d.id, gen0, w.epochGen, others0, act0, w.activity, w.curEpoch, w.psm.ZZVerifBlockedEpoch(), err)
	}
	w.inFlight--
	w.activity++
	d.returned = true
	d.served = err == nil && reply != nil
	d.stage = c39Stage(err)
	if d.stage == "parse-or-other" && d.signer == "" {
		d.stage = "signature"
	}
	afterFull, afterOwn := w.digest(nil), w.digest(own)
	_, consAfter := w.psm.ZZVerifSnapshot()
	r.Logf("%s #%d: %s fault=%s epoch=%d sid=%d num=%d cuSum=%d (cu %d) -> %s | names provider=%v spec=%v lava=%v epoch-valid=%v hash=%v signer-paired=%v data-as-signed=%v alone=%v",
		d.task, d.id, bd.method, d.kind, s.Epoch, s.SessionId, s.RelayNum, s.CuSum, bd.cu, d.stage, d.cProvider, d.cSpec, d.cChain, d.cEpoch, d.cHash, d.cPaired, d.asSigned, alone)
	if d.served {
		// ---------------- SERVED ----------------
		r.OracleEvals += 2
		if !authentic {
			r.SetViolation("served-inauthentic-request", why, fmt.Sprintf("delivery #%d (%s) was served although the request is not authentic (%s): provider=%q spec=%q lava=%q epoch=%d (blocked<=%d) hash-matches=%v signer=%s paired=%v",
				d.id, d.kind, why, s.Provider, s.SpecId, s.LavaChainId, s.Epoch, blocked, d.cHash, d.signer, d.cPaired))
			return
		}
		if !d.asSigned {
			sig := "field:" + d.kind
			if strings.HasPrefix(d.kind, "pd_boundary") {
				sig = "content-hash-boundary-shift"
			}
			known := r.SetViolation("served-unsigned-content", sig, fmt.Sprintf("delivery #%d (%s) was served although its private data differ from what the consumer signed:\n signed:    %s\n delivered: %s", d.id, d.kind, c39CanonPD(signed.RelayData), c39CanonPD(req.RelayData)))
			if !known {
				return
			}
			r.Probe("known_boundary_shift_served")
		}
		r.Op("relay", "ok")
		if d.kind == "none" {
			r.Probe("valid_served")
		}
		if lavaprotocol.VerifyRelayReply(context.Background(), reply, req, w.provider.Addr.String()) == nil {
			r.Probe("reply_verified_by_consumer")
		} else {
			r.Probe("reply_not_verified_by_consumer")
		}
		// accounting of the served relay: exactly once, on the addressed session
		p, sl, _, sok := w.findSession(uint64(s.Epoch), signerCons.project, s.SessionId)
		credit := uint64(0)
		if s.CuSum > prevCu {
			credit = s.CuSum - prevCu
		}
		w.credits[projKey] += credit
		r.OracleEvals += 3
		if epochStable {
			if !sok || sl.CuSum != prevCu+credit || sl.RelayNum != s.RelayNum || sl.LatestRelayCu != 0 || !sl.LockFree {
				r.SetViolation("served-relay-session-accounting", d.kind, fmt.Sprintf("after serving delivery #%d (session cuSum %d -> signed %d, relay %d): session found=%v cuSum=%d relayNum=%d latestRelayCu=%d lockFree=%v", d.id, prevCu, s.CuSum, s.RelayNum, sok, sl.CuSum, sl.RelayNum, sl.LatestRelayCu, sl.LockFree))
				return
			}
			if alone && (p.Used != prevUsed+credit) {
				r.SetViolation("served-relay-cu-accounting", d.kind, fmt.Sprintf("serving delivery #%d credits %d CU (signed total %d, session had %d) but the project's used CU went %d -> %d", d.id, credit, s.CuSum, prevCu, prevUsed, p.Used))
				return
			}
			_ = prevMissing
		}
		// the honest consumer follows
		if d.ownSid == cs.sid && uint64(s.Epoch) == cs.epoch && signerCons == d.cons {
			if s.CuSum > cs.cuSum {
				cs.cuSum = s.CuSum
			}
			if s.RelayNum > cs.relayNum {
				cs.relayNum = s.RelayNum
			}
		}
		if d.kind == "none" || d.kind == "cs_cu_higher" || strings.HasPrefix(d.kind, "st_node_slow") {
			d.cons.served = append(d.cons.served, d)
		}
		_ = prevNum
		return
	}
	// ---------------- NOT SERVED ----------------
	r.Op("relay", "rejected:"+d.stage)
	if reply != nil && err != nil {
		r.Probe("reply_and_error")
	}
	r.OracleEvals++
	if !epochStable {
		r.Probe("digest_skipped_epoch_moved")
	} else if alone {
		if beforeFull != afterFull {
			sig := d.stage + ":" + c39DiffSig(beforeFull, afterFull)
			if !r.SetViolation("rejected-request-changed-state", sig, fmt.Sprintf("delivery #%d (%s) was rejected (%s) but the provider's session/CU state changed:\n--- before\n%s--- after\n%s", d.id, d.kind, d.stage, beforeFull, afterFull)) {
				return
			}
		}
	} else {
		r.Probe("digest_own_sessions_only")
		if beforeOwn != afterOwn {
			sig := d.stage + ":" + c39DiffSig(beforeOwn, afterOwn)
			if !r.SetViolation("rejected-request-changed-state", sig, fmt.Sprintf("delivery #%d (%s) was rejected (%s) but sessions of this consumer changed:\n--- before\n%s--- after\n%s", d.id, d.kind, d.stage, beforeOwn, afterOwn)) {
				return
			}
		}
	}
	if len(consAfter) != len(consBefore) {
		r.Probe("rejected_but_consumer_registered") // registration alone is not session/CU state
	}
	// a valid request without any fault must be served (non-vacuity; only when nothing else interfered)
	if d.kind == "none" && alone && authentic {
		within := prevUsed+bd.cu <= w.maxCU*(w.virtEpoch+1)
		r.OracleEvals++
		if within {
			r.SetViolation("valid-request-not-served", d.stage, fmt.Sprintf("delivery #%d is a valid, correctly signed request of a paired consumer (epoch %d, session %d, relay %d > %d, cuSum %d = %d + %d, used %d of %d) but was rejected at stage %s", d.id, s.Epoch, s.SessionId, s.RelayNum, prevNum, s.CuSum, prevCu, bd.cu, prevUsed, w.maxCU*(w.virtEpoch+1), d.stage))
			return
		}
		r.Probe("valid_rejected_cu_limit")
	}
	// the honest consumer moves its relay number on (it always increments), tape decides
	if d.ownSid == cs.sid && r.Chance("ops", 1, 2) && signed.RelaySession.RelayNum > cs.relayNum && signerCons == d.cons {
		cs.relayNum = signed.RelaySession.RelayNum
	}
}

func (w *c39World) consumerTask(name string, c *c39Consumer, n int) {
	for i := 0; i < n; i++ {
		simrt.Yield("harness:consumer-loop")
		if w.r.Violated() != nil {
			return
		}
		w.exchange(name, c)
	}
}

func (w *c39World) epochTask(n int) {
	r := w.r
	for i := 0; i < n; i++ {
		simrt.Yield("harness:epoch-sleep")
		time.Sleep(time.Duration(20+r.Draw("ops", 400)) * time.Millisecond)
		simrt.Resume("harness:epoch-sleep")
		w.curEpoch += w.epochSize
		w.epochGen++
		if os.Getenv("VERIF_C39_DEBUG") != "" {
			fmt.Fprintf(os.Stderr, "epoch task: calling UpdateEpoch(%d) gen=%d\n", w.curEpoch, w.epochGen)
		}
		w.psm.UpdateEpoch(w.curEpoch)
		w.epochGen++
		if os.Getenv("VERIF_C39_DEBUG") != "" {
			fmt.Fprintf(os.Stderr, "epoch task: UpdateEpoch(%d) returned gen=%d\n", w.curEpoch, w.epochGen)
		}
		r.Fault("epoch_advanced")
		r.Logf("epoch: UpdateEpoch(%d), epochs <= %d are blocked now", w.curEpoch, w.psm.ZZVerifBlockedEpoch())
	}
}

// end of run: payment claims vs served relays, CU accounted exactly once
func (w *c39World) finalChecks() {
	r := w.r
	for _, d := range w.deliveries {
		r.OracleEvals++
		if d.proofs > 0 && !d.served {
			r.SetViolation("payment-claimed-for-unserved-relay", d.stage, fmt.Sprintf("delivery #%d (%s) was not served (%s, returned=%v) but %d payment proof(s) reached the reward server", d.id, d.kind, d.stage, d.returned, d.proofs))
			return
		}
		if d.served && d.proofs > 0 {
			r.Probe("proof_recorded")
		}
	}
	projects, _ := w.psm.ZZVerifSnapshot()
	blocked := w.psm.ZZVerifBlockedEpoch()
	for _, p := range projects {
		if p.Epoch <= blocked {
			continue
		}
		var sum uint64
		for _, s := range p.Sessions {
			sum += s.CuSum
			r.OracleEvals++
			if !s.LockFree || s.LatestRelayCu != 0 {
				r.SetViolation("session-left-in-use", "quiescent", fmt.Sprintf("epoch %d project %s session %d: lockFree=%v latestRelayCu=%d after all relays returned", p.Epoch, p.Project, s.ID, s.LockFree, s.LatestRelayCu))
				return
			}
		}
		want := w.credits[fmt.Sprintf("%d/%s", p.Epoch, p.Project)]
		r.OracleEvals++
		r.Logf("final: epoch %d project %s used=%d missing=%d sum(session cuSum)=%d credited-by-served-relays=%d", p.Epoch, p.Project, p.Used, p.Missing, sum, want)
		if p.Used != sum || p.Used != want {
			r.SetViolation("cu-accounting-mismatch", "quiescent", fmt.Sprintf("epoch %d project %s: used CU %d, sessions' CU sums add up to %d, served relays credited %d", p.Epoch, p.Project, p.Used, sum, want))
			return
		}
	}
}

func runC39(r *simrt.Run) {
	c39Setup()
	if c39SetupErr != nil {
		r.Fail("harness", "spec", "cannot load the %s spec: %v", c39Spec, c39SetupErr)
	}
	inBubble(r, func(s *simrt.Sched) {
		w := &c39World{r: r, byAddr: map[string]*c39Consumer{}, bySession: map[*pairingtypes.RelaySession]*c39Delivery{}, credits: map[string]uint64{}}
		w.provider, w.other, w.stranger = c39Keys[0], c39Keys[1], c39Keys[2]
		w.epochSize = 10
		w.firstEpoch = 100
		w.curEpoch = 200
		w.keep = w.epochSize * uint64(1+r.Draw("cfg", 2))
		switch r.Draw("cfg", 4) {
		case 0:
			w.maxCU = uint64(60 + r.Draw("cfg", 300)) // small: the CU limit is reached
		default:
			w.maxCU = uint64(2000 + r.Draw("cfg", 20000))
		}
		if r.Chance("cfg", 1, 5) {
			w.virtEpoch = 1
		}
		if r.Profile == "culimit" {
			w.cuPressure = true
			w.maxCU = uint64(60 + r.Draw("cfg", 240))
		}
		threshold := []float64{0.1, 0, 0.5}[r.Draw("cfg", 3)]
		nCons := 1 + r.Draw("cfg", 3)
		nProj := 1 + r.Draw("cfg", 2)
		for i := 0; i < nCons; i++ {
			c := &c39Consumer{idx: i, acc: c39Keys[3+i], project: fmt.Sprintf("proj%d", i%nProj), pairedFrom: w.firstEpoch}
			c.addr = c.acc.Addr.String()
			if r.Chance("cfg", 1, 5) {
				c.pairedFrom = w.curEpoch // not paired for the previous (still valid) epoch
			}
			w.consumers = append(w.consumers, c)
			w.byAddr[c.addr] = c
		}
		w.pparser = c39NewParser()
		w.cparser = c39NewParser()
		endpoint := &lavasession.RPCProviderEndpoint{ChainID: c39Spec, ApiInterface: spectypes.APIInterfaceJsonRPC, Geolocation: 1}
		w.psm = lavasession.NewProviderSessionManager(endpoint, w.keep)
		w.psm.UpdateEpoch(w.curEpoch)
		router := &c39Router{w}
		w.srv = &RPCProviderServer{
			chainRouter:               router,
			privKey:                   w.provider.SK,
			chainTracker:              &c39Tracker{DummyChainTracker: &chaintracker.DummyChainTracker{}, latest: 1000, t0: time.Now()},
			providerSessionManager:    w.psm,
			rewardServer:              &c39Reward{w},
			chainParser:               w.pparser,
			rpcProviderEndpoint:       endpoint,
			stateTracker:              &c39Chain{w},
			providerAddress:           w.provider.Addr,
			lavaChainID:               c39LavaChain,
			allowedMissingCUThreshold: threshold,
			providerUniqueId:          "sim-provider",
			providerStateMachine:      NewProviderStateMachine(c39Spec, c39Retries{}, router, 0, nil),
		}
		r.Logf("provider: keep=%d blocked<=%d maxCU=%d virtualEpoch=%d missingCuThreshold=%.1f consumers=%d projects=%d", w.keep, w.psm.ZZVerifBlockedEpoch(), w.maxCU, w.virtEpoch, threshold, nCons, nProj)
		per := 4 + r.Draw("cfg", 8)
		if r.Tier == "thorough" {
			per = 6 + r.Draw("cfg", 25)
		}
		concurrent := r.Chance("cfg", 1, 2)
		if concurrent {
			for _, c := range w.consumers {
				name := fmt.Sprintf("C%d", c.idx)
				c := c
				s.Go(name, true, func() { w.consumerTask(name, c, per) })
			}
		} else {
			// one exchange at a time, consumers taking turns
			s.Go("seq", true, func() {
				for i := 0; i < per*len(w.consumers); i++ {
					simrt.Yield("harness:consumer-loop")
					if r.Violated() != nil {
						return
					}
					c := w.consumers[r.Draw("ops", len(w.consumers))]
					w.exchange(fmt.Sprintf("C%d", c.idx), c)
				}
			})
		}
		if r.Chance("cfg", 1, 2) {
			ne := 1 + r.Draw("cfg", 3)
			s.Go("epoch", true, func() { w.epochTask(ne) })
		}
		start := time.Now()
		s.Run(10*time.Minute, 60000)
		r.SimSpan = int64(time.Since(start))
		if r.Violated() != nil {
			return
		}
		if !s.Quiescent {
			r.Probe("not_quiescent")
			r.Logf("run ended without quiescence: horizon=%v steps=%v leftover=%v", s.HorizonHit, s.StepsHit, s.Leftover())
			return
		}
		// the relays are done; let the asynchronous payment claims (go SendProof) finish
		s.Drain(5*time.Second, 20000)
		if r.Violated() != nil {
			return
		}
		w.finalChecks()
	})
}

func init() {
	simrt.Register("C39", &simrt.PropSpec{Fn: runC39, Profiles: []string{"mixed", "mixed", "culimit"},
		NonTrivial: func(r *simrt.Run) bool {
			return r.Ops["relay:ok"] >= 3 && r.Probes["proof_recorded"] >= 2 && r.FaultsFired() >= 2
		},
		Rule:    "1-3 consumers (own keys, 1-2 projects) build and sign real relay requests with the lavaprotocol builders for real parsed ETH1 json-rpc messages (9 request shapes, 1-100 CU, archive extension, debug add-on, batch); every request crosses a transport (marshal -> exactly one fault -> unmarshal) into the real RPCProviderServer.Relay inside a synctest bubble. Faults: in-flight change of each session field (provider, spec, lava chain id, epoch, session id, relay number, CU sum, content hash, signature bytes, badge, QoS, reported providers), of each private-data field after signing (data, url, connection type, api interface, add-on, extensions, metadata, request/seen block, salt), shifts across the boundaries of adjacent hashed fields, bit flips on the wire, replays (same request; signed session with other data); requests the consumer itself signs wrongly (other provider/spec/lava chain, blocked/future/zero/unaligned epoch, hash of other data, stale relay number, lower/higher CU sum, unpaired key, consumer unpaired for that epoch, wrong add-on, unknown extension, negative seen block, subscribe, unparsable data); environment: pairing lookup error, max-CU lookup error, node error/latency, epoch updates in flight, small CU limits. Half of the runs deliver one exchange at a time, half run the consumers as concurrent tasks under the token scheduler. Non-trivial = >=3 served relays, >=2 recorded payment proofs, >=2 faults; distinct = (op,outcome,fault) sequence x context-switch sequence",
		Real:    []string{"protocol/rpcprovider RPCProviderServer.Relay/initRelay/verifyRelaySession/verifyRelayRequestMetaData/getSingleProviderSession/TryRelayWithWrapper/finalizeSession/SendProof, ProviderStateMachine (instrumented copy of rpcprovider_server.go through the build overlay)", "protocol/lavasession ProviderSessionManager and sessions (instrumented)", "protocol/chainlib json-rpc chain parser built from specs/mainnet-1/specs/ethereum.json (ETH1)", "protocol/lavaprotocol ConstructRelayRequest/NewRelayData/SignRelayResponse/VerifyRelayReply, utils/sigs", "gogoproto marshal/unmarshal as the wire"},
		Stubbed: []string{"transport (in-memory, corrupting)", "lava chain behind StateTrackerInf: pairing truth per consumer and epoch, max CU, virtual epoch, lookup errors", "node behind chainlib.ChainRouter (canned reply, error, latency)", "reward server (records every proof)", "chain tracker (fixed latest block), relay retries cache (no-op), metrics/cache/load manager/resource limiter nil", "the server struct is filled in directly (what ServeRPCRequests does) so that no ristretto cache is started"},
		Assume:  []string{"an empty session object (no CU, relay number 0, unlocked) and a project entry without used/missing CU are equivalent to absent ones; the consumer->project registration alone is not session/CU state", "the chain keeps answering pairing queries for epochs the provider no longer accepts", "state comparison around a rejected relay uses the whole provider state when no other relay overlapped, otherwise only that consumer's own sessions", "code between two instrumented synchronisation points is atomic in the simulation"},
	})
}
